(** Proofs about the Bloom filter model of Model/Bloom.v. *)
From Coq Require Import PeanoNat.
From LsmV Require Import Base.Bytes Model.Ints Proofs.Ints Model.Bloom.
Open Scope N_scope.
Arguments N.add : simpl never.
Arguments N.sub : simpl never.
Arguments N.mul : simpl never.
Arguments N.ltb : simpl never.
Arguments N.leb : simpl never.
Arguments N.eqb : simpl never.
Arguments N.pow : simpl never.
Arguments N.div : simpl never.
Arguments N.modulo : simpl never.
Arguments N.shiftr : simpl never.
Arguments N.lor : simpl never.
Arguments N.land : simpl never.

(** * One byte *)

Lemma lt8_cases b : b < 8 -> b = 0 \/ b = 1 \/ b = 2 \/ b = 3 \/ b = 4 \/ b = 5 \/ b = 6 \/ b = 7.
Proof. lia. Qed.

Lemma mask_nz b : b < 8 -> N.shiftr 128 b <> 0.
Proof.
  intros H. destruct (lt8_cases b H) as [->|[->|[->|[->|[->|[->|[->| ->]]]]]]];
    vm_compute; discriminate.
Qed.

Lemma lor_pos_l a b : 0 < a -> 0 < N.lor a b.
Proof.
  intros H. destruct (N.eq_dec (N.lor a b) 0) as [E|E]; [|lia].
  apply N.lor_eq_0_iff in E. lia.
Qed.

Lemma lor_pos_r a b : 0 < b -> 0 < N.lor a b.
Proof. intros H. rewrite N.lor_comm. now apply lor_pos_l. Qed.

Lemma get_enable_same x b : b < 8 -> get_bit (enable_bit x b) b = true.
Proof.
  intros H. unfold get_bit, enable_bit. apply N.ltb_lt.
  rewrite N.land_lor_distr_l, N.land_diag. apply lor_pos_r.
  pose proof (mask_nz b H). lia.
Qed.

Lemma get_enable_mono x b c : get_bit x c = true -> get_bit (enable_bit x b) c = true.
Proof.
  unfold get_bit, enable_bit. intros H. apply N.ltb_lt in H. apply N.ltb_lt.
  rewrite N.land_lor_distr_l. now apply lor_pos_l.
Qed.

Lemma enable_bit_byte x b : x < 256 -> enable_bit x b < 256.
Proof.
  intros Hx. unfold enable_bit.
  destruct (N.lt_ge_cases b 8) as [Hb|Hb].
  - assert (A : forall b0, b0 < 8 -> forall x0, x0 < 256 -> (N.lor x0 (N.shiftr 128 b0) <? 256) = true).
    { intros b0 Hb0.
      destruct (lt8_cases b0 Hb0) as [->|[->|[->|[->|[->|[->|[->| ->]]]]]]];
        apply byte_forall; vm_compute; reflexivity. }
    apply N.ltb_lt. now apply A.
  - assert (E : N.shiftr 128 b = 0).
    { rewrite N.shiftr_div_pow2. apply N.div_small.
      apply N.lt_le_trans with (2 ^ 8); [vm_compute; reflexivity|].
      apply N.pow_le_mono_r; lia. }
    rewrite E, N.lor_0_r. exact Hx.
Qed.

(** * Lists of bytes *)

Lemma list_update_length l i v : length (list_update l i v) = length l.
Proof.
  revert i; induction l as [|x l IH]; intros i; [reflexivity|].
  destruct i; cbn [list_update length]; [reflexivity|]. now rewrite IH.
Qed.

Lemma nth_error_update_same l i v x :
  nth_error l i = Some x -> nth_error (list_update l i v) i = Some v.
Proof.
  revert i; induction l as [|y l IH]; intros i H; destruct i; cbn in *; try discriminate.
  - reflexivity.
  - now apply IH.
Qed.

Lemma nth_error_update_other l i j v :
  i <> j -> nth_error (list_update l i v) j = nth_error l j.
Proof.
  revert i j; induction l as [|y l IH]; intros i j H; [reflexivity|].
  destruct i, j; cbn [list_update nth_error]; try reflexivity; try congruence.
  apply IH. congruence.
Qed.

Lemma list_update_wf l i v : bytes_wf l -> v < 256 -> bytes_wf (list_update l i v).
Proof.
  unfold bytes_wf. intros Hl Hv. revert i; induction Hl as [|x l Hx Hl IH]; intros i; [constructor|].
  destruct i; cbn [list_update]; constructor; auto.
Qed.

(** * The bit array *)

Lemma bit_enable_inv bits idx bits' :
  bit_enable bits idx = Some bits' ->
  idx / 8 < N.of_nat (length bits) /\
  exists byte, nth_error bits (N.to_nat (idx / 8)) = Some byte /\
               bits' = list_update bits (N.to_nat (idx / 8)) (enable_bit byte (idx mod 8)).
Proof.
  unfold bit_enable. destruct (N.of_nat (length bits) <=? idx / 8) eqn:E; [discriminate|].
  apply N.leb_gt in E.
  destruct (nth_error bits (N.to_nat (idx / 8))) as [byte|] eqn:En; [|discriminate].
  intros H. inversion H. split; [exact E|]. exists byte. split; reflexivity.
Qed.

Lemma bit_enable_length bits idx bits' :
  bit_enable bits idx = Some bits' -> length bits' = length bits.
Proof.
  intros H. apply bit_enable_inv in H. destruct H as (_ & byte & _ & ->).
  apply list_update_length.
Qed.

Lemma bit_enable_some bits idx :
  idx / 8 < N.of_nat (length bits) -> exists bits', bit_enable bits idx = Some bits'.
Proof.
  intros H. unfold bit_enable.
  assert (E : N.of_nat (length bits) <=? idx / 8 = false) by (apply N.leb_gt; exact H).
  rewrite E.
  destruct (nth_error bits (N.to_nat (idx / 8))) as [byte|] eqn:En.
  - eexists. reflexivity.
  - apply nth_error_None in En. lia.
Qed.

Lemma bit_enable_wf bits idx bits' :
  bytes_wf bits -> bit_enable bits idx = Some bits' -> bytes_wf bits'.
Proof.
  intros Hwf H. apply bit_enable_inv in H. destruct H as (_ & byte & En & ->).
  apply list_update_wf; [exact Hwf|]. apply enable_bit_byte.
  apply nth_error_In in En. unfold bytes_wf in Hwf. rewrite Forall_forall in Hwf. now apply Hwf.
Qed.

Lemma bit_get_true_inv bits j :
  bit_get bits j = Some true ->
  j / 8 < N.of_nat (length bits) /\
  exists byte, nth_error bits (N.to_nat (j / 8)) = Some byte /\ get_bit byte (j mod 8) = true.
Proof.
  unfold bit_get. destruct (N.of_nat (length bits) <=? j / 8) eqn:E; [discriminate|].
  apply N.leb_gt in E.
  destruct (nth_error bits (N.to_nat (j / 8))) as [byte|] eqn:En; [|discriminate].
  intros H. inversion H. split; [exact E|]. exists byte. split; reflexivity.
Qed.

Lemma bit_get_intro bits j byte :
  j / 8 < N.of_nat (length bits) -> nth_error bits (N.to_nat (j / 8)) = Some byte ->
  bit_get bits j = Some (get_bit byte (j mod 8)).
Proof.
  intros H En. unfold bit_get.
  assert (E : N.of_nat (length bits) <=? j / 8 = false) by (apply N.leb_gt; exact H).
  now rewrite E, En.
Qed.

Lemma mod8_lt j : j mod 8 < 8.
Proof. apply N.mod_lt. lia. Qed.

Lemma bit_enable_get_same bits idx bits' :
  bit_enable bits idx = Some bits' -> bit_get bits' idx = Some true.
Proof.
  intros H. pose proof (bit_enable_length _ _ _ H) as HL.
  apply bit_enable_inv in H. destruct H as (Hb & byte & En & ->).
  rewrite (bit_get_intro _ idx (enable_bit byte (idx mod 8))).
  - now rewrite get_enable_same by apply mod8_lt.
  - now rewrite list_update_length.
  - eapply nth_error_update_same. exact En.
Qed.

Lemma bit_enable_mono bits idx bits' j :
  bit_enable bits idx = Some bits' -> bit_get bits j = Some true -> bit_get bits' j = Some true.
Proof.
  intros H Hj. apply bit_enable_inv in H. destruct H as (Hb & byte & En & ->).
  apply bit_get_true_inv in Hj. destruct Hj as (Hjb & bj & Enj & Hg).
  destruct (Nat.eq_dec (N.to_nat (idx / 8)) (N.to_nat (j / 8))) as [E|E].
  - rewrite (bit_get_intro _ j (enable_bit byte (idx mod 8))).
    + rewrite E in En. rewrite En in Enj. inversion Enj; subst bj.
      now rewrite get_enable_mono.
    + now rewrite list_update_length.
    + rewrite <- E. eapply nth_error_update_same. exact En.
  - rewrite (bit_get_intro _ j bj).
    + now rewrite Hg.
    + now rewrite list_update_length.
    + rewrite nth_error_update_other by exact E. exact Enj.
Qed.

(** * Probing *)

Definition bits_subset (a b : list N) : Prop :=
  forall j, bit_get a j = Some true -> bit_get b j = Some true.

Lemma bits_subset_refl a : bits_subset a a.
Proof. intros j H. exact H. Qed.

Lemma bits_subset_trans a b c : bits_subset a b -> bits_subset b c -> bits_subset a c.
Proof. intros H1 H2 j H. apply H2, H1, H. Qed.

Lemma set_loop_mono : forall n m i h1 h2 bits bits',
  set_loop n m i h1 h2 bits = Some bits' -> bits_subset bits bits'.
Proof.
  induction n as [|n IH]; intros m i h1 h2 bits bits' H; cbn [set_loop] in H.
  - inversion H. apply bits_subset_refl.
  - destruct (m =? 0); [discriminate|].
    destruct (bit_enable bits (h1 mod m)) as [bits1|] eqn:E1; [|discriminate].
    eapply bits_subset_trans; [|eapply IH; exact H].
    intros j Hj. eapply bit_enable_mono; eassumption.
Qed.

Lemma set_loop_contains : forall n m i h1 h2 bits bits' B,
  set_loop n m i h1 h2 bits = Some bits' -> bits_subset bits' B ->
  contains_loop n m i h1 h2 B = Some true.
Proof.
  induction n as [|n IH]; intros m i h1 h2 bits bits' B H HB; cbn [set_loop] in H;
    cbn [contains_loop]; [reflexivity|].
  destruct (m =? 0); [discriminate|].
  destruct (bit_enable bits (h1 mod m)) as [bits1|] eqn:E1; [|discriminate].
  assert (Hset : bit_get B (h1 mod m) = Some true).
  { apply HB. eapply set_loop_mono; [exact H|]. eapply bit_enable_get_same. exact E1. }
  rewrite Hset. eapply IH; eassumption.
Qed.

Lemma set_loop_length : forall n m i h1 h2 bits bits',
  set_loop n m i h1 h2 bits = Some bits' -> length bits' = length bits.
Proof.
  induction n as [|n IH]; intros m i h1 h2 bits bits' H; cbn [set_loop] in H.
  - now inversion H.
  - destruct (m =? 0); [discriminate|].
    destruct (bit_enable bits (h1 mod m)) as [bits1|] eqn:E1; [|discriminate].
    apply IH in H. rewrite H. eapply bit_enable_length. exact E1.
Qed.

Lemma set_loop_wf : forall n m i h1 h2 bits bits',
  bytes_wf bits -> set_loop n m i h1 h2 bits = Some bits' -> bytes_wf bits'.
Proof.
  induction n as [|n IH]; intros m i h1 h2 bits bits' Hwf H; cbn [set_loop] in H.
  - now inversion H; subst.
  - destruct (m =? 0); [discriminate|].
    destruct (bit_enable bits (h1 mod m)) as [bits1|] eqn:E1; [|discriminate].
    eapply IH; [|exact H]. eapply bit_enable_wf; eassumption.
Qed.

(** no panic when every index [< m] is inside the allocation *)
Lemma set_loop_some : forall n m i h1 h2 bits,
  0 < m -> m <= 8 * N.of_nat (length bits) ->
  exists bits', set_loop n m i h1 h2 bits = Some bits'.
Proof.
  induction n as [|n IH]; intros m i h1 h2 bits Hm Hlen; cbn [set_loop]; [eexists; reflexivity|].
  assert (E : m =? 0 = false) by (apply N.eqb_neq; lia). rewrite E.
  destruct (bit_enable_some bits (h1 mod m)) as [bits1 E1].
  { apply N.div_lt_upper_bound; [lia|]. pose proof (N.mod_lt h1 m ltac:(lia)). lia. }
  rewrite E1. apply IH; [exact Hm|].
  now rewrite (bit_enable_length _ _ _ E1).
Qed.

(** * Building *)

Lemma build_loop_mono m k : forall hs bits bits',
  build_loop m k bits hs = Some bits' -> bits_subset bits bits'.
Proof.
  induction hs as [|h hs IH]; intros bits bits' H; cbn [build_loop] in H.
  - inversion H. apply bits_subset_refl.
  - destruct (bloom_set m k bits h) as [bits1|] eqn:E1; [|discriminate].
    eapply bits_subset_trans; [|eapply IH; exact H].
    unfold bloom_set in E1. eapply set_loop_mono. exact E1.
Qed.

Lemma build_loop_contains m k : forall hs bits bits' h,
  build_loop m k bits hs = Some bits' -> In h hs ->
  bloom_contains_opt m k bits' h = Some true.
Proof.
  induction hs as [|h0 hs IH]; intros bits bits' h H Hin; [inversion Hin|].
  cbn [build_loop] in H.
  destruct (bloom_set m k bits h0) as [bits1|] eqn:E1; [|discriminate].
  destruct Hin as [->|Hin].
  - unfold bloom_contains_opt. unfold bloom_set in E1.
    eapply set_loop_contains; [exact E1|]. eapply build_loop_mono. exact H.
  - eapply IH; eassumption.
Qed.

Lemma build_loop_length m k : forall hs bits bits',
  build_loop m k bits hs = Some bits' -> length bits' = length bits.
Proof.
  induction hs as [|h hs IH]; intros bits bits' H; cbn [build_loop] in H.
  - now inversion H.
  - destruct (bloom_set m k bits h) as [bits1|] eqn:E1; [|discriminate].
    apply IH in H. rewrite H. unfold bloom_set in E1. eapply set_loop_length. exact E1.
Qed.

Lemma build_loop_wf m k : forall hs bits bits',
  bytes_wf bits -> build_loop m k bits hs = Some bits' -> bytes_wf bits'.
Proof.
  induction hs as [|h hs IH]; intros bits bits' Hwf H; cbn [build_loop] in H.
  - now inversion H; subst.
  - destruct (bloom_set m k bits h) as [bits1|] eqn:E1; [|discriminate].
    eapply IH; [|exact H]. unfold bloom_set in E1. eapply set_loop_wf; eassumption.
Qed.

Lemma build_loop_some m k : forall hs bits,
  0 < m -> m <= 8 * N.of_nat (length bits) -> exists bits', build_loop m k bits hs = Some bits'.
Proof.
  induction hs as [|h hs IH]; intros bits Hm Hlen; cbn [build_loop]; [eexists; reflexivity|].
  destruct (set_loop_some (N.to_nat k) m 1 h (secondary_hash h) bits Hm Hlen) as [bits1 E1].
  unfold bloom_set. rewrite E1. apply IH; [exact Hm|].
  now rewrite (set_loop_length _ _ _ _ _ _ _ E1).
Qed.

Lemma zero_bytes_wf n : bytes_wf (zero_bytes n).
Proof.
  unfold zero_bytes, bytes_wf. apply Forall_forall. intros x Hx. apply repeat_spec in Hx. lia.
Qed.

Lemma zero_bytes_length n : length (zero_bytes n) = N.to_nat n.
Proof. unfold zero_bytes. apply repeat_length. Qed.

(** * Main results (faithful, panic-aware form) *)

(** MAIN 1: if construction did not panic, every inserted hash is reported present,
    for every [m] and every [k] (for [k = 0] nothing is probed: see [bloom_k0]). *)
Theorem bloom_no_false_negative_opt m k hs bits h :
  bloom_build_opt m k hs = Some bits -> In h hs -> bloom_contains_opt m k bits h = Some true.
Proof. unfold bloom_build_opt. apply build_loop_contains. Qed.

(** MAIN 2: shape of the bit array: [m / 8] real bytes *)
Theorem bloom_bits_wf_opt m k hs bits :
  bloom_build_opt m k hs = Some bits -> bytes_wf bits /\ length bits = N.to_nat (m / 8).
Proof.
  unfold bloom_build_opt. intros H. split.
  - eapply build_loop_wf; [apply zero_bytes_wf|exact H].
  - rewrite (build_loop_length _ _ _ _ _ H). apply zero_bytes_length.
Qed.

(** MAIN 3: construction cannot panic when [m] is a positive multiple of 8, which is
    what both constructors establish ([with_bpk]: m = bytes*8; [with_fp_rate]:
    m = ceil(x/8)*8, bytes = m/8) unless they produce [m = 0]. *)
Theorem bloom_build_succeeds m k hs :
  0 < m -> m mod 8 = 0 -> exists bits, bloom_build_opt m k hs = Some bits.
Proof.
  intros Hm H8. unfold bloom_build_opt. apply build_loop_some; [exact Hm|].
  rewrite zero_bytes_length, N2Nat.id.
  pose proof (N.div_mod m 8 ltac:(lia)). lia.
Qed.

(** * The requested statements (total signatures) *)

Theorem bloom_no_false_negative : forall m k hs h,
  0 < m -> m mod 8 = 0 -> In h hs -> bloom_contains m k (bloom_build m k hs) h = true.
Proof.
  intros m k hs h Hm H8 Hin.
  destruct (bloom_build_succeeds m k hs Hm H8) as [bits E].
  unfold bloom_build, bloom_contains. rewrite E.
  now rewrite (bloom_no_false_negative_opt _ _ _ _ _ E Hin).
Qed.

(** The statement WITHOUT [m mod 8 = 0] is false of the faithful model: with [m = 12]
    the array has [12 / 8 = 1] byte and bit 11 is out of bounds: the Rust code panics
    ("should be in bounds"). Such an [m] is never produced by the constructors. *)
Theorem bloom_no_false_negative_refuted :
  exists m k hs h, 0 < m /\ In h hs /\ bloom_contains m k (bloom_build m k hs) h <> true /\
                   bloom_build_opt m k hs = None.
Proof.
  exists 12, 1, [11], 11. split; [lia|]. split; [now left|]. split.
  - vm_compute. discriminate.
  - vm_compute. reflexivity.
Qed.

Theorem bloom_bits_wf : forall m k hs,
  0 < m -> m mod 8 = 0 ->
  bytes_wf (bloom_build m k hs) /\ length (bloom_build m k hs) = N.to_nat (m / 8).
Proof.
  intros m k hs Hm H8. destruct (bloom_build_succeeds m k hs Hm H8) as [bits E].
  unfold bloom_build. rewrite E. now apply (bloom_bits_wf_opt m k hs).
Qed.

(** ** [k = 0]: the probe loop [for i in 1..=0] never runs: nothing is set, every query
    answers "maybe present", and not even [m = 0] panics. The constructors force
    [k >= 1], but a decoded block may carry [k = 0]. *)
Theorem bloom_k0 m bits hs h :
  bloom_contains_opt m 0 bits h = Some true /\
  bloom_build_opt m 0 hs = Some (zero_bytes (m / 8)).
Proof.
  split; [reflexivity|]. unfold bloom_build_opt.
  generalize (zero_bytes (m / 8)). induction hs as [|x hs IH]; intros b; [reflexivity|].
  cbn [build_loop]. unfold bloom_set. cbn [N.to_nat set_loop]. apply IH.
Qed.

(** ** [m = 0]: [h1 % 0] panics ("attempt to calculate the remainder with a divisor of
    zero") on the first insertion and on every query, as soon as [k >= 1]. *)
Theorem bloom_m0_panics k h hs bits :
  0 < k -> bloom_build_opt 0 k (h :: hs) = None /\ bloom_contains_opt 0 k bits h = None.
Proof.
  intros Hk. unfold bloom_build_opt, bloom_contains_opt. cbn [build_loop]. unfold bloom_set.
  destruct (N.to_nat k) as [|n] eqn:E; [lia|]. split; reflexivity.
Qed.

(** ... and [m = 0] IS reachable: [BitsPerKey(b)] with [0 < b < 1] is "active"
    (b > 0.0, filter/mod.rs l.38) but [b as usize = 0], so [with_bpk] computes
    [m = n * 0 = 0], bytes = 0, k = max(0, 1) = 1 (builder.rs l.104-126).
    Likewise [FalsePositiveRate(f)] with [f >= 1.0]: [ln f >= 0], [calculate_m] returns
    [(-0.0 ..) as usize = 0]. *)
Example with_bpk_half_bit_per_key :
  with_bpk_m 1000 0 = 0 /\ filter_block_payload true (with_bpk_m 1000 0) 1 [42] = None.
Proof. vm_compute. split; reflexivity. Qed.

(** [with_bpk_m] always yields a multiple of 8, positive when [n * bpk_trunc > 0] *)
Lemma with_bpk_m_mod8 n b : with_bpk_m n b mod 8 = 0.
Proof. unfold with_bpk_m. apply N.mod_mul. lia. Qed.

Lemma with_bpk_m_pos n b : 0 < n * b -> 0 < with_bpk_m n b.
Proof.
  intros H. unfold with_bpk_m, with_bpk_bytes.
  assert (1 <= (n * b + 7) / 8) by (apply N.div_le_lower_bound; lia). lia.
Qed.

Corollary with_bpk_no_false_negative n b k hs h :
  0 < n * b -> In h hs ->
  bloom_contains (with_bpk_m n b) k (bloom_build (with_bpk_m n b) k hs) h = true.
Proof.
  intros H Hin. apply bloom_no_false_negative; [now apply with_bpk_m_pos|apply with_bpk_m_mod8|exact Hin].
Qed.

(** * Serialisation *)

Theorem bloom_codec_roundtrip m k bits :
  m < 2 ^ 64 -> k < 2 ^ 64 -> bloom_decode (bloom_encode m k bits) = BOk (m, k, bits).
Proof.
  intros Hm Hk. unfold bloom_decode, bloom_encode.
  change (take_bytes 4 (magic_bytes ++ write_u8 0 ++ write_u8 0 ++ write_u64_le m ++ write_u64_le k ++ bits))
    with (Some (magic_bytes, write_u8 0 ++ write_u8 0 ++ write_u64_le m ++ write_u64_le k ++ bits)).
  change (negb (key_eqb magic_bytes magic_bytes)) with false. cbv iota.
  unfold read_u8, write_u8, read_u64_le, write_u64_le.
  rewrite le_roundtrip by (vm_compute; reflexivity).
  change (2 <=? 0) with false. change (negb (0 =? 0)) with false. cbv iota.
  rewrite le_roundtrip by (vm_compute; reflexivity).
  change (negb (0 =? 0)) with false. cbv iota.
  rewrite le_roundtrip by exact Hm.
  rewrite le_roundtrip by exact Hk. reflexivity.
Qed.

Theorem bloom_encode_wf m k bits : bytes_wf bits -> bytes_wf (bloom_encode m k bits).
Proof.
  intros H. unfold bloom_encode, bytes_wf.
  repeat (apply Forall_app; split); try apply le_bytes_wf; try exact H.
  unfold magic_bytes. repeat constructor; lia.
Qed.

Theorem bloom_encode_length m k bits :
  length (bloom_encode m k bits) = (22 + length bits)%nat.
Proof.
  unfold bloom_encode, write_u8, write_u64_le.
  rewrite !app_length, !le_bytes_length. reflexivity.
Qed.

(** end to end: what the writer emits is read back, and the reader never reports an
    inserted key as absent *)
Theorem bloom_block_no_false_negative m k hs h payload :
  m < 2 ^ 64 -> k < 2 ^ 64 -> hs <> [] ->
  filter_block_payload true m k hs = Some (Some payload) -> In h hs ->
  exists bits, bloom_decode payload = BOk (m, k, bits) /\
               bloom_contains_opt m k bits h = Some true.
Proof.
  intros Hm Hk Hne H Hin. unfold filter_block_payload in H. cbn [negb] in H.
  destruct hs as [|h0 hs']; [congruence|].
  destruct (bloom_build_opt m k (h0 :: hs')) as [bits|] eqn:E; [|discriminate].
  inversion H; subst payload. exists bits. split.
  - now apply bloom_codec_roundtrip.
  - eapply bloom_no_false_negative_opt; eassumption.
Qed.

(** inactive policy (e.g. BitsPerKey(0.0)) or no keys: no filter block at all *)
Theorem no_filter_block m k hs :
  filter_block_payload false m k hs = Some None /\ filter_block_payload true m k [] = Some None.
Proof. split; reflexivity. Qed.

(** * Unit tests of the crate, replayed *)

(** bit_array/builder.rs [bit_set_true] *)
Example bit_set_true :
  enable_bit 0 6 = 2 /\ enable_bit 0 0 = 128 /\ enable_bit 0 1 = 64 /\ enable_bit 6 1 = 70.
Proof. vm_compute. repeat split. Qed.

(** bit_array/builder.rs [bit_array_builder_basic] *)
Example bit_array_builder_basic :
  zero_bytes 1 = [0] /\ bit_enable [0] 0 = Some [128] /\ bit_enable [128] 7 = Some [129] /\
  bit_enable [0] 8 = None.
Proof. vm_compute. repeat split. Qed.

(** builder.rs [bloom_calculate_m] is float-only ([ln], [powi]) and is not replayed; its
    expected values 9592, 4800, 4792536 are multiples of 8, as MAIN 3 needs. *)
Example calculate_m_values_mod8 : 9592 mod 8 = 0 /\ 4800 mod 8 = 0 /\ 4792536 mod 8 = 0.
Proof. vm_compute. repeat split. Qed.

(** standard_bloom/mod.rs [filter_bloom_standard_basic] / [.._serde_round_trip]:
    [Builder::with_fp_rate(10, 0.0001)] gives m = 192, k = max(trunc(19 * ln 2), 1) = 13
    (192 / 10 = 19). Ten arbitrary 64-bit "hashes" stand for xxh3(b"item0".."item9"). *)
Definition ten_hashes : list N :=
  [ 17241709254077376921; 9922348576217382912; 123456789; 18446744073709551615;
    4294967296; 1311768467463790320; 81985529216486895; 11400714819323198485;
    6364136223846793005; 1442695040888963407 ].

Example filter_bloom_standard_basic :
  match bloom_build_opt 192 13 ten_hashes with
  | None => False
  | Some bits =>
      length bits = 24%nat /\
      forallb (fun h => match bloom_contains_opt 192 13 bits h with Some true => true | _ => false end)
              ten_hashes = true /\
      bloom_contains_opt 192 13 bits 987654321987654321 = Some false /\
      bloom_decode (bloom_encode 192 13 bits) = BOk (192, 13, bits)
  end.
Proof. vm_compute. repeat split. Qed.

(** byte layout of the block payload *)
Example bloom_layout :
  bloom_encode 16 3 [129; 2]
  = [76; 83; 77; 3;            (* magic "LSM\x03" *)
     0;                        (* filter type: StandardBloom *)
     0;                        (* hash type *)
     16; 0; 0; 0; 0; 0; 0; 0;  (* m, u64 LE *)
     3; 0; 0; 0; 0; 0; 0; 0;   (* k, u64 LE *)
     129; 2].                  (* bit array: bit i = byte i/8, mask 0x80 >> (i%8) *)
Proof. vm_compute. reflexivity. Qed.

Example bloom_decode_errors :
  bloom_decode [76; 83; 77] = BErr BEof /\
  bloom_decode [76; 83; 77; 2; 0; 0] = BErr BInvalidHeader /\
  bloom_decode [76; 83; 77; 3; 2; 0] = BErr (BInvalidTag 2) /\
  bloom_decode [76; 83; 77; 3; 1; 0] = BErr BPanic /\
  bloom_decode [76; 83; 77; 3; 0; 1] = BErr BPanic /\
  bloom_decode ([76; 83; 77; 3; 0; 0] ++ write_u64_le 8) = BErr BEof.
Proof. vm_compute. repeat split. Qed.

(** the reader trusts [m]: a block whose [m] exceeds the bytes that follow panics on
    lookup ("should be in bounds"), one with [m = 0] panics with remainder-by-zero *)
Example reader_trusts_m :
  bloom_decode (bloom_encode 64 1 [255]) = BOk (64, 1, [255]) /\
  bloom_contains_opt 64 1 [255] 9 = None /\
  bloom_contains_opt 0 1 [255] 9 = None.
Proof. vm_compute. repeat split. Qed.

(** probing degenerates for hashes below 2^32: [h2 = (h >> 32) * C = 0], so all [k]
    probes hit the single bit [h % m] (a quality issue, not a correctness one) *)
Example small_hash_single_bit :
  secondary_hash 7 = 0 /\ bloom_build_opt 64 5 [7] = Some [1; 0; 0; 0; 0; 0; 0; 0].
Proof. vm_compute. split; reflexivity. Qed.

(** hypotheses of the main theorems are satisfiable *)
Example bloom_hyps_ex :
  0 < 192 /\ 192 mod 8 = 0 /\ In 123456789 ten_hashes /\
  bloom_contains 192 13 (bloom_build 192 13 ten_hashes) 123456789 = true.
Proof. split; [lia|]. split; [reflexivity|]. split; [cbn; tauto|]. vm_compute. reflexivity. Qed.

Print Assumptions bloom_no_false_negative_opt.
Print Assumptions bloom_no_false_negative.
Print Assumptions bloom_no_false_negative_refuted.
Print Assumptions bloom_bits_wf_opt.
Print Assumptions bloom_bits_wf.
Print Assumptions bloom_build_succeeds.
Print Assumptions bloom_k0.
Print Assumptions bloom_m0_panics.
Print Assumptions bloom_codec_roundtrip.
Print Assumptions bloom_block_no_false_negative.
