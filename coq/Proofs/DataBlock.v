(** Proofs about the data block model (Model/DataBlock.v): property C12. *)
From LsmV Require Import Base.Bytes Model.Ints Model.Entry Model.Tree Model.DataBlock.
From LsmV Require Import Proofs.Ints Proofs.Newest.
From Coq Require Import PeanoNat.
Open Scope N_scope.
Arguments N.add : simpl never.
Arguments N.sub : simpl never.
Arguments N.mul : simpl never.
Arguments N.ltb : simpl never.
Arguments N.leb : simpl never.
Arguments N.eqb : simpl never.
Arguments N.pow : simpl never.
Arguments N.div : simpl never.
Arguments N.modulo : simpl never.
Arguments Nat.div : simpl never.
Arguments Nat.modulo : simpl never.

(** * A. src/table/util.rs *)

Lemma key_cmp_app_same p a b : key_cmp (p ++ a) (p ++ b) = key_cmp a b.
Proof. induction p as [|x p IH]; cbn [app key_cmp]; [reflexivity|]. now rewrite N.compare_refl. Qed.

(** THEOREM 4a *)
Theorem compare_prefixed_slice_spec prefix suffix needle :
  compare_prefixed_slice prefix suffix needle = key_cmp (prefix ++ suffix) needle.
Proof.
  unfold compare_prefixed_slice. destruct needle as [|y needle].
  - destruct prefix as [|x prefix]; [destruct suffix|]; reflexivity.
  - remember (y :: needle) as n eqn:En. clear En y needle.
    revert n. induction prefix as [|x prefix IH]; intros n.
    + cbn [length Nat.min firstn key_cmp Nat.sub Nat.ltb Nat.leb skipn app]. reflexivity.
    + destruct n as [|y n].
      * cbn [length Nat.min firstn key_cmp Nat.sub app]. reflexivity.
      * cbn [length Nat.min firstn key_cmp Nat.sub app skipn].
        destruct (N.compare x y); try reflexivity. apply IH.
Qed.

(** THEOREM 4b: the result is the length of the longest common prefix *)
Theorem longest_shared_prefix_length_spec s1 s2 :
  let n := longest_shared_prefix_length s1 s2 in
  (n <= length s1)%nat /\ (n <= length s2)%nat /\
  firstn n s1 = firstn n s2 /\
  (forall m, (n < m)%nat -> (m <= length s1)%nat -> (m <= length s2)%nat ->
             firstn m s1 <> firstn m s2).
Proof.
  cbv zeta. revert s2. induction s1 as [|c1 s1 IH]; intros s2.
  - cbn. repeat split; try lia.
  - destruct s2 as [|c2 s2].
    + cbn. repeat split; try lia.
    + cbn [longest_shared_prefix_length]. destruct (N.eqb_spec c1 c2) as [->|Hne].
      * destruct (IH s2) as (A & B & C & D). cbn [length firstn].
        repeat split; try lia.
        -- now rewrite C.
        -- intros m H1 H2 H3. destruct m as [|m]; [lia|]. cbn [firstn].
           intros E. inversion E as [E']. revert E'. apply D; lia.
      * cbn [length firstn]. repeat split; try lia.
        intros m H1 H2 H3. destruct m as [|m]; [lia|]. cbn [firstn]. congruence.
Qed.

Lemma lsp_le_l a b : (longest_shared_prefix_length a b <= length a)%nat.
Proof. apply (longest_shared_prefix_length_spec a b). Qed.
Lemma lsp_firstn a b :
  firstn (longest_shared_prefix_length a b) a = firstn (longest_shared_prefix_length a b) b.
Proof. apply (longest_shared_prefix_length_spec a b). Qed.
Lemma lsp_le_r a b : (longest_shared_prefix_length a b <= length b)%nat.
Proof. apply (longest_shared_prefix_length_spec a b). Qed.

(** util.rs unit tests [test_longest_shared_prefix_length], [test_compare_prefixed_slice] *)
Example lsp_tests :
  longest_shared_prefix_length [97;98;99] [97;98;99] = 3%nat /\
  longest_shared_prefix_length [97;98;99] [97] = 1%nat /\
  longest_shared_prefix_length [97] [97;98;99] = 1%nat /\
  longest_shared_prefix_length [97;98;99] [] = 0%nat /\
  longest_shared_prefix_length [] [97;98;99] = 0%nat /\
  longest_shared_prefix_length [97;98;99] [100;101;102] = 0%nat /\
  longest_shared_prefix_length [97;98;99] [97;99;99] = 1%nat.
Proof. vm_compute. repeat split. Qed.

Example cps_tests :
  compare_prefixed_slice [0;161] [] [0] = Gt /\
  compare_prefixed_slice [97;98;99] [120;121;122] [97;98;99;120;121;122] = Eq /\
  compare_prefixed_slice [97;98;99] [] [97;98;99] = Eq /\
  compare_prefixed_slice [] [] [] = Eq /\
  compare_prefixed_slice [97] [] [121] = Lt /\
  compare_prefixed_slice [121;121;121] [98] [121;121;121;121;98] = Lt /\
  compare_prefixed_slice [97;98] [] [97;99] = Lt /\
  compare_prefixed_slice [97] [] [] = Gt /\
  compare_prefixed_slice [] [97] [] = Gt /\
  compare_prefixed_slice [98] [97] [97] = Gt /\
  compare_prefixed_slice [97;98;99] [120;121] [97;98;99;119] = Gt /\
  compare_prefixed_slice [97;98;99;100] [122;122] [97;98;99] = Gt /\
  compare_prefixed_slice [97;97;97;97] [97;97;97;98] [97;97;97;97;97;97;97;97] = Gt /\
  compare_prefixed_slice [127] [] [128] = Lt /\
  compare_prefixed_slice [255] [] [16] = Gt.
Proof. vm_compute. repeat split. Qed.

(** * B. list / cursor helpers *)

Lemma skipn_app_len {A} (a b : list A) : skipn (length a) (a ++ b) = b.
Proof. induction a as [|x a IH]; cbn [length app skipn]; auto. Qed.

Lemma firstn_app_len {A} (a b : list A) : firstn (length a) (a ++ b) = a.
Proof. induction a as [|x a IH]; cbn [length app firstn]; [reflexivity|]. now rewrite IH. Qed.

Lemma skipn_add {A} (a b : nat) (l : list A) : skipn (a + b) l = skipn b (skipn a l).
Proof.
  revert l; induction a as [|a IH]; intros l; cbn [Nat.add skipn]; [reflexivity|].
  destruct l as [|x l]; [now rewrite skipn_nil|]. apply IH.
Qed.

Lemma skipn_step {A} (B : list A) pos x rest :
  skipn pos B = x ++ rest -> skipn (pos + length x) B = rest.
Proof. intros H. rewrite skipn_add, H. apply skipn_app_len. Qed.

Lemma skipn_some_len {A} (B : list A) pos x rest :
  skipn pos B = x ++ rest -> (pos + length x + length rest = length B)%nat \/ (x = [] /\ rest = []).
Proof.
  intros H. assert (L := f_equal (@length A) H). rewrite skipn_length, app_length in L.
  destruct (Nat.le_gt_cases pos (length B)) as [Hle|Hgt]; [left; lia|].
  right. rewrite skipn_all2 in H by lia. symmetry in H. now apply app_eq_nil in H.
Qed.

Lemma skipn_bound {A} (B : list A) pos x rest :
  skipn pos B = x ++ rest -> (pos + length x <= length B)%nat \/ x = [].
Proof. intros H. destruct (skipn_some_len _ _ _ _ H) as [L|[-> _]]; [left; lia|now right]. Qed.

Lemma skipn_nonnil_lt {A} (B : list A) a : skipn a B <> [] -> (a < length B)%nat.
Proof.
  intros H. destruct (Nat.le_gt_cases (length B) a) as [Hle|Hgt]; [|exact Hgt].
  exfalso. apply H. now apply skipn_all2.
Qed.

Lemma slice_at B a x rest :
  (a <= length B)%nat -> skipn a B = x ++ rest -> slice B a (a + length x) = Some x.
Proof.
  intros Ha H. unfold slice.
  assert (L := f_equal (@length N) H). rewrite skipn_length, app_length in L.
  assert (E1 : Nat.leb (a + length x) (length B) = true) by (apply Nat.leb_le; lia).
  assert (E2 : Nat.leb a (a + length x) = true) by (apply Nat.leb_le; lia).
  rewrite E1, E2. cbn [andb]. replace (a + length x - a)%nat with (length x) by lia.
  rewrite H. now rewrite firstn_app_len.
Qed.

Lemma slice_at' B a x rest :
  skipn a B = x ++ rest -> rest <> [] -> slice B a (a + length x) = Some x.
Proof.
  intros H Hr. apply slice_at with (rest := rest); [|exact H].
  assert (a < length B)%nat; [|lia]. apply skipn_nonnil_lt. rewrite H.
  destruct x; [exact Hr|discriminate].
Qed.

Lemma slice_prefix B a x sh :
  slice B a (a + length x) = Some x -> (sh <= length x)%nat ->
  slice B a (a + sh) = Some (firstn sh x).
Proof.
  unfold slice. intros H Hs.
  destruct (Nat.leb_spec (a + length x) (length B)) as [H1|H1]; [|discriminate].
  cbn [andb] in H. destruct (Nat.leb a (a + length x)); [|discriminate].
  inversion H as [E]. clear H.
  assert (E1 : Nat.leb (a + sh) (length B) = true) by (apply Nat.leb_le; lia).
  assert (E2 : Nat.leb a (a + sh) = true) by (apply Nat.leb_le; lia).
  rewrite E1, E2. cbn [andb]. f_equal.
  replace (a + length x - a)%nat with (length x) in E by lia.
  replace (a + sh - a)%nat with sh by lia.
  rewrite <- E. rewrite firstn_firstn. rewrite E. rewrite Nat.min_l by lia. reflexivity.
Qed.

Lemma cur_read_ok rd B pos enc rest v :
  skipn pos B = enc ++ rest -> rd (enc ++ rest) = Some (v, rest) ->
  cur_read rd B pos = Some (v, (pos + length enc)%nat).
Proof.
  intros H R. unfold cur_read. rewrite H, R. rewrite app_length. do 2 f_equal. lia.
Qed.

(** * C. one item *)

Definition entry_wf (e : entry) : Prop :=
  bytes_wf (ukey e) /\ bytes_wf (val e) /\
  N.of_nat (length (ukey e)) < 2 ^ 16 /\ N.of_nat (length (val e)) < 2 ^ 32 /\
  seq e < 2 ^ 64.

(** tombstones carry no value (what [InternalValue::new_tombstone] builds) *)
Definition tomb_noval (e : entry) : Prop := is_tomb e = true -> val e = [].

Definition entry_wfb (e : entry) : bool :=
  bytes_wfb (ukey e) && bytes_wfb (val e)
  && (N.of_nat (length (ukey e)) <? 2 ^ 16) && (N.of_nat (length (val e)) <? 2 ^ 32)
  && (seq e <? 2 ^ 64).

Lemma bytes_wfb_wf l : bytes_wfb l = true -> bytes_wf l.
Proof.
  unfold bytes_wfb, bytes_wf. rewrite forallb_forall, Forall_forall.
  intros H x Hx. apply N.ltb_lt. now apply H.
Qed.

Lemma entry_wfb_wf e : entry_wfb e = true -> entry_wf e.
Proof.
  unfold entry_wfb, entry_wf. rewrite !andb_true_iff, !N.ltb_lt.
  intros [[[[A B] C] D] E]. auto using bytes_wfb_wf.
Qed.

Lemma bytes_wf_app a b : bytes_wf a -> bytes_wf b -> bytes_wf (a ++ b).
Proof. unfold bytes_wf. intros. apply Forall_app. auto. Qed.

Lemma write_u8_wf n : bytes_wf (write_u8 n).
Proof. apply le_bytes_wf. Qed.

Lemma vpart_wf e : bytes_wf (val e) ->
  bytes_wf (if is_tomb e then [] else write_u32_varint (N.of_nat (length (val e))) ++ val e).
Proof.
  intros H. destruct (is_tomb e); [constructor|].
  apply bytes_wf_app; [apply varint_bytes_wf|exact H].
Qed.

Lemma encode_full_wf e : entry_wf e -> bytes_wf (encode_full e).
Proof.
  intros (K & V & _). unfold encode_full.
  repeat apply bytes_wf_app; try apply varint_bytes_wf; try apply write_u8_wf; auto.
  now apply vpart_wf.
Qed.

Lemma bytes_wf_skipn n l : bytes_wf l -> bytes_wf (skipn n l).
Proof.
  unfold bytes_wf. rewrite !Forall_forall. intros H x Hx. apply H.
  rewrite <- (firstn_skipn n l). apply in_or_app. now right.
Qed.

Lemma encode_truncated_wf e sh : entry_wf e -> bytes_wf (encode_truncated e sh).
Proof.
  intros (K & V & _). unfold encode_truncated.
  repeat apply bytes_wf_app; try apply varint_bytes_wf; try apply write_u8_wf; auto.
  - now apply bytes_wf_skipn.
  - now apply vpart_wf.
Qed.

Lemma vtype_tag_lt t : vtype_tag t < 256.
Proof. destruct t; cbn; lia. Qed.

Lemma vtype_tag_not_marker t : (vtype_tag t =? TRAILER_START_MARKER) = false.
Proof. destruct t; reflexivity. Qed.

Lemma vtype_of_tag_tag t : vtype_of_tag (vtype_tag t) = Some t.
Proof. destruct t; reflexivity. Qed.

Lemma read_write_u8 t rest : t < 256 -> read_u8 (write_u8 t ++ rest) = Some (t, rest).
Proof. intros H. unfold read_u8, write_u8. apply le_roundtrip. exact H. Qed.

Lemma write_u8_len t : length (write_u8 t) = 1%nat.
Proof. reflexivity. Qed.

Lemma rw_u64 s rest : s < 2 ^ 64 -> read_u64_varint (write_u64_varint s ++ rest) = Some (s, rest).
Proof. intros H. rewrite write_read_u64_varint. now rewrite N.mod_small. Qed.
Lemma rw_u32 s rest : s < 2 ^ 32 -> read_u32_varint (write_u32_varint s ++ rest) = Some (s, rest).
Proof. intros H. rewrite write_read_u32_varint. now rewrite N.mod_small. Qed.
Lemma rw_u16 s rest : s < 2 ^ 16 -> read_u16_varint (write_u16_varint s ++ rest) = Some (s, rest).
Proof. intros H. rewrite write_read_u16_varint. now rewrite N.mod_small. Qed.

(** the optional value part *)
Definition vpart (e : entry) : list N :=
  if is_tomb e then [] else write_u32_varint (N.of_nat (length (val e))) ++ val e.

Lemma read_vpart B p4 e rest :
  entry_wf e -> tomb_noval e -> skipn p4 B = vpart e ++ rest -> rest <> [] ->
  exists vlen p5,
    (if negb (vtype_is_tomb (ty e)) then cur_read read_u32_varint B p4 else Some (0, p4))
      = Some (vlen, p5) /\
    (p5 + N.to_nat vlen = p4 + length (vpart e))%nat /\
    N.to_nat vlen = length (val e) /\
    (if negb (vtype_is_tomb (ty e))
     then slice B p5 (p5 + N.to_nat vlen) = Some (val e) else val e = []).
Proof.
  intros (_ & _ & _ & V & _) TN H Hr. unfold vpart, tomb_noval, is_tomb in *.
  destruct (vtype_is_tomb (ty e)) eqn:T.
  - assert (T' : (match ty e with Tomb | WeakTomb => true | _ => false end) = true)
      by (destruct (ty e); auto).
    rewrite T' in *. cbn [negb]. exists 0, p4. rewrite (TN eq_refl). cbn [length]. repeat split; lia.
  - assert (T' : (match ty e with Tomb | WeakTomb => true | _ => false end) = false)
      by (destruct (ty e); auto).
    rewrite T' in *. cbn [negb].
    rewrite <- app_assoc in H.
    exists (N.of_nat (length (val e))), (p4 + length (write_u32_varint (N.of_nat (length (val e)))))%nat.
    rewrite (cur_read_ok _ _ _ _ _ _ H (rw_u32 _ _ V)). rewrite Nat2N.id.
    repeat split.
    + rewrite app_length. lia.
    + apply skipn_step in H. eapply slice_at'; eauto.
Qed.

(** what a parsed item must satisfy to stand for [e] *)
Definition item_ok (B : list N) (p : parsed) (e : entry) : Prop :=
  materialize B p = Some e /\
  (forall needle, compare_key B p needle = Some (key_cmp (ukey e) needle)) /\
  p_seq p = seq e.

Lemma app_nonnil_r {A} (a b : list A) : b <> [] -> a ++ b <> [].
Proof. destruct a; [auto|discriminate]. Qed.

Lemma parse_full_ok B off e rest :
  entry_wf e -> tomb_noval e -> skipn off B = encode_full e ++ rest -> rest <> [] ->
  exists p, parse_full B off = PItem p (off + length (encode_full e))%nat /\
    item_ok B p e /\
    slice B (fst (p_key p)) (fst (p_key p) + length (ukey e)) = Some (ukey e).
Proof.
  intros W TN H Hr. pose proof W as (_ & _ & K & _ & Sq).
  unfold encode_full in H. fold (vpart e) in H. rewrite <- !app_assoc in H.
  unfold parse_full.
  rewrite (cur_read_ok _ _ _ _ _ _ H (read_write_u8 _ _ (vtype_tag_lt _))).
  rewrite vtype_tag_not_marker, vtype_of_tag_tag.
  apply skipn_step in H.
  rewrite (cur_read_ok _ _ _ _ _ _ H (rw_u64 _ _ Sq)).
  apply skipn_step in H.
  rewrite (cur_read_ok _ _ _ _ _ _ H (rw_u16 _ _ K)).
  apply skipn_step in H. rewrite Nat2N.id.
  set (ks := (off + length (write_u8 (vtype_tag (ty e))) + length (write_u64_varint (seq e))
              + length (write_u16_varint (N.of_nat (length (ukey e)))))%nat) in *.
  assert (HK : slice B ks (ks + length (ukey e)) = Some (ukey e)).
  { eapply slice_at'; [exact H|]. now apply app_nonnil_r. }
  apply skipn_step in H.
  destruct (read_vpart B _ e rest W TN H Hr) as (vlen & p5 & R & L & VL & SV).
  rewrite R.
  eexists. split; [|split].
  - f_equal. unfold encode_full. fold (vpart e). rewrite !app_length. unfold ks in L. lia.
  - unfold item_ok, materialize, compare_key. cbn [p_key p_prefix p_val p_ty p_seq fst snd].
    rewrite HK. split; [|split]; [|reflexivity|reflexivity].
    destruct (negb (vtype_is_tomb (ty e))).
    + rewrite SV. now destruct e.
    + destruct e; cbn in *. now subst.
  - cbn [p_key fst]. exact HK.
Qed.

Lemma parse_full_end B off rest :
  skipn off B = TRAILER_START_MARKER :: rest -> parse_full B off = PEnd.
Proof.
  intros H. unfold parse_full.
  assert (R : cur_read read_u8 B off = Some (255, (off + 1)%nat)).
  { apply (cur_read_ok read_u8 B off [255] rest 255 H). reflexivity. }
  rewrite R. reflexivity.
Qed.

Lemma parse_truncated_end B off b rest :
  skipn off B = TRAILER_START_MARKER :: rest -> parse_truncated B off b = PEnd.
Proof.
  intros H. unfold parse_truncated.
  assert (R : cur_read read_u8 B off = Some (255, (off + 1)%nat)).
  { apply (cur_read_ok read_u8 B off [255] rest 255 H). reflexivity. }
  rewrite R. reflexivity.
Qed.

Lemma get_key_at_ok B off e rest :
  entry_wf e -> skipn off B = encode_full e ++ rest -> rest <> [] ->
  get_key_at B off = Some (ukey e, seq e).
Proof.
  intros W H Hr. pose proof W as (_ & _ & K & _ & Sq).
  unfold encode_full in H. fold (vpart e) in H. rewrite <- !app_assoc in H. unfold get_key_at.
  rewrite (cur_read_ok _ _ _ _ _ _ H (read_write_u8 _ _ (vtype_tag_lt _))).
  rewrite vtype_tag_not_marker.
  apply skipn_step in H.
  rewrite (cur_read_ok _ _ _ _ _ _ H (rw_u64 _ _ Sq)).
  apply skipn_step in H.
  rewrite (cur_read_ok _ _ _ _ _ _ H (rw_u16 _ _ K)).
  apply skipn_step in H. rewrite Nat2N.id.
  erewrite slice_at'; [reflexivity|exact H|]. now apply app_nonnil_r.
Qed.

Lemma parse_truncated_ok B off bko bk e rest :
  entry_wf e -> tomb_noval e ->
  let sh := longest_shared_prefix_length bk (ukey e) in
  skipn off B = encode_truncated e sh ++ rest -> rest <> [] ->
  slice B bko (bko + length bk) = Some bk ->
  exists p, parse_truncated B off bko = PItem p (off + length (encode_truncated e sh))%nat /\
    item_ok B p e.
Proof.
  intros W TN sh H Hr HB. pose proof W as (_ & _ & K & _ & Sq).
  assert (Hsh : (sh <= length (ukey e))%nat) by apply lsp_le_r.
  assert (Hsh' : (sh <= length bk)%nat) by apply lsp_le_l.
  unfold encode_truncated in H. fold (vpart e) in H. rewrite <- !app_assoc in H.
  unfold parse_truncated.
  rewrite (cur_read_ok _ _ _ _ _ _ H (read_write_u8 _ _ (vtype_tag_lt _))).
  rewrite vtype_tag_not_marker, vtype_of_tag_tag.
  apply skipn_step in H.
  rewrite (cur_read_ok _ _ _ _ _ _ H (rw_u64 _ _ Sq)).
  apply skipn_step in H.
  assert (S1 : N.of_nat sh < 2 ^ 16) by lia.
  assert (S2 : N.of_nat (length (ukey e) - sh) < 2 ^ 16) by lia.
  rewrite (cur_read_ok _ _ _ _ _ _ H (rw_u16 _ _ S1)).
  apply skipn_step in H.
  rewrite (cur_read_ok _ _ _ _ _ _ H (rw_u16 _ _ S2)).
  apply skipn_step in H. rewrite !Nat2N.id.
  set (ks := (off + length (write_u8 (vtype_tag (ty e))) + length (write_u64_varint (seq e))
              + length (write_u16_varint (N.of_nat sh))
              + length (write_u16_varint (N.of_nat (length (ukey e) - sh))))%nat) in *.
  assert (LK : length (skipn sh (ukey e)) = (length (ukey e) - sh)%nat) by apply skipn_length.
  assert (HK : slice B ks (ks + (length (ukey e) - sh)) = Some (skipn sh (ukey e))).
  { rewrite <- LK. eapply slice_at'; [exact H|]. now apply app_nonnil_r. }
  apply skipn_step in H. rewrite LK in H.
  destruct (read_vpart B _ e rest W TN H Hr) as (vlen & p5 & R & L & VL & SV).
  rewrite R.
  assert (HP : slice B bko (bko + sh) = Some (firstn sh (ukey e))).
  { rewrite (slice_prefix _ _ _ sh HB Hsh'). f_equal. apply lsp_firstn. }
  eexists. split.
  - f_equal. unfold encode_truncated. fold (vpart e). rewrite !app_length. unfold ks in L. lia.
  - unfold item_ok, materialize, compare_key. cbn [p_key p_prefix p_val p_ty p_seq fst snd].
    rewrite HK, HP. rewrite firstn_skipn. split; [|split]; [| |reflexivity].
    + destruct (negb (vtype_is_tomb (ty e))).
      * rewrite SV. now destruct e.
      * destruct e; cbn in *. now subst.
    + intros needle. rewrite compare_prefixed_slice_spec, firstn_skipn. reflexivity.
Qed.

(** * D. restart intervals ("chunks") and the decoder's forward stream *)

Definition enc_tail (h e : entry) : list N :=
  encode_truncated e (longest_shared_prefix_length (ukey h) (ukey e)).

Definition enc_chunk (c : list entry) : list N :=
  match c with [] => [] | h :: t => encode_full h ++ flat_map (enc_tail h) t end.

Definition data_of (cs : list (list entry)) : list N := flat_map enc_chunk cs.

(** all chunks but the last have exactly [n] items, the last has 1..n *)
Fixpoint chunked (n : nat) (cs : list (list entry)) : Prop :=
  match cs with
  | [] => True
  | c :: cs' =>
      match cs' with
      | [] => c <> [] /\ (length c <= n)%nat
      | _ :: _ => length c = n /\ chunked n cs'
      end
  end.

Definition item_wf (e : entry) : Prop := entry_wf e /\ tomb_noval e.

(** from state [st], [Decoder::next] yields parsed items standing for [l], then the end *)
Fixpoint stream_ok (B : list N) (d : decoder) (st : dstate) (l : list entry) : Prop :=
  match l with
  | [] => exists st', dec_next B d st = DEnd st'
  | e :: l' =>
      exists p st', dec_next B d st = DItem p st' /\ item_ok B p e /\ stream_ok B d st' l'
  end.

Lemma stream_end B d st rest :
  skipn (lo_off st) B = TRAILER_START_MARKER :: rest -> hi_base st = None ->
  (lo_rem st = 0%nat \/ exists b, lo_base st = Some b) -> d_ri d <> 0%nat ->
  exists st', dec_next B d st = DEnd st'.
Proof.
  intros H Hh Hb Hri. unfold dec_next. rewrite Hh. cbn [andb].
  destruct (lo_rem st) as [|r] eqn:R.
  - cbn [Nat.eqb]. unfold parse_current_item. rewrite (parse_full_end _ _ _ H).
    destruct (d_ri d) as [|n]; [congruence|]. cbn [Nat.eqb andb]. eexists. reflexivity.
  - cbn [Nat.eqb]. destruct Hb as [Hb|[b Hb]]; [discriminate|].
    unfold parse_current_item. rewrite Hb. rewrite (parse_truncated_end _ _ _ _ H).
    cbn [andb]. eexists. reflexivity.
Qed.

(** the truncated items of one restart interval *)
Lemma stream_tail B d h bko TL l' :
  slice B bko (bko + length (ukey h)) = Some (ukey h) -> TL <> [] ->
  forall t st,
  Forall item_wf t ->
  skipn (lo_off st) B = flat_map (enc_tail h) t ++ TL ->
  lo_base st = Some bko -> hi_base st = None -> (length t <= lo_rem st)%nat ->
  (forall st', lo_off st' = (lo_off st + length (flat_map (enc_tail h) t))%nat ->
               lo_rem st' = (lo_rem st - length t)%nat ->
               lo_base st' = Some bko -> hi_base st' = None -> stream_ok B d st' l') ->
  stream_ok B d st (t ++ l').
Proof.
  intros HB HTL. induction t as [|e t IH]; intros st W H Hb Hh Hr K.
  - cbn [app]. apply K; cbn [flat_map length]; auto; lia.
  - cbn [app stream_ok]. inversion W as [|? ? [We Te] Wt]; subst.
    cbn [flat_map] in H. rewrite <- app_assoc in H.
    cbn [length] in Hr. destruct (lo_rem st) as [|r] eqn:R; [lia|].
    destruct (parse_truncated_ok B (lo_off st) bko (ukey h) e _ We Te H
                (app_nonnil_r _ _ HTL) HB) as (p & P & OK).
    eexists p, _. split; [|split; [exact OK|]].
    + unfold dec_next. rewrite Hh. cbn [andb]. rewrite R. cbn [Nat.eqb].
      unfold parse_current_item. rewrite Hb. rewrite P. cbn [andb]. reflexivity.
    + apply IH; cbn [lo_off lo_rem lo_base hi_base]; auto.
      * apply skipn_step in H. exact H.
      * lia.
      * intros st' A1 A2 A3 A4. apply K; auto.
        -- rewrite A1. cbn [flat_map]. rewrite app_length. unfold enc_tail. lia.
        -- rewrite A2. cbn [length]. lia.
Qed.

(** one restart interval *)
Lemma stream_chunk B d h t TL l' st :
  TL <> [] -> Forall item_wf (h :: t) -> d_ri d <> 0%nat ->
  skipn (lo_off st) B = enc_chunk (h :: t) ++ TL ->
  lo_rem st = 0%nat -> hi_base st = None -> (length t <= d_ri d - 1)%nat ->
  (forall st', lo_off st' = (lo_off st + length (enc_chunk (h :: t)))%nat ->
               lo_rem st' = (d_ri d - 1 - length t)%nat ->
               (exists b, lo_base st' = Some b) -> hi_base st' = None -> stream_ok B d st' l') ->
  stream_ok B d st ((h :: t) ++ l').
Proof.
  intros HTL W Hri H Hr Hh Hl K.
  inversion W as [|? ? [Wh Th] Wt]; subst.
  cbn [enc_chunk] in H. rewrite <- app_assoc in H.
  destruct (parse_full_ok B (lo_off st) h _ Wh Th H (app_nonnil_r _ _ HTL)) as (p & P & OK & HK).
  assert (D : dec_next B d st = DItem p (mkD (lo_off st + length (encode_full h)) (d_ri d - 1)
             (Some (fst (p_key p))) (hi_off st) (hi_idx st) (hi_stack st) (hi_base st))).
  { unfold dec_next. rewrite Hh. cbn [andb]. rewrite Hr. cbn [Nat.eqb].
    unfold parse_current_item. rewrite P.
    destruct (d_ri d) as [|n] eqn:N; [congruence|]. cbn [Nat.eqb andb]. reflexivity. }
  cbn [app stream_ok]. eexists p, _. split; [exact D|split; [exact OK|]].
  -
    eapply stream_tail with (bko := fst (p_key p)); cbn [lo_off lo_rem lo_base hi_base]; eauto.
    + apply skipn_step in H. exact H.
    + intros st' A1 A2 A3 A4. apply K; eauto.
      * rewrite A1. cbn [enc_chunk]. rewrite app_length. lia.
Qed.

Lemma stream_chunks B d rest : d_ri d <> 0%nat ->
  forall cs st,
  chunked (d_ri d) cs -> Forall (Forall item_wf) cs ->
  skipn (lo_off st) B = data_of cs ++ TRAILER_START_MARKER :: rest ->
  lo_rem st = 0%nat -> hi_base st = None ->
  stream_ok B d st (concat cs).
Proof.
  intros Hri. induction cs as [|c cs IH]; intros st C W H Hr Hh.
  - cbn [concat stream_ok]. cbn [data_of flat_map app] in H.
    eapply stream_end; eauto.
  - cbn [concat]. inversion W as [|? ? Wc Wcs]; subst.
    unfold data_of in H. cbn [flat_map] in H. rewrite <- app_assoc in H.
    fold (data_of cs) in H.
    cbn [chunked] in C.
    destruct c as [|h t].
    { exfalso. destruct cs; cbn [length] in C; [destruct C as [C _]; congruence|destruct C; lia]. }
    apply stream_chunk with (TL := data_of cs ++ TRAILER_START_MARKER :: rest); auto.
    + apply app_nonnil_r. discriminate.
    + destruct cs; cbn [length] in C; destruct C; lia.
    + intros st' A1 A2 A3 A4.
      destruct cs as [|c' cs'].
      * cbn [concat stream_ok]. cbn [data_of flat_map app] in H.
        apply stream_end with (rest := rest); auto.
        rewrite A1. apply skipn_step in H. exact H.
      * destruct C as [C1 C2]. apply IH; auto.
        -- rewrite A1. apply skipn_step in H. exact H.
        -- rewrite A2. cbn [length] in C1. lia.
Qed.

(** consumers of a stream *)

Lemma dec_collect_stream B d : forall l st fuel,
  stream_ok B d st l -> (length l < fuel)%nat -> dec_collect fuel B d st = Some l.
Proof.
  induction l as [|e l IH]; intros st fuel S F; (destruct fuel as [|f]; [lia|]); cbn [dec_collect].
  - destruct S as [st' ->]. reflexivity.
  - destruct S as (p & st' & -> & (M & _) & S). rewrite M. rewrite (IH st' f S); [reflexivity|].
    cbn [length] in F. lia.
Qed.

(** list-level meaning of the linear scan of [point_read] *)
Fixpoint scan_spec (k : key) (S : N) (l : list entry) : option entry :=
  match l with
  | [] => None
  | e :: l' =>
      match key_cmp (ukey e) k with
      | Gt => None
      | Lt => scan_spec k S l'
      | Eq => if S <=? seq e then scan_spec k S l' else Some e
      end
  end.

Lemma pr_item_ok B p e k S : item_ok B p e ->
  pr_item B k S p =
    match key_cmp (ukey e) k with
    | Gt => SStop | Lt => SCont
    | Eq => if S <=? seq e then SCont else SFound e
    end.
Proof.
  intros (M & C & Q). unfold pr_item. rewrite C, Q, M. reflexivity.
Qed.

Lemma pr_loop_stream B d k S : forall l st fuel,
  stream_ok B d st l -> (length l < fuel)%nat ->
  pr_loop fuel B d k S st = Some (scan_spec k S l).
Proof.
  induction l as [|e l IH]; intros st fuel St F; (destruct fuel as [|f]; [lia|]); cbn [pr_loop scan_spec].
  - destruct St as [st' ->]. reflexivity.
  - destruct St as (p & st' & -> & OK & St). rewrite (pr_item_ok _ _ _ _ _ OK).
    cbn [length] in F.
    destruct (key_cmp (ukey e) k); try reflexivity.
    + destruct (S <=? seq e); [|reflexivity]. apply IH; [exact St|lia].
    + apply IH; [exact St|lia].
Qed.

(** [Iter::seek]'s loop: either it fails and the scan of [l] finds nothing, or it stops
    at an item from which the scan gives the same answer *)
Lemma seek_loop_stream B d k S : forall l st fuel,
  stream_ok B d st l -> (length l < fuel)%nat ->
  (seek_loop fuel B d k st = Some None /\ scan_spec k S l = None) \/
  (exists p st' e l', seek_loop fuel B d k st = Some (Some (p, st')) /\
     item_ok B p e /\ stream_ok B d st' l' /\ (length l' < fuel)%nat /\
     scan_spec k S l = scan_spec k S (e :: l') /\ key_cmp (ukey e) k = Eq).
Proof.
  induction l as [|e l IH]; intros st fuel St F; (destruct fuel as [|f]; [lia|]); cbn [seek_loop].
  - destruct St as [st' ->]. left. split; reflexivity.
  - destruct St as (p & st' & -> & OK & St). pose proof OK as (_ & C & _). rewrite C.
    cbn [length] in F.
    destruct (key_cmp (ukey e) k) eqn:E; cbn [scan_spec]; rewrite E.
    + right. exists p, st', e, l. split; [reflexivity|]. split; [exact OK|]. split; [exact St|].
      split; [lia|]. split; [now rewrite E|exact E].
    + destruct (IH st' f St ltac:(lia)) as [[A1 A2]|(p' & st'' & e' & l' & A1 & A2 & A3 & A4 & A5 & A6)].
      * left. split; assumption.
      * right. exists p', st'', e', l'. split; [exact A1|]. split; [exact A2|]. split; [exact A3|].
        split; [lia|]. split; [exact A5|exact A6].
    + left. split; reflexivity.
Qed.

(** * E. the encoder, restart interval by restart interval *)

Fixpoint chunks_of (fuel n : nat) (l : list entry) : list (list entry) :=
  match fuel with
  | O => []
  | S f => match l with [] => [] | _ :: _ => firstn n l :: chunks_of f n (skipn n l) end
  end.

Lemma chunks_of_concat n : forall fuel l, (length l <= fuel)%nat -> (1 <= n)%nat ->
  concat (chunks_of fuel n l) = l.
Proof.
  induction fuel as [|f IH]; intros l F Hn.
  - destruct l; [reflexivity|cbn [length] in F; lia].
  - destruct l as [|x l]; [reflexivity|]. cbn [chunks_of concat].
    rewrite IH; [apply firstn_skipn| |exact Hn].
    rewrite skipn_length. cbn [length] in *. lia.
Qed.

Lemma chunks_of_chunked n : forall fuel l, (length l <= fuel)%nat -> (1 <= n)%nat ->
  chunked n (chunks_of fuel n l).
Proof.
  induction fuel as [|f IH]; intros l F Hn; [exact I|].
  destruct l as [|x l]; [exact I|]. cbn [chunks_of].
  assert (F' : (length (skipn n (x :: l)) <= f)%nat).
  { rewrite skipn_length. cbn [length] in *. lia. }
  specialize (IH (skipn n (x :: l)) F' Hn).
  cbn [chunked]. remember (skipn n (x :: l)) as r eqn:Er.
  destruct f as [|f'].
  - destruct r; [|cbn [length] in F'; lia]. cbn [chunks_of]. split.
    + destruct n; [lia|]. discriminate.
    + rewrite firstn_length. lia.
  - destruct r as [|y r].
    + cbn [chunks_of]. split; [destruct n; [lia|discriminate]|rewrite firstn_length; lia].
    + cbn [chunks_of] in *. split; [|exact IH].
      assert (L := f_equal (@length entry) Er). rewrite skipn_length in L. cbn [length] in L.
      rewrite firstn_length. cbn [length]. lia.
Qed.

Lemma chunks_of_wf n : forall fuel l, Forall item_wf l -> Forall (Forall item_wf) (chunks_of fuel n l).
Proof.
  induction fuel as [|f IH]; intros l W; [constructor|].
  destruct l as [|x l]; [constructor|]. cbn [chunks_of]. constructor.
  - apply Forall_forall. intros y Hy. rewrite Forall_forall in W. apply W.
    rewrite <- (firstn_skipn n (x :: l)). apply in_or_app. now left.
  - apply IH. apply Forall_forall. intros y Hy. rewrite Forall_forall in W. apply W.
    rewrite <- (firstn_skipn n (x :: l)). apply in_or_app. now right.
Qed.

Section Enc.
Variable hash : key -> N.
Variable ri : N.
Hypothesis ri_pos : 0 < ri.

Definition hset (h : list N) (k : key) (j : N) : list N :=
  if (0 <? N.of_nat (length h)) && (j <? MAX_POINTERS_FOR_HASH_INDEX)
  then hash_set hash h k j else h.

Definition hash_chunk (h : list N) (j : N) (c : list entry) : list N :=
  fold_left (fun h e => hset h (ukey e) j) c h.

Fixpoint hash_chunks (h : list N) (j : N) (cs : list (list entry)) : list N :=
  match cs with
  | [] => h
  | c :: cs' => hash_chunks (hash_chunk h j c) (j + 1) cs'
  end.

Fixpoint offs_of (off : nat) (cs : list (list entry)) : list nat :=
  match cs with
  | [] => []
  | c :: cs' => off :: offs_of (off + length (enc_chunk c)) cs'
  end.

Lemma is_mult_yes q : is_multiple_of (q * ri) ri = true.
Proof.
  unfold is_multiple_of. destruct (N.eqb_spec ri 0) as [E|E]; [lia|].
  rewrite N.mod_mul by exact E. reflexivity.
Qed.

Lemma is_mult_no q i : 0 < i -> i < ri -> is_multiple_of (q * ri + i) ri = false.
Proof.
  intros H1 H2. unfold is_multiple_of. destruct (N.eqb_spec ri 0) as [E|E]; [lia|].
  rewrite N.add_comm, N.mod_add by exact E. rewrite N.mod_small by exact H2.
  apply N.eqb_neq. lia.
Qed.

Lemma enc_tail_fold h q : forall t st i,
  e_cnt st = q * ri + i -> 0 < i -> i + N.of_nat (length t) <= ri -> e_base st = ukey h ->
  fold_left (enc_write hash ri) t st =
  mkEnc (e_w st ++ flat_map (enc_tail h) t) (e_cnt st + N.of_nat (length t)) (e_rc st)
        (e_bin st) (hash_chunk (e_hash st) (e_rc st - 1) t) (ukey h).
Proof.
  induction t as [|e t IH]; intros st i C Hi Hl Hb.
  - cbn [fold_left flat_map length hash_chunk]. rewrite app_nil_r.
    destruct st; cbn in *. f_equal; [lia|auto].
  - cbn [fold_left]. cbn [length] in Hl.
    assert (M : is_multiple_of (e_cnt st) ri = false) by (rewrite C; apply is_mult_no; lia).
    rewrite (IH _ (i + 1)).
    + unfold enc_write. rewrite M. cbn [andb e_w e_cnt e_rc e_bin e_hash e_base].
      rewrite Hb. cbn [flat_map hash_chunk fold_left length]. rewrite <- app_assoc.
      unfold enc_tail at 2. unfold hset at 2. f_equal. lia.
    + unfold enc_write. cbn [e_cnt]. lia.
    + lia.
    + lia.
    + unfold enc_write. rewrite M. cbn [e_base]. exact Hb.
Qed.

Lemma enc_chunk_fold q h t st :
  e_cnt st = q * ri -> N.of_nat (length (h :: t)) <= ri ->
  fold_left (enc_write hash ri) (h :: t) st =
  mkEnc (e_w st ++ enc_chunk (h :: t)) (e_cnt st + N.of_nat (length (h :: t))) (e_rc st + 1)
        (e_bin st ++ [trunc 32 (N.of_nat (length (e_w st)))])
        (hash_chunk (e_hash st) (e_rc st) (h :: t)) (ukey h).
Proof.
  intros C Hl. cbn [fold_left]. cbn [length] in Hl.
  assert (M : is_multiple_of (e_cnt st) ri = true) by (rewrite C; apply is_mult_yes).
  assert (P : 0 <? ri = true) by (apply N.ltb_lt; exact ri_pos).
  rewrite (enc_tail_fold h q t _ 1).
  - unfold enc_write. rewrite M, P. cbn [andb e_w e_cnt e_rc e_bin e_hash e_base].
    cbn [enc_chunk hash_chunk fold_left length]. rewrite <- app_assoc.
    replace (e_rc st + 1 - 1) with (e_rc st) by lia.
    unfold hset at 2. f_equal. lia.
  - unfold enc_write. cbn [e_cnt]. lia.
  - lia.
  - lia.
  - unfold enc_write. rewrite M. reflexivity.
Qed.

Lemma enc_chunks_fold : forall cs st q,
  chunked (N.to_nat ri) cs -> e_cnt st = q * ri ->
  let st' := fold_left (enc_write hash ri) (concat cs) st in
  e_w st' = e_w st ++ data_of cs /\
  e_cnt st' = e_cnt st + N.of_nat (length (concat cs)) /\
  e_rc st' = e_rc st + N.of_nat (length cs) /\
  e_bin st' = e_bin st ++ map (fun o => trunc 32 (N.of_nat o)) (offs_of (length (e_w st)) cs) /\
  e_hash st' = hash_chunks (e_hash st) (e_rc st) cs.
Proof.
  induction cs as [|c cs IH]; intros st q C Hc; cbv zeta.
  - cbn [concat fold_left data_of flat_map length offs_of map hash_chunks].
    rewrite !app_nil_r. repeat split; lia.
  - cbn [concat]. rewrite fold_left_app.
    cbn [chunked] in C.
    destruct c as [|h t].
    { exfalso. destruct cs; cbn [length] in C; [destruct C as [C _]; congruence|destruct C; lia]. }
    assert (Hl : N.of_nat (length (h :: t)) <= ri) by (destruct cs; destruct C; lia).
    rewrite (enc_chunk_fold q h t st Hc Hl).
    set (st1 := mkEnc _ _ _ _ _ _).
    destruct cs as [|c' cs'].
    + cbn [concat fold_left]. unfold st1. cbn [e_w e_cnt e_rc e_bin e_hash].
      cbn [data_of flat_map offs_of map hash_chunks length]. rewrite !app_nil_r.
      repeat split; lia.
    + destruct C as [C1 C2].
      assert (Hc1 : e_cnt st1 = (q + 1) * ri) by (unfold st1; cbn [e_cnt]; lia).
      destruct (IH st1 (q + 1) C2 Hc1) as (A1 & A2 & A3 & A4 & A5).
      rewrite A1, A2, A3, A4, A5. unfold st1. cbn [e_w e_cnt e_rc e_bin e_hash].
      unfold data_of. cbn [flat_map offs_of map hash_chunks].
      rewrite <- !app_assoc. cbn [app]. rewrite !app_length.
      repeat split; try lia.
      * cbn [length]. rewrite app_length. lia.
      * cbn [length]. lia.
Qed.

End Enc.

(** * F. the trailer and the overall layout *)

Lemma read_trailer_ok W a b c d e f g :
  a < 256 -> b < 256 -> c < 2 ^ 32 -> d < 2 ^ 32 -> e < 2 ^ 32 -> f < 2 ^ 32 -> g < 2 ^ 32 ->
  read_trailer (W ++ write_u8 a ++ write_u8 b ++ write_u32_le c ++ write_u32_le d
                  ++ write_u32_le e ++ write_u32_le f
                  ++ write_u8 1 ++ write_u8 0 ++ write_u16_le 0 ++ write_u8 0 ++ write_u32_le 0
                  ++ write_u32_le g)
  = Some (mkTr a b c d e f g).
Proof.
  intros Ha Hb Hc Hd He Hf Hg. unfold read_trailer.
  set (TR := write_u8 a ++ _).
  assert (L : length TR = 31%nat).
  { unfold TR. rewrite !app_length. unfold write_u8, write_u16_le, write_u32_le.
    rewrite !le_bytes_length. reflexivity. }
  rewrite app_length, L.
  assert (E : Nat.ltb (length W + 31) TRAILER_SIZE = false) by (apply Nat.ltb_ge; unfold TRAILER_SIZE; lia).
  rewrite E. replace (length W + 31 - TRAILER_SIZE)%nat with (length W) by (unfold TRAILER_SIZE; lia).
  rewrite skipn_app_len. unfold TR.
  rewrite (read_write_u8 _ _ Ha), (read_write_u8 _ _ Hb).
  unfold read_u32_le, write_u32_le.
  rewrite (le_roundtrip c 4 _ Hc), (le_roundtrip d 4 _ Hd), (le_roundtrip e 4 _ He),
    (le_roundtrip f 4 _ Hf).
  change (write_u8 1 ++ write_u8 0 ++ write_u16_le 0 ++ write_u8 0 ++ le_bytes 0 4 ++ le_bytes g 4)
    with (1 :: 0 :: 0 :: 0 :: 0 :: 0 :: 0 :: 0 :: 0 :: le_bytes g 4 ++ []).
  cbn [skipn]. rewrite (le_roundtrip g 4 _ Hg). reflexivity.
Qed.

Definition bin_bytes (step : nat) (offs : list nat) : list N :=
  flat_map (fun o => le_bytes (N.of_nat o) step) offs.

Lemma bin_bytes_length step offs : length (bin_bytes step offs) = (length offs * step)%nat.
Proof.
  induction offs as [|o offs IH]; [reflexivity|].
  unfold bin_bytes in *. cbn [flat_map length]. rewrite app_length, le_bytes_length, IH. lia.
Qed.

Lemma offs_of_ge : forall cs off o, In o (offs_of off cs) -> (off <= o)%nat.
Proof.
  induction cs as [|c cs IH]; intros off o H; [destruct H|].
  cbn [offs_of] in H. destruct H as [<-|H]; [lia|]. apply IH in H. lia.
Qed.

Lemma offs_of_le_last : forall cs off o, In o (offs_of off cs) -> (o <= last (offs_of off cs) 0)%nat.
Proof.
  induction cs as [|c cs IH]; intros off o H; [destruct H|].
  cbn [offs_of] in *. destruct (offs_of (off + length (enc_chunk c)) cs) as [|x l] eqn:E.
  - destruct H as [<-|[]]. cbn [last]. lia.
  - change (last (off :: x :: l) 0%nat) with (last (x :: l) 0%nat). destruct H as [<-|H].
    + assert (A : In (last (x :: l) 0%nat) (x :: l)).
      { clear. revert x. induction l as [|y l IHl]; intros x; [now left|].
        right. apply IHl. }
      assert (A' : In (last (x :: l) 0%nat) (offs_of (off + length (enc_chunk c)) cs))
        by (rewrite E; exact A).
      apply offs_of_ge in A'. lia.
    + rewrite <- E. apply IH. rewrite E. exact H.
Qed.

Lemma offs_of_le_data : forall cs off o, In o (offs_of off cs) -> (o <= off + length (data_of cs))%nat.
Proof.
  induction cs as [|c cs IH]; intros off o H; [destruct H|].
  cbn [offs_of] in H. unfold data_of. cbn [flat_map]. rewrite app_length. fold (data_of cs).
  destruct H as [<-|H]; [lia|]. apply IH in H. lia.
Qed.

Lemma offs_of_length off cs : length (offs_of off cs) = length cs.
Proof. revert off; induction cs as [|c cs IH]; intros off; cbn [offs_of length]; auto. Qed.

Lemma last_map_of_nat l : last (map N.of_nat l) 0 = N.of_nat (last l 0%nat).
Proof.
  induction l as [|x l IH]; [reflexivity|]. cbn [map]. destruct l as [|y l]; [reflexivity|].
  cbn [map] in *. cbn [last] in *. exact IH.
Qed.

Lemma flat_map_map {A B C} (f : A -> B) (g : B -> list C) l :
  flat_map g (map f l) = flat_map (fun x => g (f x)) l.
Proof. induction l as [|x l IH]; [reflexivity|]. cbn [map flat_map]. now rewrite IH. Qed.

Lemma flat_map_write_u8 h : Forall (fun b => b < 256) h -> flat_map write_u8 h = h.
Proof.
  induction 1 as [|b h Hb _ IH]; [reflexivity|]. cbn [flat_map]. rewrite IH.
  unfold write_u8. cbn [le_bytes app]. now rewrite N.mod_small.
Qed.

(** hash buckets stay bytes *)
Lemma set_nth_length i x l : length (set_nth i x l) = length l.
Proof.
  revert i; induction l as [|y l IH]; intros i; [destruct i; reflexivity|].
  destruct i; cbn [set_nth length]; auto.
Qed.

Lemma set_nth_wf i x l : x < 256 -> Forall (fun b => b < 256) l -> Forall (fun b => b < 256) (set_nth i x l).
Proof.
  intros Hx H. revert i. induction H as [|y l Hy Hl IH]; intros i; [destruct i; constructor|].
  destruct i; cbn [set_nth]; constructor; auto.
Qed.

Section Hsh.
Variable hash : key -> N.

Lemma hset_wf h k j : Forall (fun b => b < 256) h -> Forall (fun b => b < 256) (hset hash h k j).
Proof.
  intros H. unfold hset.
  destruct (0 <? N.of_nat (length h)); cbn [andb]; [|exact H].
  destruct (j <? MAX_POINTERS_FOR_HASH_INDEX) eqn:J; [|exact H].
  apply N.ltb_lt in J. unfold MAX_POINTERS_FOR_HASH_INDEX in J.
  unfold hash_set.
  destruct (_ =? MARKER_CONFLICT); [exact H|].
  destruct (_ =? MARKER_FREE); [apply set_nth_wf; [lia|exact H]|].
  destruct (_ =? j); [exact H|]. apply set_nth_wf; [unfold MARKER_CONFLICT; lia|exact H].
Qed.

Lemma hset_length h k j : length (hset hash h k j) = length h.
Proof.
  unfold hset. destruct (_ && _); [|reflexivity]. unfold hash_set.
  destruct (_ =? MARKER_CONFLICT); [reflexivity|].
  destruct (_ =? MARKER_FREE); [apply set_nth_length|].
  destruct (_ =? j); [reflexivity|apply set_nth_length].
Qed.

Lemma hash_chunk_wf h j c : Forall (fun b => b < 256) h -> Forall (fun b => b < 256) (hash_chunk hash h j c).
Proof.
  revert h; induction c as [|e c IH]; intros h H; [exact H|].
  cbn [hash_chunk fold_left]. apply IH. now apply hset_wf.
Qed.

Lemma hash_chunk_length h j c : length (hash_chunk hash h j c) = length h.
Proof.
  revert h; induction c as [|e c IH]; intros h; [reflexivity|].
  cbn [hash_chunk fold_left]. unfold hash_chunk in IH. rewrite IH. apply hset_length.
Qed.

Lemma hash_chunks_wf cs : forall h j, Forall (fun b => b < 256) h -> Forall (fun b => b < 256) (hash_chunks hash h j cs).
Proof.
  induction cs as [|c cs IH]; intros h j H; [exact H|].
  cbn [hash_chunks]. apply IH. now apply hash_chunk_wf.
Qed.

Lemma hash_chunks_length cs : forall h j, length (hash_chunks hash h j cs) = length h.
Proof.
  induction cs as [|c cs IH]; intros h j; [reflexivity|].
  cbn [hash_chunks]. rewrite IH. apply hash_chunk_length.
Qed.

End Hsh.

Definition cs_of (ri : N) (items : list entry) : list (list entry) :=
  chunks_of (length items) (N.to_nat ri) items.

(** the facts about an encoded block that every reader relies on *)
Definition block_facts (hash : key -> N) (ri nb : N) (cs : list (list entry)) (B : list N) : Prop :=
  exists (step : nat) (HI TR : list N) (hlen hoff : N),
    let D := data_of cs in
    let offs := offs_of 0 cs in
    let BI := bin_bytes step offs in
    B = D ++ TRAILER_START_MARKER :: BI ++ HI ++ TR /\ length TR = 31%nat /\
    read_trailer B = Some (mkTr ri (N.of_nat step) (N.of_nat (length cs))
                             (N.of_nat (length D + 1)) hlen hoff
                             (N.of_nat (length (concat cs)))) /\
    (step = 2 \/ step = 4)%nat /\
    Forall (fun o => N.of_nat o < 2 ^ (8 * N.of_nat step)) offs /\
    ((hlen = 0 /\ HI = []) \/
     (hlen = N.of_nat (length HI) /\ HI <> [] /\
      hoff = N.of_nat (length D + 1 + length BI) /\
      HI = hash_chunks hash (repeat MARKER_FREE (N.to_nat nb)) 0 cs /\
      (length cs <= 254)%nat)).

Lemma enc_finish_unfold ri st :
  enc_finish ri st = enc_finish ri (mkEnc (e_w st) (e_cnt st) 0 (e_bin st) (e_hash st) []).
Proof. reflexivity. Qed.

Lemma repeat_wf n : Forall (fun b => b < 256) (repeat MARKER_FREE n).
Proof. induction n; cbn [repeat]; constructor; auto. unfold MARKER_FREE. lia. Qed.

Lemma trunc_small n : n < 2 ^ 32 -> trunc 32 n = n.
Proof. intros H. unfold trunc. now apply N.mod_small. Qed.

Lemma enc_full_len1 h : (1 <= length (encode_full h))%nat.
Proof. unfold encode_full. rewrite app_length. cbn [write_u8 le_bytes length]. lia. Qed.

Lemma enc_tail_len1 h e : (1 <= length (enc_tail h e))%nat.
Proof. unfold enc_tail, encode_truncated. rewrite app_length. cbn [write_u8 le_bytes length]. lia. Qed.

Lemma chunk_le_data c : (length c <= length (enc_chunk c))%nat.
Proof.
  destruct c as [|h t]; [cbn; lia|]. cbn [enc_chunk length]. rewrite app_length.
  pose proof (enc_full_len1 h).
  assert (length t <= length (flat_map (enc_tail h) t))%nat; [|lia].
  induction t as [|e t IHt]; [cbn; lia|]. cbn [flat_map length]. rewrite app_length.
  pose proof (enc_tail_len1 h e). lia.
Qed.

Lemma concat_le_data cs : (length (concat cs) <= length (data_of cs))%nat.
Proof.
  induction cs as [|c cs IH]; [cbn; lia|]. cbn [concat]. unfold data_of in *. cbn [flat_map].
  rewrite !app_length. pose proof (chunk_le_data c). lia.
Qed.

Theorem encode_block_facts hash ri nb items :
  0 < ri -> ri < 256 -> items <> [] ->
  N.of_nat (length (encode_block hash ri nb items)) < 2 ^ 32 ->
  block_facts hash ri nb (cs_of ri items) (encode_block hash ri nb items).
Proof.
  intros Hri Hri' Hne Hlen.
  assert (Hn : (1 <= N.to_nat ri)%nat) by lia.
  pose proof (chunks_of_concat (N.to_nat ri) (length items) items (le_n _) Hn) as Hcat.
  pose proof (chunks_of_chunked (N.to_nat ri) (length items) items (le_n _) Hn) as Hck.
  fold (cs_of ri items) in Hcat, Hck. set (cs := cs_of ri items) in *.
  unfold encode_block in *.
  destruct (N.eqb_spec ri 0) as [E0|_]; [lia|].
  destruct items as [|first items']; [congruence|]. set (items := first :: items') in *.
  set (st0 := enc_init nb (ukey first)) in *.
  assert (Hc0 : e_cnt st0 = 0 * ri) by reflexivity.
  pose proof (enc_chunks_fold hash ri Hri cs st0 0 Hck Hc0) as F. cbv zeta in F.
  rewrite Hcat in F. destruct F as (F1 & F2 & F3 & F4 & F5).
  rewrite enc_finish_unfold in *. rewrite F1, F2, F4, F5 in *.
  unfold st0, enc_init in *. cbn [e_w e_cnt e_rc e_bin e_hash app length] in *.
  clear F1 F2 F3 F4 F5 st0 Hc0.
  set (D := data_of cs) in *.
  set (HH := hash_chunks hash (repeat MARKER_FREE (N.to_nat nb)) 0 cs) in *.
  set (offsT := map (fun o => trunc 32 (N.of_nat o)) (offs_of 0 cs)) in *.
  unfold enc_finish in *. cbn [e_w e_cnt e_bin e_hash] in *.
  unfold bin_write in *.
  set (stepN := if last offsT 0 <? 65536 then 2 else 4) in *.
  set (BIb := if stepN =? 2 then flat_map (fun o => write_u16_le o) offsT
              else flat_map (fun o => write_u32_le o) offsT) in *.
  set (w1 := D ++ write_u8 TRAILER_START_MARKER) in *.
  set (wh := (0 <? N.of_nat (length HH)) && (N.of_nat (length offsT) <=? MAX_POINTERS_FOR_HASH_INDEX)) in *.
  set (w3 := if wh then (w1 ++ BIb) ++ flat_map write_u8 HH else w1 ++ BIb) in *.
  (* sizes *)
  assert (L1 : length w1 = (length D + 1)%nat) by (unfold w1; rewrite app_length; reflexivity).
  assert (L3 : (length w1 + length BIb <= length w3)%nat).
  { unfold w3. destruct wh; rewrite ?app_length; lia. }
  rewrite app_length in Hlen.
  assert (LD : N.of_nat (length D + 1 + length BIb) < 2 ^ 32) by lia.
  (* no truncation of the pointers *)
  assert (EoT : offsT = map N.of_nat (offs_of 0 cs)).
  { unfold offsT. apply map_ext_in. intros o Ho. apply trunc_small.
    apply offs_of_le_data in Ho. fold D in Ho. lia. }
  assert (LoT : length offsT = length cs) by (rewrite EoT, map_length; apply offs_of_length).
  set (step := if last offsT 0 <? 65536 then 2%nat else 4%nat).
  assert (Est : stepN = N.of_nat step) by (unfold stepN, step; destruct (_ <? _); reflexivity).
  assert (EBI : BIb = bin_bytes step (offs_of 0 cs)).
  { unfold BIb, stepN, step, bin_bytes. rewrite EoT.
    destruct (last (map N.of_nat (offs_of 0 cs)) 0 <? 65536);
      [change (2 =? 2) with true|change (4 =? 2) with false]; cbv iota;
      rewrite flat_map_map; reflexivity. }
  assert (HHwf : Forall (fun b => b < 256) HH) by (apply hash_chunks_wf; apply repeat_wf).
  exists step, (if wh then HH else []).
  eexists. exists (if wh then N.of_nat (length HH) else 0).
  exists (if wh then N.of_nat (length D + 1 + length BIb) else 0).
  cbv zeta. fold D. rewrite <- EBI.
  assert (EB : forall TRb, w3 ++ TRb = D ++ TRAILER_START_MARKER :: BIb ++ (if wh then HH else []) ++ TRb).
  { intros TRb. unfold w3, w1. destruct wh.
    - rewrite (flat_map_write_u8 _ HHwf). rewrite <- !app_assoc. reflexivity.
    - rewrite <- !app_assoc. reflexivity. }
  split; [apply EB|].
  split.
  { rewrite !app_length. unfold write_u8, write_u16_le, write_u32_le.
    rewrite !le_bytes_length. reflexivity. }
  split; [|split; [|split]].
  - assert (Eho : (if wh then trunc 32 (N.of_nat (length (w1 ++ BIb))) else 0)
                  = (if wh then N.of_nat (length D + 1 + length BIb) else 0)).
    { destruct wh; [|reflexivity]. rewrite app_length, L1. apply trunc_small. exact LD. }
    rewrite Eho.
    assert (Ehl : (if 0 <? (if wh then N.of_nat (length D + 1 + length BIb) else 0)
                   then N.of_nat (length HH) else 0) = (if wh then N.of_nat (length HH) else 0)).
    { destruct wh; [|reflexivity].
      assert (X : 0 <? N.of_nat (length D + 1 + length BIb) = true) by (apply N.ltb_lt; lia).
      now rewrite X. }
    rewrite Ehl.
    rewrite L1. rewrite (trunc_small (N.of_nat (length D + 1))) by lia.
    rewrite Est, LoT, Hcat.
    apply read_trailer_ok; try lia.
    + unfold step. destruct (_ <? _); lia.
    + assert (N.of_nat (length BIb) < 2 ^ 32) by lia.
      rewrite EBI, bin_bytes_length, offs_of_length in H. unfold step in H. destruct (_ <? _); lia.
    + destruct wh eqn:Ewh; [|lia]. unfold w3 in L3, Hlen. rewrite !app_length in Hlen.
      rewrite (flat_map_write_u8 _ HHwf) in Hlen. lia.
    + destruct wh; lia.
    + rewrite <- Hcat. pose proof (concat_le_data cs). fold D in H. lia.
  - unfold step. destruct (_ <? _); auto.
  - apply Forall_forall. intros o Ho. unfold step.
    destruct (last offsT 0 <? 65536) eqn:E.
    + apply N.ltb_lt in E. rewrite EoT, last_map_of_nat in E.
      apply offs_of_le_last in Ho. change (2 ^ (8 * N.of_nat 2)) with 65536. lia.
    + apply offs_of_le_data in Ho. fold D in Ho. change (2 ^ (8 * N.of_nat 4)) with (2 ^ 32). lia.
  - destruct wh eqn:Ewh; [right|left; auto].
    unfold wh in Ewh. apply andb_true_iff in Ewh. destruct Ewh as [W1 W2].
    apply N.ltb_lt in W1. apply N.leb_le in W2. unfold MAX_POINTERS_FOR_HASH_INDEX in W2.
    repeat split; try lia.
    destruct HH; [cbn in W1; lia|discriminate].
Qed.

(** * G. THEOREM 1: the encoder emits bytes *)

Lemma flat_map_wf {A} (f : A -> list N) l : (forall x, bytes_wf (f x)) -> bytes_wf (flat_map f l).
Proof.
  intros H. induction l as [|x l IH]; [constructor|]. cbn [flat_map]. apply bytes_wf_app; auto.
Qed.

Lemma enc_write_wf hash ri st e : entry_wf e -> bytes_wf (e_w st) -> bytes_wf (e_w (enc_write hash ri st e)).
Proof.
  intros W H. unfold enc_write. cbn [e_w]. apply bytes_wf_app; [exact H|].
  destruct (is_multiple_of _ _); [now apply encode_full_wf|now apply encode_truncated_wf].
Qed.

Lemma enc_fold_wf hash ri : forall items st, Forall entry_wf items -> bytes_wf (e_w st) ->
  bytes_wf (e_w (fold_left (enc_write hash ri) items st)).
Proof.
  induction items as [|e items IH]; intros st W H; [exact H|].
  inversion W; subst. cbn [fold_left]. apply IH; [assumption|]. now apply enc_write_wf.
Qed.

Theorem encode_bytes_wf hash ri nb items :
  Forall entry_wf items -> bytes_wf (encode_block hash ri nb items).
Proof.
  intros W. unfold encode_block. destruct (ri =? 0); [constructor|].
  destruct items as [|first items']; [constructor|].
  set (st := fold_left _ _ _).
  assert (Hw : bytes_wf (e_w st)) by (apply enc_fold_wf; [exact W|constructor]).
  unfold enc_finish, bin_write.
  repeat match goal with
  | |- bytes_wf (_ ++ _) => apply bytes_wf_app
  | |- bytes_wf (le_bytes _ _) => apply le_bytes_wf
  | |- bytes_wf (write_u8 _) => apply le_bytes_wf
  | |- bytes_wf (write_u16_le _) => apply le_bytes_wf
  | |- bytes_wf (write_u32_le _) => apply le_bytes_wf
  | |- bytes_wf (flat_map _ _) => apply flat_map_wf; intros
  | |- bytes_wf (e_w st) => exact Hw
  | |- bytes_wf (if ?c then _ else _) => destruct c
  end.
Qed.

(** * H. THEOREM 2: forward iteration returns exactly the items *)

Definition items_wf (items : list entry) : Prop := Forall item_wf items.

(** "data blocks never approach 4 GiB" (trailer.rs:84, encoder.rs:133): every length and
    offset is cast to u32 *)
Definition block_small (B : list N) : Prop := N.of_nat (length B) < 2 ^ 32.

Lemma cs_of_concat ri items : 0 < ri -> concat (cs_of ri items) = items.
Proof. intros H. apply chunks_of_concat; lia. Qed.

Lemma decoder_new_facts hash ri nb cs B :
  block_facts hash ri nb cs B ->
  exists d st, decoder_new B = Some (d, st) /\ d_ri d = N.to_nat ri /\
    lo_off st = 0%nat /\ lo_rem st = 0%nat /\ hi_base st = None /\
    exists rest, B = data_of cs ++ TRAILER_START_MARKER :: rest.
Proof.
  intros (step & HI & TR & hlen & hoff & F1 & _ & F2 & _). cbv zeta in *.
  unfold decoder_new. rewrite F2. eexists _, _. split; [reflexivity|].
  cbn [d_ri lo_off lo_rem hi_base t_ri]. repeat split. eexists. exact F1.
Qed.

Theorem datablock_roundtrip hash ri nb items :
  items <> [] -> items_wf items -> 1 <= ri <= 255 ->
  block_small (encode_block hash ri nb items) ->
  decode_all (encode_block hash ri nb items) = Some items.
Proof.
  intros Hne W Hri Hs.
  pose proof (encode_block_facts hash ri nb items ltac:(lia) ltac:(lia) Hne Hs) as F.
  set (B := encode_block hash ri nb items) in *.
  destruct (decoder_new_facts _ _ _ _ _ F) as (d & st & Dn & Dri & O & R & Hb & rest & EB).
  unfold decode_all. rewrite Dn.
  rewrite <- (cs_of_concat ri items ltac:(lia)) at 1.
  apply dec_collect_stream.
  - apply stream_chunks with (rest := rest).
    + lia.
    + rewrite Dri. apply chunks_of_chunked; lia.
    + apply chunks_of_wf. exact W.
    + rewrite O. cbn [skipn]. exact EB.
    + exact R.
    + exact Hb.
  - rewrite cs_of_concat by lia.
    pose proof (concat_le_data (cs_of ri items)) as L. rewrite cs_of_concat in L by lia.
    assert (LB := f_equal (@length N) EB). rewrite app_length in LB. lia.
Qed.

(** * I. binary index and binary search *)

Lemma bin_bytes_skipn step : forall offs j, (j < length offs)%nat ->
  skipn (j * step) (bin_bytes step offs)
  = le_bytes (N.of_nat (nth j offs 0%nat)) step ++ bin_bytes step (skipn (S j) offs).
Proof.
  induction offs as [|o offs IH]; intros j Hj; [cbn [length] in Hj; lia|].
  destruct j as [|j].
  - cbn [Nat.mul skipn nth]. reflexivity.
  - cbn [nth]. change (skipn (S (S j)) (o :: offs)) with (skipn (S j) offs).
    unfold bin_bytes at 1. cbn [flat_map]. fold (bin_bytes step offs).
    replace (S j * step)%nat with (length (le_bytes (N.of_nat o) step) + j * step)%nat
      by (rewrite le_bytes_length; lia).
    rewrite skipn_add, skipn_app_len. apply IH. cbn [length] in Hj. lia.
Qed.

Lemma bin_get_ok step offs j :
  (step = 2 \/ step = 4)%nat ->
  Forall (fun o => N.of_nat o < 2 ^ (8 * N.of_nat step)) offs ->
  (j < length offs)%nat ->
  bin_get (mkBR (bin_bytes step offs) step) j = Some (nth j offs 0%nat).
Proof.
  intros Hs Hf Hj. unfold bin_get. cbn [br_bytes br_step].
  rewrite bin_bytes_length.
  assert (E : Nat.ltb (length offs * step) (j * step) = false).
  { apply Nat.ltb_ge. apply Nat.mul_le_mono_r. lia. }
  rewrite E. rewrite (bin_bytes_skipn step offs j Hj).
  assert (Hv : N.of_nat (nth j offs 0%nat) < 2 ^ (8 * N.of_nat step)).
  { rewrite Forall_forall in Hf. apply Hf. now apply nth_In. }
  destruct Hs as [-> | ->]; cbn [Nat.eqb]; unfold read_u16_le, read_u32_le;
    rewrite (le_roundtrip _ _ _ Hv); now rewrite Nat2N.id.
Qed.

Lemma data_of_app a b : data_of (a ++ b) = data_of a ++ data_of b.
Proof. unfold data_of. apply flat_map_app. Qed.

Lemma offs_of_nth : forall cs off j, (j < length cs)%nat ->
  nth j (offs_of off cs) 0%nat = (off + length (data_of (firstn j cs)))%nat.
Proof.
  induction cs as [|c cs IH]; intros off j Hj; [cbn [length] in Hj; lia|].
  destruct j as [|j]; cbn [offs_of nth firstn].
  - cbn. lia.
  - rewrite IH by (cbn [length] in Hj; lia). unfold data_of. cbn [flat_map]. rewrite app_length. lia.
Qed.

(** heads of the restart intervals *)
Definition chunk_head (c : list entry) : key * N :=
  match c with h :: _ => (ukey h, seq h) | [] => ([], 0) end.

Section Reader.
Variable hash : key -> N.
Variables (ri nb : N) (cs : list (list entry)) (B : list N).
Hypothesis F : block_facts hash ri nb cs B.

Let offs := offs_of 0 cs.

Lemma reader_facts :
  exists d st r rest,
    decoder_new B = Some (d, st) /\ d_ri d = N.to_nat ri /\
    lo_off st = 0%nat /\ lo_rem st = 0%nat /\ hi_base st = None /\
    B = data_of cs ++ TRAILER_START_MARKER :: rest /\
    get_binary_index_reader B d = Some r /\
    bin_reader_len r = Some (length cs) /\
    (forall j, (j < length cs)%nat -> bin_get r j = Some (nth j offs 0%nat)).
Proof.
  destruct F as (step & HI & TR & hlen & hoff & F1 & LTR & F2 & F3 & F4 & F5). cbv zeta in *.
  unfold decoder_new. rewrite F2.
  eexists _, _, (mkBR (bin_bytes step offs) step), _.
  split; [reflexivity|]. cbn [d_ri lo_off lo_rem hi_base t_ri t_step t_binoff t_binlen].
  split; [reflexivity|]. split; [reflexivity|]. split; [reflexivity|]. split; [reflexivity|].
  split; [exact F1|].
  assert (LBI : length (bin_bytes step offs) = (length cs * step)%nat).
  { rewrite bin_bytes_length. unfold offs. now rewrite offs_of_length. }
  split; [|split].
  - unfold get_binary_index_reader, bin_reader_new. cbn [d_binoff d_binlen d_step].
    rewrite !Nat2N.id. rewrite <- LBI.
    erewrite slice_at'; [reflexivity| |].
    + rewrite F1 at 1.
      replace (length (data_of cs) + 1)%nat with (length (data_of cs ++ [TRAILER_START_MARKER]))
        by (rewrite app_length; reflexivity).
      change (data_of cs ++ TRAILER_START_MARKER :: bin_bytes step (offs_of 0 cs) ++ HI ++ TR)
        with (data_of cs ++ [TRAILER_START_MARKER] ++ bin_bytes step (offs_of 0 cs) ++ HI ++ TR).
      rewrite app_assoc. rewrite skipn_app_len. reflexivity.
    + intros E. apply app_eq_nil in E. destruct E as [_ E]. subst TR. discriminate.
  - unfold bin_reader_len. cbn [br_step br_bytes].
    destruct F3 as [-> | ->]; rewrite LBI; now rewrite Nat.div_mul by lia.
  - intros j Hj. apply bin_get_ok; auto. unfold offs. now rewrite offs_of_length.
Qed.

End Reader.

Lemma skipn_nth_cons {A} (d : A) : forall (l : list A) j, (j < length l)%nat ->
  skipn j l = nth j l d :: skipn (S j) l.
Proof.
  induction l as [|x l IH]; intros j Hj; [cbn [length] in Hj; lia|].
  destruct j as [|j]; [reflexivity|]. cbn [skipn nth]. apply IH. cbn [length] in Hj. lia.
Qed.

Lemma chunked_nonempty n : (1 <= n)%nat -> forall cs c, chunked n cs -> In c cs -> c <> [].
Proof.
  intros Hn. induction cs as [|c0 cs IH]; intros c C H; [destruct H|].
  cbn [chunked] in C. destruct cs as [|c1 cs'].
  - destruct H as [<-|[]]. apply C.
  - destruct C as [C1 C2]. destruct H as [<-|H]; [|now apply IH].
    intros ->. cbn [length] in C1. lia.
Qed.

Lemma restart_at cs B rest j :
  B = data_of cs ++ TRAILER_START_MARKER :: rest -> (j < length cs)%nat ->
  skipn (nth j (offs_of 0 cs) 0%nat) B = data_of (skipn j cs) ++ TRAILER_START_MARKER :: rest.
Proof.
  intros EB Hj. rewrite offs_of_nth by exact Hj. cbn [Nat.add].
  rewrite EB. rewrite <- (firstn_skipn j cs) at 2. rewrite data_of_app, <- app_assoc.
  apply skipn_app_len.
Qed.

Lemma head_at n cs B rest j :
  (1 <= n)%nat -> chunked n cs -> Forall (Forall item_wf) cs ->
  B = data_of cs ++ TRAILER_START_MARKER :: rest -> (j < length cs)%nat ->
  get_key_at B (nth j (offs_of 0 cs) 0%nat) = Some (chunk_head (nth j cs [])).
Proof.
  intros Hn C W EB Hj. pose proof (restart_at cs B rest j EB Hj) as R.
  rewrite (skipn_nth_cons [] cs j Hj) in R.
  assert (Hin : In (nth j cs []) cs) by (now apply nth_In).
  pose proof (chunked_nonempty n Hn cs _ C Hin) as Hne.
  rewrite Forall_forall in W. specialize (W _ Hin).
  destruct (nth j cs []) as [|h t]; [congruence|].
  inversion W as [|? ? [Wh _] _]; subst.
  unfold data_of in R. cbn [flat_map enc_chunk] in R. rewrite <- !app_assoc in R.
  cbn [chunk_head]. eapply get_key_at_ok; [exact Wh|exact R|].
  apply app_nonnil_r, app_nonnil_r. discriminate.
Qed.

Lemma mid_bounds l r : (l < r)%nat -> (l <= Nat.div (l + r) 2 < r)%nat.
Proof.
  intros H. split.
  - apply Nat.div_le_lower_bound; lia.
  - apply Nat.div_lt_upper_bound; lia.
Qed.

Section Search.
Variables (cs : list (list entry)) (B : list N) (r : bin_reader) (pred : key -> N -> bool).
Let offs := offs_of 0 cs.
Let hd (j : nat) : key * N := chunk_head (nth j cs []).
Hypothesis Hget : forall j, (j < length cs)%nat -> bin_get r j = Some (nth j offs 0%nat).
Hypothesis Hkey : forall j, (j < length cs)%nat -> get_key_at B (nth j offs 0%nat) = Some (hd j).

Definition pp_inv (l : nat) : Prop :=
  (l <= length cs)%nat /\ (l = 0%nat \/ pred (fst (hd (l - 1))) (snd (hd (l - 1))) = true).

Lemma pp_loop_ok : forall fuel lft rgt,
  (lft <= rgt)%nat -> (rgt <= length cs)%nat -> (rgt - lft < fuel)%nat -> pp_inv lft ->
  exists l', pp_loop fuel B r pred lft rgt = Some l' /\ pp_inv l'.
Proof.
  induction fuel as [|f IH]; intros lft rgt H1 H2 Hf I; [lia|].
  cbn [pp_loop]. destruct (Nat.ltb_spec lft rgt) as [Hlt|Hge].
  - pose proof (mid_bounds lft rgt Hlt) as [M1 M2].
    set (mid := Nat.div (lft + rgt) 2) in *.
    rewrite (Hget mid) by lia. rewrite (Hkey mid) by lia.
    destruct (hd mid) as [hk hs] eqn:E.
    destruct (pred hk hs) eqn:P.
    + apply IH; try lia. split; [lia|]. right.
      replace (mid + 1 - 1)%nat with mid by lia. rewrite E. exact P.
    + apply IH; try lia. exact I.
  - exists lft. split; [reflexivity|exact I].
Qed.

Lemma partition_point_ok d :
  get_binary_index_reader B d = Some r -> bin_reader_len r = Some (length cs) ->
  (0 < length cs)%nat ->
  exists idx, partition_point B d pred = Some (Some (nth idx offs 0%nat, idx)) /\
    (idx < length cs)%nat /\
    (idx = 0%nat \/ pred (fst (hd idx)) (snd (hd idx)) = true).
Proof.
  intros G L Hpos. unfold partition_point. rewrite G, L.
  destruct (Nat.eqb_spec (length cs) 0) as [E|_]; [lia|].
  destruct (pp_loop_ok (S (length cs)) 0 (length cs)) as (l' & -> & I1 & I2); try lia.
  { split; [lia|now left]. }
  destruct (Nat.eqb_spec l' 0) as [->|Hz].
  - exists 0%nat. split; [|split; [lia|now left]].
    unfold offs. destruct cs; [cbn [length] in Hpos; lia|reflexivity].
  - destruct I2 as [I2|I2]; [lia|].
    destruct (Nat.eqb_spec l' (length cs)) as [->|Hl].
    + rewrite Hget by lia. exists (length cs - 1)%nat. split; [reflexivity|]. split; [lia|now right].
    + rewrite Hget by lia. exists (l' - 1)%nat. split; [reflexivity|]. split; [lia|now right].
Qed.

End Search.

(** * J. sorted item lists *)

Lemma ikey_ltb_trans a b c : ikey_ltb a b = true -> ikey_ltb b c = true -> ikey_ltb a c = true.
Proof.
  unfold ikey_ltb. intros H1 H2.
  destruct (key_cmp (ukey a) (ukey b)) eqn:E1; try discriminate;
  destruct (key_cmp (ukey b) (ukey c)) eqn:E2; try discriminate.
  - apply key_cmp_eq in E1, E2. rewrite E1, E2, key_cmp_refl.
    apply N.ltb_lt in H1, H2. apply N.ltb_lt. lia.
  - apply key_cmp_eq in E1. rewrite E1, E2. reflexivity.
  - apply key_cmp_eq in E2. rewrite <- E2, E1. reflexivity.
  - rewrite (key_cmp_lt_trans _ _ _ E1 E2). reflexivity.
Qed.

Lemma ikey_ltb_key_le a b : ikey_ltb a b = true -> key_cmp (ukey a) (ukey b) <> Gt.
Proof. unfold ikey_ltb. destruct (key_cmp (ukey a) (ukey b)); congruence. Qed.

Lemma sorted_b_tail e l : sorted_b (e :: l) = true -> sorted_b l = true.
Proof.
  destruct l as [|e' l]; [reflexivity|]. cbn [sorted_b]. intros H.
  apply andb_true_iff in H. apply H.
Qed.

Lemma sorted_b_head : forall l e, sorted_b (e :: l) = true -> forall x, In x l -> ikey_ltb e x = true.
Proof.
  induction l as [|e' l IH]; intros e H x Hx; [destruct Hx|].
  assert (H' := H). cbn [sorted_b] in H'. apply andb_true_iff in H'. destruct H' as [H1 H2].
  destruct Hx as [<-|Hx]; [exact H1|].
  eapply ikey_ltb_trans; [exact H1|]. apply IH; assumption.
Qed.

Lemma sorted_b_app_r : forall l1 l2, sorted_b (l1 ++ l2) = true -> sorted_b l2 = true.
Proof.
  induction l1 as [|e l1 IH]; intros l2 H; [exact H|].
  apply IH. cbn [app] in H. now apply sorted_b_tail in H.
Qed.

(** skipping a sorted prefix that does not contain the key *)
Lemma scan_split k S : forall l1 l2, sorted_b (l1 ++ l2) = true ->
  (forall y, In y l1 -> ukey y <> k) -> scan_spec k S (l1 ++ l2) = scan_spec k S l2.
Proof.
  induction l1 as [|y l1 IH]; intros l2 Hs Hn; [reflexivity|].
  cbn [app scan_spec]. cbn [app] in Hs.
  destruct (key_cmp (ukey y) k) eqn:E.
  - apply key_cmp_eq in E. exfalso. apply (Hn y); [now left|exact E].
  - apply IH; [now apply sorted_b_tail in Hs|]. intros z Hz. apply Hn. now right.
  - destruct l2 as [|x l2]; [reflexivity|]. cbn [scan_spec].
    assert (Hx : ikey_ltb y x = true).
    { apply (sorted_b_head _ _ Hs). apply in_or_app. right. now left. }
    apply ikey_ltb_key_le in Hx.
    assert (G : key_cmp (ukey x) k = Gt).
    { apply key_lt_gt. apply key_lt_gt in E.
      eapply key_lt_le_trans; [exact E|exact Hx]. }
    now rewrite G.
Qed.

(** on sorted lists the scan computes the Spec's [newest] *)
Lemma scan_spec_newest k S : forall l, sorted_b l = true -> scan_spec k S l = newest k S l.
Proof.
  induction l as [|e l IH]; intros Hs; [reflexivity|].
  pose proof (sorted_b_tail _ _ Hs) as Hl. specialize (IH Hl).
  pose proof (sorted_b_head _ _ Hs) as Hh.
  cbn [scan_spec newest].
  destruct (key_cmp (ukey e) k) eqn:E.
  - pose proof E as E'. apply key_cmp_eq in E'.
    destruct (N.leb_spec S (seq e)) as [Hle|Hlt].
    + assert (M : matches k S e = false).
      { apply not_true_iff_false. rewrite matches_iff. lia. }
      rewrite M. exact IH.
    + assert (M : matches k S e = true) by (apply matches_iff; split; [exact E'|lia]).
      rewrite M.
      destruct (newest k S l) as [e'|] eqn:R; [|reflexivity].
      destruct (newest_some _ _ _ _ R) as [Hin Hm]. apply matches_iff in Hm. destruct Hm as [Hk _].
      specialize (Hh e' Hin). unfold ikey_ltb in Hh. rewrite E', Hk, key_cmp_refl in Hh.
      now rewrite Hh.
  - assert (M : matches k S e = false).
    { apply not_true_iff_false. rewrite matches_iff. intros [X _]. rewrite X, key_cmp_refl in E.
      discriminate. }
    rewrite M. exact IH.
  - assert (M : matches k S e = false).
    { apply not_true_iff_false. rewrite matches_iff. intros [X _]. rewrite X, key_cmp_refl in E.
      discriminate. }
    rewrite M. symmetry. apply newest_none. intros x Hx.
    apply not_true_iff_false. rewrite matches_iff. intros [X _].
    specialize (Hh x Hx). apply ikey_ltb_key_le in Hh. rewrite X in Hh. apply Hh.
    apply key_lt_gt. apply key_lt_gt in E. exact E.
Qed.

(** * K. the binary-search path of [point_read] *)

Lemma chunked_skipn n : forall j cs, chunked n cs -> chunked n (skipn j cs).
Proof.
  induction j as [|j IH]; intros cs C; [exact C|].
  destruct cs as [|c cs]; [exact I|]. cbn [skipn]. apply IH.
  cbn [chunked] in C. destruct cs; [exact I|apply C].
Qed.

Lemma Forall_skipn {A} (P : A -> Prop) j l : Forall P l -> Forall P (skipn j l).
Proof.
  intros H. apply Forall_forall. intros x Hx. rewrite Forall_forall in H. apply H.
  rewrite <- (firstn_skipn j l). apply in_or_app. now right.
Qed.

Lemma concat_skipn_le {A} j (cs : list (list A)) : (length (concat (skipn j cs)) <= length (concat cs))%nat.
Proof.
  rewrite <- (firstn_skipn j cs) at 2. rewrite concat_app, app_length. lia.
Qed.

Lemma pr_from_peeked_ok B d k S p e st l :
  item_ok B p e -> stream_ok B d st l -> (length l < Datatypes.S (length B))%nat ->
  pr_from_peeked B d k S p st = Some (scan_spec k S (e :: l)).
Proof.
  intros OK St F. unfold pr_from_peeked. rewrite (pr_item_ok _ _ _ _ _ OK). cbn [scan_spec].
  destruct (key_cmp (ukey e) k); try reflexivity.
  - destruct (S <=? seq e); [|reflexivity]. now apply pr_loop_stream.
  - now apply pr_loop_stream.
Qed.

Section PointRead.
Variable hash : key -> N.
Variables (ri nb : N) (cs : list (list entry)) (B : list N).
Hypothesis F : block_facts hash ri nb cs B.
Hypothesis Hri : 0 < ri.
Hypothesis Hck : chunked (N.to_nat ri) cs.
Hypothesis Hwf : Forall (Forall item_wf) cs.
Hypothesis Hne : cs <> [].
Hypothesis Hsorted : sorted_b (concat cs) = true.

Let offs := offs_of 0 cs.

Lemma cs_len_pos : (0 < length cs)%nat.
Proof. destruct cs; [congruence|cbn [length]; lia]. Qed.

(** the stream that starts at restart interval [j] *)
Lemma stream_from_restart d st rest j off :
  d_ri d = N.to_nat ri -> B = data_of cs ++ TRAILER_START_MARKER :: rest ->
  (j < length cs)%nat -> lo_rem st = 0%nat -> hi_base st = None ->
  off = nth j offs 0%nat ->
  stream_ok B d (mkD off (lo_rem st) (lo_base st) (hi_off st) (hi_idx st) (hi_stack st) (hi_base st))
    (concat (skipn j cs)) /\
  (length (concat (skipn j cs)) < S (length B))%nat.
Proof.
  intros Dri EB Hj R Hb ->. split.
  - apply stream_chunks with (rest := rest); cbn [lo_off lo_rem hi_base]; auto.
    + rewrite Dri. lia.
    + rewrite Dri. now apply chunked_skipn.
    + now apply Forall_skipn.
    + now apply restart_at.
  - pose proof (concat_skipn_le j cs). pose proof (concat_le_data cs).
    assert (LB := f_equal (@length N) EB). rewrite app_length in LB. lia.
Qed.

Lemma pr_binary_ok k S : pr_binary B k S = Some (scan_spec k S (concat cs)).
Proof.
  pose proof (reader_facts hash ri nb cs B F) as RF. cbv zeta in RF.
  destruct RF as (d & st & r & rest & Dn & Dri & O & R & Hb & EB & G & L & Hget).
  unfold pr_binary. rewrite Dn. unfold iter_seek, dec_seek.
  pose proof cs_len_pos as Hpos.
  pose proof (partition_point_ok cs B r (fun hk _ => key_ltb hk k) Hget
              (fun j Hj => head_at (N.to_nat ri) cs B rest j ltac:(lia) Hck Hwf EB Hj)
              d G L Hpos) as PP. cbv zeta in PP.
  destruct PP as (idx & -> & Hidx & Hp).
  destruct (stream_from_restart d st rest idx _ Dri EB Hidx R Hb eq_refl) as [St Fu].
  (* everything before restart [idx] is smaller than the needle *)
  assert (Hskip : scan_spec k S (concat cs) = scan_spec k S (concat (skipn idx cs))).
  { rewrite <- (firstn_skipn idx cs) at 1. rewrite concat_app.
    apply scan_split.
    - rewrite <- concat_app, firstn_skipn. exact Hsorted.
    - intros y Hy. destruct Hp as [->|Hp]; [destruct Hy|].
      cbv beta in Hp. cbn [fst] in Hp.
      rewrite (skipn_nth_cons [] cs idx Hidx) in *.
      assert (Hin : In (nth idx cs []) cs) by (now apply nth_In).
      pose proof (chunked_nonempty (N.to_nat ri) ltac:(lia) cs _ Hck Hin) as Hne'.
      destruct (nth idx cs []) as [|h t] eqn:Eh; [congruence|]. cbn [chunk_head fst] in Hp.
      assert (Hs : sorted_b (concat (firstn idx cs) ++ concat (skipn idx cs)) = true)
        by (rewrite <- concat_app, firstn_skipn; exact Hsorted).
      rewrite (skipn_nth_cons [] cs idx Hidx), Eh in Hs. cbn [concat app] in Hs.
      assert (Hyh : ikey_ltb y h = true).
      { clear -Hs Hy. revert Hs Hy. generalize (concat (firstn idx cs)) as l1.
        induction l1 as [|z l1 IH]; intros Hs Hy; [destruct Hy|].
        destruct Hy as [<-|Hy].
        - apply (sorted_b_head _ _ Hs). apply in_or_app. right. now left.
        - apply IH; [|exact Hy]. cbn [app] in Hs. now apply sorted_b_tail in Hs. }
      apply ikey_ltb_key_le in Hyh. apply key_ltb_lt in Hp.
      intros Ey. rewrite Ey in Hyh. apply (key_lt_irrefl (ukey h)).
      eapply key_lt_le_trans; [exact Hp|exact Hyh]. }
  rewrite Hskip. unfold offs in *.
  destruct (seek_loop_stream B d k S _ _ _ St Fu) as
    [[A1 A2]|(p & st' & e & l' & A1 & A2 & A3 & A4 & A5 & A6)].
  - rewrite A1, A2. reflexivity.
  - rewrite A1, A5. now apply pr_from_peeked_ok.
Qed.

End PointRead.

(** * L. the hash index *)

Lemma nth_set_nth : forall l i j x, (j < length l)%nat ->
  nth i (set_nth j x l) 0 = if Nat.eqb i j then x else nth i l 0.
Proof.
  induction l as [|y l IH]; intros i j x Hj; [cbn [length] in Hj; lia|].
  destruct j as [|j]; destruct i as [|i]; cbn [set_nth nth Nat.eqb]; try reflexivity.
  apply IH. cbn [length] in Hj. lia.
Qed.

Definition bstep (v j : N) : N :=
  if v =? 255 then v else if v =? 254 then j else if v =? j then v else 255.

Lemma bstep_254 v j : j < 254 -> bstep v j <> 254.
Proof.
  intros Hj. unfold bstep.
  destruct (N.eqb_spec v 255); [lia|]. destruct (N.eqb_spec v 254); [lia|].
  destruct (N.eqb_spec v j); lia.
Qed.

Lemma bstep_lt v j w : bstep v j = w -> w < 254 -> j = w /\ (v = 254 \/ v = w).
Proof.
  unfold bstep. intros H Hw.
  destruct (N.eqb_spec v 255); [lia|]. destruct (N.eqb_spec v 254); [lia|].
  destruct (N.eqb_spec v j); lia.
Qed.

Fixpoint tag_chunks (j : N) (cs : list (list entry)) : list (entry * N) :=
  match cs with
  | [] => []
  | c :: cs' => map (fun e => (e, j)) c ++ tag_chunks (j + 1) cs'
  end.

Lemma tag_chunks_in : forall cs j0 i c e, nth_error cs i = Some c -> In e c ->
  In (e, j0 + N.of_nat i) (tag_chunks j0 cs).
Proof.
  induction cs as [|c0 cs IH]; intros j0 i c e Hn He; [destruct i; discriminate|].
  cbn [tag_chunks]. apply in_or_app. destruct i as [|i].
  - left. cbn [nth_error] in Hn. inversion Hn; subst. rewrite N.add_0_r.
    apply (in_map (fun e => (e, j0))). exact He.
  - right. cbn [nth_error] in Hn. replace (j0 + N.of_nat (S i)) with (j0 + 1 + N.of_nat i) by lia.
    eapply IH; eauto.
Qed.

Lemma tag_chunks_bound : forall cs j0 x, In x (tag_chunks j0 cs) ->
  exists i, (i < length cs)%nat /\ snd x = j0 + N.of_nat i.
Proof.
  induction cs as [|c0 cs IH]; intros j0 x H; [destruct H|].
  cbn [tag_chunks] in H. apply in_app_or in H. destruct H as [H|H].
  - apply in_map_iff in H. destruct H as (e & <- & _). exists 0%nat. cbn [length snd]. split; lia.
  - destruct (IH _ _ H) as (i & Hi & E). exists (S i). cbn [length]. split; lia.
Qed.

Lemma in_concat_firstn {A} : forall n (cs : list (list A)) y, In y (concat (firstn n cs)) ->
  exists i c, (i < n)%nat /\ nth_error cs i = Some c /\ In y c.
Proof.
  induction n as [|n IH]; intros cs y H; [destruct H|].
  destruct cs as [|c cs]; [destruct H|]. cbn [firstn concat] in H.
  apply in_app_or in H. destruct H as [H|H].
  - exists 0%nat, c. repeat split; [lia|exact H].
  - destruct (IH _ _ H) as (i & c' & Hi & Hn & Hy). exists (S i), c'. repeat split; [lia|exact Hn|exact Hy].
Qed.

Section HashIdx.
Variable hash : key -> N.

Lemma bucket_position_lt k n : (0 < n)%nat -> (bucket_position hash k n < n)%nat.
Proof.
  intros Hn. unfold bucket_position.
  assert (hash k mod N.of_nat n < N.of_nat n) by (apply N.mod_lt; lia). lia.
Qed.

Lemma hset_nth h k j b : (0 < length h)%nat -> j < 254 ->
  nth b (hset hash h k j) 0 =
  if Nat.eqb b (bucket_position hash k (length h)) then bstep (nth b h 0) j else nth b h 0.
Proof.
  intros Hl Hj. unfold hset.
  assert (G1 : 0 <? N.of_nat (length h) = true) by (apply N.ltb_lt; lia).
  assert (G2 : j <? MAX_POINTERS_FOR_HASH_INDEX = true) by (apply N.ltb_lt; exact Hj).
  rewrite G1, G2. cbn [andb]. unfold hash_set.
  set (bp := bucket_position hash k (length h)).
  assert (Hbp : (bp < length h)%nat) by (apply bucket_position_lt; exact Hl).
  unfold MARKER_CONFLICT, MARKER_FREE, bstep.
  destruct (Nat.eqb_spec b bp) as [->|Hne].
  - destruct (N.eqb_spec (nth bp h 0) 255) as [E1|E1]; [reflexivity|].
    destruct (N.eqb_spec (nth bp h 0) 254) as [E2|E2].
    + rewrite nth_set_nth by exact Hbp. now rewrite Nat.eqb_refl.
    + destruct (N.eqb_spec (nth bp h 0) j) as [E3|E3]; [reflexivity|].
      rewrite nth_set_nth by exact Hbp. now rewrite Nat.eqb_refl.
  - assert (X : Nat.eqb b bp = false) by (now apply Nat.eqb_neq).
    destruct (nth bp h 0 =? 255); [reflexivity|].
    destruct (nth bp h 0 =? 254); [rewrite nth_set_nth by exact Hbp; now rewrite X|].
    destruct (nth bp h 0 =? j); [reflexivity|].
    rewrite nth_set_nth by exact Hbp. now rewrite X.
Qed.

Definition hash_tagged (h : list N) (l : list (entry * N)) : list N :=
  fold_left (fun h (x : entry * N) => hset hash h (ukey (fst x)) (snd x)) l h.

Lemma hash_chunks_tagged : forall cs h j, hash_chunks hash h j cs = hash_tagged h (tag_chunks j cs).
Proof.
  induction cs as [|c cs IH]; intros h j; [reflexivity|].
  cbn [hash_chunks tag_chunks]. unfold hash_tagged. rewrite fold_left_app.
  fold (hash_tagged (fold_left (fun h (x : entry * N) => hset hash h (ukey (fst x)) (snd x))
                               (map (fun e => (e, j)) c) h) (tag_chunks (j + 1) cs)).
  rewrite <- IH. f_equal. unfold hash_chunk.
  clear. revert h. induction c as [|e c IHc]; intros h; [reflexivity|].
  cbn [map fold_left fst snd]. apply IHc.
Qed.

Lemma hash_tagged_length l : forall h, length (hash_tagged h l) = length h.
Proof.
  induction l as [|x l IH]; intros h; [reflexivity|].
  unfold hash_tagged in *. cbn [fold_left]. rewrite IH. apply hset_length.
Qed.

Lemma hash_tagged_bucket b : forall l h, (0 < length h)%nat ->
  (forall x, In x l -> snd x < 254) ->
  (nth b (hash_tagged h l) 0 = 254 ->
     nth b h 0 = 254 /\
     forall x, In x l -> bucket_position hash (ukey (fst x)) (length h) <> b) /\
  (nth b (hash_tagged h l) 0 < 254 ->
     (nth b h 0 = nth b (hash_tagged h l) 0 \/
      (nth b h 0 = 254 /\ exists x, In x l /\ snd x = nth b (hash_tagged h l) 0)) /\
     forall x, In x l -> bucket_position hash (ukey (fst x)) (length h) = b ->
               snd x = nth b (hash_tagged h l) 0).
Proof.
  induction l as [|x l IH]; intros h Hl Ht.
  - cbn [hash_tagged fold_left]. split.
    + intros E. split; [exact E|]. intros x [].
    + intros E. split; [now left|]. intros x [].
  - unfold hash_tagged. cbn [fold_left].
    set (h1 := hset hash h (ukey (fst x)) (snd x)).
    fold (hash_tagged h1 l).
    assert (L1 : length h1 = length h) by apply hset_length.
    assert (Hx : snd x < 254) by (apply Ht; now left).
    specialize (IH h1 ltac:(lia) (fun y Hy => Ht y (or_intror Hy))).
    rewrite L1 in IH. destruct IH as [IHa IHb].
    pose proof (hset_nth h (ukey (fst x)) (snd x) b Hl Hx) as V1. fold h1 in V1.
    set (v' := nth b (hash_tagged h1 l) 0) in *.
    split.
    + intros E. destruct (IHa E) as [E1 Hn]. rewrite E1 in V1.
      destruct (Nat.eqb_spec b (bucket_position hash (ukey (fst x)) (length h))) as [Eb|Eb].
      * exfalso. symmetry in V1. revert V1. apply bstep_254. exact Hx.
      * split; [now symmetry|]. intros y [<-|Hy]; [congruence|now apply Hn].
    + intros E. destruct (IHb E) as [E1 Hn].
      destruct (Nat.eqb_spec b (bucket_position hash (ukey (fst x)) (length h))) as [Eb|Eb].
      * assert (V : nth b h1 0 = v').
        { destruct E1 as [E1|[E1 _]]; [exact E1|].
          exfalso. rewrite E1 in V1. symmetry in V1. revert V1. apply bstep_254. exact Hx. }
        rewrite V in V1. symmetry in V1. destruct (bstep_lt _ _ _ V1 E) as [J Hv].
        split.
        -- destruct Hv as [Hv|Hv]; [right|now left]. split; [exact Hv|].
           exists x. split; [now left|exact J].
        -- intros y [<-|Hy] Hb; [exact J|now apply Hn].
      * split.
        -- destruct E1 as [E1|[E1 (y & Hy & Ey)]].
           ++ left. congruence.
           ++ right. split; [congruence|]. exists y. split; [now right|exact Ey].
        -- intros y [<-|Hy] Hb; [congruence|now apply Hn].
Qed.

End HashIdx.

(** * M. THEOREM 3: [point_read] through all three paths *)

Lemma nth_repeat_free b n : (b < n)%nat -> nth b (repeat MARKER_FREE n) 0 = 254.
Proof.
  revert b; induction n as [|n IH]; intros b H; [lia|].
  destruct b; cbn [repeat nth]; [reflexivity|]. apply IH. lia.
Qed.

Section PointReadHash.
Variable hash : key -> N.
Variables (ri nb : N) (cs : list (list entry)) (B : list N).
Hypothesis F : block_facts hash ri nb cs B.
Hypothesis Hri : 0 < ri.
Hypothesis Hck : chunked (N.to_nat ri) cs.
Hypothesis Hwf : Forall (Forall item_wf) cs.
Hypothesis Hne : cs <> [].
Hypothesis Hsorted : sorted_b (concat cs) = true.

Theorem point_read_res_ok k S :
  point_read_res hash B k S = Some (scan_spec k S (concat cs)).
Proof.
  pose proof (pr_binary_ok hash ri nb cs B F Hri Hck Hwf Hne Hsorted k S) as PB.
  pose proof (reader_facts hash ri nb cs B F) as RF. cbv zeta in RF.
  destruct RF as (d & st & r & rest & Dn & Dri & O & R & Hb & EB & G & L & Hget).
  destruct F as (step & HI & TR & hlen & hoff & F1 & LTR & F2 & F3 & F4 & F5). cbv zeta in *.
  unfold point_read_res, get_hash_index_reader. rewrite F2. cbn [t_hashlen t_hashoff].
  destruct F5 as [[-> ->]|(Ehl & HIne & Eho & EHI & Lcs)].
  - change (0 =? 0) with true. cbv iota. exact PB.
  - assert (Hlen : (0 < length HI)%nat) by (destruct HI; [congruence|cbn [length]; lia]).
    assert (X : hlen =? 0 = false) by (apply N.eqb_neq; lia). rewrite X.
    rewrite Ehl, Eho, !Nat2N.id.
    assert (SL : slice B (length (data_of cs) + 1 + length (bin_bytes step (offs_of 0 cs)))
                   (length (data_of cs) + 1 + length (bin_bytes step (offs_of 0 cs)) + length HI)
                 = Some HI).
    { apply slice_at' with (rest := TR); [|destruct TR; [discriminate|discriminate]].
      rewrite F1 at 1.
      replace (length (data_of cs) + 1 + length (bin_bytes step (offs_of 0 cs)))%nat
        with (length ((data_of cs ++ [TRAILER_START_MARKER]) ++ bin_bytes step (offs_of 0 cs)))
        by (rewrite !app_length; reflexivity).
      change (data_of cs ++ TRAILER_START_MARKER :: bin_bytes step (offs_of 0 cs) ++ HI ++ TR)
        with (data_of cs ++ [TRAILER_START_MARKER] ++ bin_bytes step (offs_of 0 cs) ++ HI ++ TR).
      rewrite !app_assoc. rewrite <- (app_assoc _ HI TR). apply skipn_app_len. }
    rewrite SL. unfold hash_get.
    set (bk := bucket_position hash k (length HI)).
    set (m := nth bk HI 0).
    (* what the builder guarantees about bucket [bk] *)
    assert (LHI : length HI = N.to_nat nb).
    { rewrite EHI, hash_chunks_length. apply repeat_length. }
    assert (Htags : forall x, In x (tag_chunks 0 cs) -> snd x < 254).
    { intros x Hx. destruct (tag_chunks_bound _ _ _ Hx) as (i & Hi & ->). lia. }
    pose proof (hash_tagged_bucket hash bk (tag_chunks 0 cs) (repeat MARKER_FREE (N.to_nat nb))
                  ltac:(rewrite repeat_length; lia) Htags) as [BA BB].
    rewrite <- hash_chunks_tagged, <- EHI in BA, BB. fold m in BA, BB.
    rewrite repeat_length, <- LHI in BA, BB. fold bk in BA, BB.
    assert (Hbk : (bk < length HI)%nat) by (apply bucket_position_lt; exact Hlen).
    rewrite nth_repeat_free in BA, BB by lia.
    assert (Hm : m < 256).
    { assert (W : Forall (fun b => b < 256) HI).
      { rewrite EHI. apply hash_chunks_wf. apply repeat_wf. }
      rewrite Forall_forall in W. apply W. apply nth_In. exact Hbk. }
    unfold MARKER_FREE, MARKER_CONFLICT.
    destruct (N.eqb_spec m 254) as [E254|N254].
    + (* FREE: no item hashes into the bucket, so none has the key *)
      destruct (BA E254) as [_ Hnone].
      assert (Hno : forall y, In y (concat cs) -> ukey y <> k).
      { intros y Hy Ek. apply in_concat in Hy. destruct Hy as (c & Hc & Hyc).
        destruct (In_nth_error _ _ Hc) as (i & Hi).
        pose proof (tag_chunks_in cs 0 i c y Hi Hyc) as Ht.
        apply (Hnone _ Ht). cbn [fst]. now rewrite Ek. }
      rewrite <- (app_nil_r (concat cs)). rewrite scan_split.
      * reflexivity.
      * rewrite app_nil_r. exact Hsorted.
      * exact Hno.
    + destruct (N.eqb_spec m 255) as [E255|N255]; [exact PB|].
      (* a pointer to the one restart interval that may hold the key *)
      assert (Hm' : m < 254) by lia.
      destruct (BB Hm') as [Hex Hall].
      destruct Hex as [Hex|[_ (x & Hx & Ex)]]; [lia|].
      destruct (tag_chunks_bound _ _ _ Hx) as (idx & Hidx & Etag). rewrite Ex in Etag.
      assert (Eidx : N.to_nat m = idx) by lia.
      rewrite Dn, G. rewrite Eidx. rewrite (Hget idx Hidx).
      pose proof (stream_from_restart ri cs B Hri Hck Hwf d st rest idx _ Dri EB Hidx R Hb eq_refl)
        as SF. cbv zeta in SF. destruct SF as [St Fu].
      unfold set_lo_offset.
      rewrite (pr_loop_stream B d k S _ _ _ St Fu). f_equal.
      rewrite <- (firstn_skipn idx cs) at 2. rewrite concat_app. symmetry.
      apply scan_split.
      * rewrite <- concat_app, firstn_skipn. exact Hsorted.
      * intros y Hy Ek. destruct (in_concat_firstn _ _ _ Hy) as (i & c & Hi & Hn & Hyc).
        pose proof (tag_chunks_in cs 0 i c y Hn Hyc) as Ht.
        specialize (Hall _ Ht). cbn [fst snd] in Hall.
        rewrite Ek in Hall. specialize (Hall eq_refl). lia.
Qed.

End PointReadHash.

(** the items [point_read] can be asked about: sorted strictly in InternalKey order *)
Theorem datablock_point_read hash ri nb items k S :
  items <> [] -> sorted_b items = true -> items_wf items -> 1 <= ri <= 255 ->
  block_small (encode_block hash ri nb items) ->
  point_read_res hash (encode_block hash ri nb items) k S = Some (newest k S items) /\
  point_read hash (encode_block hash ri nb items) k S = newest k S items.
Proof.
  intros Hne Hs W Hri Hsm.
  pose proof (encode_block_facts hash ri nb items ltac:(lia) ltac:(lia) Hne Hsm) as F.
  assert (Hcat : concat (cs_of ri items) = items) by (apply cs_of_concat; lia).
  assert (R : point_read_res hash (encode_block hash ri nb items) k S = Some (newest k S items)).
  { rewrite <- (scan_spec_newest k S items Hs). rewrite <- Hcat at 2.
    apply point_read_res_ok with (ri := ri) (nb := nb); auto.
    - lia.
    - apply chunks_of_chunked; lia.
    - apply chunks_of_wf. exact W.
    - intros E. rewrite E in Hcat. cbn in Hcat. congruence.
    - now rewrite Hcat. }
  split; [exact R|]. unfold point_read. now rewrite R.
Qed.

(** [slab_get] (Memtable::get) is characterised by the same scan: both are [newest] on
    sorted lists (Proofs/Lookup.v [slab_get_newest]); [scan_spec] is the block-level
    counterpart. *)

(** ** What goes wrong without the side conditions *)

(** a tombstone built with a value ([InternalValue::from_components(k, v, s, Tombstone)],
    as the crate's own test [data_block_point_read_simple] does) loses the value:
    data_block/mod.rs:212 / :257 skip it. *)
Theorem datablock_roundtrip_tomb_value_refuted :
  exists hash ri nb items,
    items <> [] /\ sorted_b items = true /\ Forall entry_wf items /\ 1 <= ri <= 255 /\
    block_small (encode_block hash ri nb items) /\
    decode_all (encode_block hash ri nb items) <> Some items /\
    decode_all (encode_block hash ri nb items)
      = Some (map (fun e => if is_tomb e then mkE (ukey e) (seq e) (ty e) [] else e) items).
Proof.
  exists (fun _ => 0), 16, 0, [mkE [100] 1 Tomb [100]].
  split; [discriminate|]. split; [reflexivity|].
  split; [repeat constructor; vm_compute; try reflexivity; lia|].
  split; [lia|]. split; [vm_compute; reflexivity|].
  split; [vm_compute; discriminate|vm_compute; reflexivity].
Qed.

(** * N. Block header (block/header.rs) *)

Lemma block_type_of_tag_tag t : block_type_of_tag (block_type_tag t) = Some t.
Proof. destruct t; reflexivity. Qed.

Theorem header_roundtrip xxh h rest :
  h_checksum h < 2 ^ 128 -> h_data_length h < 2 ^ 32 -> h_uncompressed_length h < 2 ^ 32 ->
  decode_header xxh (encode_header xxh h ++ rest) = Some (h, rest).
Proof.
  intros Hc Hd Hu. unfold decode_header, encode_header.
  set (chk := write_u32_le (trunc 32 (xxh (header_body h)))).
  assert (LB : length (header_body h) = 29%nat).
  { unfold header_body. rewrite !app_length. unfold write_u8, write_u128_le, write_u32_le.
    rewrite !le_bytes_length. reflexivity. }
  assert (FB : firstn 29 ((header_body h ++ chk) ++ rest) = header_body h).
  { rewrite <- LB, <- app_assoc. apply firstn_app_len. }
  rewrite FB. unfold header_body at 1. rewrite <- !app_assoc.
  change 4%nat with (length MAGIC_BYTES). rewrite take_bytes_app.
  change (list_N_eqb MAGIC_BYTES MAGIC_BYTES) with true. cbn [negb].
  rewrite read_write_u8 by (destruct (h_type h); cbn; lia).
  rewrite block_type_of_tag_tag.
  unfold read_u128_le, write_u128_le. rewrite (le_roundtrip _ 16 _ Hc).
  unfold read_u32_le, write_u32_le. rewrite (le_roundtrip _ 4 _ Hd), (le_roundtrip _ 4 _ Hu).
  unfold chk, write_u32_le.
  rewrite le_roundtrip by (unfold trunc; apply N.mod_lt; apply pow2_nz).
  rewrite N.eqb_refl. destruct h; reflexivity.
Qed.

(** header.rs test [block_header_serde_roundtrip] (with a stand-in for xxh3) *)
Example header_ex :
  let x := fun l : list N => fold_left (fun a b => a * 257 + b) l 1 in
  let h := mkH BData 5 252356 124124124 in
  length (encode_header x h) = header_serialized_len /\
  decode_header x (encode_header x h) = Some (h, []).
Proof. vm_compute. split; reflexivity. Qed.

(** * O. Replays of the crate's unit tests (data_block/mod.rs) and instances *)

Definition oentry_eqb (a b : option entry) : bool :=
  match a, b with Some x, Some y => entry_eqb x y | None, None => true | _, _ => false end.

Fixpoint olist_eqb (a b : list (option entry)) : bool :=
  match a, b with
  | [], [] => true
  | x :: a', y :: b' => oentry_eqb x y && olist_eqb a' b'
  | _, _ => false
  end.

(** a stand-in hash; the theorems hold for every hash function *)
Definition toy_hash (k : key) : N := fold_left (fun a b => (a * 31 + b) mod 2 ^ 64) k 7.
Definition SEQNO_MAX : N := 2 ^ 64 - 1.

Definition s_pla_earth_fact : key := [112;108;97;58;101;97;114;116;104;58;102;97;99;116].
Definition s_earth : list N := [101;97;97;97;97;97;97;97;97;97;114;116;104].
Definition s_yyy : key := [121;121;121].

(** [data_block_point_read_one] *)
Example data_block_point_read_one :
  let items := [mkE s_pla_earth_fact 0 Value s_earth] in
  let B := encode_block toy_hash 16 0 items in
  block_len B = Some 1 /\ length B = 65%nat /\
  point_read toy_hash B s_pla_earth_fact SEQNO_MAX = Some (mkE s_pla_earth_fact 0 Value s_earth) /\
  point_read_res toy_hash B s_yyy SEQNO_MAX = Some None /\
  decode_all B = Some items.
Proof. vm_compute. repeat split. Qed.

(** [data_block_point_read_simple]: restart intervals 1..16; note the tombstone "d" with a
    value, which the block does not keep *)
Example data_block_point_read_simple :
  let items := [mkE [98] 0 Value [98]; mkE [99] 0 Value [99]; mkE [100] 1 Tomb [100];
                mkE [101] 0 Value [101]; mkE [102] 0 Value [102]] in
  forallb (fun ri =>
    let B := encode_block toy_hash ri 0 items in
    match point_read_res toy_hash B [97] SEQNO_MAX, point_read_res toy_hash B [98] SEQNO_MAX,
          point_read_res toy_hash B [122] SEQNO_MAX, point_read_res toy_hash B [100] SEQNO_MAX with
    | Some None, Some (Some e), Some None, Some (Some t) =>
        entry_eqb e (mkE [98] 0 Value [98]) && entry_eqb t (mkE [100] 1 Tomb [])
    | _, _, _, _ => false
    end) [1;2;3;4;5;6;7;8;9;10;11;12;13;14;15;16] = true.
Proof. vm_compute. reflexivity. Qed.

(** [data_block_point_read_dense]: restart interval 1, four binary index pointers *)
Example data_block_point_read_dense :
  let items := [mkE [97] 3 Value [97]; mkE [98] 2 Value [98]; mkE [99] 1 Value [99];
                mkE [100] 65 Value [100]] in
  let B := encode_block toy_hash 1 0 items in
  option_map t_binlen (read_trailer B) = Some 4 /\
  map (fun e => point_read toy_hash B (ukey e) SEQNO_MAX) items = map Some items /\
  point_read_res toy_hash B s_yyy SEQNO_MAX = Some None.
Proof. vm_compute. repeat split. Qed.

(** [data_block_mvcc_read_first] and [data_block_vhandle] *)
Example data_block_mvcc_read_first :
  let it := mkE [104;101;108;108;111] 0 Value [119;111;114;108;100] in
  let vh := mkE [97;98;99] 1 Ind [119;111;114;108;100] in
  forallb (fun ri =>
    match point_read toy_hash (encode_block toy_hash ri 0 [it]) (ukey it) 777,
          point_read toy_hash (encode_block toy_hash ri 0 [vh]) (ukey vh) 777,
          point_read_res toy_hash (encode_block toy_hash ri 0 [vh]) (ukey vh) 1 with
    | Some a, Some b, Some None => entry_eqb a it && entry_eqb b vh
    | _, _, _ => false
    end) [1;2;3;4;5;6;7;8;9;10;11;12;13;14;15;16] = true.
Proof. vm_compute. reflexivity. Qed.

(** [data_block_point_read_fuzz_2]: MVCC versions of one key across restart intervals *)
Example data_block_point_read_fuzz_2 :
  let items := [mkE [0] 5 Value []; mkE [0] 4 Tomb []; mkE [0] 3 Value []; mkE [0] 0 Value []] in
  let B := encode_block toy_hash 2 0 items in
  block_len B = Some 4 /\ get_hash_index_reader B = Some None /\
  map (fun e => point_read toy_hash B (ukey e) (seq e + 1)) items = map Some items /\
  point_read_res toy_hash B s_yyy SEQNO_MAX = Some None.
Proof. vm_compute. repeat split. Qed.

(** [data_block_point_read_shadowing]: hash ratio 1.33 on 5 items = 6 buckets; the newest
    version of "pla:venus:fact" is the tombstone. Also [data_block_point_read_dense_mvcc_with_hash]. *)
Example data_block_point_read_shadowing :
  let venus_fact := [112;108;97;58;118;101;110;117;115;58;102;97;99;116] in
  let items :=
    [mkE [112;108;97;58;115;97;116;117;114;110;58;102;97;99;116] 0 Value
         [83;97;116;117;114;110;32;105;115;32;112;114;101;116;116;121;32;98;105;103];
     mkE [112;108;97;58;115;97;116;117;114;110;58;110;97;109;101] 0 Value [83;97;116;117;114;110];
     mkE venus_fact 1 Tomb [];
     mkE venus_fact 0 Value [86;101;110;117;115;32;101;120;105;115;116;115];
     mkE [112;108;97;58;118;101;110;117;115;58;110;97;109;101] 0 Value [86;101;110;117;115]] in
  let B := encode_block toy_hash 16 6 items in
  option_map (option_map (@length N)) (get_hash_index_reader B) = Some (Some 6%nat) /\
  point_read toy_hash B venus_fact SEQNO_MAX = Some (mkE venus_fact 1 Tomb []) /\
  point_read toy_hash B venus_fact 1 = Some (mkE venus_fact 0 Value [86;101;110;117;115;32;101;120;105;115;116;115]) /\
  decode_all B = Some items /\
  let items2 := [mkE [97] 3 Value [97]; mkE [97] 2 Value [97]; mkE [97] 1 Value [97];
                 mkE [98] 65 Value [98]] in
  let B2 := encode_block toy_hash 1 5 items2 in
  map (fun e => point_read toy_hash B2 (ukey e) (seq e + 1)) items2 = map Some items2 /\
  point_read_res toy_hash B2 s_yyy SEQNO_MAX = Some None.
Proof. vm_compute. repeat split. Qed.

(** hash_index/mod.rs tests [hash_index_build_conflict], [_same_offset], [_mix],
    [hash_index_read_conflict] (one bucket: independent of the hash) *)
Example hash_index_tests :
  let h0 := [MARKER_FREE] in
  hash_set toy_hash (hash_set toy_hash h0 [97] 5) [98] 8 = [255] /\
  hash_set toy_hash (hash_set toy_hash h0 [97] 5) [98] 5 = [5] /\
  hash_set toy_hash (hash_set toy_hash (hash_set toy_hash h0 [97] 5) [98] 5) [99] 6 = [255] /\
  hash_get toy_hash [255] [99] = MARKER_CONFLICT /\
  hash_get toy_hash [5] [98] = 5.
Proof. vm_compute. repeat split. Qed.

(** all three paths of [point_read]: with 3 buckets the index holds CONFLICT and pointer
    entries, with 6 buckets also a FREE one (key 102 hashes there: absent without a scan) *)
Example point_read_three_paths :
  let items := [mkE [97] 9 Value [1]; mkE [97] 4 Value [2]; mkE [98] 7 Tomb []; mkE [99] 1 Value [3];
                mkE [100] 2 Value [4]; mkE [101] 3 Value [5]] in
  let probes := [97; 98; 99; 100; 101; 102; 103; 104] in
  get_hash_index_reader (encode_block toy_hash 2 3 items) = Some (Some [255; 1; 255]) /\
  get_hash_index_reader (encode_block toy_hash 2 6 items) = Some (Some [2; 254; 0; 1; 1; 2]) /\
  hash_get toy_hash [2; 254; 0; 1; 1; 2] [102] = MARKER_FREE /\
  forallb (fun nb =>
    forallb (fun k => oentry_eqb (point_read toy_hash (encode_block toy_hash 2 nb items) [k] 8)
                                 (newest [k] 8 items)) probes) [0; 3; 6] = true.
Proof. vm_compute. repeat split. Qed.

(** instances of the main theorems' hypotheses *)
Example datablock_theorems_ex :
  let items := [mkE [97] 9 Value [1]; mkE [97] 4 Value [2]; mkE [98] 7 Tomb []; mkE [99] 1 Ind [3;4]] in
  items <> [] /\ sorted_b items = true /\ forallb entry_wfb items = true /\
  block_small (encode_block toy_hash 2 5 items) /\
  bytes_wfb (encode_block toy_hash 2 5 items) = true /\
  decode_all (encode_block toy_hash 2 5 items) = Some items /\
  point_read toy_hash (encode_block toy_hash 2 5 items) [97] 9 = newest [97] 9 items.
Proof. vm_compute. repeat split; discriminate. Qed.

(** ** Reverse and mixed iteration (model only: executable, checked on instances) *)

(** [data_block_ping_pong_fuzz_1]: code [1, 0] = next_back, then next *)
Example data_block_ping_pong_fuzz_1 :
  let a := mkE [111] 8602264972526186597 Value [119] in
  let b := mkE [121;120;99] 11426548769907 Value [101;101;101;101;101;101;101;101;101;101;101] in
  ping_pong [false; true] (encode_block toy_hash 1 0 [a; b]) = Some [Some b; Some a].
Proof. vm_compute. reflexivity. Qed.

(** the decoder consumed from both ends behaves as a deque over the items: checked for
    every ping-pong code of length n+1 over n = 1..5 items and restart intervals 1..3 *)
Fixpoint deque_spec (code : list bool) (l : list entry) : list (option entry) :=
  match code with
  | [] => []
  | true :: c =>
      match l with [] => None :: deque_spec c l | x :: l' => Some x :: deque_spec c l' end
  | false :: c =>
      match rev l with [] => None :: deque_spec c l | x :: r' => Some x :: deque_spec c (rev r') end
  end.

Fixpoint all_codes (n : nat) : list (list bool) :=
  match n with O => [[]] | S n' => flat_map (fun c => [true :: c; false :: c]) (all_codes n') end.

Fixpoint mk_items (n : nat) : list entry :=
  match n with O => [] | S n' => mk_items n' ++ [mkE [97; N.of_nat n'] 0 Value [N.of_nat n']] end.

Example ping_pong_deque_bounded :
  forallb (fun n => forallb (fun ri =>
    let items := mk_items n in
    let B := encode_block toy_hash ri 0 items in
    forallb (fun c => match ping_pong c B with
                      | Some r => olist_eqb r (deque_spec c items) | None => false end)
            (all_codes (n + 1))) [1; 2; 3]) [1; 2; 3; 4; 5]%nat = true.
Proof. vm_compute. reflexivity. Qed.

Example decode_all_back_ex :
  let items := mk_items 7 in
  forallb (fun ri => match decode_all_back (encode_block toy_hash ri 0 items) with
                     | Some r => olist_eqb (map Some r) (map Some (rev items)) | None => false end)
          [1; 2; 3; 4; 7; 8; 16] = true.
Proof. vm_compute. reflexivity. Qed.

(** * P. Reverse iteration ([next_back] only) returns the items in reverse *)

Fixpoint tail_offs (h : entry) (off : nat) (t : list entry) : list nat :=
  match t with
  | [] => []
  | e :: t' => off :: tail_offs h (off + length (enc_tail h e)) t'
  end.

Lemma tail_offs_snoc h : forall t1 off e,
  tail_offs h off (t1 ++ [e]) = tail_offs h off t1 ++ [(off + length (flat_map (enc_tail h) t1))%nat].
Proof.
  induction t1 as [|x t1 IH]; intros off e.
  - cbn [app tail_offs flat_map length]. now rewrite Nat.add_0_r.
  - cbn [app tail_offs flat_map]. rewrite IH, app_length. cbn [app]. do 3 f_equal. lia.
Qed.

Lemma fill_trunc_ok B h bko :
  slice B bko (bko + length (ukey h)) = Some (ukey h) ->
  forall t n off stack TL,
  Forall item_wf t -> skipn off B = flat_map (enc_tail h) t ++ TL -> TL <> [] ->
  (length t <= n)%nat -> (length t = n \/ exists r, TL = TRAILER_START_MARKER :: r) ->
  fill_trunc n B bko off stack
  = Some ((off + length (flat_map (enc_tail h) t))%nat, stack ++ tail_offs h off t).
Proof.
  intros HB. induction t as [|e t IH]; intros n off stack TL W H HTL Hn Hend.
  - cbn [flat_map length tail_offs]. rewrite Nat.add_0_r, app_nil_r.
    destruct n as [|n]; [reflexivity|]. cbn [fill_trunc].
    destruct Hend as [Hend|[r ->]]; [cbn [length] in Hend; lia|].
    cbn [flat_map app] in H. now rewrite (parse_truncated_end _ _ _ _ H).
  - inversion W as [|? ? [We Te] Wt]; subst. cbn [length] in Hn.
    destruct n as [|n]; [lia|]. cbn [fill_trunc].
    cbn [flat_map] in H. rewrite <- app_assoc in H.
    destruct (parse_truncated_ok B off bko (ukey h) e _ We Te H (app_nonnil_r _ _ HTL) HB)
      as (p & P & _).
    fold (enc_tail h e) in P. rewrite P. apply skipn_step in H.
    rewrite (IH n _ (stack ++ [off]) TL Wt H HTL ltac:(lia)).
    + cbn [flat_map tail_offs]. rewrite app_length, <- app_assoc. cbn [app].
      f_equal. f_equal. lia.
    + destruct Hend as [Hend|Hend]; [left; cbn [length] in Hend; lia|now right].
Qed.

Fixpoint bstream_ok (B : list N) (d : decoder) (st : dstate) (l : list entry) : Prop :=
  match l with
  | [] => exists st', dec_next_back B d st = Some (None, st')
  | e :: l' =>
      exists p st', dec_next_back B d st = Some (Some p, st') /\ item_ok B p e /\
                    bstream_ok B d st' l'
  end.

Lemma dec_collect_back_stream B d : forall l st fuel,
  bstream_ok B d st l -> (length l < fuel)%nat -> dec_collect_back fuel B d st = Some l.
Proof.
  induction l as [|e l IH]; intros st fuel St Fu; (destruct fuel as [|f]; [lia|]);
    cbn [dec_collect_back].
  - destruct St as [st' ->]. reflexivity.
  - destruct St as (p & st' & -> & (M & _) & St). rewrite M.
    rewrite (IH st' f St); [reflexivity|]. cbn [length] in Fu. lia.
Qed.

Lemma chunked_nth n : forall cs j, chunked n cs -> (j < length cs)%nat ->
  length (nth j cs []) = n \/
  (S j = length cs /\ nth j cs [] <> [] /\ (length (nth j cs []) <= n)%nat).
Proof.
  induction cs as [|c cs IH]; intros j C Hj; [cbn [length] in Hj; lia|].
  cbn [chunked] in C. destruct cs as [|c' cs'].
  - destruct j; [|cbn [length] in Hj; lia]. right. cbn [nth length]. destruct C. auto.
  - destruct C as [C1 C2]. destruct j as [|j]; [left; exact C1|].
    cbn [nth]. cbn [length] in Hj.
    destruct (IH j C2 ltac:(cbn [length]; lia)) as [A|(A1 & A2 & A3)]; [now left|].
    right. cbn [length] in *. repeat split; auto; lia.
Qed.

Lemma firstn_S_nth {A} (d : A) : forall (l : list A) j, (j < length l)%nat ->
  firstn (S j) l = firstn j l ++ [nth j l d].
Proof.
  induction l as [|x l IH]; intros j Hj; [cbn [length] in Hj; lia|].
  destruct j as [|j]; [reflexivity|]. cbn [firstn nth app]. f_equal. apply IH.
  cbn [length] in Hj. lia.
Qed.

Section Back.
Variables (cs : list (list entry)) (B : list N) (d : decoder) (r : bin_reader) (rest : list N).
Let offs := offs_of 0 cs.
Hypothesis EB : B = data_of cs ++ TRAILER_START_MARKER :: rest.
Hypothesis Hri : (1 <= d_ri d)%nat.
Hypothesis Hck : chunked (d_ri d) cs.
Hypothesis Hwf : Forall (Forall item_wf) cs.
Hypothesis G : get_binary_index_reader B d = Some r.
Hypothesis Hget : forall j, (j < length cs)%nat -> bin_get r j = Some (nth j offs 0%nat).

(** the hi scanner right after [fill_stack] of restart interval [j], with [m] of its
    truncated items still on the stack *)
Definition hi_filled (st : dstate) (j : nat) (h : entry) (t1 : list entry) (bko : nat) : Prop :=
  lo_off st = 0%nat /\ hi_idx st = Some j /\ hi_base st = Some bko /\
  hi_stack st = nth j offs 0%nat
                :: tail_offs h (nth j offs 0 + length (encode_full h))%nat t1.

Lemma chunk_at j h t : (j < length cs)%nat -> nth j cs [] = h :: t ->
  exists TL, skipn (nth j offs 0%nat) B = encode_full h ++ flat_map (enc_tail h) t ++ TL /\
    TL <> [] /\ (length t <= d_ri d - 1)%nat /\
    (length t = (d_ri d - 1)%nat \/ exists r', TL = TRAILER_START_MARKER :: r').
Proof.
  intros Hj Ec. pose proof (restart_at cs B rest j EB Hj) as R.
  rewrite (skipn_nth_cons [] cs j Hj), Ec in R.
  unfold data_of in R. cbn [flat_map enc_chunk] in R. rewrite <- !app_assoc in R.
  fold (data_of (skipn (S j) cs)) in R.
  eexists. split; [exact R|]. split; [apply app_nonnil_r; discriminate|].
  destruct (chunked_nth (d_ri d) cs j Hck Hj) as [A|(A1 & A2 & A3)]; rewrite Ec in *; cbn [length] in *.
  - split; [lia|left; lia].
  - split; [lia|]. right. rewrite skipn_all2 by lia. cbn [data_of flat_map app]. eauto.
Qed.

(** popping the stack of a filled interval: the truncated items, last first, then the head *)
Lemma consume_filled_tail j h t bko t1 e t2 st :
  (j < length cs)%nat -> nth j cs [] = h :: t ->
  slice B bko (bko + length (ukey h)) = Some (ukey h) ->
  t = (t1 ++ [e]) ++ t2 -> hi_filled st j h (t1 ++ [e]) bko ->
  exists p st', consume_stack_top B st = Some (Some p, st') /\ item_ok B p e /\
                hi_filled st' j h t1 bko.
Proof.
  intros Hj Ec HB Et (L0 & Hi & Hbk & Hs).
  destruct (chunk_at j h t Hj Ec) as (TL & R & HTL & _ & _).
  assert (Wc : Forall item_wf (h :: t)).
  { rewrite <- Ec. rewrite Forall_forall in Hwf. apply Hwf. now apply nth_In. }
  pose proof (Forall_inv_tail Wc) as Wt.
  rewrite tail_offs_snoc in Hs.
  set (o := (nth j offs 0 + length (encode_full h) + length (flat_map (enc_tail h) t1))%nat) in *.
  assert (Re : skipn o B = enc_tail h e ++ (flat_map (enc_tail h) t2 ++ TL)).
  { rewrite Et in R. rewrite <- app_assoc in R. cbn [app] in R.
    rewrite flat_map_app in R. cbn [flat_map] in R. rewrite <- !app_assoc in R.
    apply skipn_step in R. apply skipn_step in R. exact R. }
  assert (We : item_wf e).
  { rewrite Forall_forall in Wt. apply Wt. rewrite Et. apply in_or_app. left.
    apply in_or_app. right. now left. }
  destruct We as [We Te].
  destruct (parse_truncated_ok B o bko (ukey h) e _ We Te Re (app_nonnil_r _ _ HTL) HB)
    as (p & P & OK).
  eexists p, _. split; [|split; [exact OK|]].
  - unfold consume_stack_top. rewrite Hs.
    rewrite app_comm_cons, rev_app_distr. cbn [rev app].
    rewrite L0. cbn [Nat.ltb Nat.leb andb]. rewrite rev_app_distr, rev_involutive. cbn [rev app].
    unfold parse_current_item. rewrite Hbk. rewrite P. reflexivity.
  - unfold hi_filled. cbn [lo_off hi_idx hi_base hi_stack]. repeat split; auto.
Qed.

Lemma consume_filled_head j h t bko st :
  (j < length cs)%nat -> nth j cs [] = h :: t -> hi_filled st j h [] bko ->
  exists p st', consume_stack_top B st = Some (Some p, st') /\ item_ok B p h /\
                lo_off st' = 0%nat /\ hi_idx st' = Some j /\ hi_stack st' = [].
Proof.
  intros Hj Ec (L0 & Hi & Hbk & Hs).
  destruct (chunk_at j h t Hj Ec) as (TL & R & HTL & _ & _).
  assert (Wc : Forall item_wf (h :: t)).
  { rewrite <- Ec. rewrite Forall_forall in Hwf. apply Hwf. now apply nth_In. }
  pose proof (Forall_inv Wc) as [Wh Th].
  cbn [tail_offs] in Hs.
  destruct (parse_full_ok B _ h _ Wh Th R (app_nonnil_r _ _ HTL)) as (p & P & OK & _).
  eexists p, _. split; [|split; [exact OK|]].
  - unfold consume_stack_top. rewrite Hs. cbn [rev app].
    rewrite L0. cbn [Nat.ltb Nat.leb andb]. unfold parse_current_item. rewrite P. reflexivity.
  - cbn [lo_off hi_idx hi_stack]. auto.
Qed.

Lemma dec_next_back_consume st p st' :
  consume_stack_top B st = Some (Some p, st') -> dec_next_back B d st = Some (Some p, st').
Proof. intros H. unfold dec_next_back. now rewrite H. Qed.

Lemma bstream_filled j h t bko l' :
  (j < length cs)%nat -> nth j cs [] = h :: t ->
  slice B bko (bko + length (ukey h)) = Some (ukey h) ->
  (forall st', lo_off st' = 0%nat -> hi_idx st' = Some j -> hi_stack st' = [] ->
               bstream_ok B d st' l') ->
  forall t1 t2 st, t = t1 ++ t2 -> hi_filled st j h t1 bko ->
  bstream_ok B d st (rev t1 ++ h :: l').
Proof.
  intros Hj Ec HB K.
  induction t1 as [|e t1 IH] using rev_ind; intros t2 st Et HF.
  - cbn [rev app bstream_ok].
    destruct (consume_filled_head j h t bko st Hj Ec HF) as (p & st' & C & OK & A1 & A2 & A3).
    exists p, st'. split; [now apply dec_next_back_consume|]. split; [exact OK|]. now apply K.
  - rewrite rev_app_distr. cbn [rev app bstream_ok].
    destruct (consume_filled_tail j h t bko t1 e t2 st Hj Ec HB Et HF) as (p & st' & C & OK & HF').
    exists p, st'. split; [now apply dec_next_back_consume|]. split; [exact OK|].
    apply (IH ([e] ++ t2)); [|exact HF']. rewrite Et, <- app_assoc. reflexivity.
Qed.

(** from an empty stack with [hi_idx = j]: the first [j] restart intervals, backwards *)
Lemma bstream_from : forall j st, (j <= length cs)%nat ->
  lo_off st = 0%nat -> hi_idx st = Some j -> hi_stack st = [] ->
  bstream_ok B d st (rev (concat (firstn j cs))).
Proof.
  induction j as [|j IH]; intros st Hj L0 Hi Hs.
  - cbn [firstn concat rev bstream_ok]. unfold dec_next_back, consume_stack_top.
    rewrite Hs. cbn [rev]. rewrite Hi. eexists. reflexivity.
  - assert (Hj' : (j < length cs)%nat) by lia.
    assert (Hin : In (nth j cs []) cs) by (now apply nth_In).
    pose proof (chunked_nonempty (d_ri d) Hri cs _ Hck Hin) as Hne.
    destruct (nth j cs []) as [|h t] eqn:Ec; [congruence|].
    assert (E : concat (firstn (S j) cs) = concat (firstn j cs) ++ (h :: t)).
    { rewrite (firstn_S_nth [] cs j Hj'), concat_app, Ec. cbn [concat]. now rewrite app_nil_r. }
    rewrite E, rev_app_distr. cbn [rev]. rewrite <- app_assoc. cbn [app].
    destruct (chunk_at j h t Hj' Ec) as (TL & R & HTL & Hlen & Hend).
    assert (Wc : Forall item_wf (h :: t)).
    { rewrite Forall_forall in Hwf. apply Hwf. exact Hin. }
    pose proof (Forall_inv Wc) as [Wh Th]. pose proof (Forall_inv_tail Wc) as Wt.
    destruct (parse_full_ok B _ h _ Wh Th R (app_nonnil_r _ _ HTL)) as (p & P & _ & HK).
    (* the state after [fill_stack] *)
    set (st2 := mkD (lo_off st) (lo_rem st) (lo_base st) (hi_off st) (Some j) (hi_stack st) (hi_base st)).
    assert (FS : exists st3, fill_stack B d st2 = Some st3 /\ hi_filled st3 j h t (fst (p_key p))).
    { unfold fill_stack. cbn [hi_idx st2]. rewrite G, (Hget j Hj'), P.
      pose proof R as R'. apply skipn_step in R'.
      rewrite (fill_trunc_ok B h _ HK t (d_ri d - 1) _ _ TL Wt R' HTL Hlen Hend).
      eexists. split; [reflexivity|]. unfold hi_filled. cbn [lo_off hi_idx hi_base hi_stack st2].
      rewrite Hs. repeat split; auto. }
    destruct FS as (st3 & FS & HF).
    assert (K : forall st', lo_off st' = 0%nat -> hi_idx st' = Some j -> hi_stack st' = [] ->
                bstream_ok B d st' (rev (concat (firstn j cs)))).
    { intros st' A1 A2 A3. apply IH; auto. lia. }
    (* the first call refills and pops in one go: [dec_next_back st = consume_stack_top st3] *)
    assert (X : dec_next_back B d st = consume_stack_top B st3).
    { unfold dec_next_back at 1. unfold consume_stack_top at 1. rewrite Hs. cbn [rev].
      rewrite Hi. fold st2. now rewrite FS. }
    destruct t as [|e0 t0] using rev_ind.
    + cbn [rev app bstream_ok].
      destruct (consume_filled_head j h [] _ st3 Hj' Ec HF) as (p1 & st' & C & OK & A1 & A2 & A3).
      exists p1, st'. split; [now rewrite X|]. split; [exact OK|]. now apply K.
    + clear IHt0. rewrite rev_app_distr. cbn [rev app bstream_ok].
      destruct (consume_filled_tail j h (t0 ++ [e0]) _ t0 e0 [] st3 Hj' Ec HK
                  ltac:(now rewrite app_nil_r) HF) as (p1 & st' & C & OK & HF').
      exists p1, st'. split; [now rewrite X|]. split; [exact OK|].
      apply (bstream_filled j h (t0 ++ [e0]) (fst (p_key p)) _ Hj' Ec HK K t0 [e0] st' eq_refl HF').
Qed.

End Back.

Theorem datablock_roundtrip_back hash ri nb items :
  items <> [] -> items_wf items -> 1 <= ri <= 255 ->
  block_small (encode_block hash ri nb items) ->
  decode_all_back (encode_block hash ri nb items) = Some (rev items).
Proof.
  intros Hne W Hri Hs.
  pose proof (encode_block_facts hash ri nb items ltac:(lia) ltac:(lia) Hne Hs) as F.
  set (B := encode_block hash ri nb items) in *.
  pose proof (reader_facts hash ri nb _ B F) as RF. cbv zeta in RF.
  destruct RF as (d & st & r & rest & Dn & Dri & O & R & Hb & EB & G & L & Hget).
  assert (Hcat : concat (cs_of ri items) = items) by (apply cs_of_concat; lia).
  unfold decode_all_back. rewrite Dn.
  assert (Hst : hi_idx st = Some (length (cs_of ri items)) /\ hi_stack st = []).
  { unfold decoder_new in Dn. destruct (read_trailer B) as [t|] eqn:T; [|discriminate].
    inversion Dn; subst. cbn [hi_idx hi_stack t_binlen].
    destruct F as (step & HI & TR & hlen & hoff & F1 & LTR & F2 & _). cbv zeta in F2.
    rewrite F2 in T. inversion T; subst. cbn [t_binlen]. rewrite Nat2N.id. split; reflexivity. }
  destruct Hst as [Hi Hstk].
  apply dec_collect_back_stream.
  - rewrite <- Hcat at 1. rewrite <- (firstn_all (cs_of ri items)) at 1.
    apply bstream_from with (r := r) (rest := rest); auto.
    + rewrite Dri. lia.
    + rewrite Dri. apply chunks_of_chunked; lia.
    + apply chunks_of_wf. exact W.
  - rewrite rev_length.
    pose proof (concat_le_data (cs_of ri items)) as LD. rewrite Hcat in LD.
    assert (LB := f_equal (@length N) EB). rewrite app_length in LB. lia.
Qed.

Print Assumptions compare_prefixed_slice_spec.
Print Assumptions longest_shared_prefix_length_spec.
Print Assumptions encode_bytes_wf.
Print Assumptions datablock_roundtrip.
Print Assumptions datablock_point_read.
Print Assumptions datablock_roundtrip_tomb_value_refuted.
Print Assumptions header_roundtrip.
Print Assumptions datablock_roundtrip_back.
