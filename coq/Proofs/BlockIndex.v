(** Point reads, ranged iteration and the compaction scanner over a table made of data
    blocks + a block index (Model/BlockIndex.v) are exact for EVERY way of cutting a
    strictly InternalKey-sorted entry list into non-empty blocks (and, for the two-level
    index, every way of cutting the handle list into non-empty index partitions).

    Structure
    - A. list toolbox: [dropW] / [take_through] windows, once-false predicates
    - B. the binary search of [partition_point_2] is the linear first-false position
    - C. one index block iterator is a window of its handle list
    - D. the three block-index iterators are deques over the same window ([IRep], [steps_ok])
    - E. the writer's index and the blocks; what the window means for the entries
    - F. Table::get / point_read
    - G. Table::range (next / next_back in any interleaving)
    - H. Table::scan
    - I. the flat table of Model/Tree.v, main theorems, examples *)
From LsmV Require Import Model.Range Model.BlockIndex Proofs.Newest Proofs.Lookup.
From Coq Require Import Arith PeanoNat Sorting.Sorted.
Open Scope N_scope.

Arguments N.add : simpl never.
Arguments N.sub : simpl never.
Arguments N.mul : simpl never.
Arguments N.ltb : simpl never.
Arguments N.leb : simpl never.
Arguments N.eqb : simpl never.
Arguments N.modulo : simpl never.
Arguments N.pow : simpl never.

(** * A. List toolbox *)

Section Lists.
Context {A : Type}.

Fixpoint dropW (f : A -> bool) (l : list A) : list A :=
  match l with
  | [] => []
  | x :: l' => if f x then dropW f l' else l
  end.

(** keep the elements up to AND INCLUDING the first one where [g] fails *)
Fixpoint take_through (g : A -> bool) (l : list A) : list A :=
  match l with
  | [] => []
  | x :: l' => if g x then x :: take_through g l' else [x]
  end.

(** length of the leading run on which [f] holds *)
Fixpoint ffalse (f : A -> bool) (l : list A) : nat :=
  match l with
  | [] => O
  | x :: l' => if f x then S (ffalse f l') else O
  end.

Lemma ffalse_le f l : (ffalse f l <= length l)%nat.
Proof. induction l as [|x l IH]; cbn; [lia|]. destruct (f x); cbn; lia. Qed.

Lemma dropW_skipn f l : dropW f l = skipn (ffalse f l) l.
Proof. induction l as [|x l IH]; cbn; [reflexivity|]. destruct (f x); cbn; auto. Qed.

Lemma take_through_firstn g l : take_through g l = firstn (S (ffalse g l)) l.
Proof.
  induction l as [|x l IH]; [reflexivity|]. cbn [take_through ffalse].
  destruct (g x).
  - rewrite IH. reflexivity.
  - cbn. reflexivity.
Qed.

Lemma ffalse_firstn f n l : ffalse f (firstn n l) = Nat.min (ffalse f l) n.
Proof.
  revert n; induction l as [|x l IH]; intros n.
  - rewrite firstn_nil. cbn. reflexivity.
  - destruct n as [|n]; cbn [firstn ffalse].
    + lia.
    + destruct (f x); [|reflexivity]. rewrite IH. reflexivity.
Qed.

(** the index-position form of a window: skip [p], then keep up to position [q] *)
Lemma window_positions f g l :
  dropW f (take_through g l) =
  firstn (S (ffalse g l) - ffalse f l) (skipn (ffalse f l) l).
Proof.
  rewrite take_through_firstn, dropW_skipn, ffalse_firstn.
  set (p := ffalse f l). set (q := S (ffalse g l)).
  rewrite skipn_firstn_comm.
  destruct (Nat.le_gt_cases p q) as [H|H].
  - rewrite Nat.min_l by exact H. reflexivity.
  - rewrite Nat.min_r by lia.
    replace (q - q)%nat with O by lia. replace (q - p)%nat with O by lia. reflexivity.
Qed.

Lemma dropW_In f l x : In x (dropW f l) -> In x l.
Proof.
  induction l as [|y l IH]; cbn; [tauto|]. destruct (f y); cbn; [auto|tauto].
Qed.

Lemma take_through_In g l x : In x (take_through g l) -> In x l.
Proof.
  induction l as [|y l IH]; cbn; [tauto|]. destruct (g y); cbn; [|tauto].
  intros [H|H]; auto.
Qed.

Lemma dropW_all f l : (forall x, In x l -> f x = true) -> dropW f l = [].
Proof.
  induction l as [|y l IH]; intros H; cbn; [reflexivity|].
  rewrite (H y (or_introl eq_refl)). apply IH. intros x Hx. apply H. now right.
Qed.

Lemma dropW_nil_all f l : dropW f l = [] -> forall x, In x l -> f x = true.
Proof.
  induction l as [|y l IH]; cbn; [tauto|]. destruct (f y) eqn:E; [|discriminate].
  intros H x [<-|Hx]; auto.
Qed.

Lemma dropW_head_false f l x r : dropW f l = x :: r -> f x = false.
Proof.
  induction l as [|y l IH]; cbn; [discriminate|]. destruct (f y) eqn:E; [exact IH|].
  intros H. inversion H; subst. exact E.
Qed.

Lemma dropW_id f l : match l with [] => True | x :: _ => f x = false end -> dropW f l = l.
Proof. destruct l as [|x l]; cbn; [reflexivity|]. intros ->. reflexivity. Qed.

Lemma take_through_all g l : (forall x, In x l -> g x = true) -> take_through g l = l.
Proof.
  induction l as [|y l IH]; intros H; cbn; [reflexivity|].
  rewrite (H y (or_introl eq_refl)). f_equal. apply IH. intros x Hx. apply H. now right.
Qed.

Lemma take_through_nonempty g l : l <> [] -> take_through g l <> [].
Proof. destruct l as [|x l]; [congruence|]. cbn. destruct (g x); discriminate. Qed.

Lemma take_through_app_all g a b :
  (forall x, In x a -> g x = true) -> take_through g (a ++ b) = a ++ take_through g b.
Proof.
  induction a as [|y a IH]; intros H; cbn; [reflexivity|].
  rewrite (H y (or_introl eq_refl)). f_equal. apply IH. intros x Hx. apply H. now right.
Qed.

Lemma take_through_app_stop g a b :
  (exists x, In x a /\ g x = false) -> take_through g (a ++ b) = take_through g a.
Proof.
  induction a as [|y a IH]; intros (x & Hx & Ex); [contradiction|]. cbn.
  destruct (g y) eqn:E; [|reflexivity]. f_equal. apply IH.
  destruct Hx as [->|Hx]; [congruence|]. exists x. auto.
Qed.

Lemma dropW_app_all f a b :
  (forall x, In x a -> f x = true) -> dropW f (a ++ b) = dropW f b.
Proof.
  induction a as [|y a IH]; intros H; cbn; [reflexivity|].
  rewrite (H y (or_introl eq_refl)). apply IH. intros x Hx. apply H. now right.
Qed.

Lemma dropW_app_stop f a b :
  (exists x, In x a /\ f x = false) -> dropW f (a ++ b) = dropW f a ++ b.
Proof.
  induction a as [|y a IH]; intros (x & Hx & Ex); [contradiction|]. cbn.
  destruct (f y) eqn:E; [|reflexivity]. apply IH.
  destruct Hx as [->|Hx]; [congruence|]. exists x. auto.
Qed.

Lemma dropW_ext_in f f' l : (forall x, In x l -> f x = f' x) -> dropW f l = dropW f' l.
Proof.
  induction l as [|y l IH]; intros H; cbn; [reflexivity|].
  rewrite <- (H y (or_introl eq_refl)). destruct (f y); [|reflexivity].
  apply IH. intros x Hx. apply H. now right.
Qed.

Lemma take_through_ext_in g g' l :
  (forall x, In x l -> g x = g' x) -> take_through g l = take_through g' l.
Proof.
  induction l as [|y l IH]; intros H; cbn; [reflexivity|].
  rewrite <- (H y (or_introl eq_refl)). destruct (g y); [|reflexivity].
  f_equal. apply IH. intros x Hx. apply H. now right.
Qed.

(** the last element of a take_through is the first failure, or the last element *)
Lemma take_through_last g l d :
  l <> [] ->
  (g (last (take_through g l) d) = false) \/
  (take_through g l = l /\ forall x, In x l -> g x = true).
Proof.
  induction l as [|y l IH]; intros Hne; [congruence|]. cbn [take_through].
  destruct (g y) eqn:E.
  - destruct l as [|z l].
    + right. cbn. split; [reflexivity|]. intros x [<-|[]]. exact E.
    + destruct (IH ltac:(discriminate)) as [H|[H1 H2]].
      * left. cbn [take_through] in *. destruct (g z); cbn [last] in *; exact H.
      * right. split; [now rewrite H1|]. intros x [<-|Hx]; auto.
  - left. cbn. exact E.
Qed.

Lemma last_indep (l : list A) d d' : l <> [] -> last l d = last l d'.
Proof.
  induction l as [|x l IH]; [congruence|]. intros _. destruct l as [|y l]; [reflexivity|].
  cbn [last]. apply IH. discriminate.
Qed.

Lemma last_In (l : list A) d : l <> [] -> In (last l d) l.
Proof.
  induction l as [|x l IH]; [congruence|]. intros _. destruct l as [|y l]; [now left|].
  right. apply IH. discriminate.
Qed.

Lemma last_app_ne (a b : list A) d : b <> [] -> last (a ++ b) d = last b d.
Proof.
  intros Hb. induction a as [|x a IH]; [reflexivity|]. cbn [app].
  destruct (a ++ b) eqn:E; [|exact IH].
  destruct a; cbn in E; [congruence|discriminate].
Qed.

Lemma rev_last_removelast (l : list A) d :
  l <> [] -> rev l = last l d :: rev (removelast l).
Proof.
  intros H. destruct (exists_last H) as (l' & a & ->).
  rewrite rev_app_distr, last_last, removelast_last. reflexivity.
Qed.

Lemma rev_cons_inv (l : list A) x r : rev l = x :: r -> l = rev r ++ [x].
Proof. intros H. rewrite <- (rev_involutive l), H. reflexivity. Qed.

End Lists.

Lemma dropW_map {A B} (f : B -> bool) (phi : A -> B) l :
  dropW f (map phi l) = map phi (dropW (fun x => f (phi x)) l).
Proof. induction l as [|x l IH]; cbn; [reflexivity|]. destruct (f (phi x)); auto. Qed.

Lemma take_through_map {A B} (g : B -> bool) (phi : A -> B) l :
  take_through g (map phi l) = map phi (take_through (fun x => g (phi x)) l).
Proof.
  induction l as [|x l IH]; cbn; [reflexivity|]. destruct (g (phi x)); cbn; [now rewrite IH|reflexivity].
Qed.

(** ** Strongly sorted lists *)

Lemma SS_impl {A} (R R' : A -> A -> Prop) l :
  (forall x y, R x y -> R' x y) -> StronglySorted R l -> StronglySorted R' l.
Proof.
  intros H. induction 1 as [|x l SS IH FA]; constructor; auto.
  eapply Forall_impl; [|exact FA]. intros y. apply H.
Qed.

Lemma SS_app {A} (R : A -> A -> Prop) a b :
  StronglySorted R (a ++ b) ->
  StronglySorted R a /\ StronglySorted R b /\ (forall x y, In x a -> In y b -> R x y).
Proof.
  induction a as [|z a IH]; cbn; intros H.
  - split; [constructor|]. split; [exact H|]. intros x y [].
  - inversion H as [|z' l SS FA]; subst. destruct (IH SS) as (H1 & H2 & H3).
    rewrite Forall_forall in FA. split; [|split; [exact H2|]].
    + constructor; [exact H1|]. rewrite Forall_forall. intros y Hy. apply FA.
      apply in_or_app. now left.
    + intros x y [<-|Hx] Hy; [|auto]. apply FA. apply in_or_app. now right.
Qed.

Lemma SS_app_intro {A} (R : A -> A -> Prop) a b :
  StronglySorted R a -> StronglySorted R b -> (forall x y, In x a -> In y b -> R x y) ->
  StronglySorted R (a ++ b).
Proof.
  induction a as [|z a IH]; cbn; intros Ha Hb H; [exact Hb|].
  inversion Ha as [|z' l SS FA]; subst. constructor.
  - apply IH; [exact SS|exact Hb|]. intros x y Hx Hy. apply H; [now right|exact Hy].
  - rewrite Forall_forall in *. intros y Hy. apply in_app_or in Hy. destruct Hy as [Hy|Hy]; [auto|].
    apply H; [now left|exact Hy].
Qed.

Lemma SS_map {A B} (R : B -> B -> Prop) (phi : A -> B) l :
  StronglySorted (fun x y => R (phi x) (phi y)) l -> StronglySorted R (map phi l).
Proof.
  induction 1 as [|x l SS IH FA]; cbn; constructor; auto.
  rewrite Forall_forall in *. intros y Hy. apply in_map_iff in Hy.
  destruct Hy as (z & <- & Hz). auto.
Qed.

Lemma SS_nth {A} (R : A -> A -> Prop) l :
  StronglySorted R l -> forall i j x y, (i < j)%nat ->
  nth_error l i = Some x -> nth_error l j = Some y -> R x y.
Proof.
  induction 1 as [|z l SS IH FA]; intros i j x y Hij Hi Hj.
  - destruct i; discriminate.
  - destruct j as [|j]; [lia|]. cbn in Hj. destruct i as [|i]; cbn in Hi.
    + inversion Hi; subst. rewrite Forall_forall in FA. apply FA. eapply nth_error_In; eauto.
    + eapply IH; [|eauto|eauto]. lia.
Qed.

Lemma SS_filter {A} (R : A -> A -> Prop) f l :
  StronglySorted R l -> StronglySorted R (filter f l).
Proof.
  induction 1 as [|x l SS IH FA]; cbn; [constructor|].
  destruct (f x); [|exact IH]. constructor; [exact IH|].
  rewrite Forall_forall in *. intros y Hy. apply filter_In in Hy. apply FA. apply Hy.
Qed.

Lemma SS_rev {A} (R : A -> A -> Prop) l :
  StronglySorted R l -> StronglySorted (fun x y => R y x) (rev l).
Proof.
  induction 1 as [|x l SS IH FA]; cbn; [constructor|].
  apply SS_app_intro; [exact IH|repeat constructor|].
  intros a b Ha [<-|[]]. rewrite Forall_forall in FA. apply FA. now apply in_rev.
Qed.

(** [f] never turns true again once it was false *)
Definition once_false {A} (f : A -> bool) (l : list A) : Prop :=
  StronglySorted (fun x y => f y = true -> f x = true) l.

Lemma once_false_tail {A} (f : A -> bool) x l : once_false f (x :: l) -> once_false f l.
Proof. intros H. inversion H; assumption. Qed.

Lemma once_false_head {A} (f : A -> bool) x l :
  once_false f (x :: l) -> f x = false -> forall y, In y l -> f y = false.
Proof.
  intros H E y Hy. inversion H as [|x' l' SS FA]; subst. rewrite Forall_forall in FA.
  destruct (f y) eqn:Ey; [|reflexivity]. rewrite (FA y Hy Ey) in E. discriminate.
Qed.

Lemma once_false_last {A} (f : A -> bool) l d :
  once_false f l -> l <> [] -> f (last l d) = true -> forall x, In x l -> f x = true.
Proof.
  induction l as [|z l IH]; intros H Hne E x Hx; [contradiction|].
  destruct l as [|z' l].
  - destruct Hx as [<-|[]]. exact E.
  - assert (IH' := IH (once_false_tail _ _ _ H) ltac:(discriminate) E).
    destruct Hx as [<-|Hx]; [|auto].
    inversion H as [|x' l' SS FA]; subst. rewrite Forall_forall in FA.
    apply (FA z' (or_introl eq_refl)). apply IH'. now left.
Qed.

(** filter = window when the predicate is once-false from both sides *)
Lemma dropW_filter {A} (f : A -> bool) l :
  once_false f l -> dropW f l = filter (fun x => negb (f x)) l.
Proof.
  induction l as [|x l IH]; intros H; cbn; [reflexivity|].
  destruct (f x) eqn:E; cbn.
  - apply IH. eapply once_false_tail; eauto.
  - f_equal. symmetry. rewrite (proj2 (filter_ext_in_iff _ (fun _ => true) l)).
    + clear. induction l; cbn; congruence.
    + intros y Hy. rewrite (once_false_head _ _ _ H E y Hy). reflexivity.
Qed.

Lemma filter_rev {A} (f : A -> bool) l : filter f (rev l) = rev (filter f l).
Proof.
  induction l as [|x l IH]; cbn; [reflexivity|].
  rewrite filter_app, IH. cbn. destruct (f x); cbn; [reflexivity|now rewrite app_nil_r].
Qed.

Lemma filter_filter {A} (f g : A -> bool) l :
  filter f (filter g l) = filter (fun x => g x && f x) l.
Proof.
  induction l as [|x l IH]; cbn; [reflexivity|].
  destruct (g x); cbn; [destruct (f x); cbn; now rewrite IH|exact IH].
Qed.

Lemma concat_filter {A} (f : A -> bool) (ls : list (list A)) :
  concat (map (filter f) ls) = filter f (concat ls).
Proof.
  induction ls as [|l ls IH]; cbn; [reflexivity|]. now rewrite filter_app, IH.
Qed.

(** * B. The binary search of partition_point_2 *)

Lemma pp2_loop_spec pred hs : once_false pred hs ->
  forall fuel lft rgt,
  (lft <= rgt)%nat -> (rgt <= length hs)%nat -> (rgt - lft < fuel)%nat ->
  (forall i x, (i < lft)%nat -> nth_error hs i = Some x -> pred x = true) ->
  (rgt = length hs \/ exists x, nth_error hs rgt = Some x /\ pred x = false) ->
  pp2_loop fuel pred hs lft rgt = ffalse pred hs.
Proof.
  intros Hm. induction fuel as [|f IH]; intros lft rgt H1 H2 H3 HL HR; [lia|].
  cbn [pp2_loop]. destruct (Nat.ltb lft rgt) eqn:C.
  - apply Nat.ltb_lt in C.
    assert (Hmid : (lft <= Nat.div (lft + rgt) 2 < rgt)%nat).
    { split.
      - apply Nat.div_le_lower_bound; lia.
      - apply Nat.div_lt_upper_bound; lia. }
    set (mid := Nat.div (lft + rgt) 2) in *.
    destruct (nth_error hs mid) as [h|] eqn:E.
    + destruct (pred h) eqn:P.
      * apply IH; try lia; [|exact HR].
        intros i x Hi Hx. destruct (Nat.eq_dec i mid) as [->|Hne]; [congruence|].
        eapply (SS_nth _ _ Hm i mid x h); [lia|exact Hx|exact E|exact P].
      * apply IH; try lia; [exact HL|]. right. exists h. auto.
    + apply nth_error_None in E. lia.
  - apply Nat.ltb_ge in C. assert (lft = rgt) by lia. subst rgt. clear C H1 H3.
    (* all before [lft] hold, at [lft] it fails or the list ends *)
    revert lft H2 HL HR. clear. induction hs as [|y hs IH]; intros lft H2 HL HR.
    + cbn in *. lia.
    + cbn [ffalse]. destruct lft as [|lft].
      * destruct HR as [HR|(x & Hx & Px)]; [cbn in HR; lia|]. cbn in Hx. inversion Hx; subst.
        rewrite Px. reflexivity.
      * rewrite (HL O y ltac:(lia) eq_refl). f_equal. apply IH.
        -- cbn in H2. lia.
        -- intros i x Hi Hx. apply (HL (S i) x); [lia|exact Hx].
        -- destruct HR as [HR|(x & Hx & Px)]; [left; cbn in HR; lia|right; exists x; auto].
Qed.

Lemma partition_point_2_spec pred hs : once_false pred hs ->
  partition_point_2 pred hs =
  match hs with
  | [] => None
  | _ => Some (if Nat.eqb (ffalse pred hs) (length hs) then (length hs - 1)%nat else ffalse pred hs)
  end.
Proof.
  intros Hm. unfold partition_point_2. destruct hs as [|h hs]; [reflexivity|].
  cbn [length Nat.eqb]. set (l := h :: hs).
  change (S (length hs)) with (length l).
  rewrite (pp2_loop_spec pred l Hm); try lia; auto.
Qed.

(** * C. One index block iterator = a window *)

Definition ib_window (it : ibiter) : list bhandle :=
  firstn (ib_hi it - ib_lo it) (skipn (ib_lo it) (ib_hs it)).

Definition ib_wf (it : ibiter) : Prop := (ib_hi it <= length (ib_hs it))%nat.

Lemma ib_new_window hs : ib_window (ib_new hs) = hs /\ ib_wf (ib_new hs).
Proof.
  unfold ib_window, ib_wf, ib_new. cbn. rewrite Nat.sub_0_r, firstn_all. auto.
Qed.

Lemma skipn_nth_cons {A} (l : list A) n h :
  nth_error l n = Some h -> skipn n l = h :: skipn (S n) l.
Proof.
  revert n; induction l as [|x l IH]; intros n E; [destruct n; discriminate|].
  destruct n as [|n]; cbn in E.
  - inversion E; subst. reflexivity.
  - cbn [skipn]. rewrite (IH n E). reflexivity.
Qed.

Lemma ib_next_spec it : ib_wf it ->
  match ib_window it with
  | [] => ib_next it = (None, it)
  | h :: w => exists it', ib_next it = (Some h, it') /\ ib_window it' = w /\ ib_wf it' /\
                          ib_hs it' = ib_hs it
  end.
Proof.
  unfold ib_wf, ib_window, ib_next. destruct it as [hs lo hi]. cbn [ib_hs ib_lo ib_hi]. intros Hw.
  destruct (Nat.ltb lo hi) eqn:C.
  - apply Nat.ltb_lt in C.
    destruct (nth_error hs lo) as [h|] eqn:E; [|apply nth_error_None in E; lia].
    rewrite (skipn_nth_cons _ _ _ E).
    replace (hi - lo)%nat with (S (hi - S lo)) by lia. cbn [firstn].
    eexists. split; [reflexivity|]. cbn [ib_hs ib_lo ib_hi]. auto.
  - apply Nat.ltb_ge in C. replace (hi - lo)%nat with O by lia. reflexivity.
Qed.

Lemma ib_next_back_spec it : ib_wf it ->
  match rev (ib_window it) with
  | [] => ib_next_back it = (None, it)
  | h :: w => exists it', ib_next_back it = (Some h, it') /\ ib_window it' = rev w /\ ib_wf it' /\
                          ib_hs it' = ib_hs it
  end.
Proof.
  unfold ib_wf, ib_window, ib_next_back. destruct it as [hs lo hi]. cbn [ib_hs ib_lo ib_hi]. intros Hw.
  destruct (Nat.ltb lo hi) eqn:C.
  - apply Nat.ltb_lt in C.
    destruct (nth_error hs (hi - 1)) as [h|] eqn:E; [|apply nth_error_None in E; lia].
    destruct (nth_error_split _ _ E) as (l1 & l2 & -> & Hl).
    assert (Hs : skipn lo (l1 ++ h :: l2) = skipn lo l1 ++ h :: l2).
    { rewrite skipn_app. replace (lo - length l1)%nat with O by lia. reflexivity. }
    rewrite Hs.
    assert (Hl' : length (skipn lo l1) = (hi - 1 - lo)%nat) by (rewrite skipn_length; lia).
    replace (hi - lo)%nat with (length (skipn lo l1) + 1)%nat by lia.
    rewrite firstn_app_2. cbn [firstn]. rewrite rev_app_distr. cbn [rev app].
    eexists. split; [reflexivity|]. cbn. split; [|split; [lia|reflexivity]].
    rewrite rev_involutive, Hs.
    replace (hi - 1 - lo)%nat with (length (skipn lo l1) + 0)%nat by lia.
    rewrite firstn_app_2. cbn. now rewrite app_nil_r.
  - apply Nat.ltb_ge in C. replace (hi - lo)%nat with O by lia. reflexivity.
Qed.

(** Iter::seek on a fresh iterator: drop the handles sorting before the needle; [false]
    (and an exhausted iterator) iff nothing is left *)
Lemma idx_seek_spec hs k s : once_false (seek_pred k s) hs ->
  exists it', idx_seek (ib_new hs) k s =
              (match dropW (seek_pred k s) hs with [] => false | _ => true end, it') /\
    ib_hs it' = hs /\ ib_wf it' /\
    ib_window it' = dropW (seek_pred k s) hs /\
    (dropW (seek_pred k s) hs <> [] ->
     ib_lo it' = ffalse (seek_pred k s) hs /\ ib_hi it' = length hs).
Proof.
  intros Hm. unfold idx_seek. cbn [ib_new ib_hs ib_hi].
  rewrite (partition_point_2_spec _ _ Hm).
  destruct hs as [|h0 hs0] eqn:Ehs.
  - eexists. split; [reflexivity|]. cbn. unfold ib_wf, ib_window. cbn. repeat split; auto; congruence.
  - rewrite <- Ehs in *. set (p := ffalse (seek_pred k s) hs).
    assert (Hp : (p <= length hs)%nat) by apply ffalse_le.
    assert (Hlen : (0 < length hs)%nat) by (rewrite Ehs; cbn; lia).
    rewrite dropW_skipn. fold p.
    destruct (Nat.eqb p (length hs)) eqn:C.
    + (* every handle sorts before the needle *)
      apply Nat.eqb_eq in C.
      destruct (nth_error hs (length hs - 1)) as [h|] eqn:E;
        [|apply nth_error_None in E; lia].
      assert (P : seek_pred k s h = true).
      { assert (D : dropW (seek_pred k s) hs = []).
        { rewrite dropW_skipn. fold p. rewrite C. apply skipn_all. }
        eapply dropW_nil_all; [exact D|]. eapply nth_error_In; eauto. }
      rewrite P. rewrite C, skipn_all.
      eexists. split; [reflexivity|]. cbn. unfold ib_wf, ib_window. cbn.
      rewrite Nat.sub_diag. repeat split; auto; congruence.
    + apply Nat.eqb_neq in C.
      destruct (nth_error hs p) as [h|] eqn:E; [|apply nth_error_None in E; lia].
      assert (D : skipn p hs = h :: skipn (S p) hs) by (apply skipn_nth_cons; exact E).
      assert (P : seek_pred k s h = false).
      { eapply dropW_head_false. rewrite dropW_skipn. fold p. exact D. }
      rewrite P.
      eexists. split; [rewrite D; reflexivity|].
      unfold ib_wf, ib_window. cbn [ib_hs ib_lo ib_hi].
      split; [reflexivity|]. split; [lia|]. split; [|auto].
      apply firstn_all2. rewrite skipn_length. lia.
Qed.

(** Iter::seek_upper: keep the handles through the first one whose end key exceeds the
    needle; always [true] on a non-empty block *)
Lemma idx_seek_upper_spec it k s :
  once_false (fun h => key_leb (h_end_key h) k) (ib_hs it) -> ib_hs it <> [] ->
  exists it', idx_seek_upper it k s = (true, it') /\
    ib_hs it' = ib_hs it /\ ib_wf it' /\ ib_lo it' = ib_lo it /\
    ib_hi it' = Nat.min (S (ffalse (fun h => key_leb (h_end_key h) k) (ib_hs it))) (length (ib_hs it)).
Proof.
  intros Hm Hne. unfold idx_seek_upper. rewrite (partition_point_2_spec _ _ Hm).
  destruct (ib_hs it) as [|h0 hs0] eqn:Ehs; [congruence|]. rewrite <- Ehs in *.
  set (q := ffalse _ (ib_hs it)).
  assert (Hq : (q <= length (ib_hs it))%nat) by apply ffalse_le.
  assert (Hlen : (0 < length (ib_hs it))%nat) by (rewrite Ehs; cbn; lia).
  destruct (Nat.eqb q (length (ib_hs it))) eqn:C.
  - apply Nat.eqb_eq in C. eexists. split; [reflexivity|].
    unfold ib_wf. cbn [ib_hs ib_lo ib_hi]. repeat split; auto; lia.
  - apply Nat.eqb_neq in C. eexists. split; [reflexivity|].
    unfold ib_wf. cbn [ib_hs ib_lo ib_hi]. repeat split; auto; lia.
Qed.

(** * D. The block-index iterators are deques over one window of the handle list *)

(** ** The order of the handles and the two seek predicates *)

Definition hlt (a b : bhandle) : Prop :=
  key_lt (h_end_key a) (h_end_key b) \/ (h_end_key a = h_end_key b /\ h_seqno b < h_seqno a).

Definition hsorted (hs : list bhandle) : Prop := StronglySorted hlt hs.

Lemma seek_pred_mono k s a b : hlt a b -> seek_pred k s b = true -> seek_pred k s a = true.
Proof.
  unfold hlt, seek_pred. intros [H|[E H]].
  - destruct (key_cmp (h_end_key b) k) eqn:Cb; intros P; try discriminate.
    + apply key_cmp_eq in Cb. rewrite Cb in H. unfold key_lt in H. now rewrite H.
    + assert (X : key_lt (h_end_key a) k) by (eapply key_lt_trans; eauto).
      unfold key_lt in X. now rewrite X.
  - rewrite E. destruct (key_cmp (h_end_key b) k); intros P; try discriminate; auto.
    apply N.leb_le in P. apply N.leb_le. lia.
Qed.

Lemma upper_pred_mono k a b :
  hlt a b -> key_leb (h_end_key b) k = true -> key_leb (h_end_key a) k = true.
Proof.
  intros H P. key_prop.
  assert (X : key_le (h_end_key a) (h_end_key b)).
  { destruct H as [H|[E _]]; [now apply key_lt_le|rewrite E; apply key_le_refl]. }
  eapply key_le_trans; eauto.
Qed.

Definition lo_pred (lo : option (key * N)) : bhandle -> bool :=
  match lo with Some (k, s) => seek_pred k s | None => fun _ => false end.

Definition hi_pred (hi : option (key * N)) : bhandle -> bool :=
  match hi with Some (k, _) => fun h => key_leb (h_end_key h) k | None => fun _ => true end.

(** the handles an index iterator yields after [seek_lower lo] / [seek_upper hi] *)
Definition hwindow (lo hi : option (key * N)) (hs : list bhandle) : list bhandle :=
  dropW (lo_pred lo) (take_through (hi_pred hi) hs).

Lemma lo_pred_once lo hs : hsorted hs -> once_false (lo_pred lo) hs.
Proof.
  intros H. eapply SS_impl; [|exact H]. intros x y Hxy. destruct lo as [[k s]|]; cbn.
  - now apply seek_pred_mono.
  - discriminate.
Qed.

Lemma hi_pred_once hi hs : hsorted hs -> once_false (hi_pred hi) hs.
Proof.
  intros H. eapply SS_impl; [|exact H]. intros x y Hxy. destruct hi as [[k s]|]; cbn.
  - now apply upper_pred_mono.
  - reflexivity.
Qed.

Lemma lo_pred_ext lo a b :
  h_end_key a = h_end_key b -> h_seqno a = h_seqno b -> lo_pred lo a = lo_pred lo b.
Proof. intros E1 E2. destruct lo as [[k s]|]; cbn; [|reflexivity]. unfold seek_pred. now rewrite E1, E2. Qed.

Lemma hi_pred_ext hi a b : h_end_key a = h_end_key b -> hi_pred hi a = hi_pred hi b.
Proof. intros E1. destruct hi as [[k s]|]; cbn; [|reflexivity]. now rewrite E1. Qed.

(** valid bounds: lower key <= upper key *)
Definition bounds_valid (lo hi : option (key * N)) : Prop :=
  match lo, hi with Some (kl, _), Some (kh, _) => key_le kl kh | _, _ => True end.

Lemma valid_hi_false_lo_false lo hi h :
  bounds_valid lo hi -> hi_pred hi h = false -> lo_pred lo h = false.
Proof.
  destruct lo as [[kl sl]|], hi as [[kh sh]|]; cbn; try reflexivity; try discriminate.
  intros V H. key_prop. unfold seek_pred.
  assert (X : key_lt kl (h_end_key h)) by (eapply key_le_lt_trans; eauto).
  apply key_lt_gt in X. now rewrite X.
Qed.

Lemma hsorted_app a b : hsorted (a ++ b) -> hsorted a /\ hsorted b.
Proof. intros H. destruct (SS_app _ _ _ H) as (H1 & H2 & _). auto. Qed.

Lemma hsorted_firstn n hs : hsorted hs -> hsorted (firstn n hs).
Proof. intros H. rewrite <- (firstn_skipn n hs) in H. apply hsorted_app in H. apply H. Qed.

Lemma hsorted_concat_in cs c : hsorted (concat cs) -> In c cs -> hsorted c.
Proof.
  induction cs as [|x cs IH]; intros H []; cbn in H; apply hsorted_app in H; destruct H as [H1 H2].
  - subst. exact H1.
  - auto.
Qed.

Lemma ffalse_const_false {A} (l : list A) : ffalse (fun _ => false) l = O.
Proof. destruct l; reflexivity. Qed.

Lemma firstn_min_len {A} n (l : list A) : firstn (Nat.min n (length l)) l = firstn n l.
Proof.
  destruct (Nat.le_gt_cases n (length l)) as [H|H].
  - now rewrite Nat.min_l.
  - rewrite Nat.min_r by lia. rewrite firstn_all, firstn_all2 by lia. reflexivity.
Qed.

(** the repeated [seek_lower] / [seek_upper] snippet on a fresh index-block iterator *)
Lemma seek_bounds_spec hs lo hi : hsorted hs ->
  match seek_bounds (ib_new hs) lo hi with
  | None => hwindow lo hi hs = []
  | Some it' => ib_wf it' /\ ib_hs it' = hs /\ ib_window it' = hwindow lo hi hs
  end.
Proof.
  intros Hs. unfold seek_bounds, hwindow.
  (* the lower seek *)
  assert (LO : exists ok it1,
    (match lo with Some (k, s) => idx_seek (ib_new hs) k s | None => (true, ib_new hs) end) = (ok, it1) /\
    (ok = false -> dropW (lo_pred lo) hs = []) /\
    (ok = true -> ib_hs it1 = hs /\ ib_lo it1 = ffalse (lo_pred lo) hs /\ ib_hi it1 = length hs /\
                  (lo <> None -> hs <> []))).
  { destruct lo as [[k s]|].
    - destruct (idx_seek_spec hs k s (lo_pred_once (Some (k, s)) hs Hs)) as (it1 & E & H1 & H2 & H3 & H4).
      eexists _, it1. split; [exact E|]. cbn [lo_pred].
      destruct (dropW (seek_pred k s) hs) as [|x r] eqn:D.
      + split; [auto|discriminate].
      + split; [discriminate|]. intros _. destruct (H4 ltac:(discriminate)) as [A B].
        repeat split; auto. intros _ ->. discriminate.
    - exists true, (ib_new hs). split; [reflexivity|]. split; [discriminate|]. intros _.
      cbn. rewrite ffalse_const_false. repeat split; auto; congruence. }
  destruct LO as (ok & it1 & -> & Hf & Ht).
  destruct ok.
  2:{ specialize (Hf eq_refl). apply dropW_all. intros x Hx.
      eapply dropW_nil_all; [exact Hf|]. eapply take_through_In; eauto. }
  destruct (Ht eq_refl) as (H1 & H2 & H3 & H4). clear Hf Ht.
  rewrite window_positions.
  destruct hi as [[k s]|].
  - destruct hs as [|h0 hs0] eqn:Ehs.
    + (* empty index block: seek_upper fails *)
      destruct lo as [[kl sl]|]; [exfalso; apply H4; [discriminate|reflexivity]|].
      unfold idx_seek_upper. rewrite H1. cbn [partition_point_2 length Nat.eqb].
      rewrite skipn_nil, firstn_nil. reflexivity.
    + rewrite <- Ehs in *.
      assert (Hne : ib_hs it1 <> []) by (rewrite H1, Ehs; discriminate).
      destruct (idx_seek_upper_spec it1 k s) as (it2 & E & A1 & A2 & A3 & A4);
        [rewrite H1; apply (hi_pred_once (Some (k, s)) hs Hs)|exact Hne|].
      rewrite E. split; [exact A2|]. split; [congruence|].
      unfold ib_window. rewrite A1, A3, A4, H1, H2. cbn [hi_pred].
      set (q := ffalse _ hs). set (p := ffalse _ hs).
      destruct (Nat.le_gt_cases (S q) (length hs)) as [C|C].
      * rewrite Nat.min_l by exact C. reflexivity.
      * rewrite Nat.min_r by lia.
        rewrite (firstn_all2 (n := (length hs - p)%nat)) by (rewrite skipn_length; lia).
        rewrite (firstn_all2 (n := (S q - p)%nat)) by (rewrite skipn_length; lia).
        reflexivity.
  - split; [unfold ib_wf; rewrite H3, H1; lia|]. split; [exact H1|].
    unfold ib_window. rewrite H1, H2, H3. cbn [hi_pred].
    set (p := ffalse (lo_pred lo) hs). set (q := ffalse (fun _ : bhandle => true) hs).
    assert (Q : q = length hs).
    { unfold q. clear. induction hs as [|x l IH]; cbn; [reflexivity|now rewrite IH]. }
    rewrite (firstn_all2 (n := (length hs - p)%nat)) by (rewrite skipn_length; lia).
    rewrite (firstn_all2 (n := (S q - p)%nat)) by (rewrite skipn_length; lia).
    reflexivity.
Qed.

(** ** Deques *)

(** [R s L]: state [s] still yields the sequence [L], from either end *)
Definition steps_ok {St A} (nxt nxb : St -> option A * St) (R : St -> list A -> Prop) : Prop :=
  forall s L, R s L ->
    (match L with
     | [] => fst (nxt s) = None /\ R (snd (nxt s)) []
     | x :: L' => fst (nxt s) = Some x /\ R (snd (nxt s)) L'
     end) /\
    (match rev L with
     | [] => fst (nxb s) = None /\ R (snd (nxb s)) []
     | x :: r => fst (nxb s) = Some x /\ R (snd (nxb s)) (rev r)
     end).

(** the specification deque: pop the head / pop the last *)
Fixpoint dq_run {A} (code : list bool) (L : list A) : list (option A) :=
  match code with
  | [] => []
  | true :: c =>
      match L with
      | [] => None :: dq_run c []
      | x :: L' => Some x :: dq_run c L'
      end
  | false :: c =>
      match rev L with
      | [] => None :: dq_run c []
      | x :: r => Some x :: dq_run c (rev r)
      end
  end.

Definition olist (o : option ibiter) : list bhandle :=
  match o with Some i => ib_window i | None => [] end.

Definition owf (o : option ibiter) : Prop :=
  match o with Some i => ib_wf i | None => True end.

(** an [ibiter] as a deque *)
Lemma ib_steps : steps_ok ib_next ib_next_back (fun i L => ib_wf i /\ L = ib_window i).
Proof.
  intros i L [Hw ->]. split.
  - pose proof (ib_next_spec i Hw) as H. destruct (ib_window i) as [|h w] eqn:E.
    + rewrite H. cbn. auto.
    + destruct H as (i' & -> & <- & Hw' & _). cbn. auto.
  - pose proof (ib_next_back_spec i Hw) as H. destruct (rev (ib_window i)) as [|h w] eqn:E.
    + rewrite H. cbn. split; [reflexivity|]. split; [exact Hw|].
      apply (f_equal (@rev _)) in E. rewrite rev_involutive in E. now rewrite E.
    + destruct H as (i' & -> & <- & Hw' & _). cbn. auto.
Qed.

(** ** The two-level index *)

Definition dummyh : bhandle := mkBH [] 0 0.
Definition lastH (c : list bhandle) : bhandle := last c dummyh.

Definition indexed {A} (i : nat) (l : list A) : list (nat * A) :=
  combine (List.seq i (length l)) l.

Lemma indexed_cons {A} i (x : A) l : indexed i (x :: l) = (i, x) :: indexed (S i) l.
Proof. reflexivity. Qed.

Lemma map_snd_indexed {A} (l : list A) i : map snd (indexed i l) = l.
Proof. revert i; induction l as [|x l IH]; intros i; [reflexivity|]. rewrite indexed_cons. cbn. now rewrite IH. Qed.

Lemma indexed_nth {A} (l : list A) d : forall i j x,
  In (j, x) (indexed i l) -> (i <= j)%nat /\ nth (j - i) l d = x.
Proof.
  induction l as [|y l IH]; intros i j x H; [contradiction|].
  rewrite indexed_cons in H. destruct H as [H|H].
  - inversion H; subst. split; [lia|]. now rewrite Nat.sub_diag.
  - destruct (IH _ _ _ H) as [H1 H2]. split; [lia|].
    replace (j - i)%nat with (S (j - S i)) by lia. exact H2.
Qed.

Definition top_hd (ic : nat * list bhandle) : bhandle :=
  mkBH (h_end_key (lastH (snd ic))) (h_seqno (lastH (snd ic))) (fst ic).

Lemma top_from_indexed cs : Forall (fun c => c <> []) cs ->
  forall i, top_from i cs = map top_hd (indexed i cs).
Proof.
  induction 1 as [|c cs Hc Hcs IH]; intros i; [reflexivity|].
  rewrite indexed_cons. cbn [top_from map]. rewrite IH.
  destruct c as [|h0 c]; [congruence|]. cbn [top_handle_of]. f_equal.
  unfold top_hd, lastH. cbn [fst snd].
  rewrite (last_indep (h0 :: c) h0 dummyh) by discriminate. reflexivity.
Qed.

Lemma chunk_lasts_sorted cs : Forall (fun c => c <> []) cs -> hsorted (concat cs) ->
  StronglySorted (fun c c' => hlt (lastH c) (lastH c')) cs.
Proof.
  induction 1 as [|c cs Hc Hcs IH]; intros Hs; [constructor|]. cbn in Hs.
  destruct (SS_app _ _ _ Hs) as (H1 & H2 & H3). constructor; [auto|].
  rewrite Forall_forall in *. intros c' Hc'. apply H3.
  - apply last_In. exact Hc.
  - apply in_concat. exists c'. split; [exact Hc'|]. apply last_In. apply Hcs. exact Hc'.
Qed.

Section Chunks.
Variables (lo hi : option (key * N)).
Hypothesis Hvalid : bounds_valid lo hi.

Local Notation f := (lo_pred lo).
Local Notation g := (hi_pred hi).

(** a chunk whose last handle survives the lower seek keeps a non-empty window *)
Lemma trim_chunk_nonempty c :
  c <> [] -> f (lastH c) = false -> hwindow lo hi c <> [].
Proof.
  intros Hne Hf. unfold hwindow. intros D.
  assert (Hall := dropW_nil_all _ _ D).
  destruct (take_through_last g c dummyh Hne) as [H|[H1 H2]].
  - assert (X : f (last (take_through g c) dummyh) = true).
    { apply Hall. apply last_In. now apply take_through_nonempty. }
    rewrite (valid_hi_false_lo_false lo hi _ Hvalid H) in X. discriminate.
  - rewrite H1 in Hall. rewrite (Hall (lastH c)) in Hf; [discriminate|]. now apply last_In.
Qed.

Lemma tt_concat cs : Forall (fun c => c <> []) cs -> once_false g (concat cs) ->
  take_through g (concat cs) =
  concat (map (take_through g) (take_through (fun c => g (lastH c)) cs)).
Proof.
  induction 1 as [|c cs Hc Hcs IH]; intros Ho; [reflexivity|]. cbn [concat] in *.
  destruct (SS_app _ _ _ Ho) as (O1 & O2 & O3).
  cbn [take_through]. destruct (g (lastH c)) eqn:E.
  - assert (All : forall x, In x c -> g x = true) by (apply (once_false_last g c dummyh); auto).
    rewrite take_through_app_all by exact All. cbn [map concat].
    rewrite (take_through_all g c All). f_equal. apply IH. exact O2.
  - rewrite take_through_app_stop.
    + cbn. now rewrite app_nil_r.
    + exists (lastH c). split; [now apply last_In|exact E].
Qed.

Lemma dw_concat ds : Forall (fun c => c <> []) ds -> once_false f (concat ds) ->
  dropW f (concat ds) = concat (map (dropW f) (dropW (fun c => f (lastH c)) ds)).
Proof.
  induction 1 as [|c ds Hc Hds IH]; intros Ho; [reflexivity|]. cbn [concat] in *.
  destruct (SS_app _ _ _ Ho) as (O1 & O2 & O3).
  cbn [dropW]. destruct (f (lastH c)) eqn:E.
  - assert (All : forall x, In x c -> f x = true) by (apply (once_false_last f c dummyh); auto).
    rewrite dropW_app_all by exact All. apply IH. exact O2.
  - rewrite dropW_app_stop by (exists (lastH c); split; [now apply last_In|exact E]).
    cbn [map concat]. f_equal.
    (* nothing is dropped from the later chunks *)
    assert (Hlater : forall y, In y (concat ds) -> f y = false).
    { intros y Hy. destruct (f y) eqn:Ey; [|reflexivity].
      rewrite (O3 (lastH c) y (last_In c dummyh Hc) Hy Ey) in E. discriminate. }
    clear -Hlater Hds. induction ds as [|d ds IH]; [reflexivity|]. cbn [concat map].
    rewrite dropW_id.
    + f_equal. apply IH.
      * now inversion Hds.
      * intros y Hy. apply Hlater. cbn. apply in_or_app. now right.
    + destruct d as [|x d]; [exact I|]. apply Hlater. cbn. now left.
Qed.

(** the window of the concatenated handle list, chunk by chunk *)
Lemma hwindow_concat cs : Forall (fun c => c <> []) cs -> hsorted (concat cs) ->
  hwindow lo hi (concat cs) =
  concat (map (hwindow lo hi)
              (dropW (fun c => f (lastH c)) (take_through (fun c => g (lastH c)) cs))).
Proof.
  intros Hne Hs. unfold hwindow at 1.
  rewrite (tt_concat cs Hne (hi_pred_once hi _ Hs)).
  set (W := take_through (fun c => g (lastH c)) cs).
  assert (HW : forall c, In c W -> c <> []).
  { intros c Hc. rewrite Forall_forall in Hne. apply Hne. eapply take_through_In; eauto. }
  rewrite dw_concat.
  - rewrite dropW_map.
    rewrite (dropW_ext_in _ (fun c => f (lastH c)) W).
    + rewrite map_map. reflexivity.
    + (* the last handle of a trimmed chunk decides like the chunk's last handle *)
      intros c Hc. specialize (HW c Hc).
      destruct (take_through_last g c dummyh HW) as [H|[H1 H2]].
      * fold (lastH (take_through g c)) in H.
        rewrite (valid_hi_false_lo_false lo hi _ Hvalid H). symmetry.
        destruct (g (lastH c)) eqn:E.
        -- (* then the chunk is kept whole *)
           rewrite (take_through_all g c) in H.
           ++ congruence.
           ++ apply (once_false_last g c dummyh); auto.
              apply hi_pred_once. apply (hsorted_concat_in cs c Hs).
              eapply take_through_In; eauto.
        -- apply (valid_hi_false_lo_false lo hi _ Hvalid E).
      * now rewrite H1.
  - rewrite Forall_forall. intros d Hd. apply in_map_iff in Hd. destruct Hd as (c & <- & Hc).
    apply take_through_nonempty. auto.
  - unfold W. rewrite <- (tt_concat cs Hne (hi_pred_once hi _ Hs)).
    rewrite take_through_firstn. apply lo_pred_once. now apply hsorted_firstn.
Qed.

End Chunks.

(** ** The two-level iterator *)

Definition tl_good (cs : list (list bhandle)) (lo : option (key * N)) (ic : nat * list bhandle) : Prop :=
  nth (fst ic) cs [] = snd ic /\ snd ic <> [] /\ lo_pred lo (lastH (snd ic)) = false.

(** [t] still yields [L]: the rest of the low consumer, the windows of the index
    partitions the top-level iterator still holds, the rest of the high consumer *)
Definition TLInv (t : tliter) (L : list bhandle) : Prop :=
  tl_top t = top_of (tl_children t) /\ Forall (fun c => c <> []) (tl_children t) /\
  hsorted (concat (tl_children t)) /\ bounds_valid (tl_lo t) (tl_hi t) /\
  match tl_tli t with
  | None =>
      tl_loc t = None /\ tl_hic t = None /\
      L = hwindow (tl_lo t) (tl_hi t) (concat (tl_children t))
  | Some ti =>
      exists W, ib_wf ti /\ ib_window ti = map top_hd W /\
        Forall (tl_good (tl_children t) (tl_lo t)) W /\
        owf (tl_loc t) /\ owf (tl_hic t) /\
        L = olist (tl_loc t)
            ++ concat (map (fun ic => hwindow (tl_lo t) (tl_hi t) (snd ic)) W)
            ++ olist (tl_hic t)
  end.

Lemma nth_In_ne {A} (l : list (list A)) i c : nth i l [] = c -> c <> [] -> In c l.
Proof.
  intros E Hne. destruct (Nat.lt_ge_cases i (length l)) as [H|H].
  - rewrite <- E. now apply nth_In.
  - rewrite nth_overflow in E by exact H. congruence.
Qed.

(** loading an index partition that is still in the top-level window always succeeds
    and yields its non-empty window *)
Lemma child_open t ic :
  Forall (fun c => c <> []) (tl_children t) -> hsorted (concat (tl_children t)) ->
  bounds_valid (tl_lo t) (tl_hi t) -> tl_good (tl_children t) (tl_lo t) ic ->
  exists c h w, seek_bounds (tl_load t (top_hd ic)) (tl_lo t) (tl_hi t) = Some c /\ ib_wf c /\
    ib_window c = hwindow (tl_lo t) (tl_hi t) (snd ic) /\
    hwindow (tl_lo t) (tl_hi t) (snd ic) = h :: w.
Proof.
  intros Hne Hs Hv (G1 & G2 & G3). unfold tl_load. cbn [top_hd h_idx]. rewrite G1.
  assert (Hc : hsorted (snd ic)).
  { eapply hsorted_concat_in; [exact Hs|]. eapply nth_In_ne; eauto. }
  pose proof (seek_bounds_spec (snd ic) (tl_lo t) (tl_hi t) Hc) as SB.
  pose proof (trim_chunk_nonempty _ _ Hv (snd ic) G2 G3) as NE.
  destruct (seek_bounds (ib_new (snd ic)) (tl_lo t) (tl_hi t)) as [c|]; [|congruence].
  destruct SB as (S1 & S2 & S3).
  destruct (hwindow (tl_lo t) (tl_hi t) (snd ic)) as [|h w] eqn:E; [congruence|].
  exists c, h, w. auto.
Qed.

(** the part of [tl_next] after the low consumer ran dry and the top-level iterator exists *)
Definition tl_next_mid (t : tliter) (tli : ibiter) : option bhandle * tliter :=
  let (oh, tli') := ib_next tli in
  let t1 := mkTL (tl_top t) (tl_children t) (Some tli') (tl_loc t) (tl_hic t) (tl_lo t) (tl_hi t) in
  let from_hi (t2 : tliter) :=
    match tl_hic t2 with
    | Some c =>
        let (o, c') := ib_next c in
        (o, mkTL (tl_top t2) (tl_children t2) (tl_tli t2) (tl_loc t2) (Some c') (tl_lo t2) (tl_hi t2))
    | None => (None, t2)
    end in
  match oh with
  | Some handle =>
      match seek_bounds (tl_load t handle) (tl_lo t) (tl_hi t) with
      | None => (None, t1)
      | Some c =>
          let (next_item, c') := ib_next c in
          let t2 := mkTL (tl_top t) (tl_children t) (Some tli') (Some c') (tl_hic t) (tl_lo t) (tl_hi t) in
          match next_item with
          | Some h => (Some h, t2)
          | None => from_hi t2
          end
      end
  | None => from_hi t1
  end.

Lemma tl_next_unfold t :
  tl_next t =
  match (match tl_loc t with
         | Some c => match ib_next c with (Some h, c') => Some (h, c') | (None, _) => None end
         | None => None
         end) with
  | Some (h, c') =>
      (Some h, mkTL (tl_top t) (tl_children t) (tl_tli t) (Some c') (tl_hic t) (tl_lo t) (tl_hi t))
  | None =>
      match (match tl_tli t with Some i => Some i | None => init_tli t end) with
      | None => (None, t)
      | Some tli => tl_next_mid t tli
      end
  end.
Proof. reflexivity. Qed.

Definition tl_next_back_mid (t : tliter) (tli : ibiter) : option bhandle * tliter :=
  let (oh, tli') := ib_next_back tli in
  let t1 := mkTL (tl_top t) (tl_children t) (Some tli') (tl_loc t) (tl_hic t) (tl_lo t) (tl_hi t) in
  let from_lo (t2 : tliter) :=
    match tl_loc t2 with
    | Some c =>
        let (o, c') := ib_next_back c in
        (o, mkTL (tl_top t2) (tl_children t2) (tl_tli t2) (Some c') (tl_hic t2) (tl_lo t2) (tl_hi t2))
    | None => (None, t2)
    end in
  match oh with
  | Some handle =>
      match seek_bounds (tl_load t handle) (tl_lo t) (tl_hi t) with
      | None => (None, t1)
      | Some c =>
          let (next_item, c') := ib_next_back c in
          let t2 := mkTL (tl_top t) (tl_children t) (Some tli') (tl_loc t) (Some c') (tl_lo t) (tl_hi t) in
          match next_item with
          | Some h => (Some h, t2)
          | None => from_lo t2
          end
      end
  | None => from_lo t1
  end.

Lemma tl_next_back_unfold t :
  tl_next_back t =
  match (match tl_hic t with
         | Some c => match ib_next_back c with (Some h, c') => Some (h, c') | (None, _) => None end
         | None => None
         end) with
  | Some (h, c') =>
      (Some h, mkTL (tl_top t) (tl_children t) (tl_tli t) (tl_loc t) (Some c') (tl_lo t) (tl_hi t))
  | None =>
      match (match tl_tli t with Some i => Some i | None => init_tli t end) with
      | None => (None, t)
      | Some tli => tl_next_back_mid t tli
      end
  end.
Proof. reflexivity. Qed.

(** front step, top-level iterator present *)
Lemma tl_front_some top cs ti loc hic lo hi L :
  let t := mkTL top cs (Some ti) loc hic lo hi in
  TLInv t L ->
  match L with
  | [] => fst (tl_next t) = None /\ TLInv (snd (tl_next t)) []
  | x :: L' => fst (tl_next t) = Some x /\ TLInv (snd (tl_next t)) L'
  end.
Proof.
  intros t; subst t; intros (Ht & Hne & Hs & Hv & W & Hwf & Hwin & Hgood & Hlo & Hhi & ->).
  cbn [tl_top tl_children tl_tli tl_loc tl_hic tl_lo tl_hi] in *.
  rewrite tl_next_unfold. cbn [tl_top tl_children tl_tli tl_loc tl_hic tl_lo tl_hi].
  (* the low consumer *)
  assert (LO : (exists h w c c', loc = Some c /\ ib_window c = h :: w /\
                  ib_next c = (Some h, c') /\ ib_window c' = w /\ ib_wf c') \/
               (olist loc = [] /\
                match loc with
                | Some c => match ib_next c with (Some h, c') => Some (h, c') | (None, _) => None end
                | None => None
                end = None)).
  { destruct loc as [c|]; [|right; auto]. cbn [owf olist] in *.
    pose proof (ib_next_spec c Hlo) as Hc. destruct (ib_window c) as [|h w] eqn:Ew.
    - right. rewrite Hc. auto.
    - left. destruct Hc as (c' & E & E1 & E2 & _). exists h, w, c, c'. auto. }
  destruct LO as [(h & w & c & c' & -> & Ew & En & Ew' & Hwf')|[Elo ->]].
  { cbn [olist]. rewrite Ew, En. cbn [app fst snd]. split; [reflexivity|].
    repeat split; auto. exists W. cbn [tl_top tl_children tl_tli tl_loc tl_hic tl_lo tl_hi olist owf].
    rewrite Ew'. repeat split; auto. }
  rewrite Elo. cbn [app]. unfold tl_next_mid.
  cbn [tl_top tl_children tl_tli tl_loc tl_hic tl_lo tl_hi].
  pose proof (ib_next_spec ti Hwf) as Hti. rewrite Hwin in Hti.
  destruct W as [|ic W']; cbn [map] in Hti.
  - (* no partition left: the high consumer *)
    rewrite Hti. cbn [concat map app tl_top tl_children tl_tli tl_loc tl_hic tl_lo tl_hi].
    destruct hic as [c|]; cbn [olist owf] in *.
    + pose proof (ib_next_spec c Hhi) as Hc. destruct (ib_window c) as [|h w] eqn:Ew.
      * rewrite Hc. cbn [fst snd]. split; [reflexivity|]. repeat split; auto.
        exists []. cbn [tl_top tl_children tl_tli tl_loc tl_hic tl_lo tl_hi olist owf map concat app].
        rewrite Elo, Ew. repeat split; auto.
      * destruct Hc as (c' & -> & E1 & E2 & _). cbn [fst snd]. split; [reflexivity|].
        repeat split; auto.
        exists []. cbn [tl_top tl_children tl_tli tl_loc tl_hic tl_lo tl_hi olist owf map concat app].
        rewrite Elo, E1. repeat split; auto.
    + cbn [fst snd]. split; [reflexivity|]. repeat split; auto.
      exists []. cbn [tl_top tl_children tl_tli tl_loc tl_hic tl_lo tl_hi olist owf map concat app].
      rewrite Elo. repeat split; auto.
  - (* load the next partition *)
    destruct Hti as (ti' & -> & Wti' & Hwf' & _).
    pose proof (Forall_inv Hgood) as G. pose proof (Forall_inv_tail Hgood) as Hgood'.
    destruct (child_open (mkTL top cs (Some ti) loc hic lo hi) ic Hne Hs Hv G)
      as (c & h & w & SB & Hc & Wc & Eh).
    cbn [tl_lo tl_hi] in SB, Wc, Eh. rewrite SB.
    pose proof (ib_next_spec c Hc) as Hn. rewrite Wc, Eh in Hn.
    destruct Hn as (c' & -> & Wc' & Hc' & _).
    cbn [map concat]. rewrite Eh. cbn [app fst snd]. split; [reflexivity|].
    repeat split; auto. exists W'.
    cbn [tl_top tl_children tl_tli tl_loc tl_hic tl_lo tl_hi olist owf].
    rewrite Wc'. repeat split; auto. now rewrite <- app_assoc.
Qed.

Lemma rev_nil_inv {A} (l : list A) : rev l = [] -> l = [].
Proof. intros H. apply (f_equal (@rev _)) in H. now rewrite rev_involutive in H. Qed.

(** back step, top-level iterator present *)
Lemma tl_back_some top cs ti loc hic lo hi L :
  let t := mkTL top cs (Some ti) loc hic lo hi in
  TLInv t L ->
  match rev L with
  | [] => fst (tl_next_back t) = None /\ TLInv (snd (tl_next_back t)) []
  | x :: r => fst (tl_next_back t) = Some x /\ TLInv (snd (tl_next_back t)) (rev r)
  end.
Proof.
  intros t; subst t; intros (Ht & Hne & Hs & Hv & W & Hwf & Hwin & Hgood & Hlo & Hhi & ->).
  cbn [tl_top tl_children tl_tli tl_loc tl_hic tl_lo tl_hi] in *.
  rewrite tl_next_back_unfold. cbn [tl_top tl_children tl_tli tl_loc tl_hic tl_lo tl_hi].
  set (M := fun W => concat (map (fun ic : nat * list bhandle => hwindow lo hi (snd ic)) W)).
  change (concat (map (fun ic : nat * list bhandle => hwindow lo hi (snd ic)) W)) with (M W).
  (* the high consumer *)
  assert (HI : (exists h w c c', hic = Some c /\ ib_window c = rev w ++ [h] /\
                  ib_next_back c = (Some h, c') /\ ib_window c' = rev w /\ ib_wf c') \/
               (olist hic = [] /\
                match hic with
                | Some c => match ib_next_back c with (Some h, c') => Some (h, c') | (None, _) => None end
                | None => None
                end = None)).
  { destruct hic as [c|]; [|right; auto]. cbn [owf olist] in *.
    pose proof (ib_next_back_spec c Hhi) as Hc. destruct (rev (ib_window c)) as [|h w] eqn:Ew.
    - right. rewrite Hc. split; [now apply rev_nil_inv|reflexivity].
    - left. destruct Hc as (c' & E & E1 & E2 & _). exists h, w, c, c'.
      split; [reflexivity|]. split; [now apply rev_cons_inv|auto]. }
  destruct HI as [(h & w & c & c' & -> & Ew & En & Ew' & Hwf')|[Ehi ->]].
  { cbn [olist]. rewrite Ew, En.
    replace (olist loc ++ M W ++ rev w ++ [h]) with ((olist loc ++ M W ++ rev w) ++ [h])
      by (now rewrite <- !app_assoc).
    rewrite rev_app_distr. cbn [rev app fst snd]. split; [reflexivity|].
    rewrite rev_involutive.
    repeat split; auto. exists W. cbn [tl_top tl_children tl_tli tl_loc tl_hic tl_lo tl_hi olist owf].
    rewrite Ew'. repeat split; auto. }
  rewrite Ehi, app_nil_r. unfold tl_next_back_mid.
  cbn [tl_top tl_children tl_tli tl_loc tl_hic tl_lo tl_hi].
  pose proof (ib_next_back_spec ti Hwf) as Hti. rewrite Hwin, <- map_rev in Hti.
  destruct (rev W) as [|ic Wr] eqn:EW; cbn [map] in Hti.
  - (* no partition left: the low consumer *)
    apply rev_nil_inv in EW. subst W.
    rewrite Hti. unfold M. cbn [concat map app tl_top tl_children tl_tli tl_loc tl_hic tl_lo tl_hi].
    rewrite app_nil_r.
    destruct loc as [c|]; cbn [olist owf] in *.
    + pose proof (ib_next_back_spec c Hlo) as Hc. destruct (rev (ib_window c)) as [|h w] eqn:Ew.
      * rewrite Hc. cbn [fst snd]. split; [reflexivity|]. repeat split; auto.
        exists []. cbn [tl_top tl_children tl_tli tl_loc tl_hic tl_lo tl_hi olist owf map concat app].
        rewrite Ehi, (rev_nil_inv _ Ew). repeat split; auto.
      * destruct Hc as (c' & -> & E1 & E2 & _). cbn [fst snd]. split; [reflexivity|].
        repeat split; auto.
        exists []. cbn [tl_top tl_children tl_tli tl_loc tl_hic tl_lo tl_hi olist owf map concat app].
        rewrite Ehi, E1, app_nil_r. repeat split; auto.
    + cbn [rev fst snd]. split; [reflexivity|]. repeat split; auto.
      exists []. cbn [tl_top tl_children tl_tli tl_loc tl_hic tl_lo tl_hi olist owf map concat app].
      rewrite Ehi. repeat split; auto.
  - (* load the next partition from the back *)
    apply rev_cons_inv in EW. subst W.
    destruct Hti as (ti' & -> & Wti' & Hwf' & _). rewrite <- map_rev in Wti'.
    apply Forall_app in Hgood. destruct Hgood as [Hgood' G]. apply Forall_inv in G.
    destruct (child_open (mkTL top cs (Some ti) loc hic lo hi) ic Hne Hs Hv G)
      as (c & h0 & w0 & SB & Hc & Wc & Eh).
    cbn [tl_lo tl_hi] in SB, Wc, Eh. rewrite SB.
    pose proof (ib_next_back_spec c Hc) as Hn. rewrite Wc in Hn.
    destruct (rev (hwindow lo hi (snd ic))) as [|h w] eqn:Er.
    { apply rev_nil_inv in Er. congruence. }
    destruct Hn as (c' & -> & Wc' & Hc' & _). apply rev_cons_inv in Er.
    unfold M. rewrite map_app, concat_app. cbn [map concat]. rewrite Er, app_nil_r.
    replace (olist loc ++ concat (map (fun ic0 : nat * list bhandle => hwindow lo hi (snd ic0)) (rev Wr))
               ++ rev w ++ [h])
      with ((olist loc ++ concat (map (fun ic0 : nat * list bhandle => hwindow lo hi (snd ic0)) (rev Wr))
               ++ rev w) ++ [h]) by (now rewrite <- !app_assoc).
    rewrite rev_app_distr. cbn [rev app fst snd]. split; [reflexivity|].
    rewrite rev_involutive.
    repeat split; auto. exists (rev Wr).
    cbn [tl_top tl_children tl_tli tl_loc tl_hic tl_lo tl_hi olist owf].
    rewrite Wc'. repeat split; auto.
Qed.

(** initialising the top-level iterator *)
Lemma top_window cs lo hi : Forall (fun c => c <> []) cs ->
  hwindow lo hi (top_of cs) =
  map top_hd (dropW (fun ic => lo_pred lo (lastH (snd ic)))
                    (take_through (fun ic => hi_pred hi (lastH (snd ic))) (indexed 0 cs))).
Proof.
  intros Hne. unfold hwindow, top_of. rewrite (top_from_indexed cs Hne).
  rewrite take_through_map, dropW_map. f_equal.
  rewrite (take_through_ext_in _ (fun ic => hi_pred hi (lastH (snd ic)))).
  - apply dropW_ext_in. intros ic _. apply lo_pred_ext; reflexivity.
  - intros ic _. apply hi_pred_ext; reflexivity.
Qed.

Lemma hsorted_top cs : Forall (fun c => c <> []) cs -> hsorted (concat cs) -> hsorted (top_of cs).
Proof.
  intros Hne Hs. unfold top_of. rewrite (top_from_indexed cs Hne).
  apply SS_map. pose proof (chunk_lasts_sorted cs Hne Hs) as H.
  assert (G : forall i, StronglySorted (fun x y : nat * list bhandle => hlt (top_hd x) (top_hd y)) (indexed i cs)).
  { clear Hne Hs. induction H as [|c cs SS IH FA]; intros i; [constructor|].
    rewrite indexed_cons. constructor; [apply IH|].
    rewrite Forall_forall in *. intros [j c'] Hj.
    assert (Hc' : In c' cs).
    { apply (in_map snd) in Hj. rewrite map_snd_indexed in Hj. exact Hj. }
    apply (FA c' Hc'). }
  apply G.
Qed.

Lemma tl_init top cs lo hi L :
  let t := mkTL top cs None None None lo hi in
  TLInv t L ->
  match init_tli t with
  | None => L = []
  | Some ti => TLInv (mkTL top cs (Some ti) None None lo hi) L
  end.
Proof.
  intros t; subst t; intros (Ht & Hne & Hs & Hv & _ & _ & ->).
  cbn [tl_top tl_children tl_tli tl_loc tl_hic tl_lo tl_hi] in *.
  unfold init_tli. cbn [tl_top tl_lo tl_hi].
  pose proof (seek_bounds_spec top lo hi) as SB. rewrite Ht in *.
  specialize (SB (hsorted_top cs Hne Hs)).
  rewrite (top_window cs lo hi Hne) in SB.
  set (W0 := dropW _ _) in SB.
  assert (EL : hwindow lo hi (concat cs) =
               concat (map (fun ic : nat * list bhandle => hwindow lo hi (snd ic)) W0)).
  { rewrite (hwindow_concat lo hi Hv cs Hne Hs).
    rewrite <- (map_snd_indexed cs 0) at 1.
    rewrite (take_through_map (fun c => hi_pred hi (lastH c)) snd).
    rewrite (dropW_map (fun c => lo_pred lo (lastH c)) snd). rewrite map_map. reflexivity. }
  assert (GW : Forall (tl_good cs lo) W0).
  { rewrite Forall_forall. intros [i c] Hic.
    assert (Hin : In (i, c) (indexed 0 cs)).
    { eapply take_through_In. eapply dropW_In. exact Hic. }
    destruct (indexed_nth cs [] _ _ _ Hin) as [_ Hn]. rewrite Nat.sub_0_r in Hn.
    assert (Hc : In c cs).
    { apply (in_map snd) in Hin. rewrite map_snd_indexed in Hin. exact Hin. }
    rewrite Forall_forall in Hne.
    split; [exact Hn|]. split; [now apply Hne|]. cbn [snd].
    (* nothing the lower seek keeps sorts before the needle *)
    assert (O : once_false (fun ic : nat * list bhandle => lo_pred lo (lastH (snd ic)))
                  (take_through (fun ic => hi_pred hi (lastH (snd ic))) (indexed 0 cs))).
    { rewrite take_through_firstn.
      assert (O0 : StronglySorted (fun x y : nat * list bhandle => hlt (lastH (snd x)) (lastH (snd y)))
                     (indexed 0 cs)).
      { pose proof (chunk_lasts_sorted cs ltac:(now rewrite Forall_forall) Hs) as H.
        assert (G : forall j, StronglySorted (fun x y : nat * list bhandle => hlt (lastH (snd x)) (lastH (snd y)))
                                 (indexed j cs)).
        { clear -H. induction H as [|c0 cs SS IH FA]; intros j; [constructor|].
          rewrite indexed_cons. constructor; [apply IH|].
          rewrite Forall_forall in *. intros [j' c'] Hj.
          apply (in_map snd) in Hj. rewrite map_snd_indexed in Hj. apply (FA c' Hj). }
        apply G. }
      rewrite <- (firstn_skipn (S (ffalse (fun ic : nat * list bhandle => hi_pred hi (lastH (snd ic))) (indexed 0 cs)))
                               (indexed 0 cs)) in O0.
      destruct (SS_app _ _ _ O0) as (O1 & _ & _).
      eapply SS_impl; [|exact O1]. intros x y Hxy. cbn beta.
      destruct lo as [[k s]|]; cbn [lo_pred]; [now apply seek_pred_mono|discriminate]. }
    pose proof (dropW_filter _ _ O) as DF. fold W0 in DF. rewrite DF in Hic.
    apply filter_In in Hic. destruct Hic as [_ Hic]. cbn [snd] in Hic.
    now apply negb_true_iff in Hic. }
  destruct (seek_bounds (ib_new (top_of cs)) lo hi) as [ti|].
  - destruct SB as (S1 & S2 & S3).
    repeat split; auto. exists W0.
    cbn [tl_top tl_children tl_tli tl_loc tl_hic tl_lo tl_hi olist owf app].
    rewrite app_nil_r. repeat split; auto.
  - apply map_eq_nil in SB. rewrite EL, SB. reflexivity.
Qed.

Lemma tl_steps : steps_ok tl_next tl_next_back TLInv.
Proof.
  intros t L H. destruct t as [top cs tli loc hic lo hi]. destruct tli as [ti|].
  - split; [apply tl_front_some|apply tl_back_some]; exact H.
  - assert (H' := H). destruct H' as (_ & _ & _ & _ & E1 & E2 & _).
    cbn [tl_loc tl_hic] in E1, E2. subst loc hic.
    pose proof (tl_init _ _ _ _ _ H) as HI. cbv zeta in HI.
    rewrite tl_next_unfold, tl_next_back_unfold.
    cbn [tl_top tl_children tl_tli tl_loc tl_hic tl_lo tl_hi].
    destruct (init_tli (mkTL top cs None None None lo hi)) as [ti|] eqn:EI.
    + pose proof (tl_front_some _ _ _ _ _ _ _ _ HI) as HF.
      pose proof (tl_back_some _ _ _ _ _ _ _ _ HI) as HB. cbv zeta in HF, HB.
      rewrite tl_next_unfold in HF. rewrite tl_next_back_unfold in HB.
      cbn [tl_top tl_children tl_tli tl_loc tl_hic tl_lo tl_hi] in HF, HB.
      split; [exact HF|exact HB].
    + subst L. cbn [rev fst snd]. auto.
Qed.

(** ** The volatile (unpinned full) index *)

Definition VInv (v : voliter) (L : list bhandle) : Prop :=
  hsorted (vi_hs v) /\
  match vi_inner v with
  | Some i => ib_wf i /\ L = ib_window i
  | None => L = hwindow (vi_lo v) (vi_hi v) (vi_hs v)
  end.

Lemma vol_steps : steps_ok vol_next vol_next_back VInv.
Proof.
  intros v L [Hs H]. destruct v as [hs inner lo hi]. cbn [vi_hs vi_inner vi_lo vi_hi] in *.
  unfold vol_next, vol_next_back. cbn [vi_hs vi_inner vi_lo vi_hi].
  assert (Step : forall i, ib_wf i /\ L = ib_window i ->
    (match L with
     | [] => fst (let (o, i') := ib_next i in (o, mkVI hs (Some i') lo hi)) = None /\
             VInv (snd (let (o, i') := ib_next i in (o, mkVI hs (Some i') lo hi))) []
     | x :: L' => fst (let (o, i') := ib_next i in (o, mkVI hs (Some i') lo hi)) = Some x /\
             VInv (snd (let (o, i') := ib_next i in (o, mkVI hs (Some i') lo hi))) L'
     end) /\
    (match rev L with
     | [] => fst (let (o, i') := ib_next_back i in (o, mkVI hs (Some i') lo hi)) = None /\
             VInv (snd (let (o, i') := ib_next_back i in (o, mkVI hs (Some i') lo hi))) []
     | x :: r => fst (let (o, i') := ib_next_back i in (o, mkVI hs (Some i') lo hi)) = Some x /\
             VInv (snd (let (o, i') := ib_next_back i in (o, mkVI hs (Some i') lo hi))) (rev r)
     end)).
  { intros i Hi. destruct (ib_steps i L Hi) as [F B]. split.
    - destruct (ib_next i) as [o i'] eqn:E. cbn [fst snd] in *.
      destruct L as [|x L']; destruct F as [F1 F2]; (split; [exact F1|]); split; auto.
    - destruct (ib_next_back i) as [o i'] eqn:E. cbn [fst snd] in *.
      destruct (rev L) as [|x r]; destruct B as [B1 B2]; (split; [exact B1|]); split; auto. }
  destruct inner as [i|]; [apply Step; exact H|].
  pose proof (seek_bounds_spec hs lo hi Hs) as SB.
  destruct (seek_bounds (ib_new hs) lo hi) as [i|].
  - destruct SB as (S1 & S2 & S3). apply Step. split; [exact S1|]. congruence.
  - rewrite H, SB. cbn [rev fst snd].
    assert (V : VInv (mkVI hs None lo hi) []).
    { split; [exact Hs|]. cbn [vi_inner vi_lo vi_hi vi_hs]. now rewrite SB. }
    auto.
Qed.

(** ** All three *)

Definition IRep (it : iiter) (L : list bhandle) : Prop :=
  match it with
  | ItFull i => ib_wf i /\ L = ib_window i
  | ItVol v => VInv v L
  | ItTwo t => TLInv t L
  end.

Lemma ii_steps : steps_ok ii_next ii_next_back IRep.
Proof.
  intros it L H. destruct it as [i|v|t]; cbn [IRep ii_next ii_next_back] in *.
  - destruct (ib_steps i L H) as [F B]. split.
    + destruct (ib_next i) as [o i']. exact F.
    + destruct (ib_next_back i) as [o i']. exact B.
  - destruct (vol_steps v L H) as [F B]. split.
    + destruct (vol_next v) as [o v']. exact F.
    + destruct (vol_next_back v) as [o v']. exact B.
  - destruct (tl_steps t L H) as [F B]. split.
    + destruct (tl_next t) as [o t']. exact F.
    + destruct (tl_next_back t) as [o t']. exact B.
Qed.

(** an index as written for the handle list [hs] *)
Inductive bindex_wf : bindex -> list bhandle -> Prop :=
| WfFull hs : bindex_wf (IxFull hs) hs
| WfVolatile hs : bindex_wf (IxVolatile hs) hs
| WfTwoLevel cs : Forall (fun c => c <> []) cs -> bindex_wf (IxTwoLevel (top_of cs) cs) (concat cs).

(** what [seek_lower] (if [lo]) followed by [seek_upper] (if [hi]) on a fresh iterator
    give: table/iter.rs initialisation and BlockIndexImpl::forward_reader *)
Definition ii_seeks (it : iiter) (lo hi : option (key * N)) : bool * iiter :=
  let (ok1, it1) := match lo with Some (k, s) => ii_seek_lower it k s | None => (true, it) end in
  if ok1 then match hi with Some (k, s) => ii_seek_upper it1 k s | None => (ok1, it1) end
  else (ok1, it1).

Lemma ii_seeks_full hs lo hi :
  ii_seeks (ItFull (ib_new hs)) lo hi =
  match (match lo with Some (k, s) => idx_seek (ib_new hs) k s | None => (true, ib_new hs) end) with
  | (false, i1) => (false, ItFull i1)
  | (true, i1) =>
      match hi with
      | Some (k, s) => let (ok, i2) := idx_seek_upper i1 k s in (ok, ItFull i2)
      | None => (true, ItFull i1)
      end
  end.
Proof.
  unfold ii_seeks. destruct lo as [[kl sl]|]; cbn [ii_seek_lower].
  - destruct (idx_seek (ib_new hs) kl sl) as [[|] i1]; [|reflexivity].
    destruct hi as [[kh sh]|]; reflexivity.
  - destruct hi as [[kh sh]|]; reflexivity.
Qed.

Definition valid_for (ix : bindex) (lo hi : option (key * N)) : Prop :=
  match ix with IxTwoLevel _ _ => bounds_valid lo hi | _ => True end.

Lemma ii_seeks_spec ix hs lo hi :
  bindex_wf ix hs -> hsorted hs -> valid_for ix lo hi ->
  IRep (snd (ii_seeks (bindex_iter ix) lo hi)) (hwindow lo hi hs) /\
  (fst (ii_seeks (bindex_iter ix) lo hi) = false -> hwindow lo hi hs = []).
Proof.
  intros Hwf Hs Hv. destruct Hwf as [hs|hs|cs Hne]; cbn [bindex_iter valid_for] in *.
  - (* full: the seeks act on the index block right away *)
    pose proof (seek_bounds_spec hs lo hi Hs) as SB. unfold seek_bounds in SB.
    rewrite ii_seeks_full.
    assert (LO : forall ok1 it1,
      (match lo with Some (k, s) => idx_seek (ib_new hs) k s | None => (true, ib_new hs) end) = (ok1, it1) ->
      ib_hs it1 = hs /\ ib_wf it1 /\ (ok1 = false -> ib_window it1 = []) /\
      (ok1 = true -> hs = [] -> ib_window it1 = [])).
    { intros ok1 it1 E. destruct lo as [[kl sl]|].
      - destruct (idx_seek_spec hs kl sl (lo_pred_once (Some (kl, sl)) hs Hs))
          as (it1' & E' & A1 & A2 & A3 & A4).
        rewrite E' in E. inversion E; subst it1'. split; [exact A1|]. split; [exact A2|].
        split; [intros Eok|intros _ Ehs]; rewrite A3.
        + subst ok1. destruct (dropW (seek_pred kl sl) hs); [reflexivity|discriminate].
        + rewrite Ehs. reflexivity.
      - inversion E; subst. destruct (ib_new_window hs) as [W1 W2].
        split; [reflexivity|]. split; [exact W2|]. split; [discriminate|]. intros _ ->. reflexivity. }
    destruct (match lo with Some (k, s) => idx_seek (ib_new hs) k s | None => (true, ib_new hs) end)
      as [ok1 it1] eqn:E1.
    destruct (LO ok1 it1 eq_refl) as (L1 & L2 & L3 & L4).
    destruct ok1.
    + destruct hi as [[kh sh]|].
      * destruct (idx_seek_upper it1 kh sh) as [ok2 it2] eqn:E2. cbn [fst snd IRep].
        destruct ok2.
        -- destruct SB as (S1 & S2 & S3). split; [auto|discriminate].
        -- split; [|auto].
           unfold idx_seek_upper in E2. rewrite L1 in E2.
           destruct hs as [|h0 hs0]; [|unfold partition_point_2 in E2; cbn in E2; discriminate].
           cbn in E2. inversion E2; subst it2. split; [exact L2|]. rewrite SB. symmetry.
           apply L4; reflexivity.
      * cbn [fst snd IRep]. destruct SB as (S1 & S2 & S3). split; [auto|discriminate].
    + cbn [fst snd IRep]. split; [|auto]. split; [exact L2|]. rewrite SB. symmetry.
      apply L3; reflexivity.
  - (* volatile: only remembered *)
    assert (G : forall lo' hi', VInv (mkVI hs None lo' hi') (hwindow lo' hi' hs)) by (intros; split; [exact Hs|reflexivity]).
    cbn [ii_seek_lower ii_seek_upper vi_hs vi_inner vi_lo vi_hi].
    destruct lo as [[kl sl]|], hi as [[kh sh]|]; cbn [fst snd IRep vi_hs vi_inner vi_lo vi_hi];
      (split; [apply G|discriminate]).
  - (* two-level: only remembered *)
    assert (G : forall lo' hi', bounds_valid lo' hi' ->
              TLInv (mkTL (top_of cs) cs None None None lo' hi') (hwindow lo' hi' (concat cs))).
    { intros lo' hi' V. split; [reflexivity|]. split; [exact Hne|]. split; [exact Hs|].
      split; [exact V|]. cbn [tl_tli tl_loc tl_hic tl_lo tl_hi tl_children]. auto. }
    cbn [ii_seek_lower ii_seek_upper tl_top tl_children tl_tli tl_loc tl_hic tl_lo tl_hi].
    destruct lo as [[kl sl]|], hi as [[kh sh]|];
      cbn [fst snd IRep tl_top tl_children tl_tli tl_loc tl_hic tl_lo tl_hi];
      (split; [apply G; exact Hv|discriminate]).
Qed.

(** * E. The writer's index and the blocks *)

From LsmV Require Proofs.DataBlock.

Definition dummye : entry := mkE [] 0 Value [].
Definition lastE (b : list entry) : entry := last b dummye.

(** the handle the writer registers for block number [fst ib] with content [snd ib] *)
Definition hd_of (ib : nat * list entry) : bhandle :=
  mkBH (ukey (lastE (snd ib))) (seq (lastE (snd ib))) (fst ib).

Lemma index_from_indexed bs : Forall (fun b => b <> []) bs ->
  forall i, index_from i bs = map hd_of (indexed i bs).
Proof.
  induction 1 as [|b bs Hb Hbs IH]; intros i; [reflexivity|].
  rewrite indexed_cons. cbn [index_from map]. rewrite IH.
  destruct b as [|e0 b]; [congruence|]. cbn [handle_of]. f_equal.
  unfold hd_of, lastE. cbn [fst snd].
  rewrite (last_indep (e0 :: b) e0 dummye) by discriminate. reflexivity.
Qed.

Definition isorted (l : list entry) : Prop := StronglySorted ikey_lt l.

Lemma isorted_of_sorted_b l : sorted_b l = true -> isorted l.
Proof. apply sorted_b_StronglySorted. Qed.

Lemma sorted_b_of_isorted l : isorted l -> sorted_b l = true.
Proof.
  induction 1 as [|x l SS IH FA]; [reflexivity|].
  destruct l as [|y l]; [reflexivity|]. rewrite sorted_b_cons2, IH.
  rewrite Forall_forall in FA. rewrite (FA y (or_introl eq_refl)). reflexivity.
Qed.

Lemma SS_chunk_lasts {A} (R : A -> A -> Prop) d (cs : list (list A)) :
  Forall (fun c => c <> []) cs -> StronglySorted R (concat cs) ->
  StronglySorted (fun c c' => R (last c d) (last c' d)) cs.
Proof.
  induction 1 as [|c cs Hc Hcs IH]; intros Hs; [constructor|]. cbn in Hs.
  destruct (SS_app _ _ _ Hs) as (H1 & H2 & H3). constructor; [auto|].
  rewrite Forall_forall in *. intros c' Hc'. apply H3.
  - apply last_In. exact Hc.
  - apply in_concat. exists c'. split; [exact Hc'|]. apply last_In. apply Hcs. exact Hc'.
Qed.

Lemma SS_indexed {A} (R : A -> A -> Prop) (l : list A) :
  StronglySorted R l -> forall i, StronglySorted (fun x y => R (snd x) (snd y)) (indexed i l).
Proof.
  induction 1 as [|c cs SS IH FA]; intros i; [constructor|].
  rewrite indexed_cons. constructor; [apply IH|].
  rewrite Forall_forall in *. intros [j c'] Hj.
  apply (in_map snd) in Hj. rewrite map_snd_indexed in Hj. apply (FA c' Hj).
Qed.

Lemma hlt_of_ikey_lt a b i j :
  ikey_lt a b -> hlt (mkBH (ukey a) (seq a) i) (mkBH (ukey b) (seq b) j).
Proof. unfold ikey_lt. rewrite ikey_ltb_spec. unfold hlt. cbn. tauto. Qed.

Lemma index_sorted bs : Forall (fun b => b <> []) bs -> isorted (concat bs) -> hsorted (index_of bs).
Proof.
  intros Hne Hs. unfold index_of. rewrite (index_from_indexed bs Hne).
  apply SS_map. pose proof (SS_chunk_lasts ikey_lt dummye bs Hne Hs) as H.
  pose proof (SS_indexed _ _ H 0) as H'.
  eapply SS_impl; [|exact H']. intros x y Hxy. unfold hd_of. apply hlt_of_ikey_lt. exact Hxy.
Qed.

(** the two seek predicates as functions of the block *)
Definition lob (lo : option (key * N)) (b : list entry) : bool :=
  lo_pred lo (mkBH (ukey (lastE b)) (seq (lastE b)) 0).
Definition hib (hi : option (key * N)) (b : list entry) : bool :=
  hi_pred hi (mkBH (ukey (lastE b)) (seq (lastE b)) 0).

(** the blocks of the handles in the index window *)
Definition bwindow (lo hi : option (key * N)) (bs : list (list entry)) : list (list entry) :=
  dropW (lob lo) (take_through (hib hi) bs).

Lemma index_window bs lo hi : Forall (fun b => b <> []) bs ->
  exists W, hwindow lo hi (index_of bs) = map hd_of W /\
            map snd W = bwindow lo hi bs /\
            (forall i b, In (i, b) W -> nth i bs [] = b).
Proof.
  intros Hne.
  exists (dropW (fun ib => lob lo (snd ib)) (take_through (fun ib => hib hi (snd ib)) (indexed 0 bs))).
  split; [|split].
  - unfold hwindow, index_of. rewrite (index_from_indexed bs Hne).
    rewrite take_through_map, dropW_map. f_equal.
    rewrite (take_through_ext_in _ (fun ib => hib hi (snd ib))).
    + apply dropW_ext_in. intros ib _. apply lo_pred_ext; reflexivity.
    + intros ib _. apply hi_pred_ext; reflexivity.
  - unfold bwindow. rewrite <- (map_snd_indexed bs 0) at 2.
    rewrite (take_through_map (hib hi) snd), (dropW_map (lob lo) snd). reflexivity.
  - intros i b Hin. apply dropW_In, take_through_In in Hin.
    destruct (indexed_nth bs [] _ _ _ Hin) as [_ Hn]. now rewrite Nat.sub_0_r in Hn.
Qed.

(** ** Facts about strictly sorted entry lists *)

Lemma isorted_app a b : isorted (a ++ b) ->
  isorted a /\ isorted b /\ forall x y, In x a -> In y b -> ikey_lt x y.
Proof. apply SS_app. Qed.

Lemma isorted_last_max b : isorted b -> forall x, In x b -> x = lastE b \/ ikey_lt x (lastE b).
Proof.
  induction 1 as [|y l SS IH FA]; intros x Hx; [contradiction|].
  destruct l as [|z l].
  - destruct Hx as [<-|[]]. now left.
  - unfold lastE in *. change (last (y :: z :: l) dummye) with (last (z :: l) dummye).
    destruct Hx as [<-|Hx]; [|auto]. right. rewrite Forall_forall in FA. apply FA.
    apply last_In. discriminate.
Qed.

Lemma isorted_concat_in bs b : isorted (concat bs) -> In b bs -> isorted b.
Proof.
  induction bs as [|x bs IH]; intros H []; cbn in H; apply isorted_app in H; destruct H as (H1 & H2 & _).
  - subst. exact H1.
  - auto.
Qed.

Lemma ikey_lt_same_key a b : ikey_lt a b -> ukey a = ukey b -> seq b < seq a.
Proof.
  unfold ikey_lt. rewrite ikey_ltb_spec. intros [H|[_ H]] E; [|exact H].
  rewrite E in H. exfalso. exact (key_lt_irrefl _ H).
Qed.

(** [newest] over a sorted concatenation: the first part decides when it has a hit *)
Lemma newest_app_sorted k S a b : isorted (a ++ b) ->
  newest k S (a ++ b) = match newest k S a with Some e => Some e | None => newest k S b end.
Proof.
  intros Hs. apply newest_app.
  - apply sorted_uniq. now apply sorted_b_of_isorted.
  - destruct (isorted_app _ _ Hs) as (_ & _ & H). intros e e' He He' E1 E2.
    apply ikey_lt_same_key; [now apply H|congruence].
Qed.

Lemma block_point_read_scan b k s : block_point_read b k s = Proofs.DataBlock.scan_spec k s b.
Proof.
  induction b as [|e b IH]; [reflexivity|]. cbn [block_point_read Proofs.DataBlock.scan_spec].
  now rewrite IH.
Qed.

Lemma block_point_read_newest b k s : isorted b -> block_point_read b k s = newest k s b.
Proof.
  intros H. rewrite block_point_read_scan. apply Proofs.DataBlock.scan_spec_newest.
  now apply sorted_b_of_isorted.
Qed.

(** the link to the byte level: [DataBlock::point_read] on the encoded block
    (Proofs/DataBlock.v [datablock_point_read]) is [block_point_read] on its items *)
Lemma block_point_read_bytes hash ri nb items k S :
  items <> [] -> sorted_b items = true -> Proofs.DataBlock.items_wf items -> 1 <= ri <= 255 ->
  Proofs.DataBlock.block_small (Model.DataBlock.encode_block hash ri nb items) ->
  Model.DataBlock.point_read hash (Model.DataBlock.encode_block hash ri nb items) k S =
  block_point_read items k S.
Proof.
  intros H1 H2 H3 H4 H5.
  destruct (Proofs.DataBlock.datablock_point_read hash ri nb items k S H1 H2 H3 H4 H5) as [_ ->].
  symmetry. apply block_point_read_newest. now apply isorted_of_sorted_b.
Qed.

(** * F. Table::get / point_read *)

(** the [for block_handle in iter] loop over a list of handles *)
Fixpoint pr_handles (bt : btable) (k : key) (s : N) (L : list bhandle) : option entry :=
  match L with
  | [] => None
  | h :: L' =>
      match block_point_read (load_data_block bt h) k s with
      | Some item => Some (bump (bt_gseq bt) item)
      | None => if key_ltb k (h_end_key h) then None else pr_handles bt k s L'
      end
  end.

Lemma point_read_loop_list bt k s : forall L it fuel,
  IRep it L -> (length L < fuel)%nat ->
  point_read_loop fuel bt it k s = pr_handles bt k s L.
Proof.
  induction L as [|h L IH]; intros it fuel HR Hf; (destruct fuel as [|f]; [cbn in Hf; lia|]);
    cbn [point_read_loop pr_handles]; destruct (ii_steps it _ HR) as [F _];
    destruct (ii_next it) as [o it'] eqn:E; cbn [fst snd] in F; destruct F as [-> F2].
  - reflexivity.
  - destruct (block_point_read (load_data_block bt h) k s); [reflexivity|].
    destruct (key_ltb k (h_end_key h)); [reflexivity|]. apply IH; [exact F2|cbn in Hf; lia].
Qed.

(** ... and over the blocks themselves *)
Fixpoint pr_blocks (g : N) (k : key) (s : N) (bs : list (list entry)) : option entry :=
  match bs with
  | [] => None
  | b :: bs' =>
      match block_point_read b k s with
      | Some item => Some (bump g item)
      | None => if key_ltb k (ukey (lastE b)) then None else pr_blocks g k s bs'
      end
  end.

Lemma pr_handles_blocks bt k s W :
  (forall i b, In (i, b) W -> nth i (bt_blocks bt) [] = b) ->
  pr_handles bt k s (map hd_of W) = pr_blocks (bt_gseq bt) k s (map snd W).
Proof.
  induction W as [|[i b] W IH]; intros H; [reflexivity|]. cbn [map pr_handles pr_blocks snd].
  unfold load_data_block at 1. cbn [hd_of h_idx h_end_key fst snd].
  rewrite (H i b (or_introl eq_refl)). rewrite IH; [reflexivity|].
  intros j c Hj. apply H. now right.
Qed.

(** the semantic core: skipping the blocks whose last item sorts before the probe
    (user key below, or same user key and seqno >= snapshot) loses nothing, and the first
    block kept decides *)
Lemma pr_blocks_newest g k s bs :
  Forall (fun b => b <> []) bs -> isorted (concat bs) ->
  pr_blocks g k s (dropW (lob (Some (k, s))) bs) = option_map (bump g) (newest k s (concat bs)).
Proof.
  induction 1 as [|b bs Hb Hbs IH]; intros Hs; [reflexivity|]. cbn [concat] in Hs.
  destruct (isorted_app _ _ Hs) as (Sb & Sr & Hlt).
  pose proof (isorted_last_max b Sb) as Hmax.
  assert (Hl : In (lastE b) b) by (apply last_In; exact Hb).
  cbn [concat dropW]. rewrite (newest_app_sorted k s b (concat bs) Hs).
  unfold lob at 1. cbn [lo_pred]. unfold seek_pred. cbn [h_end_key h_seqno].
  destruct (key_cmp (ukey (lastE b)) k) eqn:C.
  - (* the block ends inside the versions of [k] *)
    apply key_cmp_eq in C.
    destruct (s <=? seq (lastE b)) eqn:Q.
    + (* ... all of them invisible: skip *)
      apply N.leb_le in Q.
      assert (N0 : newest k s b = None).
      { apply newest_none. intros x Hx. destruct (matches k s x) eqn:M; [|reflexivity].
        apply matches_iff in M. destruct M as [Mk Ms]. exfalso.
        destruct (Hmax x Hx) as [->|Hxl]; [lia|].
        pose proof (ikey_lt_same_key _ _ Hxl ltac:(congruence)). lia. }
      rewrite N0. apply IH. exact Sr.
    + (* ... the last one visible: the hit is in this block *)
      apply N.leb_gt in Q. cbn [pr_blocks]. rewrite (block_point_read_newest b k s Sb).
      destruct (newest k s b) as [e|] eqn:N0; [reflexivity|]. exfalso.
      rewrite newest_none in N0. specialize (N0 _ Hl).
      assert (M : matches k s (lastE b) = true) by (apply matches_iff; auto). congruence.
  - (* the whole block is below [k]: skip *)
    assert (N0 : newest k s b = None).
    { apply newest_none_key. intros x Hx E.
      assert (X : key_le (ukey x) (ukey (lastE b))).
      { destruct (Hmax x Hx) as [->|Hxl]; [apply key_le_refl|now apply ikey_lt_key_le]. }
      rewrite E in X. apply X. now apply key_lt_gt. }
    rewrite N0. apply IH. exact Sr.
  - (* the block ends above [k]: it decides *)
    cbn [pr_blocks]. rewrite (block_point_read_newest b k s Sb).
    destruct (newest k s b) as [e|] eqn:N0; [reflexivity|].
    apply key_lt_gt in C. assert (C' := C). apply key_ltb_lt in C'. rewrite C'.
    symmetry. cbn [option_map].
    replace (newest k s (concat bs)) with (@None entry); [reflexivity|]. symmetry.
    apply newest_none_key. intros y Hy E.
    pose proof (ikey_lt_key_le _ _ (Hlt _ _ Hl Hy)) as X. rewrite E in X.
    exact (key_lt_irrefl _ (key_lt_le_trans _ _ _ C X)).
Qed.

(** ** Global sequence numbers *)

(** no [seqno + global_seqno] reaches u64::MAX: no overflow, and no stored seqno is
    u64::MAX itself (which the ranged iterator passes to the index as "any seqno") *)
Definition seq_bound (g : N) (l : list entry) : Prop := forall e, In e l -> seq e + g < U64_MAX.

Lemma add_u64_small a g : a + g < U64_MAX -> add_u64 a g = a + g.
Proof.
  intros H. unfold add_u64, trunc. apply N.mod_small.
  change (2 ^ 64) with (U64_MAX + 1). lia.
Qed.

Lemma bump_seq g e : seq e + g < U64_MAX -> seq (bump g e) = seq e + g.
Proof. intros H. cbn. now apply add_u64_small. Qed.

Lemma seq_bound_app g a b : seq_bound g (a ++ b) -> seq_bound g a /\ seq_bound g b.
Proof. intros H. split; intros e He; apply H; apply in_or_app; auto. Qed.

Lemma newest_bump g k S l : seq_bound g l ->
  newest k S (map (bump g) l) = option_map (bump g) (newest k (S - g) l).
Proof.
  induction l as [|e l IH]; intros Hb; [reflexivity|].
  assert (He : seq e + g < U64_MAX) by (apply Hb; now left).
  assert (Hl : seq_bound g l) by (intros x Hx; apply Hb; now right).
  cbn [map newest]. rewrite (IH Hl).
  assert (M : matches k S (bump g e) = matches k (S - g) e).
  { unfold matches. cbn [ukey]. f_equal. rewrite (bump_seq g e He).
    destruct (N.ltb_spec (seq e + g) S), (N.ltb_spec (seq e) (S - g)); try reflexivity; lia. }
  rewrite M. destruct (matches k (S - g) e); [|reflexivity].
  destruct (newest k (S - g) l) as [e'|] eqn:R; [|reflexivity]. cbn [option_map].
  assert (He' : seq e' + g < U64_MAX).
  { apply Hl. apply (newest_some _ _ _ _ R). }
  rewrite (bump_seq g e He), (bump_seq g e' He').
  destruct (N.ltb_spec (seq e' + g) (seq e + g)), (N.ltb_spec (seq e') (seq e)); try reflexivity; lia.
Qed.

Lemma isorted_bump g l : seq_bound g l -> isorted l -> isorted (map (bump g) l).
Proof.
  intros Hb Hs. apply SS_map.
  induction Hs as [|x l SS IH FA]; [constructor|].
  assert (Hx : seq x + g < U64_MAX) by (apply Hb; now left).
  assert (Hl : seq_bound g l) by (intros y Hy; apply Hb; now right).
  constructor; [apply IH; exact Hl|].
  rewrite Forall_forall in *. intros y Hy. specialize (FA y Hy).
  unfold ikey_lt in *. rewrite ikey_ltb_spec in *. cbn [ukey].
  rewrite (bump_seq g x Hx), (bump_seq g y (Hl y Hy)). destruct FA as [H|[E H]]; [now left|right].
  split; [exact E|lia].
Qed.

(** ** The well-formed table *)

Record btable_wf (bt : btable) : Prop := mkWF {
  wf_nonempty : Forall (fun b => b <> []) (bt_blocks bt);
  wf_sorted : sorted_b (concat (bt_blocks bt)) = true;
  wf_index : bindex_wf (bt_index bt) (index_of (bt_blocks bt));
  wf_nblocks : bt_nblocks bt = length (bt_blocks bt);
  wf_bound : seq_bound (bt_gseq bt) (concat (bt_blocks bt)) }.

(** the entries as the crate's iterators return them: effective seqnos *)
Definition flat_ents (bt : btable) : list entry := map (bump (bt_gseq bt)) (concat (bt_blocks bt)).

Lemma length_dropW_le {A} (f : A -> bool) l : (length (dropW f l) <= length l)%nat.
Proof. rewrite dropW_skipn, skipn_length. lia. Qed.

Lemma length_take_through_le {A} (g : A -> bool) l : (length (take_through g l) <= length l)%nat.
Proof. rewrite take_through_firstn, firstn_length. lia. Qed.

Lemma ii_seeks_lower_only it k s : ii_seeks it (Some (k, s)) None = ii_seek_lower it k s.
Proof. unfold ii_seeks. destruct (ii_seek_lower it k s) as [[|] it1]; reflexivity. Qed.

(** Table::point_read finds the newest version visible at the (translated) snapshot *)
Lemma bt_point_read_newest bt k s : btable_wf bt ->
  bt_point_read bt k s = option_map (bump (bt_gseq bt)) (newest k s (concat (bt_blocks bt))).
Proof.
  intros [Hne Hsb Hix _ _]. pose proof (isorted_of_sorted_b _ Hsb) as Hs.
  pose proof (index_sorted _ Hne Hs) as Hhs.
  assert (Hv : valid_for (bt_index bt) (Some (k, s)) None) by (destruct (bt_index bt); exact I).
  destruct (ii_seeks_spec _ _ (Some (k, s)) None Hix Hhs Hv) as [HR Hno].
  rewrite ii_seeks_lower_only in HR, Hno.
  destruct (index_window (bt_blocks bt) (Some (k, s)) None Hne) as (W & EW & ES & HW).
  assert (EB : bwindow (Some (k, s)) None (bt_blocks bt) = dropW (lob (Some (k, s))) (bt_blocks bt)).
  { unfold bwindow. rewrite take_through_all; [reflexivity|]. intros; reflexivity. }
  rewrite <- (pr_blocks_newest (bt_gseq bt) k s _ Hne Hs), <- EB, <- ES.
  unfold bt_point_read, forward_reader.
  destruct (ii_seek_lower (bindex_iter (bt_index bt)) k s) as [ok it] eqn:E. cbn [fst snd] in *.
  destruct ok.
  - rewrite (point_read_loop_list bt k s _ it _ HR).
    + rewrite EW. apply pr_handles_blocks. exact HW.
    + rewrite EW, map_length, <- (map_length snd), ES. unfold bwindow.
      pose proof (length_dropW_le (lob (Some (k, s))) (take_through (hib None) (bt_blocks bt))).
      pose proof (length_take_through_le (hib None) (bt_blocks bt)). lia.
  - rewrite EW in Hno. specialize (Hno eq_refl). apply map_eq_nil in Hno. subst W. reflexivity.
Qed.

(** * I (first half). The flat table and Table::get *)

(** the table of Model/Tree.v that [bt] stands for *)
Definition flat_of (bt : btable) : table :=
  let l := flat_ents bt in
  mkT (bt_id bt) (bt_gseq bt) l
      (ukey (hd dummye l)) (ukey (last l dummye))
      (bt_slo bt) (max_seq l - bt_gseq bt)
      (N.of_nat (length l)) (count_b is_tomb l) (count_b is_weak l).

Lemma flat_sorted bt : btable_wf bt -> sorted_b (flat_ents bt) = true.
Proof.
  intros [_ Hsb _ _ Hb]. apply sorted_b_of_isorted. apply isorted_bump; [exact Hb|].
  now apply isorted_of_sorted_b.
Qed.

(** THEOREM 1: the block-wise point read is the flat table's point read, for every cut *)
Theorem btable_get_flat flt bt k S : btable_wf bt ->
  btable_get flt bt k S = table_get flt (flat_of bt) k S.
Proof.
  intros Hwf. unfold btable_get, table_get. cbn [flat_of gseq slo tid ents].
  destruct (ssub S (bt_gseq bt) <=? bt_slo bt); [reflexivity|].
  destruct (negb (flt (bt_id bt) k)); [reflexivity|].
  rewrite (bt_point_read_newest bt k _ Hwf).
  rewrite (slab_get_newest _ k S (flat_sorted bt Hwf)).
  unfold flat_ents, ssub. symmetry. apply newest_bump. apply (wf_bound bt Hwf).
Qed.

(** * G. Table::range *)

Definition inb (lo hi : bound) (e : entry) : bool := in_bounds lo hi (ukey e).

Definition ksorted (l : list entry) : Prop :=
  StronglySorted (fun x y => key_le (ukey x) (ukey y)) l.

Lemma ksorted_of_isorted l : isorted l -> ksorted l.
Proof. apply SS_impl. intros x y. apply ikey_lt_key_le. Qed.

Lemma drop_front_dropW f l : drop_front f l = dropW f l.
Proof. induction l as [|x l IH]; cbn; [reflexivity|]. now rewrite IH. Qed.

Lemma db_seek_lower_filter lo b : ksorted b ->
  db_seek_lower lo b = filter (fun e => lo_ok lo (ukey e)) b.
Proof.
  intros Hs. destruct lo as [k|k|]; cbn [db_seek_lower lo_ok].
  - rewrite drop_front_dropW, dropW_filter.
    + apply filter_ext. intros e. now rewrite key_leb_ltb.
    + eapply SS_impl; [|exact Hs]. cbn beta. intros x y Hxy H. key_prop.
      eapply key_le_lt_trans; eauto.
  - rewrite drop_front_dropW, dropW_filter.
    + apply filter_ext. intros e. rewrite (key_leb_ltb (ukey e) k). now rewrite negb_involutive.
    + eapply SS_impl; [|exact Hs]. cbn beta. intros x y Hxy H. key_prop.
      eapply key_le_trans; eauto.
  - symmetry. clear. induction b; cbn; congruence.
Qed.

Lemma db_seek_upper_filter hi b : ksorted b ->
  db_seek_upper hi b = filter (fun e => hi_ok hi (ukey e)) b.
Proof.
  intros Hs. apply SS_rev in Hs.
  destruct hi as [k|k|]; cbn [db_seek_upper hi_ok]; unfold drop_back.
  - rewrite drop_front_dropW, dropW_filter.
    + rewrite filter_rev, rev_involutive.
      apply filter_ext. intros e. now rewrite key_leb_ltb.
    + eapply SS_impl; [|exact Hs]. cbn beta. intros x y Hxy H. key_prop.
      eapply key_lt_le_trans; eauto.
  - rewrite drop_front_dropW, dropW_filter.
    + rewrite filter_rev, rev_involutive.
      apply filter_ext. intros e. rewrite (key_leb_ltb k (ukey e)). now rewrite negb_involutive.
    + eapply SS_impl; [|exact Hs]. cbn beta. intros x y Hxy H. key_prop.
      eapply key_le_trans; eauto.
  - symmetry. clear. induction b; cbn; congruence.
Qed.

Lemma trim_fwd lo hi b : ksorted b ->
  db_seek_upper hi (db_seek_lower lo b) = filter (inb lo hi) b.
Proof.
  intros Hs. rewrite (db_seek_lower_filter lo b Hs).
  rewrite db_seek_upper_filter by (now apply SS_filter).
  rewrite filter_filter. reflexivity.
Qed.

Lemma trim_bwd lo hi b : ksorted b ->
  db_seek_lower lo (db_seek_upper hi b) = filter (inb lo hi) b.
Proof.
  intros Hs. rewrite (db_seek_upper_filter hi b Hs).
  rewrite db_seek_lower_filter by (now apply SS_filter).
  rewrite filter_filter. apply filter_ext. intros e. unfold inb, in_bounds. apply andb_comm.
Qed.

(** ** The iterator as a deque *)

Definition opn (bt : btable) (r : bound * bound) (h : bhandle) : list entry :=
  filter (inb (fst r) (snd r)) (load_data_block bt h).

Definition oents (o : option (list entry)) : list entry :=
  match o with Some l => l | None => [] end.

Definition blocks_ksorted (bt : btable) : Prop := forall b, In b (bt_blocks bt) -> ksorted b.

Lemma load_ksorted bt h : blocks_ksorted bt -> ksorted (load_data_block bt h).
Proof.
  intros H. unfold load_data_block.
  destruct (Nat.lt_ge_cases (h_idx h) (length (bt_blocks bt))) as [C|C].
  - apply H. now apply nth_In.
  - rewrite nth_overflow by exact C. constructor.
Qed.

Lemma open_fwd_opn it h : blocks_ksorted (ti_bt it) -> open_fwd it h = opn (ti_bt it) (ti_range it) h.
Proof. intros H. apply trim_fwd. now apply load_ksorted. Qed.

Lemma open_bwd_opn it h : blocks_ksorted (ti_bt it) -> open_bwd it h = opn (ti_bt it) (ti_range it) h.
Proof. intros H. apply trim_bwd. now apply load_ksorted. Qed.

(** initialised iterator [it] still yields the (stored) entries [L] *)
Definition TRepI (it : titer) (L : list entry) : Prop :=
  ti_init it = true /\ blocks_ksorted (ti_bt it) /\
  exists Lh, IRep (ti_index it) Lh /\ (length Lh <= length (bt_blocks (ti_bt it)))%nat /\
    L = oents (ti_lo it) ++ concat (map (opn (ti_bt it) (ti_range it)) Lh) ++ oents (ti_hi it).

Lemma ti_next_loop_spec : forall Lh bt ix lo hi r fuel,
  blocks_ksorted bt -> IRep ix Lh -> (length Lh <= length (bt_blocks bt))%nat ->
  (length Lh < fuel)%nat -> oents lo = [] ->
  let it := mkTI bt ix true lo hi r in
  match concat (map (opn bt r) Lh) ++ oents hi with
  | [] => fst (ti_next_loop fuel it) = None /\ TRepI (snd (ti_next_loop fuel it)) []
  | x :: L' => fst (ti_next_loop fuel it) = Some (bump (bt_gseq bt) x) /\
               TRepI (snd (ti_next_loop fuel it)) L'
  end.
Proof.
  induction Lh as [|h Lh IH]; intros bt ix lo hi r fuel Hk HR Hlen Hf Hlo it; subst it;
    (destruct fuel as [|f]; [cbn in Hf; lia|]); cbn [ti_next_loop ti_index ti_hi ti_bt ti_init ti_lo ti_range];
    destruct (ii_steps ix _ HR) as [F _]; destruct (ii_next ix) as [o ix'] eqn:E;
    cbn [fst snd] in F; destruct F as [-> F2]; cbn [map concat app].
  - destruct hi as [[|e rr]|]; cbn [oents fst snd].
    + split; [reflexivity|]. split; [reflexivity|]. split; [exact Hk|]. exists []. cbn. auto.
    + split; [reflexivity|]. split; [reflexivity|]. split; [exact Hk|]. exists [].
      cbn [ti_index ti_bt ti_lo ti_hi ti_range map concat app oents]. rewrite Hlo. auto.
    + split; [reflexivity|]. split; [reflexivity|]. split; [exact Hk|]. exists []. cbn. auto.
  - rewrite (open_fwd_opn (mkTI bt ix true lo hi r) h Hk). cbn [ti_bt ti_range].
    cbn [length] in Hlen, Hf.
    destruct (opn bt r h) as [|e rr] eqn:EO; cbn [app].
    + apply (IH bt ix' (Some []) hi r f); auto; lia.
    + cbn [fst snd]. split; [reflexivity|]. split; [reflexivity|]. split; [exact Hk|]. exists Lh.
      cbn [ti_index ti_bt ti_lo ti_hi ti_range oents]. repeat split; auto; try lia.
      now rewrite <- app_assoc.
Qed.

Lemma ti_next_back_loop_spec : forall Lr Lh bt ix lo hi r fuel,
  rev Lh = Lr ->
  blocks_ksorted bt -> IRep ix Lh -> (length Lh <= length (bt_blocks bt))%nat ->
  (length Lh < fuel)%nat -> oents hi = [] ->
  let it := mkTI bt ix true lo hi r in
  match rev (oents lo ++ concat (map (opn bt r) Lh)) with
  | [] => fst (ti_next_back_loop fuel it) = None /\ TRepI (snd (ti_next_back_loop fuel it)) []
  | x :: L' => fst (ti_next_back_loop fuel it) = Some (bump (bt_gseq bt) x) /\
               TRepI (snd (ti_next_back_loop fuel it)) (rev L')
  end.
Proof.
  induction Lr as [|h Lr IH]; intros Lh bt ix lo hi r fuel ER Hk HR Hlen Hf Hhi it; subst it;
    (destruct fuel as [|f]; [lia|]); cbn [ti_next_back_loop ti_index ti_hi ti_bt ti_init ti_lo ti_range];
    destruct (ii_steps ix _ HR) as [_ B]; rewrite ER in B; destruct (ii_next_back ix) as [o ix'] eqn:E;
    cbn [fst snd] in B; destruct B as [-> B2].
  - apply rev_nil_inv in ER. subst Lh. cbn [map concat]. rewrite app_nil_r.
    destruct lo as [[|e rr]|]; cbn [oents fst snd].
    + cbn [rev fst snd]. split; [reflexivity|]. split; [reflexivity|]. split; [exact Hk|]. exists []. cbn. auto.
    + rewrite (rev_last_removelast (e :: rr) e) by discriminate. cbn [fst snd].
      split; [reflexivity|]. split; [reflexivity|]. split; [exact Hk|]. exists [].
      cbn [ti_index ti_bt ti_lo ti_hi ti_range map concat app oents]. rewrite Hhi, rev_involutive.
      repeat split; auto. now rewrite app_nil_r.
    + cbn [rev fst snd]. split; [reflexivity|]. split; [reflexivity|]. split; [exact Hk|]. exists []. cbn. auto.
  - apply rev_cons_inv in ER. subst Lh.
    rewrite (open_bwd_opn (mkTI bt ix true lo hi r) h Hk). cbn [ti_bt ti_range].
    rewrite app_length in Hlen, Hf. cbn [length] in Hlen, Hf.
    rewrite map_app, concat_app. cbn [map concat]. rewrite app_nil_r.
    destruct (opn bt r h) as [|e rr] eqn:EO.
    + rewrite app_nil_r. apply (IH (rev Lr) bt ix' lo (Some []) r f); auto; try lia.
      apply rev_involutive.
    + rewrite !app_assoc, rev_app_distr, (rev_last_removelast (e :: rr) e) by discriminate.
      cbn [app fst snd]. split; [reflexivity|]. split; [reflexivity|]. split; [exact Hk|].
      exists (rev Lr). cbn [ti_index ti_bt ti_lo ti_hi ti_range oents].
      rewrite rev_app_distr, !rev_involutive. repeat split; auto; [lia|]. now rewrite <- app_assoc.
Qed.

(** ** The iterator before and after its lazy initialisation *)

Lemma ti_next_loop_bt : forall fuel it, ti_bt (snd (ti_next_loop fuel it)) = ti_bt it.
Proof.
  induction fuel as [|f IH]; intros it; [reflexivity|]. cbn [ti_next_loop].
  destruct (ii_next (ti_index it)) as [[h|] ix'].
  - destruct (open_fwd it h); [|reflexivity]. rewrite IH. reflexivity.
  - destruct (ti_hi it) as [[|e r]|]; reflexivity.
Qed.

Lemma ti_next_back_loop_bt : forall fuel it, ti_bt (snd (ti_next_back_loop fuel it)) = ti_bt it.
Proof.
  induction fuel as [|f IH]; intros it; [reflexivity|]. cbn [ti_next_back_loop].
  destruct (ii_next_back (ti_index it)) as [[h|] ix'].
  - destruct (open_bwd it h); [|reflexivity]. rewrite IH. reflexivity.
  - destruct (ti_lo it) as [[|e r]|]; reflexivity.
Qed.

Definition lo_of (b : bound) : option (key * N) :=
  match bound_key b with Some k => Some (k, U64_MAX) | None => None end.

Lemma ti_initialize_seeks it :
  ti_initialize it =
  (fst (ii_seeks (ti_index it) (lo_of (fst (ti_range it))) (lo_of (snd (ti_range it)))),
   mkTI (ti_bt it) (snd (ii_seeks (ti_index it) (lo_of (fst (ti_range it))) (lo_of (snd (ti_range it)))))
        true (ti_lo it) (ti_hi it) (ti_range it)).
Proof.
  unfold ti_initialize, ii_seeks, lo_of. destruct (ti_range it) as [lo hi]. cbn [fst snd].
  destruct (bound_key lo) as [kl|].
  - destruct (ii_seek_lower (ti_index it) kl U64_MAX) as [[|] ix1].
    + destruct (bound_key hi) as [kh|]; [|reflexivity].
      destruct (ii_seek_upper ix1 kh U64_MAX) as [ok2 ix2]. reflexivity.
    + reflexivity.
  - destruct (bound_key hi) as [kh|]; [|reflexivity].
    destruct (ii_seek_upper (ti_index it) kh U64_MAX) as [ok2 ix2]. reflexivity.
Qed.

(** [it] yields the stored entries [L] *)
Definition TRepL (it : titer) (L : list entry) : Prop :=
  if ti_init it then TRepI it L
  else ti_lo it = None /\ ti_hi it = None /\
       TRepI (snd (ti_initialize it)) L /\ (fst (ti_initialize it) = false -> L = []).

Lemma ti_next_I it L : TRepI it L ->
  match L with
  | [] => fst (ti_next it) = None /\ TRepI (snd (ti_next it)) []
  | x :: L' => fst (ti_next it) = Some (bump (bt_gseq (ti_bt it)) x) /\ TRepI (snd (ti_next it)) L'
  end.
Proof.
  destruct it as [bt ix init lo hi r]. intros (Hi & Hk & Lh & HR & Hlen & ->).
  cbn [ti_init ti_bt ti_index ti_lo ti_hi ti_range] in *. subst init.
  unfold ti_next. cbn [ti_init ti_bt ti_index ti_lo ti_hi ti_range ti_fuel].
  destruct lo as [[|e rr]|]; cbn [oents app].
  - apply (ti_next_loop_spec Lh bt ix (Some []) hi r); auto. unfold ti_fuel; cbn [ti_bt]; lia.
  - cbn [fst snd]. split; [reflexivity|]. split; [reflexivity|]. split; [exact Hk|].
    exists Lh. cbn [ti_init ti_bt ti_index ti_lo ti_hi ti_range oents]. auto.
  - apply (ti_next_loop_spec Lh bt ix None hi r); auto. unfold ti_fuel; cbn [ti_bt]; lia.
Qed.

Lemma ti_next_back_I it L : TRepI it L ->
  match rev L with
  | [] => fst (ti_next_back it) = None /\ TRepI (snd (ti_next_back it)) []
  | x :: L' => fst (ti_next_back it) = Some (bump (bt_gseq (ti_bt it)) x) /\
               TRepI (snd (ti_next_back it)) (rev L')
  end.
Proof.
  destruct it as [bt ix init lo hi r]. intros (Hi & Hk & Lh & HR & Hlen & ->).
  cbn [ti_init ti_bt ti_index ti_lo ti_hi ti_range] in *. subst init.
  unfold ti_next_back. cbn [ti_init ti_bt ti_index ti_lo ti_hi ti_range ti_fuel].
  destruct hi as [[|e rr]|]; cbn [oents].
  - rewrite app_nil_r.
    apply (ti_next_back_loop_spec (rev Lh) Lh bt ix lo (Some []) r); auto. unfold ti_fuel; cbn [ti_bt]; lia.
  - rewrite !app_assoc, rev_app_distr, (rev_last_removelast (e :: rr) e) by discriminate.
    cbn [app fst snd]. split; [reflexivity|]. split; [reflexivity|]. split; [exact Hk|].
    exists Lh. cbn [ti_init ti_bt ti_index ti_lo ti_hi ti_range oents].
    rewrite rev_app_distr, !rev_involutive. repeat split; auto. now rewrite <- app_assoc.
  - rewrite app_nil_r.
    apply (ti_next_back_loop_spec (rev Lh) Lh bt ix lo None r); auto. unfold ti_fuel; cbn [ti_bt]; lia.
Qed.

Lemma TRepI_init it L : TRepI it L -> ti_init it = true.
Proof. intros H. apply H. Qed.

(** one step from either end, initialised or not *)
Lemma ti_steps_L it L : TRepL it L ->
  (match L with
   | [] => fst (ti_next it) = None /\ TRepL (snd (ti_next it)) []
   | x :: L' => fst (ti_next it) = Some (bump (bt_gseq (ti_bt it)) x) /\ TRepL (snd (ti_next it)) L'
   end) /\
  (match rev L with
   | [] => fst (ti_next_back it) = None /\ TRepL (snd (ti_next_back it)) []
   | x :: L' => fst (ti_next_back it) = Some (bump (bt_gseq (ti_bt it)) x) /\
                TRepL (snd (ti_next_back it)) (rev L')
   end).
Proof.
  assert (Lift : forall it' L', TRepI it' L' -> TRepL it' L').
  { intros it' L' H. unfold TRepL. now rewrite (TRepI_init _ _ H). }
  unfold TRepL at 1. destruct (ti_init it) eqn:Ei.
  - intros H. split.
    + pose proof (ti_next_I it L H) as F. destruct L; destruct F; auto.
    + pose proof (ti_next_back_I it L H) as B. destruct (rev L); destruct B; auto.
  - intros (Elo & Ehi & HI & Hno).
    rewrite ti_initialize_seeks in HI, Hno. cbn [fst snd] in HI, Hno.
    set (sk := ii_seeks (ti_index it) (lo_of (fst (ti_range it))) (lo_of (snd (ti_range it)))) in *.
    set (it1 := mkTI (ti_bt it) (snd sk) true (ti_lo it) (ti_hi it) (ti_range it)) in *.
    assert (N1 : ti_next it = if fst sk then ti_next it1
                              else (None, mkTI (ti_bt it) (snd sk) true None None (ti_range it))).
    { unfold ti_next. rewrite Elo, Ei, ti_initialize_seeks. fold sk. fold it1.
      cbn [ti_lo ti_init ti_bt ti_index ti_range it1]. rewrite Elo.
      destruct (fst sk); reflexivity. }
    assert (N2 : ti_next_back it = if fst sk then ti_next_back it1
                              else (None, mkTI (ti_bt it) (snd sk) true None None (ti_range it))).
    { unfold ti_next_back. rewrite Ehi, Ei, ti_initialize_seeks. fold sk. fold it1.
      cbn [ti_hi ti_init ti_bt ti_index ti_range it1]. rewrite Ehi.
      destruct (fst sk); reflexivity. }
    rewrite N1, N2. destruct (fst sk).
    + change (ti_bt it) with (ti_bt it1). split.
      * pose proof (ti_next_I it1 L HI) as F. destruct L; destruct F; auto.
      * pose proof (ti_next_back_I it1 L HI) as B. destruct (rev L); destruct B; auto.
    + rewrite (Hno eq_refl) in *. cbn [rev fst snd].
      assert (E1 : mkTI (ti_bt it) (snd sk) true None None (ti_range it) = it1).
      { unfold it1. now rewrite Elo, Ehi. }
      rewrite E1. auto.
Qed.

(** with effective sequence numbers, as a deque *)
Definition TRep (g : N) (it : titer) (L' : list entry) : Prop :=
  bt_gseq (ti_bt it) = g /\ exists L, L' = map (bump g) L /\ TRepL it L.

Lemma ti_next_bt it : ti_bt (snd (ti_next it)) = ti_bt it.
Proof.
  unfold ti_next. destruct (ti_lo it) as [[|e r]|]; try reflexivity;
    (destruct (ti_init it); [apply ti_next_loop_bt|]);
    rewrite ti_initialize_seeks; cbn [fst snd];
    (destruct (fst (ii_seeks _ _ _)); [rewrite ti_next_loop_bt|]; reflexivity).
Qed.

Lemma ti_next_back_bt it : ti_bt (snd (ti_next_back it)) = ti_bt it.
Proof.
  unfold ti_next_back. destruct (ti_hi it) as [[|e r]|]; try reflexivity;
    (destruct (ti_init it); [apply ti_next_back_loop_bt|]);
    rewrite ti_initialize_seeks; cbn [fst snd];
    (destruct (fst (ii_seeks _ _ _)); [rewrite ti_next_back_loop_bt|]; reflexivity).
Qed.

Lemma ti_steps g : steps_ok ti_next ti_next_back (TRep g).
Proof.
  intros it L' (Eg & L & -> & H). destruct (ti_steps_L it L H) as [F B]. rewrite Eg in F, B. split.
  - destruct L as [|x L]; cbn [map]; destruct F as [F1 F2]; (split; [exact F1|]);
      (split; [now rewrite ti_next_bt|]); eexists; (split; [|exact F2]); reflexivity.
  - rewrite <- map_rev. destruct (rev L) as [|x r]; cbn [map]; destruct B as [B1 B2];
      (split; [exact B1|]); (split; [now rewrite ti_next_back_bt|]); eexists; (split; [|exact B2]).
    + reflexivity.
    + now rewrite map_rev.
Qed.

Lemma ti_pulls_spec g : forall code it L, TRep g it L -> ti_pulls code it = dq_run code L.
Proof.
  induction code as [|c code IH]; intros it L H; [reflexivity|].
  destruct (ti_steps g it L H) as [F B]. cbn [ti_pulls dq_run]. destruct c.
  - destruct (ti_next it) as [o it']. cbn [fst snd] in F.
    destruct L as [|x L']; destruct F as [-> F2]; f_equal; apply IH; exact F2.
  - destruct (ti_next_back it) as [o it']. cbn [fst snd] in B.
    destruct (rev L) as [|x r]; destruct B as [-> B2]; f_equal; apply IH; exact B2.
Qed.

Lemma ti_collect_spec g : forall L it fuel, TRep g it L -> (length L < fuel)%nat ->
  ti_collect fuel it = L.
Proof.
  induction L as [|x L IH]; intros it fuel H Hf; (destruct fuel as [|f]; [cbn in Hf; lia|]);
    destruct (ti_steps g it _ H) as [F _]; cbn [ti_collect];
    destruct (ti_next it) as [o it']; cbn [fst snd] in F; destruct F as [-> F2].
  - reflexivity.
  - f_equal. apply IH; [exact F2|cbn in Hf; lia].
Qed.

Lemma ti_collect_back_spec g : forall Lr L it fuel, rev L = Lr -> TRep g it L -> (length L < fuel)%nat ->
  ti_collect_back fuel it = Lr.
Proof.
  induction Lr as [|x Lr IH]; intros L it fuel E H Hf; (destruct fuel as [|f]; [lia|]);
    destruct (ti_steps g it _ H) as [_ B]; rewrite E in B; cbn [ti_collect_back];
    destruct (ti_next_back it) as [o it']; cbn [fst snd] in B; destruct B as [-> B2].
  - reflexivity.
  - f_equal. apply (IH (rev Lr)); [apply rev_involutive|exact B2|].
    apply rev_cons_inv in E. subst L. rewrite app_length, rev_length in Hf. cbn [length] in Hf.
    rewrite rev_length. lia.
Qed.

(** ** What the index window means for the entries *)

Lemma filter_nil {A} (f : A -> bool) l : (forall x, In x l -> f x = false) -> filter f l = [].
Proof.
  induction l as [|x l IH]; intros H; [reflexivity|]. cbn. rewrite (H x (or_introl eq_refl)).
  apply IH. intros y Hy. apply H. now right.
Qed.

Lemma length_filter_le {A} (f : A -> bool) l : (length (filter f l) <= length l)%nat.
Proof. induction l as [|x l IH]; cbn; [lia|]. destruct (f x); cbn; lia. Qed.

Lemma concat_map_dropW {A B} (F : A -> list B) (p : A -> bool) l :
  (forall x, In x l -> p x = true -> F x = []) ->
  concat (map F (dropW p l)) = concat (map F l).
Proof.
  induction l as [|x l IH]; intros H; [reflexivity|]. cbn [dropW].
  destruct (p x) eqn:E; [|reflexivity]. cbn [map concat].
  rewrite (H x (or_introl eq_refl) E). cbn [app]. apply IH. intros y Hy. apply H. now right.
Qed.

(** the blocks outside the index window hold nothing inside the bounds *)
Lemma bwindow_filter lo hi bs :
  Forall (fun b => b <> []) bs -> isorted (concat bs) ->
  (forall e, In e (concat bs) -> seq e < U64_MAX) ->
  concat (map (filter (inb lo hi)) (bwindow (lo_of lo) (lo_of hi) bs)) =
  filter (inb lo hi) (concat bs).
Proof.
  intros Hne Hs Hb. rewrite <- concat_filter. unfold bwindow.
  rewrite concat_map_dropW.
  - (* the upper cut *)
    clear Hb. induction Hne as [|b bs Hb0 Hbs IH]; [reflexivity|]. cbn [concat] in Hs.
    destruct (isorted_app _ _ Hs) as (Sb & Sr & Hlt).
    cbn [take_through]. destruct (hib (lo_of hi) b) eqn:Q; cbn [map concat].
    + f_equal. apply IH. exact Sr.
    + f_equal. symmetry. rewrite concat_filter. apply filter_nil. intros y Hy.
      assert (Hl : In (lastE b) b) by (apply last_In; exact Hb0).
      pose proof (ikey_lt_key_le _ _ (Hlt _ _ Hl Hy)) as X.
      unfold hib, lo_of in Q. unfold inb, in_bounds.
      destruct hi as [k|k|]; cbn [bound_key hi_pred h_end_key] in Q; [| |discriminate];
        key_prop; cbn [hi_ok]; apply andb_false_iff; right; key_prop.
      * eapply key_lt_le_trans; eauto.
      * apply key_lt_le. eapply key_lt_le_trans; eauto.
  - (* the lower cut *)
    intros b Hin P. apply take_through_In in Hin.
    rewrite Forall_forall in Hne. pose proof (Hne b Hin) as Hb0.
    assert (Sb : isorted b) by (eapply isorted_concat_in; eauto).
    pose proof (isorted_last_max b Sb) as Hmax.
    assert (Hl : In (lastE b) b) by (apply last_In; exact Hb0).
    assert (Hsl : seq (lastE b) < U64_MAX).
    { apply Hb. apply in_concat. exists b. auto. }
    apply filter_nil. intros x Hx.
    assert (X : key_le (ukey x) (ukey (lastE b))).
    { destruct (Hmax x Hx) as [->|Hxl]; [apply key_le_refl|now apply ikey_lt_key_le]. }
    unfold lob, lo_of in P. unfold inb, in_bounds.
    destruct lo as [k|k|]; cbn [bound_key lo_pred] in P; [| |discriminate];
      unfold seek_pred in P; cbn [h_end_key h_seqno] in P;
      (destruct (key_cmp (ukey (lastE b)) k) eqn:C; [apply N.leb_le in P; lia| |discriminate]);
      cbn [lo_ok]; apply andb_false_iff; left; key_prop.
    + eapply key_le_lt_trans; eauto.
    + apply key_lt_le. eapply key_le_lt_trans; eauto.
Qed.

Lemma filter_map_bump f g l :
  filter (fun e => f (ukey e)) (map (bump g) l) = map (bump g) (filter (fun e => f (ukey e)) l).
Proof.
  induction l as [|x l IH]; [reflexivity|]. cbn [map filter ukey bump].
  destruct (f (ukey x)); cbn [map]; now rewrite IH.
Qed.

(** bounds the two-level index is proved for: lower key <= upper key *)
Definition range_valid_for (ix : bindex) (lo hi : bound) : Prop :=
  match ix with
  | IxTwoLevel _ _ =>
      match bound_key lo, bound_key hi with
      | Some a, Some b => key_le a b
      | _, _ => True
      end
  | _ => True
  end.

(** a fresh Table::range iterator stands for the entries inside the bounds *)
Lemma ti_new_rep bt lo hi : btable_wf bt -> range_valid_for (bt_index bt) lo hi ->
  TRep (bt_gseq bt) (ti_new bt lo hi) (table_range (flat_of bt) lo hi).
Proof.
  intros Hwf Hv. destruct Hwf as [Hne Hsb Hix Hnb Hbd].
  pose proof (isorted_of_sorted_b _ Hsb) as Hs.
  split; [reflexivity|]. exists (filter (inb lo hi) (concat (bt_blocks bt))). split.
  - unfold table_range. cbn [flat_of ents]. unfold flat_ents.
    apply (filter_map_bump (in_bounds lo hi)).
  - unfold TRepL. cbn [ti_new ti_init ti_lo ti_hi]. split; [reflexivity|]. split; [reflexivity|].
    rewrite ti_initialize_seeks. cbn [ti_new ti_index ti_range ti_bt ti_lo ti_hi fst snd].
    assert (Hv' : valid_for (bt_index bt) (lo_of lo) (lo_of hi)).
    { unfold range_valid_for in Hv. unfold valid_for, bounds_valid, lo_of.
      destruct (bt_index bt); auto. destruct (bound_key lo), (bound_key hi); auto. }
    destruct (ii_seeks_spec _ _ (lo_of lo) (lo_of hi) Hix (index_sorted _ Hne Hs) Hv') as [HR Hno].
    destruct (index_window (bt_blocks bt) (lo_of lo) (lo_of hi) Hne) as (W & EW & ES & HW).
    assert (Hk : blocks_ksorted bt).
    { intros b Hb. apply ksorted_of_isorted. eapply isorted_concat_in; eauto. }
    assert (EL : filter (inb lo hi) (concat (bt_blocks bt)) =
                 concat (map (opn bt (lo, hi)) (hwindow (lo_of lo) (lo_of hi) (index_of (bt_blocks bt))))).
    { rewrite <- (bwindow_filter lo hi _ Hne Hs).
      - rewrite <- ES, EW, !map_map. f_equal. apply map_ext_in. intros [i b] Hib.
        unfold opn, load_data_block. cbn [hd_of h_idx fst snd]. now rewrite (HW i b Hib).
      - intros e He. specialize (Hbd e He). lia. }
    split.
    + split; [reflexivity|]. split; [exact Hk|].
      exists (hwindow (lo_of lo) (lo_of hi) (index_of (bt_blocks bt))).
      cbn [ti_index ti_bt ti_lo ti_hi ti_range oents app]. split; [exact HR|]. split.
      * rewrite EW, map_length, <- (map_length snd), ES. unfold bwindow.
        pose proof (length_dropW_le (lob (lo_of lo)) (take_through (hib (lo_of hi)) (bt_blocks bt))).
        pose proof (length_take_through_le (hib (lo_of hi)) (bt_blocks bt)). lia.
      * now rewrite app_nil_r.
    + intros E. rewrite EL, (Hno E). reflexivity.
Qed.

(** THEOREM 2 (deque form): any interleaving of next / next_back on Table::range behaves as
    the deque of the flat table's entries inside the bounds *)
Theorem btable_range_pulls_flat bt lo hi code :
  btable_wf bt -> range_valid_for (bt_index bt) lo hi ->
  btable_range_pulls bt lo hi code = dq_run code (table_range (flat_of bt) lo hi).
Proof.
  intros Hwf Hv. unfold btable_range_pulls.
  apply (ti_pulls_spec (bt_gseq bt)). now apply ti_new_rep.
Qed.

Lemma table_range_length bt lo hi :
  (length (table_range (flat_of bt) lo hi) < S (bt_item_count bt))%nat.
Proof.
  unfold table_range, bt_item_count. cbn [flat_of ents]. unfold flat_ents.
  pose proof (length_filter_le (fun e => in_bounds lo hi (ukey e))
                (map (bump (bt_gseq bt)) (concat (bt_blocks bt)))) as H.
  rewrite map_length in H. lia.
Qed.

(** forward: the entries of the flat table within the bounds, in order *)
Theorem btable_range_flat bt lo hi :
  btable_wf bt -> range_valid_for (bt_index bt) lo hi ->
  btable_range bt lo hi = table_range (flat_of bt) lo hi.
Proof.
  intros Hwf Hv. unfold btable_range.
  apply (ti_collect_spec (bt_gseq bt)); [now apply ti_new_rep|apply table_range_length].
Qed.

(** backward: the reverse *)
Theorem btable_range_rev_flat bt lo hi :
  btable_wf bt -> range_valid_for (bt_index bt) lo hi ->
  btable_range_rev bt lo hi = rev (table_range (flat_of bt) lo hi).
Proof.
  intros Hwf Hv. unfold btable_range_rev.
  apply (ti_collect_back_spec (bt_gseq bt) _ (table_range (flat_of bt) lo hi));
    [reflexivity|now apply ti_new_rep|apply table_range_length].
Qed.

(** * H. Table::scan *)

Lemma sc_next_loop_spec g : forall file it bc rc fuel,
  (length file < fuel)%nat -> (bc = rc + length file)%nat ->
  match it ++ concat file with
  | [] => fst (sc_next_loop fuel (mkSC it file bc rc g)) = None
  | x :: L' =>
      fst (sc_next_loop fuel (mkSC it file bc rc g)) = Some (bump g x) /\
      exists it' file' rc',
        snd (sc_next_loop fuel (mkSC it file bc rc g)) = mkSC it' file' bc rc' g /\
        (bc = rc' + length file')%nat /\ L' = it' ++ concat file' /\
        (length file' <= length file)%nat
  end.
Proof.
  induction file as [|b file IH]; intros it bc rc fuel Hf Hbc;
    (destruct fuel as [|f]; [cbn in Hf; lia|]); cbn [sc_next_loop sc_iter sc_file sc_block_count sc_read_count sc_gseq].
  - cbn [concat]. rewrite app_nil_r. destruct it as [|e r].
    + cbn [length] in Hbc. replace (Nat.leb bc rc) with true by (symmetry; apply Nat.leb_le; lia).
      reflexivity.
    + cbn [fst snd]. split; [reflexivity|]. exists r, [], rc. cbn [concat]. rewrite app_nil_r. auto.
  - destruct it as [|e r]; cbn [app].
    + cbn [length] in Hbc, Hf.
      replace (Nat.leb bc rc) with false by (symmetry; apply Nat.leb_gt; lia).
      specialize (IH b bc (S rc) f ltac:(lia) ltac:(lia)). cbn [concat].
      destruct (b ++ concat file) as [|x L'].
      * exact IH.
      * destruct IH as (I1 & it' & file' & rc' & I2 & I3 & I4 & I5). split; [exact I1|].
        exists it', file', rc'. repeat split; auto. cbn [length]. lia.
    + cbn [fst snd]. split; [reflexivity|]. exists r, (b :: file), rc. repeat split; auto.
Qed.

Lemma sc_collect_spec g : forall L it file bc rc fuel,
  L = it ++ concat file -> (bc = rc + length file)%nat -> (length L < fuel)%nat ->
  sc_collect fuel (mkSC it file bc rc g) = map (bump g) L.
Proof.
  induction L as [|x L IH]; intros it file bc rc fuel EL Hbc Hf;
    (destruct fuel as [|f]; [cbn in Hf; lia|]); cbn [sc_collect]; unfold sc_next;
    cbn [sc_file];
    pose proof (sc_next_loop_spec g file it bc rc (S (length file)) ltac:(lia) Hbc) as H;
    rewrite <- EL in H;
    destruct (sc_next_loop (S (length file)) (mkSC it file bc rc g)) as [o s'];
    cbn [fst snd] in H.
  - rewrite H. reflexivity.
  - destruct H as (-> & it' & file' & rc' & -> & H3 & H4 & _). cbn [map]. f_equal.
    apply IH; auto. cbn in Hf. lia.
Qed.

(** THEOREM 3: the compaction scanner yields every entry of the flat table, in order *)
Theorem btable_scan_flat bt : btable_wf bt -> btable_scan bt = ents (flat_of bt).
Proof.
  intros Hwf. unfold btable_scan, scanner_new. cbn [flat_of ents]. unfold flat_ents, bt_item_count.
  destruct (bt_blocks bt) as [|b rest] eqn:E; [reflexivity|].
  apply sc_collect_spec; [reflexivity| |lia].
  rewrite (wf_nblocks bt Hwf), E. cbn [length]. lia.
Qed.

(** * I (second half). The flat table is a table of Model/Tree.v; index kinds agree *)

Lemma fold_min_bump g l : seq_bound g l -> forall a,
  fold_left (fun a x => N.min a (seq x)) (map (bump g) l) (a + g) =
  fold_left (fun a x => N.min a (seq x)) l a + g.
Proof.
  induction l as [|x l IH]; intros Hb a; [reflexivity|]. cbn [map fold_left].
  rewrite (bump_seq g x) by (apply Hb; now left).
  rewrite N.add_min_distr_r. apply IH. intros y Hy. apply Hb. now right.
Qed.

Lemma min_seq_bump g l : seq_bound g l -> l <> [] -> min_seq (map (bump g) l) = min_seq l + g.
Proof.
  intros Hb Hne. destruct l as [|e l]; [congruence|]. unfold min_seq. cbn [map].
  rewrite (bump_seq g e) by (apply Hb; now left). apply fold_min_bump.
  intros y Hy. apply Hb. now right.
Qed.

Lemma fold_max_ge l : forall a,
  a <= fold_left (fun a x => N.max a (seq x)) l a /\
  forall x, In x l -> seq x <= fold_left (fun a x => N.max a (seq x)) l a.
Proof.
  induction l as [|y l IH]; intros a; cbn [fold_left].
  - split; [lia|intros x []].
  - destruct (IH (N.max a (seq y))) as [H1 H2]. split; [lia|].
    intros x [->|HI]; [lia|auto].
Qed.

(** the flat table satisfies the structural invariant of Model/Tree.v when the stored
    lowest seqno is exact *)
Theorem flat_of_ok bt : btable_wf bt -> bt_blocks bt <> [] ->
  bt_slo bt = min_seq (concat (bt_blocks bt)) -> table_ok (flat_of bt) = true.
Proof.
  intros Hwf Hne Hslo. unfold table_ok.
  replace (sorted_b (ents (flat_of bt))) with true by (symmetry; apply (flat_sorted bt Hwf)).
  cbn [andb].
  destruct Hwf as [Hn Hsb Hix Hnb Hbd].
  assert (Hc : concat (bt_blocks bt) <> []).
  { destruct (bt_blocks bt) as [|b bs]; [congruence|]. inversion Hn; subst.
    destruct b; [congruence|discriminate]. }
  unfold table_meta_ok. cbn [flat_of ents kmin kmax slo shi gseq n_items n_tomb n_weak].
  unfold flat_ents in *.
  destruct (map (bump (bt_gseq bt)) (concat (bt_blocks bt))) as [|e0 l] eqn:E.
  { apply map_eq_nil in E. congruence. }
  cbn [hd]. rewrite key_eqb_refl.
  rewrite (last_indep (e0 :: l) dummye e0) by discriminate. rewrite key_eqb_refl.
  rewrite !N.eqb_refl. cbn [andb]. rewrite !andb_true_r.
  apply andb_true_iff. split; apply N.eqb_eq.
  - rewrite Hslo, <- E. symmetry. now apply min_seq_bump.
  - assert (G : bt_gseq bt <= max_seq (e0 :: l)).
    { destruct (fold_max_ge (e0 :: l) 0) as [_ H]. specialize (H e0 (or_introl eq_refl)).
      unfold max_seq. assert (X : In e0 (map (bump (bt_gseq bt)) (concat (bt_blocks bt)))) by (rewrite E; now left).
      apply in_map_iff in X. destruct X as (x & <- & Hx). rewrite (bump_seq _ x (Hbd x Hx)) in H. lia. }
    lia.
Qed.

(** ... hence the existing theorem applies: the block-wise point read returns the newest
    version of [k] visible at [S] among the table's (effective) entries *)
Corollary btable_get_newest flt bt k S :
  btable_wf bt -> bt_blocks bt <> [] -> bt_slo bt = min_seq (concat (bt_blocks bt)) ->
  (forall e, In e (flat_ents bt) -> flt (bt_id bt) (ukey e) = true) ->
  btable_get flt bt k S = newest k S (flat_ents bt).
Proof.
  intros Hwf Hne Hslo Hf. rewrite (btable_get_flat flt bt k S Hwf).
  apply (table_get_newest flt (flat_of bt) k S (flat_of_ok bt Hwf Hne Hslo)). exact Hf.
Qed.

(** ** The writer's cuts are partitions into non-empty blocks *)

Lemma writer_cut_spec bsize : forall items chunk csz,
  concat (writer_cut bsize chunk csz items) = rev chunk ++ items /\
  Forall (fun b => b <> []) (writer_cut bsize chunk csz items).
Proof.
  induction items as [|x items IH]; intros chunk csz; cbn [writer_cut].
  - destruct chunk as [|c chunk]; cbn [concat]; [auto|]. rewrite !app_nil_r. split; [reflexivity|].
    constructor; [|constructor]. cbn. destruct (rev chunk); discriminate.
  - destruct (bsize <=? csz + N.of_nat (length (ukey x)) + N.of_nat (length (val x))).
    + destruct (IH [] 0) as [I1 I2]. cbn [concat]. rewrite I1. cbn [rev app]. split.
      * now rewrite <- app_assoc.
      * constructor; [|exact I2]. destruct (rev chunk); discriminate.
    + destruct (IH (x :: chunk) (csz + N.of_nat (length (ukey x)) + N.of_nat (length (val x)))) as [I1 I2].
      rewrite I1. cbn [rev]. split; [now rewrite <- app_assoc|exact I2].
Qed.

Lemma writer_blocks_partition bsize items :
  concat (writer_blocks bsize items) = items /\ Forall (fun b => b <> []) (writer_blocks bsize items).
Proof. apply (writer_cut_spec bsize items [] 0). Qed.

Lemma index_cut_spec psize hsz : 0 < hsz -> forall hs buf bsz,
  (buf = [] /\ bsz = 0 \/ buf <> [] /\ 0 < bsz) ->
  concat (index_cut psize hsz buf bsz hs) = rev buf ++ hs /\
  Forall (fun c => c <> []) (index_cut psize hsz buf bsz hs).
Proof.
  intros Hh. induction hs as [|x hs IH]; intros buf bsz Hinv; cbn [index_cut].
  - destruct Hinv as [[-> ->]|[Hb Hz]].
    + change (0 <? 0) with false. cbn. auto.
    + replace (0 <? bsz) with true by (symmetry; apply N.ltb_lt; exact Hz).
      cbn [concat]. rewrite !app_nil_r. split; [reflexivity|]. constructor; [|constructor].
      destruct buf; [congruence|]. cbn. destruct (rev buf); discriminate.
  - destruct (psize <=? bsz + (N.of_nat (length (h_end_key x)) + hsz)).
    + destruct (IH [] 0 ltac:(auto)) as [I1 I2]. cbn [concat]. rewrite I1. cbn [rev app]. split.
      * now rewrite <- app_assoc.
      * constructor; [|exact I2]. destruct (rev buf); discriminate.
    + destruct (IH (x :: buf) (bsz + (N.of_nat (length (h_end_key x)) + hsz))) as [I1 I2].
      * right. split; [discriminate|lia].
      * rewrite I1. cbn [rev]. split; [now rewrite <- app_assoc|exact I2].
Qed.

Lemma index_chunks_partition psize hsz hs : 0 < hsz ->
  concat (index_chunks psize hsz hs) = hs /\ Forall (fun c => c <> []) (index_chunks psize hsz hs).
Proof. intros H. apply (index_cut_spec psize hsz H hs [] 0). auto. Qed.

(** ** Tables as the writer builds them are well formed *)

Definition cut_ok (g : N) (blocks : list (list entry)) : Prop :=
  Forall (fun b => b <> []) blocks /\ sorted_b (concat blocks) = true /\ seq_bound g (concat blocks).

Lemma mk_full_wf id g blocks : cut_ok g blocks -> btable_wf (mk_btable_full id g blocks).
Proof. intros (H1 & H2 & H3). constructor; cbn; auto. constructor. Qed.

Lemma mk_volatile_wf id g blocks : cut_ok g blocks -> btable_wf (mk_btable_volatile id g blocks).
Proof. intros (H1 & H2 & H3). constructor; cbn; auto. constructor. Qed.

Lemma mk_two_level_wf id g blocks chunks : cut_ok g blocks ->
  concat chunks = index_of blocks -> Forall (fun c => c <> []) chunks ->
  btable_wf (mk_btable_two_level id g blocks chunks).
Proof.
  intros (H1 & H2 & H3) E Hc. constructor; [exact H1|exact H2| |reflexivity|exact H3].
  cbn [mk_btable_two_level bt_index bt_blocks]. rewrite <- E. now constructor.
Qed.

(** THEOREM 4 (handle level): whatever the kind of index, the iterator positioned by
    [seek_lower lo] / [seek_upper hi] is a deque over the same window of the handle list *)
Fixpoint ii_pulls (code : list bool) (it : iiter) : list (option bhandle) :=
  match code with
  | [] => []
  | c :: code' =>
      let (o, it') := if c then ii_next it else ii_next_back it in
      o :: ii_pulls code' it'
  end.

Lemma ii_pulls_spec : forall code it L, IRep it L -> ii_pulls code it = dq_run code L.
Proof.
  induction code as [|c code IH]; intros it L H; [reflexivity|].
  destruct (ii_steps it L H) as [F B]. cbn [ii_pulls dq_run]. destruct c.
  - destruct (ii_next it) as [o it']. cbn [fst snd] in F.
    destruct L as [|x L']; destruct F as [-> F2]; f_equal; apply IH; exact F2.
  - destruct (ii_next_back it) as [o it']. cbn [fst snd] in B.
    destruct (rev L) as [|x r]; destruct B as [-> B2]; f_equal; apply IH; exact B2.
Qed.

Theorem index_iter_window ix hs lo hi code :
  bindex_wf ix hs -> hsorted hs -> valid_for ix lo hi ->
  ii_pulls code (snd (ii_seeks (bindex_iter ix) lo hi)) = dq_run code (hwindow lo hi hs).
Proof.
  intros Hwf Hs Hv. apply ii_pulls_spec. apply (ii_seeks_spec ix hs lo hi Hwf Hs Hv).
Qed.

(** full index = two-level index (any partition of the handles) = volatile index *)
Corollary two_level_same_handles blocks chunks lo hi code :
  Forall (fun b => b <> []) blocks -> sorted_b (concat blocks) = true ->
  concat chunks = index_of blocks -> Forall (fun c => c <> []) chunks -> bounds_valid lo hi ->
  ii_pulls code (snd (ii_seeks (bindex_iter (IxTwoLevel (top_of chunks) chunks)) lo hi)) =
  ii_pulls code (snd (ii_seeks (bindex_iter (IxFull (index_of blocks))) lo hi)) /\
  ii_pulls code (snd (ii_seeks (bindex_iter (IxVolatile (index_of blocks))) lo hi)) =
  ii_pulls code (snd (ii_seeks (bindex_iter (IxFull (index_of blocks))) lo hi)).
Proof.
  intros Hne Hs E Hc Hv.
  pose proof (index_sorted blocks Hne (isorted_of_sorted_b _ Hs)) as Hh.
  rewrite (index_iter_window (IxFull (index_of blocks)) (index_of blocks) lo hi code (WfFull _) Hh I).
  rewrite (index_iter_window (IxVolatile (index_of blocks)) (index_of blocks) lo hi code (WfVolatile _) Hh I).
  split; [|reflexivity].
  rewrite <- E in *. apply index_iter_window; [now constructor|exact Hh|exact Hv].
Qed.

(** THEOREM 4 (table level): the three kinds of index give the same results *)
Theorem index_kinds_agree flt id g blocks chunks k S lo hi code :
  cut_ok g blocks -> concat chunks = index_of blocks -> Forall (fun c => c <> []) chunks ->
  let full := mk_btable_full id g blocks in
  let two := mk_btable_two_level id g blocks chunks in
  let vol := mk_btable_volatile id g blocks in
  btable_get flt two k S = btable_get flt full k S /\
  btable_get flt vol k S = btable_get flt full k S /\
  (range_valid_for (bt_index two) lo hi ->
   btable_range_pulls two lo hi code = btable_range_pulls full lo hi code) /\
  btable_range_pulls vol lo hi code = btable_range_pulls full lo hi code /\
  btable_scan two = btable_scan full /\ btable_scan vol = btable_scan full.
Proof.
  intros Hc E Hch full two vol.
  pose proof (mk_full_wf id g blocks Hc) as W1.
  pose proof (mk_two_level_wf id g blocks chunks Hc E Hch) as W2.
  pose proof (mk_volatile_wf id g blocks Hc) as W3.
  fold full in W1. fold two in W2. fold vol in W3.
  rewrite !btable_get_flat, !btable_scan_flat by assumption.
  rewrite (btable_range_pulls_flat vol lo hi code W3 I), (btable_range_pulls_flat full lo hi code W1 I).
  repeat split. intros Hv. now rewrite (btable_range_pulls_flat two lo hi code W2 Hv).
Qed.

(** every table a [Writer] with any [data_block_size] produces from strictly sorted items *)
Corollary writer_table_wf id g bsize items :
  sorted_b items = true -> seq_bound g items ->
  btable_wf (mk_btable_full id g (writer_blocks bsize items)).
Proof.
  intros Hs Hb. destruct (writer_blocks_partition bsize items) as [E Hne].
  apply mk_full_wf. split; [exact Hne|]. rewrite E. auto.
Qed.

(** ** Table::point_read loads at most one data block *)

(** after the seqno-aware index seek the first handle's block always decides: either it
    holds the hit, or its end key is above the needle and the [end_key > key] rule stops
    the loop.  (The loop of table/mod.rs:322 never reaches a second iteration.) *)
Lemma point_read_one_block g k s bs :
  Forall (fun b => b <> []) bs -> isorted (concat bs) ->
  pr_blocks g k s (dropW (lob (Some (k, s))) bs) =
  match dropW (lob (Some (k, s))) bs with
  | [] => None
  | b :: _ => option_map (bump g) (block_point_read b k s)
  end.
Proof.
  intros Hne Hs. destruct (dropW (lob (Some (k, s))) bs) as [|b rest] eqn:D; [reflexivity|].
  cbn [pr_blocks]. destruct (block_point_read b k s) as [e|] eqn:R; [reflexivity|]. cbn [option_map].
  pose proof (dropW_head_false _ _ _ _ D) as P.
  assert (Hin : In b bs) by (eapply dropW_In; rewrite D; now left).
  rewrite Forall_forall in Hne. pose proof (Hne b Hin) as Hb.
  assert (Sb : isorted b) by (eapply isorted_concat_in; eauto).
  rewrite (block_point_read_newest b k s Sb) in R. rewrite newest_none in R.
  unfold lob in P. cbn [lo_pred] in P. unfold seek_pred in P. cbn [h_end_key h_seqno] in P.
  destruct (key_cmp (ukey (lastE b)) k) eqn:C; [|discriminate|].
  - apply key_cmp_eq in C. apply N.leb_gt in P.
    specialize (R (lastE b) (last_In b dummye Hb)).
    assert (M : matches k s (lastE b) = true) by (apply matches_iff; auto). congruence.
  - apply key_lt_gt in C. apply key_ltb_lt in C. now rewrite C.
Qed.

(** ** The statements with the cut points quantified explicitly *)

Lemma lowest_seqno_min_seq l : l <> [] -> (forall e, In e l -> seq e < U64_MAX) ->
  lowest_seqno l = min_seq l.
Proof.
  intros Hne Hb. destruct l as [|e l]; [congruence|]. unfold lowest_seqno, min_seq. cbn [fold_left].
  rewrite N.min_r; [reflexivity|]. specialize (Hb e (or_introl eq_refl)). lia.
Qed.

(** EVERY way of cutting the strictly sorted [items] into non-empty data blocks, and EVERY
    way of cutting the resulting handle list into non-empty index partitions, reads like
    the flat sorted list: point reads at every key and snapshot, ranged iteration from
    both ends in any interleaving, and the scanner *)
Theorem every_cut_is_exact id g items blocks chunks :
  sorted_b items = true -> seq_bound g items -> items <> [] ->
  concat blocks = items -> Forall (fun b => b <> []) blocks ->
  concat chunks = index_of blocks -> Forall (fun c => c <> []) chunks ->
  forall bt, In bt [mk_btable_full id g blocks; mk_btable_volatile id g blocks;
                    mk_btable_two_level id g blocks chunks] ->
  (forall flt k S, (forall e, In e items -> flt id (ukey e) = true) ->
     btable_get flt bt k S = newest k S (map (bump g) items)) /\
  (forall lo hi code, range_valid_for (bt_index bt) lo hi ->
     btable_range_pulls bt lo hi code =
     dq_run code (filter (fun e => in_bounds lo hi (ukey e)) (map (bump g) items))) /\
  btable_scan bt = map (bump g) items.
Proof.
  intros Hs Hb Hne E Hbl Ech Hch bt Hbt. subst items.
  assert (Hc : cut_ok g blocks) by (split; [exact Hbl|split; [exact Hs|exact Hb]]).
  assert (Hne' : blocks <> []) by (intros ->; apply Hne; reflexivity).
  assert (Hlow : lowest_seqno (concat blocks) = min_seq (concat blocks)).
  { apply lowest_seqno_min_seq; [exact Hne|]. intros e He. specialize (Hb e He). lia. }
  assert (Hwf : btable_wf bt /\ bt_blocks bt = blocks /\ bt_gseq bt = g /\ bt_id bt = id /\
                bt_slo bt = min_seq (concat blocks)).
  { destruct Hbt as [<-|[<-|[<-|[]]]]; (split; [|cbn; auto]).
    - now apply mk_full_wf.
    - now apply mk_volatile_wf.
    - now apply mk_two_level_wf. }
  destruct Hwf as (Hwf & Eb & Eg & Ei & Es).
  assert (Ef : flat_ents bt = map (bump g) (concat blocks)) by (unfold flat_ents; now rewrite Eb, Eg).
  split; [|split].
  - intros flt k S Hf. rewrite <- Ef. apply btable_get_newest; auto.
    + now rewrite Eb.
    + now rewrite Eb.
    + rewrite Ef, Ei. intros e He. apply in_map_iff in He. destruct He as (x & <- & Hx). cbn [ukey bump].
      now apply Hf.
  - intros lo hi code Hv. rewrite (btable_range_pulls_flat bt lo hi code Hwf Hv).
    unfold table_range. cbn [flat_of ents]. now rewrite Ef.
  - rewrite (btable_scan_flat bt Hwf). cbn [flat_of ents]. exact Ef.
Qed.

(** ** The decidable well-formedness check for dumps of real tables *)

Lemma bhandle_eqb_eq a b : bhandle_eqb a b = true -> a = b.
Proof.
  destruct a as [k1 s1 i1], b as [k2 s2 i2]. unfold bhandle_eqb. cbn [h_end_key h_seqno h_idx].
  rewrite !andb_true_iff. intros [[H1 H2] H3]. key_prop. apply N.eqb_eq in H2. apply Nat.eqb_eq in H3.
  congruence.
Qed.

Lemma hlist_eqb_eq : forall a b, hlist_eqb a b = true -> a = b.
Proof.
  induction a as [|x a IH]; intros [|y b] H; cbn in H; try discriminate; [reflexivity|].
  apply andb_true_iff in H. destruct H as [H1 H2]. f_equal; [now apply bhandle_eqb_eq|now apply IH].
Qed.

Lemma nonempty_b_ok {A} (l : list (list A)) :
  forallb (fun b => match b with [] => false | _ => true end) l = true -> Forall (fun b => b <> []) l.
Proof.
  rewrite forallb_forall, Forall_forall. intros H b Hb. specialize (H b Hb). destruct b; discriminate.
Qed.

Theorem btable_check_ok bt : btable_check bt = true -> btable_wf bt.
Proof.
  unfold btable_check. rewrite !andb_true_iff. intros [[[[H1 H2] H3] H4] H5]. constructor.
  - now apply nonempty_b_ok.
  - exact H2.
  - destruct (bt_index bt) as [hs|hs|top cs].
    + apply hlist_eqb_eq in H5. subst hs. constructor.
    + apply hlist_eqb_eq in H5. subst hs. constructor.
    + rewrite !andb_true_iff in H5. destruct H5 as [[A1 A2] A3].
      apply hlist_eqb_eq in A2, A3. subst top. rewrite <- A3. constructor. now apply nonempty_b_ok.
  - now apply Nat.eqb_eq.
  - rewrite forallb_forall in H3. intros e He. apply N.ltb_lt. now apply H3.
Qed.

(** * Examples *)

Definition seq_bound_b (g : N) (l : list entry) : bool :=
  forallb (fun e => seq e + g <? U64_MAX) l.

Definition cut_ok_b (g : N) (blocks : list (list entry)) : bool :=
  forallb (fun b => match b with [] => false | _ => true end) blocks
  && sorted_b (concat blocks) && seq_bound_b g (concat blocks).

Lemma cut_ok_b_ok g blocks : cut_ok_b g blocks = true -> cut_ok g blocks.
Proof.
  unfold cut_ok_b. rewrite !andb_true_iff. intros [[H1 H2] H3]. split; [|split; [exact H2|]].
  - rewrite forallb_forall in H1. rewrite Forall_forall. intros b Hb. specialize (H1 b Hb).
    destruct b; [discriminate|discriminate].
  - unfold seq_bound_b in H3. rewrite forallb_forall in H3. intros e He. apply N.ltb_lt. now apply H3.
Qed.

Module Ex.
Definition a : key := [97].
Definition b : key := [98].
Definition c : key := [99].
Definition d : key := [100].
Definition e (k : key) (s : N) : entry := mkE k s Value [s].
Definition tomb (k : key) (s : N) : entry := mkE k s Tomb [].
Definition all (_ : N) (_ : key) : bool := true.

(** key "a" with 5 versions (9 7 5 3 1) cut into 3 blocks; the third block also starts "b" *)
Definition blocks : list (list entry) :=
  [[e a 9; e a 7]; [e a 5; tomb a 3]; [e a 1; e b 4]; [e c 2]; [e d 6]].
Definition chunks : list (list bhandle) :=
  [[mkBH a 7 0]; [mkBH a 3 1; mkBH b 4 2]; [mkBH c 2 3; mkBH d 6 4]].

Definition full := mk_btable_full 1 0 blocks.
Definition two := mk_btable_two_level 1 0 blocks chunks.
Definition vol := mk_btable_volatile 1 0 blocks.
(** the same table ingested with global_seqno = 100 *)
Definition full100 := mk_btable_full 1 100 blocks.
Definition two100 := mk_btable_two_level 1 100 blocks chunks.

Example blocks_ok : cut_ok 0 blocks /\ cut_ok 100 blocks.
Proof. split; apply cut_ok_b_ok; vm_compute; reflexivity. Qed.

Example chunks_ok : concat chunks = index_of blocks /\ Forall (fun c => c <> []) chunks.
Proof. split; [vm_compute; reflexivity|]. repeat constructor; discriminate. Qed.

Example full_wf : btable_wf full.
Proof. apply mk_full_wf. apply blocks_ok. Qed.

Example two_wf : btable_wf two.
Proof. apply mk_two_level_wf; [apply blocks_ok|apply chunks_ok|apply chunks_ok]. Qed.

Example two100_wf : btable_wf two100.
Proof. apply mk_two_level_wf; [apply blocks_ok|apply chunks_ok|apply chunks_ok]. Qed.

Example check_example : btable_check full = true /\ btable_check two100 = true /\ btable_check vol = true.
Proof. vm_compute. auto. Qed.

(** the hypotheses of [every_cut_is_exact] hold for this cut; one of its conclusions *)
Example every_cut_instance :
  btable_get all two a 6 = newest a 6 (map (bump 0) (concat blocks)) /\
  btable_scan two = map (bump 0) (concat blocks).
Proof.
  destruct blocks_ok as [(H1 & H2 & H3) _]. destruct chunks_ok as [C1 C2].
  destruct (every_cut_is_exact 1 0 (concat blocks) blocks chunks H2 H3 ltac:(discriminate)
              eq_refl H1 C1 C2 two ltac:(right; right; left; reflexivity)) as (G & _ & Sc).
  split; [apply G; reflexivity|exact Sc].
Qed.

(** the index the writer registers: (end key, seqno of the LAST item) per block *)
Example index_example :
  index_of blocks = [mkBH a 7 0; mkBH a 3 1; mkBH b 4 2; mkBH c 2 3; mkBH d 6 4].
Proof. vm_compute. reflexivity. Qed.

(** reading "a" at every snapshot: S between the versions, versions straddling blocks *)
Example get_a_full :
  map (fun S => option_map seq (btable_get all full a S)) [0; 1; 2; 3; 4; 5; 6; 7; 8; 9; 10; 11]
  = [None; None; Some 1; Some 1; Some 3; Some 3; Some 5; Some 5; Some 7; Some 7; Some 9; Some 9].
Proof. vm_compute. reflexivity. Qed.

Example get_a_two :
  map (fun S => btable_get all two a S) [0; 1; 2; 3; 4; 5; 6; 7; 8; 9; 10; 11]
  = map (fun S => table_get all (flat_of full) a S) [0; 1; 2; 3; 4; 5; 6; 7; 8; 9; 10; 11].
Proof. vm_compute. reflexivity. Qed.

Example get_a_vol :
  map (fun S => btable_get all vol a S) [0; 1; 2; 3; 4; 5; 6; 7; 8; 9; 10; 11]
  = map (fun S => btable_get all full a S) [0; 1; 2; 3; 4; 5; 6; 7; 8; 9; 10; 11].
Proof. vm_compute. reflexivity. Qed.

(** with global_seqno = 100 the effective seqnos are 109 107 105 103 101 *)
Example get_a_gseq :
  map (fun S => option_map seq (btable_get all two100 a S)) [0; 50; 100; 101; 102; 104; 106; 108; 110; 1000]
  = [None; None; None; None; Some 101; Some 103; Some 105; Some 107; Some 109; Some 109].
Proof. vm_compute. reflexivity. Qed.

(** "b" lives in the block whose end key it is; "bb" is absent *)
Example get_b : option_map seq (btable_get all two b 10) = Some 4 /\ btable_get all two [98; 98] 10 = None
  /\ btable_get all two b 4 = None.
Proof. vm_compute. auto. Qed.

Example range_example :
  map seq (btable_range two (Incl a) (Excl b)) = [9; 7; 5; 3; 1] /\
  map seq (btable_range_rev two (Excl a) (Incl c)) = [2; 4] /\
  map (option_map seq) (btable_range_pulls two Unb Unb [true; false; false; true; true; true; false; false; true; true])
  = [Some 9; Some 6; Some 2; Some 7; Some 5; Some 3; Some 4; Some 1; None; None].
Proof. vm_compute. auto. Qed.

Example scan_example : map seq (btable_scan two100) = [109; 107; 105; 103; 101; 104; 102; 106].
Proof. vm_compute. reflexivity. Qed.

(** the writer with data_block_size = 4 (each value item counts key 1 + value 1 = 2 bytes, the
    tombstone 1): the second block ends between two versions of "a" *)
Example writer_example :
  map (map seq) (writer_blocks 4 (concat blocks)) = [[9; 7]; [5; 3; 1]; [4; 2]; [6]].
Proof. vm_compute. reflexivity. Qed.

(** ** Replays of the unit tests of src/table/index_block/iter.rs *)

Fixpoint drain (fuel : nat) (it : ibiter) : list nat :=
  match fuel with
  | O => []
  | S f => match ib_next it with (Some h, it') => h_idx h :: drain f it' | (None, _) => [] end
  end.

Fixpoint drain_back (fuel : nat) (it : ibiter) : list nat :=
  match fuel with
  | O => []
  | S f => match ib_next_back it with (Some h, it') => h_idx h :: drain_back f it' | (None, _) => [] end
  end.

Definition sk (hs : list bhandle) (k : key) (s : N) : bool * list nat :=
  let (ok, it) := idx_seek (ib_new hs) k s in (ok, drain 10 it).
Definition su (hs : list bhandle) (k : key) (s : N) : bool * list nat :=
  let (ok, it) := idx_seek_upper (ib_new hs) k s in (ok, drain 10 it).

(** items: "b"/0, "bcdef"/0, "def"/0 *)
Definition hs3 : list bhandle := [mkBH b 0 0; mkBH [98; 99; 100; 101; 102] 0 1; mkBH [100; 101; 102] 0 2].

(** index_block_iter_seek_before_start, _seek_start, _seek_middle, _too_far *)
Example test_seek :
  sk hs3 a 0 = (true, [0; 1; 2]%nat) /\ sk hs3 b 1 = (true, [0; 1; 2]%nat) /\
  sk hs3 c 0 = (true, [2]%nat) /\ sk hs3 [122; 122; 122] 0 = (false, []).
Proof. vm_compute. auto. Qed.

(** index_block_iter_too_far_next_back: exhausted from both ends *)
Example test_too_far_next_back :
  let (ok, it) := idx_seek (ib_new hs3) [122; 122; 122] 0 in
  ok = false /\ fst (ib_next it) = None /\ fst (ib_next_back it) = None.
Proof. vm_compute. auto. Qed.

(** index_block_iter_rev_seek, _rev_seek_2, _rev_seek_3 *)
Example test_rev_seek :
  su hs3 c 0 = (true, [0; 1; 2]%nat) /\ su hs3 [101] 0 = (true, [0; 1; 2]%nat) /\
  su hs3 b 1 = (true, [0; 1]%nat).
Proof. vm_compute. auto. Qed.

(** index_block_mvcc_slab: items "a"/3, "a"/1, "b"/4 *)
Definition hsm : list bhandle := [mkBH a 3 0; mkBH a 1 1; mkBH b 4 2].
Example test_mvcc_slab :
  map (fun s => sk hsm a s) [5; 4; 3; 2; 1; 0]
  = [(true, [0; 1; 2]); (true, [0; 1; 2]); (true, [1; 2]); (true, [1; 2]); (true, [2]); (true, [2])]%nat.
Proof. vm_compute. reflexivity. Qed.

(** index_block_iter_span / _rev_span: items "a"/1, "a"/0, "b"/0 *)
Definition hss : list bhandle := [mkBH a 1 0; mkBH a 0 1; mkBH b 0 2].
Example test_span :
  sk hss a 2 = (true, [0; 1; 2]%nat) /\ sk hss b 1 = (true, [2]%nat) /\
  su hss a 2 = (true, [0; 1; 2]%nat) /\ su hss b 1 = (true, [0; 1; 2]%nat).
Proof. vm_compute. auto. Qed.

(** index_block_iter_range_1: items a b c d e; seek("b", 1) then seek_upper("c", 1) leaves
    b c d -- forward, and (what the test's second half means to check) backward *)
Definition hs5 : list bhandle := [mkBH a 0 0; mkBH b 0 1; mkBH c 0 2; mkBH d 0 3; mkBH [101] 0 4].
Example test_range_1 :
  let (_, it1) := idx_seek (ib_new hs5) b 1 in
  let (_, it2) := idx_seek_upper it1 c 1 in
  drain 10 it2 = [1; 2; 3]%nat /\ drain_back 10 it2 = [3; 2; 1]%nat.
Proof. vm_compute. auto. Qed.

(** ** The bound [seq < u64::MAX] is needed *)

(** an item stored with seqno u64::MAX as the last item of a block makes the index seek of
    a ranged read ([seek_lower(key, u64::MAX)], table/iter.rs:196; index_block/iter.rs:30
    [s >= seqno]) skip that block: [range("a"..)] loses ("a", u64::MAX), [range(..)] has it.
    Such an item is invisible to every snapshot ([seqno < snapshot <= u64::MAX]), so no
    reader above the table notices. *)
Theorem btable_range_flat_refuted_u64_max :
  exists bt lo hi,
    Forall (fun b => b <> []) (bt_blocks bt) /\ sorted_b (concat (bt_blocks bt)) = true /\
    bindex_wf (bt_index bt) (index_of (bt_blocks bt)) /\ bt_gseq bt = 0 /\
    btable_range bt lo hi <> table_range (flat_of bt) lo hi.
Proof.
  exists (mk_btable_full 1 0 [[e a U64_MAX]; [e b 1]]), (Incl a), Unb.
  split; [repeat constructor; discriminate|]. split; [reflexivity|]. split; [constructor|].
  split; [reflexivity|]. vm_compute. discriminate.
Qed.

(** ** Inverted bounds with a two-level index (not covered by the theorems): evidence *)

Definition chunkings : list (list (list bhandle)) :=
  [ chunks;
    [[mkBH a 7 0; mkBH a 3 1]; [mkBH b 4 2; mkBH c 2 3]; [mkBH d 6 4]];
    [[mkBH a 7 0]; [mkBH a 3 1]; [mkBH b 4 2]; [mkBH c 2 3]; [mkBH d 6 4]];
    [[mkBH a 7 0; mkBH a 3 1; mkBH b 4 2; mkBH c 2 3; mkBH d 6 4]] ].
Definition all_bounds : list bound :=
  [Incl a; Excl a; Incl b; Excl b; Incl c; Excl c; Incl d; Excl d;
   Incl [96]; Excl [96]; Incl [101]; Excl [101]; Unb].
Definition codes : list (list bool) :=
  [ repeat true 9; repeat false 9;
    [true; false; true; false; true; false; true; false; true; false];
    [false; true; true; false; false; true; true; false; true; true] ].
Definition enc (o : option entry) : N :=
  match o with None => 0 | Some x => 1 + seq x * 1000 + hd 0 (ukey x) end.

(** all 13 x 13 bound pairs (inverted ones included), 4 chunkings, 4 interleavings *)
Example two_level_agrees_on_all_bounds :
  forallb (fun ch => forallb (fun lo => forallb (fun hi => forallb (fun code =>
    list_N_eqb (map enc (btable_range_pulls (mk_btable_two_level 1 0 blocks ch) lo hi code))
               (map enc (dq_run code (table_range (flat_of full) lo hi))))
    codes) all_bounds) all_bounds) chunkings = true.
Proof. vm_compute. reflexivity. Qed.

End Ex.

Print Assumptions every_cut_is_exact.
Print Assumptions btable_get_flat.
Print Assumptions btable_get_newest.
Print Assumptions btable_range_pulls_flat.
Print Assumptions btable_range_flat.
Print Assumptions btable_range_rev_flat.
Print Assumptions btable_scan_flat.
Print Assumptions index_iter_window.
Print Assumptions two_level_same_handles.
Print Assumptions index_kinds_agree.
Print Assumptions flat_of_ok.
Print Assumptions btable_check_ok.
Print Assumptions writer_table_wf.
Print Assumptions block_point_read_bytes.
Print Assumptions point_read_one_block.
Print Assumptions Ex.btable_range_flat_refuted_u64_max.
