(** Proofs about the whole-tree state machine (Model/Machine.v):
    1. [build_tables_ok] (section 1): what the MultiWriter produces from a sorted stream is
       a legal run;
    2. [machine_inv] / [machine_minv] (sections 2-5, 10): every reachable state satisfies
       the history invariant [hinv] and the structural invariant [check_inv_sv] of the
       latest superversion, plus bookkeeping (id counters, seqnos, write log);
    3. [machine_top_view_key] / [machine_top_view] / [machine_point_reads] (sections 6-10):
       a key that is never weak-deleted reads, in the latest superversion at the newest
       snapshot, exactly what the ordered-map Spec returns on the log of all writes
       (property C01 for the model, unbounded);
    4. stretch: [major_choice_ok] (section 12): a major compaction is always legal;
       [machine_weak_view] / [machine_weak_reads] (section 13): the same read guarantee
       for keys under the single-delete discipline; [machine_reads_mixed] (section 14);
    refutations: [EvictExample.evict_ok_dest_level_only_refuted] (tombstone eviction needs
    a check over ALL levels), [WeakExample.weak_without_contiguity_refuted] (a compaction
    must take a contiguous part of a single-deleted key's history). *)
From LsmV Require Import Proofs.Newest Proofs.Lookup Proofs.Stream Proofs.Version
     Proofs.Snapshot.
From LsmV Require Import Model.Machine.
From Coq Require Import Permutation Sorting.Sorted PeanoNat.
Open Scope N_scope.

Arguments N.add : simpl never.
Arguments N.sub : simpl never.
Arguments N.mul : simpl never.
Arguments N.ltb : simpl never.
Arguments N.leb : simpl never.
Arguments N.eqb : simpl never.
Arguments N.max : simpl never.

(** * 0. Small facts *)

Lemma ssorted_eq l : ssorted l = sorted_b l.
Proof.
  induction l as [|e l IH]; [reflexivity|].
  destruct l as [|e' l]; [reflexivity|].
  change (ssorted (e :: e' :: l)) with (ikey_ltb e e' && ssorted (e' :: l)).
  change (sorted_b (e :: e' :: l)) with (ikey_ltb e e' && sorted_b (e' :: l)).
  now rewrite IH.
Qed.

Lemma sorted_b_app_l a b : sorted_b (a ++ b) = true -> sorted_b a = true.
Proof. rewrite <- !ssorted_eq. apply ssorted_app_l. Qed.

Lemma sorted_b_app_r a b : sorted_b (a ++ b) = true -> sorted_b b = true.
Proof. rewrite <- !ssorted_eq. apply ssorted_app_r. Qed.

Lemma sorted_b_firstn c l : sorted_b l = true -> sorted_b (firstn c l) = true.
Proof. intros H. rewrite <- (firstn_skipn c l) in H. now apply sorted_b_app_l in H. Qed.

Lemma sorted_b_skipn c l : sorted_b l = true -> sorted_b (skipn c l) = true.
Proof. intros H. rewrite <- (firstn_skipn c l) in H. now apply sorted_b_app_r in H. Qed.

(** * 1. The tables written from a sorted stream *)

(** consecutive ids *)
Fixpoint ids_from (first : N) (n : nat) : list N :=
  match n with
  | O => []
  | S n' => first :: ids_from (first + 1) n'
  end.

Lemma ids_from_In first n x : In x (ids_from first n) <-> first <= x < first + N.of_nat n.
Proof.
  revert first; induction n as [|n IH]; intros first.
  - cbn [ids_from In]. lia.
  - cbn [ids_from In]. rewrite IH. lia.
Qed.

Lemma mk_table_ents id es : ents (mk_table id es) = es.
Proof. destruct es; reflexivity. Qed.

Lemma mk_table_tid id es : tid (mk_table id es) = id.
Proof. destruct es; reflexivity. Qed.

Lemma mk_table_gseq id es : gseq (mk_table id es) = 0.
Proof. destruct es; reflexivity. Qed.

Lemma mk_table_ok id es : es <> [] -> sorted_b es = true -> table_ok (mk_table id es) = true.
Proof.
  intros NE HS. destruct es as [|e0 r]; [congruence|].
  unfold table_ok, table_meta_ok, mk_table.
  cbn [ents kmin kmax slo shi gseq n_items n_tomb n_weak].
  rewrite HS, !key_eqb_refl, !N.add_0_r, !N.eqb_refl. reflexivity.
Qed.

Definition hd_clause (ts : list table) (out : list entry) : Prop :=
  match ts with
  | [] => out = []
  | t :: _ => exists e0 r, out = e0 :: r /\ kmin t = ukey e0
  end.

Lemma build_tables_gen : forall cuts fid out,
  sorted_b out = true -> cuts_ok cuts out = true ->
  forallb table_ok (build_tables fid cuts out) = true /\
  run_disjoint_b (build_tables fid cuts out) = true /\
  concat (map ents (build_tables fid cuts out)) = out /\
  map tid (build_tables fid cuts out) = ids_from fid (length (build_tables fid cuts out)) /\
  (forall t, In t (build_tables fid cuts out) -> gseq t = 0) /\
  hd_clause (build_tables fid cuts out) out.
Proof.
  induction cuts as [|c cuts IH]; intros fid out HS HC.
  - cbn [build_tables]. destruct out as [|e0 r].
    + cbn. repeat split; auto. intros t [].
    + cbn [forallb run_disjoint_b map concat length ids_from hd_clause].
      rewrite mk_table_ok by (auto; discriminate).
      rewrite mk_table_ents, mk_table_tid, app_nil_r. repeat split; auto.
      * intros t [<-|[]]. apply mk_table_gseq.
      * exists e0, r. split; reflexivity.
  - cbn [build_tables cuts_ok] in *. apply andb_true_iff in HC. destruct HC as [HC1 HC2].
    pose proof (firstn_skipn c out) as FS.
    destruct (firstn c out) as [|a0 ch] eqn:F.
    + cbn [app] in FS. rewrite FS in *. apply IH; assumption.
    + set (chunk := a0 :: ch) in *.
      assert (sorted_b chunk = true) as HSc.
      { rewrite <- F. now apply sorted_b_firstn. }
      destruct (IH (fid + 1) (skipn c out) (sorted_b_skipn c out HS) HC2)
        as (I1 & I2 & I3 & I4 & I5 & I6).
      set (rest := build_tables (fid + 1) cuts (skipn c out)) in *.
      assert (table_ok (mk_table fid chunk) = true) as Tok
          by (apply mk_table_ok; [discriminate|exact HSc]).
      repeat split.
      * cbn [forallb]. now rewrite Tok, I1.
      * destruct rest as [|t' rest'] eqn:R; [reflexivity|].
        change (run_disjoint_b (mk_table fid chunk :: t' :: rest'))
          with (key_ltb (kmax (mk_table fid chunk)) (kmin t') && run_disjoint_b (t' :: rest')).
        rewrite I2, andb_true_r. cbn [hd_clause] in I6.
        destruct I6 as (b & r & Eb & Ek). rewrite Ek.
        unfold cut_ok in HC1. rewrite Eb in HC1. exact HC1.
      * cbn [map concat]. rewrite mk_table_ents, I3. exact FS.
      * cbn [map length ids_from]. now rewrite mk_table_tid, I4.
      * intros t [<-|HI]; [apply mk_table_gseq|auto].
      * cbn [hd_clause]. exists a0, (ch ++ skipn c out). split; [symmetry; exact FS|reflexivity].
Qed.

(** Result 1.  [out]: a strictly sorted, non-empty stream output; [cuts]: rotation points
    between different user keys.  The MultiWriter then writes a legal run: every table
    satisfies [table_ok] (sorted, metadata consistent with the entries), the tables are
    pairwise disjoint and ascending, carry the consecutive ids [first_id, first_id+1, ..],
    and together hold exactly the stream output. *)
Theorem build_tables_ok : forall first_id cuts out,
  sorted_b out = true -> out <> [] -> cuts_ok cuts out = true ->
  let ts := build_tables first_id cuts out in
  (forall t, In t ts -> table_ok t = true) /\
  run_ok ts = true /\ opt_run_ok ts = true /\
  map tid ts = ids_from first_id (length ts) /\
  (forall t, In t ts -> gseq t = 0) /\
  concat (map ents ts) = out.
Proof.
  intros fid cuts out HS NE HC ts.
  destruct (build_tables_gen cuts fid out HS HC) as (I1 & I2 & I3 & I4 & I5 & I6).
  fold ts in I1, I2, I3, I4, I5, I6.
  assert (run_ok ts = true) as RO.
  { unfold run_ok. destruct ts as [|t ts']; [cbn [hd_clause] in I6; congruence|].
    now rewrite I1, I2. }
  repeat split; auto.
  - intros t HI. rewrite forallb_forall in I1. auto.
  - unfold opt_run_ok. now rewrite I1, I2.
Qed.

(** * 2. The tables of a transformed version, up to permutation *)

Lemma perm_concat {A} (l l' : list (list A)) :
  Permutation l l' -> Permutation (concat l) (concat l').
Proof.
  induction 1 as [|x l l' P IH|x y l|l l' l'' P1 IH1 P2 IH2]; cbn [concat].
  - apply Permutation_refl.
  - now apply Permutation_app_head.
  - rewrite !app_assoc. apply Permutation_app_tail. apply Permutation_app_comm.
  - eapply perm_trans; eauto.
Qed.

Lemma all_tables_tables_of v : all_tables v = tables_of (levels v).
Proof. reflexivity. Qed.

Lemma tables_of_map_opt (pre : list level) :
  Permutation (tables_of (map optimize_runs pre)) (tables_of pre).
Proof.
  induction pre as [|p pre IH]; [apply Permutation_refl|].
  cbn [map]. rewrite !vs_tables_of_cons. apply Permutation_app; [|exact IH].
  apply optimize_runs_perm.
Qed.

Lemma new_l0_tables_perm v new :
  levels v <> [] ->
  Permutation (all_tables (with_new_l0_run v new)) (new ++ all_tables v).
Proof.
  intros NE. unfold with_new_l0_run. rewrite !all_tables_tables_of.
  destruct (levels v) as [|l0 rest]; [congruence|]. cbn [levels].
  rewrite !vs_tables_of_cons, app_assoc. apply Permutation_app_tail.
  eapply perm_trans; [apply optimize_runs_perm|].
  rewrite concat_app, vs_concat_run_new. apply Permutation_refl.
Qed.

Lemma rebuild_tables_perm ids ins dest ls :
  (dest < length ls)%nat ->
  Permutation (tables_of (rebuild_from O ids ins dest ls))
              (concat ins ++ kept ids (tables_of ls)).
Proof.
  intros Hd. rewrite vs_rebuild_shape by lia. rewrite Nat.sub_0_r.
  eapply perm_trans; [apply tables_of_map_opt|].
  rewrite vs_pre_levels_tables by exact Hd.
  rewrite <- (firstn_skipn dest ls) at 3. rewrite vs_tables_of_app, vs_kept_app.
  rewrite !app_assoc. apply Permutation_app_tail. apply Permutation_app_comm.
Qed.

Lemma merge_tables_perm v ids new dest :
  (dest < length (levels v))%nat ->
  Permutation (all_tables (with_merge v ids new dest)) (new ++ kept ids (all_tables v)).
Proof.
  intros Hd. unfold with_merge. rewrite !all_tables_tables_of. cbn [levels].
  eapply perm_trans; [apply rebuild_tables_perm; exact Hd|].
  rewrite vs_concat_run_new. apply Permutation_refl.
Qed.

Lemma moved_tables_perm v ids dest :
  (dest < length (levels v))%nat ->
  Permutation (all_tables (with_moved v ids dest)) (all_tables v).
Proof.
  intros Hd. unfold with_moved.
  destruct (Nat.eqb _ _); [|apply Permutation_refl].
  rewrite !all_tables_tables_of. cbn [levels].
  eapply perm_trans; [apply rebuild_tables_perm; exact Hd|].
  rewrite vs_concat_moved_runs. rewrite <- all_tables_tables_of.
  apply (vs_perm_filter_split (id_in ids) (all_tables v)).
Qed.

Lemma kept_In ids ts t : In t (kept ids ts) -> In t ts.
Proof. unfold kept. intros H. apply filter_In in H. tauto. Qed.

Lemma compact_in_In v ids t : In t (compact_in v ids) -> In t (all_tables v).
Proof. unfold compact_in. intros H. apply filter_In in H. tauto. Qed.

Lemma in_concat_map_ents (ts : list table) e :
  In e (concat (map ents ts)) <-> exists t, In t ts /\ In e (ents t).
Proof.
  rewrite in_concat. split.
  - intros (c & Hc & He). apply in_map_iff in Hc. destruct Hc as (t & <- & Ht). eauto.
  - intros (t & Ht & He). exists (ents t). split; [now apply in_map|exact He].
Qed.

Lemma perm_concat_map_ents (a b : list table) :
  Permutation a b -> Permutation (concat (map ents a)) (concat (map ents b)).
Proof. intros P. apply perm_concat. now apply Permutation_map. Qed.

(** * 3. The structural invariant, taken apart *)

(** every version of a key in [X] is newer than every version of that key in [Y] *)
Definition enewer (X Y : list entry) : Prop :=
  forall e e', In e X -> In e' Y -> ukey e = ukey e' -> seq e' < seq e.

Lemma enewer_incl X X' Y Y' : incl X' X -> incl Y' Y -> enewer X Y -> enewer X' Y'.
Proof. intros HX HY H e e' He He'. apply H; auto. Qed.

Lemma recency_app a b :
  recency_b (a ++ b) = true <->
  recency_b a = true /\ recency_b b = true /\
  (forall c c', In c a -> In c' b -> newer_than c c' = true).
Proof.
  induction a as [|x a IH]; cbn [app recency_b].
  - split; [intros H; repeat split; auto; intros c c' []|tauto].
  - rewrite !andb_true_iff, forallb_app, andb_true_iff, IH, !forallb_forall. split.
    + intros [[H1 H2] (H3 & H4 & H5)]. repeat split; auto.
      intros c c' [<-|HI] Hc'; auto.
    + intros [[H1 H2] (H3 & H4)]. repeat split; auto.
      * intros c' Hc'. apply H4; [now left|exact Hc'].
      * intros c c' Hc Hc'. apply H4; [now right|exact Hc'].
Qed.

(** the memtable containers in lookup order *)
Definition memc (sv : superversion) : list (list entry) :=
  ments (active sv) :: map ments (rev (sealed sv)).

Lemma containers_split sv : containers sv = memc sv ++ map ents (all_tables (ver sv)).
Proof. reflexivity. Qed.

Lemma check_inv_sv_iff sv :
  check_inv_sv sv = true <->
  sorted_b (ments (active sv)) = true /\
  (forall m, In m (sealed sv) -> sorted_b (ments m) = true) /\
  version_inv (ver sv) = true /\
  recency_b (containers sv) = true.
Proof.
  split.
  - intros H. pose proof (check_inv_sv_version_inv _ H) as HV.
    destruct (check_inv_sv_inv _ H) as (H1 & H2 & _ & _ & _ & H6). auto.
  - intros (H1 & H2 & HV & HR). unfold check_inv_sv. unfold version_inv in HV.
    rewrite !andb_true_iff in HV. destruct HV as [[[V1 V2] V3] _].
    rewrite H1, V1, V2, V3, HR, !andb_true_r. cbn [andb].
    apply forallb_forall. exact H2.
Qed.

Lemma sv_recency_iff sv :
  recency_b (containers sv) = true <->
  recency_b (memc sv) = true /\
  recency_b (map ents (all_tables (ver sv))) = true /\
  (forall c t, In c (memc sv) -> In t (all_tables (ver sv)) -> enewer c (ents t)).
Proof.
  rewrite containers_split, recency_app. split.
  - intros (H1 & H2 & H3). repeat split; auto. intros c t Hc Ht.
    unfold enewer. apply newer_than_spec. apply H3; [exact Hc|now apply in_map].
  - intros (H1 & H2 & H3). repeat split; auto. intros c c' Hc Hc'.
    apply in_map_iff in Hc'. destruct Hc' as (t & <- & Ht).
    apply newer_than_spec. now apply (H3 c t).
Qed.

Lemma version_inv_recency v : version_inv v = true -> recency_b (map ents (all_tables v)) = true.
Proof. unfold version_inv. rewrite !andb_true_iff. tauto. Qed.

Lemma version_inv_length v : version_inv v = true -> length (levels v) = 7%nat.
Proof.
  unfold version_inv. rewrite !andb_true_iff. intros [[[H _] _] _]. apply N.eqb_eq in H. lia.
Qed.

Lemma version_inv_nodup v : version_inv v = true -> NoDup (map tid (all_tables v)).
Proof. unfold version_inv. rewrite !andb_true_iff. intros [[_ H] _]. now apply vs_nodup_N_b. Qed.

Lemma version_inv_table_ok v t : version_inv v = true -> In t (all_tables v) -> table_ok t = true.
Proof.
  unfold version_inv. rewrite !andb_true_iff. intros [[[_ H] _] _] HI.
  rewrite forallb_forall in H. unfold all_tables in HI. apply in_concat in HI.
  destruct HI as (r & Hr & Ht). eapply run_ok_table; eauto.
Qed.

Lemma sv_inv_intro q a s v :
  sorted_b (ments a) = true ->
  (forall m, In m s -> sorted_b (ments m) = true) ->
  version_inv v = true ->
  recency_b (ments a :: map ments (rev s)) = true ->
  (forall c t, In c (ments a :: map ments (rev s)) -> In t (all_tables v) -> enewer c (ents t)) ->
  check_inv_sv (mkSV q a s v) = true.
Proof.
  intros H1 H2 HV HR HC. apply check_inv_sv_iff. cbn [active sealed ver].
  repeat split; auto. apply sv_recency_iff. unfold memc. cbn [active sealed ver].
  repeat split; auto. now apply version_inv_recency.
Qed.

Lemma sv_inv_elim sv :
  check_inv_sv sv = true ->
  sorted_b (ments (active sv)) = true /\
  (forall m, In m (sealed sv) -> sorted_b (ments m) = true) /\
  version_inv (ver sv) = true /\
  recency_b (memc sv) = true /\
  (forall c t, In c (memc sv) -> In t (all_tables (ver sv)) -> enewer c (ents t)).
Proof.
  intros H. apply check_inv_sv_iff in H. destruct H as (H1 & H2 & HV & HR).
  apply sv_recency_iff in HR. destruct HR as (R1 & _ & R3). auto.
Qed.

(** every memtable entry / every table entry is part of [content] *)
Lemma content_In sv e :
  In e (content sv) <->
  (exists c, In c (memc sv) /\ In e c) \/ (exists t, In t (all_tables (ver sv)) /\ In e (ents t)).
Proof.
  unfold content. rewrite containers_split, concat_app, in_app_iff, in_concat,
    in_concat_map_ents. tauto.
Qed.

Lemma memc_In sv c :
  In c (memc sv) <-> c = ments (active sv) \/ exists m, In m (sealed sv) /\ c = ments m.
Proof.
  unfold memc. cbn [In]. rewrite in_map_iff. split.
  - intros [H|(m & <- & Hm)]; [left; auto|right]. exists m. split; [now apply in_rev|reflexivity].
  - intros [->|(m & Hm & ->)]; [left; reflexivity|right]. exists m.
    split; [reflexivity|now apply in_rev in Hm].
Qed.

(** * 4. The effect of one history step on the latest superversion *)

Lemma hstep_write_latest st e l :
  latest (hist st) = Some l ->
  latest (hist (hstep st (HWrite e))) = Some (sv_write (mid (active l)) e l) /\
  ctr (hstep st (HWrite e)) = ctr st + 1.
Proof.
  intros L. unfold hstep. rewrite L. cbn [hist ctr]. rewrite latest_map, L. auto.
Qed.

Lemma hstep_rotate_latest st nm l :
  latest (hist st) = Some l -> ments (active l) <> [] ->
  latest (hist (hstep st (HRotate nm))) = Some (sv_rotate nm l) /\
  ctr (hstep st (HRotate nm)) = ctr st.
Proof.
  intros L NE. unfold hstep. rewrite L. destruct (ments (active l)); [congruence|].
  cbn [hist ctr]. rewrite latest_snoc. auto.
Qed.

Lemma hstep_upgrade_latest st f l :
  latest (hist st) = Some l ->
  latest (hist (hstep st (HUpgrade f))) = Some (sv_with_seq (ctr st) (f l)) /\
  ctr (hstep st (HUpgrade f)) = ctr st + 1.
Proof.
  intros L. unfold hstep. rewrite L. cbn [hist ctr]. rewrite latest_snoc. auto.
Qed.

Lemma hstep_maint_latest st W :
  latest (hist (hstep st (HMaint W))) = latest (hist st) /\
  ctr (hstep st (HMaint W)) = ctr st.
Proof.
  unfold hstep. destruct (latest (hist st)) as [l|] eqn:L; [|auto].
  cbn [hist ctr]. rewrite maintenance_latest. auto.
Qed.

Lemma sv_write_latest l e :
  (forall m, In m (sealed l) -> mid m <> mid (active l)) ->
  sv_write (mid (active l)) e l =
  mkSV (sv_seq l) (mkM (mid (active l)) (mt_insert e (ments (active l)))) (sealed l) (ver l).
Proof.
  intros H. unfold sv_write, mem_insert. rewrite N.eqb_refl. f_equal.
  rewrite <- (map_id (sealed l)) at 2. apply map_ext_in. intros m Hm.
  destruct (mid m =? mid (active l)) eqn:E; [|reflexivity].
  apply N.eqb_eq in E. exfalso. eapply H; eauto.
Qed.

Lemma mt_insert_sorted e l : sorted_b l = true -> sorted_b (mt_insert e l) = true.
Proof.
  rewrite <- !ssorted_eq. induction l as [|x l IH]; intros HS; [reflexivity|].
  cbn [mt_insert]. destruct (ikey_ltb e x) eqn:C1.
  - apply ssorted_cons. split; [|exact HS]. constructor; [exact C1|].
    apply Forall_forall. intros y Hy. eapply ikey_ltb_trans; [exact C1|].
    eapply ssorted_head_lt; eauto.
  - destruct (ikey_ltb x e) eqn:C2.
    + apply ssorted_cons. split; [|apply IH; eapply ssorted_tail; eauto].
      apply Forall_forall. intros y Hy. apply In_mt_insert in Hy.
      destruct Hy as [->|Hy]; [exact C2|]. eapply ssorted_head_lt; eauto.
    + destruct (ikey_neither _ _ C1 C2) as [Ek Es].
      apply ssorted_cons. split; [|eapply ssorted_tail; eauto].
      apply Forall_forall. intros y Hy.
      rewrite (ikey_ltb_ext e x y y); auto. eapply ssorted_head_lt; eauto.
Qed.

(** * 5. The machine invariant *)

(** about the latest superversion [l] of state [st] *)
Record linv (st : mstate) (l : superversion) : Prop := mk_linv {
  li_inv : check_inv_sv l = true;
  li_mid : forall m, In m (all_mts l) -> mid m < next_mid st;
  li_act : forall m, In m (sealed l) -> mid m <> mid (active l);
  li_tid : forall t, In t (all_tables (ver l)) -> tid t < next_tid st;
  li_log : forall e, In e (content l) -> In e (wlog st) }.

(** about the write log and the seqno counter *)
Record winv (st : mstate) : Prop := mk_winv {
  wi_seq : forall e, In e (wlog st) -> seq e < ctr (hs st);
  wi_nodup : NoDup (map seq (wlog st));
  wi_lim : ctr (hs st) <= SEQ_LIMIT }.

Record minv (st : mstate) : Prop := mk_minv {
  mi_h : hinv (hs st);
  mi_w : winv st;
  mi_l : exists l, latest (hist (hs st)) = Some l /\ linv st l }.

Lemma linv_content_seq st l e : winv st -> linv st l -> In e (content l) -> seq e < ctr (hs st).
Proof. intros Wv Hl HI. apply (wi_seq _ Wv). now apply (li_log _ _ Hl). Qed.

Lemma seq_avail_lt st : seq_avail st = true -> ctr (hs st) + 1 <= SEQ_LIMIT.
Proof. unfold seq_avail. intros H. apply N.ltb_lt in H. lia. Qed.

Lemma In_content_memc sv c e : In c (memc sv) -> In e c -> In e (content sv).
Proof. intros Hc He. apply content_In. left. eauto. Qed.

Lemma In_content_active sv e : In e (ments (active sv)) -> In e (content sv).
Proof. intros He. eapply In_content_memc; [|exact He]. apply memc_In. now left. Qed.

Lemma In_content_sealed sv m e : In m (sealed sv) -> In e (ments m) -> In e (content sv).
Proof. intros Hm He. eapply In_content_memc; [|exact He]. apply memc_In. right. eauto. Qed.

Lemma In_content_table sv t e : In t (all_tables (ver sv)) -> In e (ents t) -> In e (content sv).
Proof. intros Ht He. apply content_In. right. eauto. Qed.

Lemma enewer_insert e A Y :
  enewer A Y -> (forall y, In y Y -> seq y < seq e) -> enewer (mt_insert e A) Y.
Proof.
  intros H HY x y Hx Hy Ek. apply In_mt_insert in Hx. destruct Hx as [->|Hx]; [auto|].
  now apply (H x y).
Qed.

(** ** 5.1 write *)
Lemma minv_write st k t v :
  minv st -> mop_ok st (MWrite k t v) = true -> minv (mstep st (MWrite k t v)).
Proof.
  intros [Ih Iw (l & L & Hl)] OK.
  unfold mop_ok in OK. rewrite L in OK. apply andb_true_iff in OK. destruct OK as [SA _].
  unfold mstep. rewrite L. set (e := mkE k (ctr (hs st)) t v).
  destruct (hstep_write_latest (hs st) e l L) as [L' C'].
  pose proof (sv_write_latest l e (li_act _ _ Hl)) as SW.
  assert (forall x, In x (content l) -> seq x < seq e) as Hnew.
  { intros x Hx. cbn [seq e]. eapply linv_content_seq; eauto. }
  constructor; cbn [hs wlog next_tid next_mid].
  - apply hinv_step; [exact Ih| |exact I]. intros e0 E. inversion E. reflexivity.
  - constructor; cbn [hs wlog].
    + rewrite C'. intros x [<-|Hx]; [cbn [seq e]; lia|].
      pose proof (wi_seq _ Iw x Hx). lia.
    + cbn [map]. constructor; [|apply (wi_nodup _ Iw)].
      intros HI. apply in_map_iff in HI. destruct HI as (x & Ex & Hx).
      pose proof (wi_seq _ Iw x Hx). cbn [seq e] in Ex. lia.
    + rewrite C'. now apply seq_avail_lt.
  - eexists. split; [exact L'|]. rewrite SW.
    destruct (sv_inv_elim l (li_inv _ _ Hl)) as (S1 & S2 & HV & R1 & R2).
    unfold memc in R1, R2. cbn [recency_b] in R1. apply andb_true_iff in R1.
    destruct R1 as [R1a R1b]. rewrite forallb_forall in R1a.
    constructor; cbn [active sealed ver mid ments all_mts].
    + apply sv_inv_intro; cbn [ments]; auto using mt_insert_sorted.
      * cbn [recency_b]. rewrite R1b, andb_true_r. apply forallb_forall. intros c Hc.
        apply newer_than_spec. apply enewer_insert.
        -- unfold enewer. apply newer_than_spec. now apply R1a.
        -- intros y Hy. apply Hnew. eapply In_content_memc; [right; exact Hc|exact Hy].
      * intros c t0 [<-|Hc] Ht.
        -- apply enewer_insert; [apply R2; [now left|exact Ht]|].
           intros y Hy. apply Hnew. eapply In_content_table; eauto.
        -- apply R2; [now right|exact Ht].
    + intros m [<-|Hm]; cbn [mid].
      * apply (li_mid _ _ Hl (active l)). now left.
      * apply (li_mid _ _ Hl m). now right.
    + apply (li_act _ _ Hl).
    + apply (li_tid _ _ Hl).
    + intros x Hx. apply content_In in Hx. unfold memc in Hx. cbn [active sealed ver ments] in Hx.
      destruct Hx as [(c & [<-|Hc] & Hx)|(t0 & Ht & Hx)].
      * apply In_mt_insert in Hx. destruct Hx as [->|Hx]; [now left|right].
        apply (li_log _ _ Hl). now apply In_content_active.
      * right. apply (li_log _ _ Hl). eapply In_content_memc; [right; exact Hc|exact Hx].
      * right. apply (li_log _ _ Hl). eapply In_content_table; eauto.
Qed.

(** ** 5.2 rotate *)
Lemma minv_rotate st :
  minv st -> minv (mstep st MRotate).
Proof.
  intros [Ih Iw (l & L & Hl)]. unfold mstep. rewrite L.
  destruct (ments (active l)) as [|a0 ar] eqn:EA; [constructor; eauto|].
  destruct (hstep_rotate_latest (hs st) (next_mid st) l L) as [L' C'];
    [rewrite EA; discriminate|].
  constructor; cbn [hs wlog next_tid next_mid].
  - apply hinv_step; [exact Ih| |exact I]. intros e0 E. discriminate.
  - constructor; cbn [hs wlog]; rewrite ?C'; apply Iw.
  - eexists. split; [exact L'|]. unfold sv_rotate.
    destruct (sv_inv_elim l (li_inv _ _ Hl)) as (S1 & S2 & HV & R1 & R2).
    assert (map ments (rev (sealed l ++ [active l])) = memc l) as EM.
    { rewrite rev_app_distr. reflexivity. }
    constructor; unfold all_mts; cbn [active sealed ver mid ments next_mid next_tid wlog hs In].
    + apply sv_inv_intro; cbn [ments]; auto.
      * intros m Hm. apply in_app_or in Hm. destruct Hm as [Hm|[<-|[]]]; auto.
      * rewrite EM. cbn [recency_b]. rewrite R1, andb_true_r.
        apply forallb_forall. intros c _. reflexivity.
      * rewrite EM. intros c t0 [<-|Hc] Ht; [intros x y []|]. now apply R2.
    + intros m [<-|Hm]; cbn [mid]; [lia|].
      assert (mid m < next_mid st); [|lia]. apply (li_mid _ _ Hl).
      apply in_app_or in Hm. destruct Hm as [Hm|[<-|[]]]; [now right|now left].
    + intros m Hm. cbn [mid].
      assert (mid m < next_mid st); [|lia]. apply (li_mid _ _ Hl).
      apply in_app_or in Hm. destruct Hm as [Hm|[<-|[]]]; [now right|now left].
    + apply (li_tid _ _ Hl).
    + intros x Hx. apply (li_log _ _ Hl). apply content_In in Hx.
      unfold memc in Hx at 1. cbn [active sealed ver ments] in Hx. rewrite EM in Hx.
      apply content_In. destruct Hx as [(c & [<-|Hc] & Hx)|Hx]; [destruct Hx| |right; exact Hx].
      left. eauto.
Qed.

(** ** 5.3 history GC and the generic version upgrade *)
Lemma minv_maint st W :
  minv st ->
  minv (mkMS (hstep (hs st) (HMaint W)) (next_tid st) (next_mid st) (wlog st)).
Proof.
  intros [Ih Iw (l & L & Hl)].
  destruct (hstep_maint_latest (hs st) W) as [L' C'].
  constructor; cbn [hs wlog next_tid next_mid].
  - apply hinv_step; [exact Ih| |exact I]. intros e0 E. discriminate.
  - constructor; cbn [hs wlog]; rewrite ?C'; apply Iw.
  - exists l. split; [now rewrite L'|]. constructor; apply Hl.
Qed.

Lemma check_inv_sv_with_seq s sv : check_inv_sv (sv_with_seq s sv) = check_inv_sv sv.
Proof. reflexivity. Qed.

Lemma content_with_seq s sv : content (sv_with_seq s sv) = content sv.
Proof. reflexivity. Qed.

(** an upgrade whose closure keeps the active memtable, keeps a subset of the sealed
    memtables, yields a structurally sound superversion whose table ids are below the new
    counter value and whose entries all come from the old content *)
Lemma minv_upgrade st l f nt :
  minv st -> latest (hist (hs st)) = Some l -> seq_avail st = true ->
  check_inv_sv (f l) = true ->
  active (f l) = active l ->
  (forall m, In m (sealed (f l)) -> In m (sealed l)) ->
  (forall t, In t (all_tables (ver (f l))) -> tid t < nt) ->
  (forall e, In e (content (f l)) -> In e (content l)) ->
  minv (mkMS (hstep (hs st) (HUpgrade f)) nt (next_mid st) (wlog st)).
Proof.
  intros [Ih Iw (l0 & L0 & Hl)] L SA CI EA HS HT HC.
  rewrite L in L0. inversion L0; subst l0. clear L0.
  destruct (hstep_upgrade_latest (hs st) f l L) as [L' C'].
  assert (forall m, In m (all_mts (f l)) -> In m (all_mts l)) as HM.
  { unfold all_mts. rewrite EA. intros m [<-|Hm]; [now left|right; auto]. }
  constructor; cbn [hs wlog next_tid next_mid].
  - apply hinv_step; [exact Ih|intros e0 E; discriminate|].
    cbn [upg_seqs_ok]. intros l1 L1. rewrite L in L1. inversion L1; subst l1.
    apply seqs_below_spec. intros m e Hm He.
    assert (seq e < ctr (hs st)); [|lia].
    apply (hi_ents _ Ih l m e); auto. now apply latest_In.
  - constructor; cbn [hs wlog]; rewrite ?C'.
    + intros e He. pose proof (wi_seq _ Iw e He). lia.
    + apply Iw.
    + now apply seq_avail_lt.
  - eexists. split; [exact L'|].
    constructor; unfold all_mts; cbn [sv_with_seq active sealed ver next_mid next_tid wlog hs].
    + rewrite check_inv_sv_with_seq. exact CI.
    + intros m Hm. apply (li_mid _ _ Hl). apply HM. exact Hm.
    + intros m Hm. rewrite EA. apply (li_act _ _ Hl). auto.
    + exact HT.
    + intros e He. rewrite content_with_seq in He. apply (li_log _ _ Hl). auto.
Qed.

(** ** 5.4 facts about the merged input and the stream output *)

Lemma filter_none {A} (p : A -> bool) l : (forall x, In x l -> p x = false) -> filter p l = [].
Proof.
  induction l as [|x l IH]; intros H; [reflexivity|]. cbn [filter].
  rewrite (H x (or_introl eq_refl)). apply IH. intros y Hy. apply H. now right.
Qed.

Lemma remove_sealed_all ms : remove_sealed (map mid ms) ms = [].
Proof.
  unfold remove_sealed. apply filter_none. intros m Hm. apply negb_false_iff.
  apply existsb_exists. exists (mid m). split; [now apply in_map|apply N.eqb_refl].
Qed.

Lemma recency_NoDup_ik cs :
  all_sorted cs -> recency_b cs = true -> NoDup (map ik (concat cs)).
Proof.
  induction cs as [|c cs IH]; intros HS HR; [constructor|].
  cbn [concat]. rewrite map_app. apply NoDup_app_intro.
  - apply ssorted_NoDup_ik. rewrite ssorted_eq. apply HS. now left.
  - apply IH; [|eapply recency_tail; eauto]. intros c' Hc'. apply HS. now right.
  - intros x HA HB. apply in_map_iff in HA, HB.
    destruct HA as (a & <- & HA), HB as (b & E & HB). unfold ik in E. inversion E as [[Ek Es]].
    pose proof (recency_head _ _ HR a b HA HB (eq_sym Ek)). lia.
Qed.

Lemma merge_sorted_sorted_b srcs cs :
  Permutation srcs cs -> all_sorted cs -> recency_b cs = true ->
  sorted_b (merge_sorted srcs) = true.
Proof.
  intros P HS HR. rewrite <- ssorted_eq. apply merge_sorted_sorted_nodup.
  eapply Permutation_NoDup; [|apply (recency_NoDup_ik cs HS HR)].
  apply Permutation_map. apply perm_concat. now apply Permutation_sym.
Qed.

Lemma merge_sorted_In srcs e : In e (merge_sorted srcs) <-> In e (concat srcs).
Proof.
  split; apply Permutation_in; [|apply Permutation_sym]; apply merge_sorted_perm.
Qed.

Lemma stream_out_props W ev l :
  (sorted_b l = true -> sorted_b (fst (run_stream W ev no_filter l)) = true) /\
  subseq (fst (run_stream W ev no_filter l)) l.
Proof.
  destruct (run_stream W ev no_filter l) as [out log] eqn:E. cbn [fst]. split.
  - rewrite <- !ssorted_eq. intros HS. eapply cstream_out_sorted; eauto.
  - eapply cstream_out_subseq; eauto.
Qed.

Lemma ids_from_NoDup first n : NoDup (ids_from first n).
Proof.
  revert first; induction n as [|n IH]; intros first; cbn [ids_from]; constructor; [|apply IH].
  rewrite ids_from_In. lia.
Qed.

Lemma build_tables_In_tid fid cuts out t :
  sorted_b out = true -> cuts_ok cuts out = true ->
  In t (build_tables fid cuts out) -> fid <= tid t < fid + ids_used (build_tables fid cuts out).
Proof.
  intros HS HC HI.
  destruct (build_tables_gen cuts fid out HS HC) as (_ & _ & _ & I4 & _).
  assert (In (tid t) (ids_from fid (length (build_tables fid cuts out)))) as H
      by (rewrite <- I4; now apply in_map).
  apply ids_from_In in H. unfold ids_used. lia.
Qed.

Lemma build_tables_In_ents fid cuts out t e :
  sorted_b out = true -> cuts_ok cuts out = true ->
  In t (build_tables fid cuts out) -> In e (ents t) -> In e out.
Proof.
  intros HS HC HI He.
  destruct (build_tables_gen cuts fid out HS HC) as (_ & _ & I3 & _).
  rewrite <- I3. apply in_concat_map_ents. eauto.
Qed.

Lemma build_tables_opt_run_ok fid cuts out :
  sorted_b out = true -> cuts_ok cuts out = true ->
  opt_run_ok (build_tables fid cuts out) = true.
Proof.
  intros HS HC. destruct (build_tables_gen cuts fid out HS HC) as (I1 & I2 & _).
  unfold opt_run_ok. now rewrite I1, I2.
Qed.

(** ** 5.5 flush *)

Lemma levels_nonempty v : version_inv v = true -> levels v <> [].
Proof. intros H E. apply version_inv_length in H. rewrite E in H. discriminate. Qed.

(** what the flush of the latest superversion [l] works on *)
Lemma flush_facts st l W :
  winv st -> linv st l ->
  let cs := map ments (rev (sealed l)) in
  let merged := merge_sorted (map ments (sealed l)) in
  sorted_b merged = true /\
  sorted_b (flush_out W l) = true /\
  subseq (flush_out W l) merged /\
  Permutation merged (concat cs) /\
  (forall x, In x (flush_out W l) -> exists m, In m (sealed l) /\ In x (ments m)).
Proof.
  intros Iw Hl cs merged.
  destruct (sv_inv_elim l (li_inv _ _ Hl)) as (S1 & S2 & HV & R1 & R2).
  assert (Permutation (map ments (sealed l)) cs) as P
      by (apply Permutation_map, Permutation_rev).
  assert (sorted_b merged = true) as HSm.
  { apply (merge_sorted_sorted_b _ cs P).
    - intros c Hc. apply in_map_iff in Hc. destruct Hc as (m & <- & Hm).
      apply S2. now apply in_rev.
    - eapply recency_tail. exact R1. }
  destruct (stream_out_props W false merged) as [O1 O2]. fold (flush_out W l) in O1, O2.
  repeat split; auto.
  - eapply perm_trans; [apply merge_sorted_perm|]. now apply perm_concat.
  - intros x Hx. apply (subseq_incl _ _ O2) in Hx. apply merge_sorted_In in Hx.
    apply in_concat in Hx. destruct Hx as (c & Hc & Hx). apply in_map_iff in Hc.
    destruct Hc as (m & <- & Hm). eauto.
Qed.

Lemma minv_flush st W cuts :
  minv st -> mop_ok st (MFlush W cuts) = true -> minv (mstep st (MFlush W cuts)).
Proof.
  intros M OK. pose proof M as [Ih Iw (l & L & Hl)].
  unfold mop_ok in OK. rewrite L in OK. apply andb_true_iff in OK. destruct OK as [SA HC].
  unfold mstep. rewrite L. destruct (sealed l) as [|m0 ms] eqn:ES; [exact M|]. rewrite <- ES.
  clear m0 ms ES.
  destruct (flush_facts st l W Iw Hl) as (HSm & HSo & SUB & _ & Hin).
  destruct (sv_inv_elim l (li_inv _ _ Hl)) as (S1 & S2 & HV & R1 & R2).
  set (out := flush_out W l) in *.
  set (tables := build_tables (next_tid st) cuts out).
  set (v' := with_new_l0_run (ver l) tables).
  assert (forall m, In m (sealed l) -> In (ments m) (memc l)) as Hmc
      by (intros m Hm; apply memc_In; right; eauto).
  assert (forall m, In m (sealed l) -> enewer (ments (active l)) (ments m)) as Hact.
  { intros m Hm. unfold memc in R1. cbn [recency_b] in R1. apply andb_true_iff in R1.
    destruct R1 as [R1 _]. rewrite forallb_forall in R1. unfold enewer.
    apply newer_than_spec. apply R1. apply in_map. now apply in_rev in Hm. }
  assert (forall t e, In t tables -> In e (ents t) -> exists m, In m (sealed l) /\ In e (ments m))
    as Htab.
  { intros t e Ht He. apply Hin. eapply build_tables_In_ents; eauto. }
  assert (version_inv v' = true) as HV'.
  { apply with_new_l0_run_inv; [exact HV|]. unfold l0_choice_ok.
    assert (opt_run_ok tables = true) as ORO by (apply build_tables_opt_run_ok; auto).
    rewrite ORO. cbn [andb]. apply andb_true_iff. split.
    - apply vs_nodup_N_b. rewrite map_app. apply NoDup_app_intro.
      + destruct (build_tables_gen cuts (next_tid st) out HSo HC) as (_ & _ & _ & I4 & _).
        fold tables in I4. rewrite I4. apply ids_from_NoDup.
      + now apply version_inv_nodup.
      + intros x HA HB. apply in_map_iff in HA, HB.
        destruct HA as (a & <- & HA), HB as (b & E & HB).
        pose proof (build_tables_In_tid _ _ _ _ HSo HC HA).
        pose proof (li_tid _ _ Hl b HB). lia.
    - apply vs_all_newer_iff. intros x y Hx Hy. unfold tnewer. apply newer_than_spec.
      intros e e' He He'. destruct (Htab x e Hx He) as (m & Hm & Hem).
      apply (R2 (ments m) y (Hmc m Hm) Hy e e' Hem He'). }
  assert (forall t, In t (all_tables v') -> In t tables \/ In t (all_tables (ver l))) as Hsplit.
  { intros t Ht. apply in_app_or.
    eapply Permutation_in; [apply new_l0_tables_perm; now apply levels_nonempty|exact Ht]. }
  apply (minv_maint (mkMS (hstep (hs st) (HUpgrade (sv_flushed (map mid (sealed l)) tables)))
                          (next_tid st + ids_used tables) (next_mid st) (wlog st)) W).
  apply (minv_upgrade st l _ _ M L SA); unfold sv_flushed; cbn [active sealed ver];
    rewrite ?remove_sealed_all; fold v'.
  - apply sv_inv_intro; auto.
    cbn [rev map]. intros c t [<-|[]] Ht. destruct (Hsplit t Ht) as [Ht'|Ht'].
    + intros e e' He He' Ek. destruct (Htab t e' Ht' He') as (m & Hm & Hem).
      apply (Hact m Hm e e' He Hem Ek).
    + apply R2; [now left|exact Ht'].
  - reflexivity.
  - intros m [].
  - intros t Ht. destruct (Hsplit t Ht) as [Ht'|Ht'].
    + pose proof (build_tables_In_tid _ _ _ _ HSo HC Ht'). fold tables in H. lia.
    + pose proof (li_tid _ _ Hl t Ht'). unfold ids_used. lia.
  - intros e He. apply content_In in He. unfold memc in He. cbn [active sealed ver rev map] in He.
    destruct He as [(c & [<-|[]] & He)|(t & Ht & He)].
    + now apply In_content_active.
    + destruct (Hsplit t Ht) as [Ht'|Ht'].
      * destruct (Htab t e Ht' He) as (m & Hm & Hem). eapply In_content_sealed; eauto.
      * eapply In_content_table; eauto.
Qed.

(** ** 5.6 compaction and move: the version changes, the memtables stay *)

Lemma minv_version_change st l v' nt f :
  minv st -> latest (hist (hs st)) = Some l -> seq_avail st = true ->
  f l = mkSV (sv_seq l) (active l) (sealed l) v' ->
  version_inv v' = true ->
  (forall t, In t (all_tables v') -> tid t < nt) ->
  (forall t e, In t (all_tables v') -> In e (ents t) ->
     exists t0, In t0 (all_tables (ver l)) /\ In e (ents t0)) ->
  minv (mkMS (hstep (hs st) (HUpgrade f)) nt (next_mid st) (wlog st)).
Proof.
  intros M L SA Ef HV' HT HE. pose proof M as [Ih Iw (l0 & L0 & Hl)].
  rewrite L in L0. inversion L0; subst l0. clear L0.
  destruct (sv_inv_elim l (li_inv _ _ Hl)) as (S1 & S2 & HV & R1 & R2).
  apply (minv_upgrade st l f nt M L SA); rewrite Ef; cbn [active sealed ver]; auto.
  - apply sv_inv_intro; auto. intros c t Hc Ht e e' He He' Ek.
    destruct (HE t e' Ht He') as (t0 & Ht0 & He0). apply (R2 c t0 Hc Ht0 e e' He He0 Ek).
  - intros e He. apply content_In in He. unfold memc in He. cbn [active sealed ver] in He.
    destruct He as [(c & Hc & He)|(t & Ht & He)].
    + eapply In_content_memc; eauto.
    + destruct (HE t e Ht He) as (t0 & Ht0 & He0). eapply In_content_table; eauto.
Qed.

(** what a compaction of the tables [ids] of version [v] works on *)
Lemma compact_facts v ids W dest :
  version_inv v = true ->
  sorted_b (compact_merged v ids) = true /\
  sorted_b (compact_out W dest v ids) = true /\
  subseq (compact_out W dest v ids) (compact_merged v ids) /\
  Permutation (compact_merged v ids) (concat (map ents (compact_in v ids))) /\
  (forall x, In x (compact_out W dest v ids) ->
     exists t, In t (compact_in v ids) /\ In x (ents t)).
Proof.
  intros HV. unfold compact_out, compact_merged.
  assert (sorted_b (merge_sorted (map ents (compact_in v ids))) = true) as HSm.
  { apply (merge_sorted_sorted_b _ _ (Permutation_refl _)).
    - intros c Hc. apply in_map_iff in Hc. destruct Hc as (t & <- & Ht).
      apply table_sorted. eapply version_inv_table_ok; eauto. eapply compact_in_In; eauto.
    - apply (vs_trec_filter (id_in ids) (all_tables v)). now apply version_inv_recency. }
  destruct (stream_out_props W (is_last_level dest) (merge_sorted (map ents (compact_in v ids))))
    as [O1 O2].
  repeat split; auto.
  - apply merge_sorted_perm.
  - intros x Hx. apply (subseq_incl _ _ O2) in Hx. apply merge_sorted_In in Hx.
    now apply in_concat_map_ents.
Qed.

Lemma ltb_7_lt dest v : Nat.ltb dest 7 = true -> version_inv v = true ->
  (dest < length (levels v))%nat.
Proof. intros H HV. apply Nat.ltb_lt in H. rewrite (version_inv_length _ HV). exact H. Qed.

Lemma minv_compact st ids dest W cuts :
  minv st -> mop_ok st (MCompact ids dest W cuts) = true ->
  minv (mstep st (MCompact ids dest W cuts)).
Proof.
  intros M OK. pose proof M as [Ih Iw (l & L & Hl)].
  unfold mop_ok in OK. rewrite L in OK. rewrite !andb_true_iff in OK.
  destruct OK as [[[[[[[[SA _] _] EX] _] HD] HC] MC] _].
  unfold mstep. rewrite L, EX.
  destruct (sv_inv_elim l (li_inv _ _ Hl)) as (S1 & S2 & HV & R1 & R2).
  destruct (compact_facts (ver l) ids W dest HV) as (HSm & HSo & SUB & _ & Hin).
  set (out := compact_out W dest (ver l) ids) in *.
  set (new := build_tables (next_tid st) cuts out) in *.
  set (v' := with_merge (ver l) ids new dest).
  assert (version_inv v' = true) as HV' by (apply with_merge_inv; assumption).
  assert (forall t, In t (all_tables v') ->
                    In t new \/ In t (kept ids (all_tables (ver l)))) as Hsplit.
  { intros t Ht. apply in_app_or.
    eapply Permutation_in; [|exact Ht]. apply merge_tables_perm. now apply ltb_7_lt. }
  apply (minv_maint (mkMS (hstep (hs st) (HUpgrade (sv_merged ids new dest)))
                          (next_tid st + ids_used new) (next_mid st) (wlog st)) W).
  apply (minv_version_change st l v' _ _ M L SA); auto.
  - intros t Ht. destruct (Hsplit t Ht) as [Ht'|Ht'].
    + pose proof (build_tables_In_tid _ _ _ _ HSo HC Ht'). fold new in H. lia.
    + pose proof (li_tid _ _ Hl t (kept_In _ _ _ Ht')). unfold ids_used. lia.
  - intros t e Ht He. destruct (Hsplit t Ht) as [Ht'|Ht'].
    + destruct (Hin e (build_tables_In_ents _ _ _ _ _ HSo HC Ht' He)) as (t0 & Ht0 & He0).
      exists t0. split; [eapply compact_in_In; eauto|exact He0].
    + exists t. split; [eapply kept_In; eauto|exact He].
Qed.

Lemma minv_move st ids dest :
  minv st -> mop_ok st (MMove ids dest) = true -> minv (mstep st (MMove ids dest)).
Proof.
  intros M OK. pose proof M as [Ih Iw (l & L & Hl)].
  unfold mop_ok in OK. rewrite L in OK. rewrite !andb_true_iff in OK.
  destruct OK as [[[[[SA _] _] _] HD] MC].
  unfold mstep. rewrite L.
  destruct (sv_inv_elim l (li_inv _ _ Hl)) as (S1 & S2 & HV & R1 & R2).
  set (v' := with_moved (ver l) ids dest).
  assert (version_inv v' = true) as HV' by (apply with_moved_inv; assumption).
  assert (forall t, In t (all_tables v') -> In t (all_tables (ver l))) as Hsub.
  { intros t Ht. eapply Permutation_in; [|exact Ht]. apply moved_tables_perm.
    now apply ltb_7_lt. }
  apply (minv_version_change st l v' _ _ M L SA); auto.
  - intros t Ht. apply (li_tid _ _ Hl). auto.
  - intros t e Ht He. exists t. auto.
Qed.

(** ** 5.7 every step, every run *)

Lemma minv_step st o : minv st -> mop_ok st o = true -> minv (mstep st o).
Proof.
  intros M OK. destruct o as [k t v| |W cuts|ids dest W cuts|ids dest|W].
  - now apply minv_write.
  - now apply minv_rotate.
  - now apply minv_flush.
  - now apply minv_compact.
  - now apply minv_move.
  - pose proof M as [_ _ (l & L & _)]. unfold mstep. rewrite L. now apply minv_maint.
Qed.

Lemma minv_run : forall ops st, minv st -> mops_ok st ops = true -> minv (mrun st ops).
Proof.
  induction ops as [|o ops IH]; intros st M OK; [exact M|].
  cbn [mops_ok] in OK. apply andb_true_iff in OK. destruct OK as [O1 O2].
  cbn [mrun fold_left]. apply IH; [now apply minv_step|exact O2].
Qed.

Lemma minv_init : minv minit.
Proof.
  constructor.
  - apply hinv_init.
  - constructor; cbn; [intros e []|constructor|discriminate].
  - eexists. split; [reflexivity|]. constructor; cbn.
    + reflexivity.
    + intros m [<-|[]]. reflexivity.
    + intros m [].
    + intros t [].
    + intros e [].
Qed.

(** Result 2 (record form): every reachable state satisfies the machine invariant *)
Theorem machine_minv : forall ops, mops_ok minit ops = true -> minv (mrun minit ops).
Proof. intros ops OK. apply minv_run; [apply minv_init|exact OK]. Qed.

(** * 6. [newest] over a union *)

Definition nmax (a b : option entry) : option entry :=
  match a, b with
  | Some x, Some y => if seq x <? seq y then Some y else Some x
  | Some x, None => Some x
  | None, y => y
  end.

Lemma newest_app_max k S a b :
  uniq (a ++ b) -> newest k S (a ++ b) = nmax (newest k S a) (newest k S b).
Proof.
  intros U.
  destruct (newest k S a) as [x|] eqn:A; destruct (newest k S b) as [y|] eqn:B; cbn [nmax].
  - destruct (newest_some _ _ _ _ A) as [XI XM]. destruct (newest_some _ _ _ _ B) as [YI YM].
    destruct (seq x <? seq y) eqn:C.
    + apply N.ltb_lt in C. apply newest_char; auto; [apply in_or_app; auto|].
      intros e' HI HM. apply in_app_or in HI. destruct HI as [HI|HI].
      * pose proof (newest_max _ _ _ _ A e' HI HM). lia.
      * apply (newest_max _ _ _ _ B e' HI HM).
    + apply N.ltb_ge in C. apply newest_char; auto; [apply in_or_app; auto|].
      intros e' HI HM. apply in_app_or in HI. destruct HI as [HI|HI].
      * apply (newest_max _ _ _ _ A e' HI HM).
      * pose proof (newest_max _ _ _ _ B e' HI HM). lia.
  - destruct (newest_some _ _ _ _ A) as [XI XM]. rewrite newest_none in B.
    apply newest_char; auto; [apply in_or_app; auto|].
    intros e' HI HM. apply in_app_or in HI. destruct HI as [HI|HI].
    + apply (newest_max _ _ _ _ A e' HI HM).
    + rewrite (B e' HI) in HM. discriminate.
  - destruct (newest_some _ _ _ _ B) as [YI YM]. rewrite newest_none in A.
    apply newest_char; auto; [apply in_or_app; auto|].
    intros e' HI HM. apply in_app_or in HI. destruct HI as [HI|HI].
    + rewrite (A e' HI) in HM. discriminate.
    + apply (newest_max _ _ _ _ B e' HI HM).
  - rewrite newest_none in *. intros e HI. apply in_app_or in HI. destruct HI; auto.
Qed.

(** replacing a part [I] of a bag by [O] with the same newest version of [k] *)
Lemma newest_replace_eq k S I O R :
  uniq (I ++ R) -> uniq (O ++ R) -> newest k S O = newest k S I ->
  newest k S (O ++ R) = newest k S (I ++ R).
Proof. intros U1 U2 E. rewrite !newest_app_max by assumption. now rewrite E. Qed.

(** replacing [I], whose newest version of [k] is a tombstone, by [O] without any version
    of [k], when everything else of [k] is newer than that tombstone *)
Lemma newest_replace_evict k S I O R t :
  uniq (I ++ R) -> uniq (O ++ R) ->
  newest k S I = Some t -> is_tomb t = true -> newest k S O = None ->
  (forall r, In r R -> ukey r = k -> seq t < seq r) ->
  visible (newest k S (O ++ R)) = visible (newest k S (I ++ R)).
Proof.
  intros U1 U2 EI TB EO HR. rewrite !newest_app_max by assumption. rewrite EI, EO.
  destruct (newest k S R) as [r|] eqn:ER; cbn [nmax].
  - destruct (newest_some _ _ _ _ ER) as [RI RM]. apply matches_iff in RM.
    destruct RM as [Rk _]. specialize (HR r RI Rk). apply N.ltb_lt in HR. now rewrite HR.
  - cbn [visible]. now rewrite TB.
Qed.

(** * 7. The stream keeps the newest version of a key, or evicts its tombstone *)

Lemma emit_dec_noevict W h rest :
  is_weak_tomb h = false -> fst (emit_dec W false h rest) = true.
Proof.
  intros NW. unfold emit_dec. destruct rest as [|p r].
  - cbn [fst]. now rewrite andb_false_r.
  - destruct (key_ltb (ukey h) (ukey p)); [cbn [fst]; now rewrite andb_false_r|].
    destruct (seq p <? W); [|reflexivity]. rewrite andb_false_r, NW, andb_false_r. reflexivity.
Qed.

(** For a key [k] without weak tombstones and a snapshot above all its versions: the
    stream output has the same newest version of [k] as the input, or ([evict] only) that
    version was a tombstone and NO version of [k] is left in the output. *)
Lemma top_exact W evict k S : forall l dr,
  ssorted l = true -> dr_ok dr l -> dr_nok k dr l ->
  (forall e, In e l -> ukey e = k -> seq e < S) ->
  (forall x, In x l -> ukey x = k -> is_weak_tomb x = false) ->
  newest k S (outs W evict no_filter dr l) = newest k S l \/
  (evict = true /\ (exists t, newest k S l = Some t /\ is_tomb t = true) /\
   forall h, In h (outs W evict no_filter dr l) -> ukey h <> k).
Proof.
  induction l as [|e rest IH]; intros dr HS OK ND HSn NW; [left; reflexivity|].
  pose proof (ssorted_tail _ _ HS) as HS'.
  assert (forall x, In x rest -> ukey x = k -> seq x < S) as HSn'
      by (intros x HI; apply HSn; now right).
  assert (forall x, In x rest -> ukey x = k -> is_weak_tomb x = false) as NW'
      by (intros x HI; apply NW; now right).
  rewrite outs_cons, apply_filter_no_filter. cbn [fst].
  destruct (draining evict dr e) eqn:D.
  - assert (ukey e <> k) as NE.
    { destruct dr as [|k'|]; [discriminate| |exact ND].
      apply draining_key in D. cbn in ND. congruence. }
    rewrite (newest_cons_nokey k S e rest NE).
    apply IH; auto; [eapply dr_ok_tail; eauto|eapply dr_nok_after; eauto].
  - destruct (emit_dec_inv W evict e e rest HS eq_refl) as (OK' & _ & DN).
    destruct (key_eq_dec (ukey e) k) as [E|NE].
    + assert (newest k S (e :: rest) = Some e) as R.
      { apply newest_head; [exact E|apply HSn; [now left|exact E]|].
        intros x XI Xk. eapply ssorted_same_key_seq; eauto. congruence. }
      rewrite R.
      destruct (fst (emit_dec W evict e rest)) eqn:B; unfold olist; cbn [app].
      * left. apply newest_head; [exact E|apply HSn; [now left|exact E]|].
        intros x XI Xk. apply (subseq_incl _ _ (outs_subseq W evict rest _)) in XI.
        eapply ssorted_same_key_seq; eauto. congruence.
      * assert (evict = true) as EV.
        { destruct evict; [reflexivity|]. rewrite emit_dec_noevict in B; [discriminate|].
          apply NW; [now left|exact E]. }
        destruct (emit_dec_false W evict e e rest HS eq_refl B) as [TB Hno].
        right. split; [exact EV|]. split; [exists e; auto|].
        destruct Hno as [[Hd Hev]|[Hgt|[_ Hw]]].
        -- intros x XI. rewrite Hd in XI, OK'. subst evict. rewrite <- E.
           eapply drain_no_key; eauto.
        -- intros x XI Xk. apply (subseq_incl _ _ (outs_subseq W evict rest _)) in XI.
           specialize (Hgt x XI). rewrite Xk, E in Hgt. now apply key_lt_irrefl in Hgt.
        -- rewrite (NW e) in Hw; [discriminate|now left|exact E].
    + rewrite (newest_cons_nokey k S e rest NE).
      assert (dr_nok k (snd (emit_dec W evict e rest)) rest) as ND'.
      { destruct (emit_dec_dr W evict e rest) as [Hd|[Hd|Hd]]; rewrite Hd; cbn; auto.
        destruct (DN Hd) as (_ & p & r & -> & Ep & _). congruence. }
      destruct (IH (snd (emit_dec W evict e rest)) HS' OK' ND' HSn' NW')
        as [IH'|(EV & Ht & Hno)].
      * left. unfold olist. destruct (fst (emit_dec W evict e rest)); cbn [app]; [|exact IH'].
        rewrite newest_cons_nokey; auto.
      * right. split; [exact EV|]. split; [exact Ht|]. intros h HI.
        apply in_app_or in HI. destruct HI as [HI|HI]; [|auto].
        unfold olist in HI. destruct (fst (emit_dec W evict e rest)); [|destruct HI].
        destruct HI as [<-|[]]. exact NE.
Qed.

(** the same for the output of [run_stream] *)
Lemma run_stream_top W evict l k S :
  sorted_b l = true ->
  (forall e, In e l -> ukey e = k -> seq e < S) ->
  (forall x, In x l -> ukey x = k -> ty x <> WeakTomb) ->
  let out := fst (run_stream W evict no_filter l) in
  newest k S out = newest k S l \/
  (evict = true /\ (exists t, newest k S l = Some t /\ is_tomb t = true) /\
   forall h, In h out -> ukey h <> k).
Proof.
  intros HS HSn NW out. rewrite <- ssorted_eq in HS.
  apply (top_exact W evict k S l NoDrain HS I I HSn).
  intros x HI Hk. specialize (NW x HI Hk). unfold is_weak_tomb.
  destruct (ty x); try reflexivity. congruence.
Qed.

(** * 8. The top view is preserved when a part of the content goes through the stream *)

(** no version of key [k] is a weak tombstone *)
Definition noweak_k (k : key) (l : list entry) : Prop :=
  forall e, In e l -> ukey e = k -> ty e <> WeakTomb.

(** [C] = [I] + [R] becomes [C'] = [O] + [R] where [O] is the stream output on the sorted
    input [I]; under eviction, a key that vanishes from [O] has nothing older in [R] *)
Lemma replace_view W evict C C' I R k S :
  uniq C -> uniq C' ->
  sorted_b I = true ->
  Permutation C (I ++ R) ->
  Permutation C' (fst (run_stream W evict no_filter I) ++ R) ->
  (forall e, In e C -> seq e < S) -> noweak_k k C ->
  (evict = true -> forall e, In e I ->
     (forall h, In h (fst (run_stream W evict no_filter I)) -> ukey h <> ukey e) ->
     forall r, In r R -> ukey r = ukey e -> seq e < seq r) ->
  visible (newest k S C') = visible (newest k S C).
Proof.
  intros U U' HS P P' HSn NW EV.
  set (O := fst (run_stream W evict no_filter I)) in *.
  assert (forall e, In e I -> In e C) as HIC.
  { intros e He. eapply Permutation_in; [apply Permutation_sym; exact P|].
    apply in_or_app. now left. }
  rewrite (newest_perm k S C (I ++ R) U P), (newest_perm k S C' (O ++ R) U' P').
  pose proof (uniq_perm _ _ P U) as U1. pose proof (uniq_perm _ _ P' U') as U2.
  destruct (run_stream_top W evict I k S HS) as [E|(Ev & (t & Et & TB) & Hno)].
  - intros e He _. apply HSn. auto.
  - intros x Hx Kx. apply NW; auto.
  - fold O in E. f_equal. now apply newest_replace_eq.
  - fold O in Hno. destruct (newest_some _ _ _ _ Et) as [TI TM].
    apply matches_iff in TM. destruct TM as [Tk _].
    apply (newest_replace_evict k S I O R t U1 U2 Et TB).
    + apply newest_nokey. exact Hno.
    + intros r Hr Rk. apply (EV Ev t TI); [|exact Hr|congruence].
      intros h Hh. rewrite Tk. now apply Hno.
Qed.

(** what readers of the latest superversion see, against the write log *)
Definition tview (k : key) (st : mstate) (l : superversion) : Prop :=
  forall S, ctr (hs st) <= S ->
    visible (newest k S (content l)) = visible (newest k S (wlog st)).

Lemma NoDup_seq_uniq l : NoDup (map seq l) -> uniq l.
Proof.
  induction l as [|x l IH]; intros ND e1 e2 H1 H2 Ek Es; [contradiction|].
  cbn [map] in ND. inversion ND as [|? ? NI ND']; subst.
  destruct H1 as [->|H1], H2 as [->|H2]; auto.
  - exfalso. apply NI. rewrite Es. now apply in_map.
  - exfalso. apply NI. rewrite <- Es. now apply in_map.
  - apply IH; auto.
Qed.

Lemma mem_entries_In sv e :
  In e (mem_entries sv) <-> exists c, In c (memc sv) /\ In e c.
Proof.
  unfold mem_entries, memc. rewrite in_app_iff, in_concat. split.
  - intros [H|(c & Hc & He)]; [exists (ments (active sv)); split; [now left|exact H]|].
    exists c. split; [now right|exact He].
  - intros (c & [<-|Hc] & He); [now left|right; eauto].
Qed.

(** * 9. The top-view invariant along the machine *)

Definition tvinv (k : key) (st : mstate) : Prop :=
  noweak_k k (wlog st) /\ forall l, latest (hist (hs st)) = Some l -> tview k st l.

Lemma minv_latest_uniq st l : minv st -> latest (hist (hs st)) = Some l -> uniq (content l).
Proof.
  intros [_ _ (l0 & L0 & Hl)] L. rewrite L in L0. inversion L0; subst l0.
  apply content_uniq. apply Hl.
Qed.

Lemma upgrade_maint_latest h f l W :
  latest (hist h) = Some l ->
  latest (hist (hstep (hstep h (HUpgrade f)) (HMaint W))) = Some (sv_with_seq (ctr h) (f l)) /\
  ctr (hstep (hstep h (HUpgrade f)) (HMaint W)) = ctr h + 1.
Proof.
  intros L. destruct (hstep_upgrade_latest h f l L) as [L1 C1].
  destruct (hstep_maint_latest (hstep h (HUpgrade f)) W) as [L2 C2].
  rewrite L2, C2. auto.
Qed.

(** ** 9.1 write *)
Lemma tvinv_write k0 st k t v :
  minv st -> tvinv k0 st -> mop_ok st (MWrite k t v) = true -> (k = k0 -> t <> WeakTomb) ->
  tvinv k0 (mstep st (MWrite k t v)).
Proof.
  intros M [NW TV] OK NT. pose proof (minv_write st k t v M OK) as M'.
  pose proof M as [Ih Iw (l & L & Hl)]. specialize (TV l L).
  revert M'. unfold mstep. rewrite L. set (e := mkE k (ctr (hs st)) t v). intros M'.
  destruct (hstep_write_latest (hs st) e l L) as [L' C'].
  rewrite (sv_write_latest l e (li_act _ _ Hl)) in L'.
  split; cbn [wlog hs].
  - intros x [<-|Hx] Kx; [now apply NT|now apply NW].
  - intros l' Ll'. pose proof (minv_latest_uniq _ _ M' Ll') as U'. cbn [hs] in Ll'.
    rewrite L' in Ll'. inversion Ll'; subst l'. clear Ll'.
    intros S HS. cbn [hs wlog] in *. rewrite C' in HS.
    set (l' := mkSV (sv_seq l) _ (sealed l) (ver l)) in *.
    assert (Permutation (content l') (e :: content l)) as P.
    { rewrite !content_split. unfold mem_entries, l'. cbn [active sealed ver ments].
      change (e :: (ments (active l) ++ concat (map ments (rev (sealed l)))) ++
                   concat (map ents (all_tables (ver l))))
        with (((e :: ments (active l)) ++ concat (map ments (rev (sealed l)))) ++
                   concat (map ents (all_tables (ver l)))).
      do 2 apply Permutation_app_tail. apply mt_insert_perm.
      intros x Hx. cbn [seq e]. eapply linv_content_seq; eauto. now apply In_content_active. }
    rewrite (newest_perm k0 S _ _ U' P).
    destruct (key_eq_dec k k0) as [E|NE].
    + rewrite !newest_head; auto; cbn [seq ukey e]; try lia.
      * intros x Hx _. apply (wi_seq _ Iw x Hx).
      * intros x Hx _. eapply linv_content_seq; eauto.
    + rewrite !newest_cons_nokey by exact NE. apply TV. lia.
Qed.

(** ** 9.2 rotate, history GC, move: the content is the same bag *)
Lemma tview_same_bag k st st' l l' :
  uniq (content l') -> Permutation (content l') (content l) ->
  wlog st' = wlog st -> ctr (hs st) <= ctr (hs st') ->
  tview k st l -> tview k st' l'.
Proof.
  intros U P EW HC TV S HS. rewrite (newest_perm k S _ _ U P), EW. apply TV. lia.
Qed.

Lemma tvinv_rotate k st : minv st -> tvinv k st -> tvinv k (mstep st MRotate).
Proof.
  intros M [NW TV]. pose proof (minv_rotate st M) as M'.
  pose proof M as [Ih Iw (l & L & Hl)]. specialize (TV l L).
  revert M'. unfold mstep. rewrite L.
  destruct (ments (active l)) as [|a0 ar] eqn:EA.
  { intros _. split; [exact NW|]. intros l' Ll'. rewrite L in Ll'. now inversion Ll'; subst. }
  intros M'. destruct (hstep_rotate_latest (hs st) (next_mid st) l L) as [L' C'];
    [rewrite EA; discriminate|].
  split; [exact NW|]. intros l' Ll'. pose proof (minv_latest_uniq _ _ M' Ll') as U'.
  cbn [hs] in Ll'. rewrite L' in Ll'. inversion Ll'; subst l'. clear Ll'.
  apply (tview_same_bag k st _ l _ U'); cbn [hs wlog]; [|reflexivity|lia|exact TV].
  unfold content, containers, sv_rotate. cbn [active sealed ver ments].
  rewrite rev_app_distr. apply Permutation_refl.
Qed.

Lemma tvinv_maint k st W : minv st -> tvinv k st -> tvinv k (mstep st (MMaint W)).
Proof.
  intros M [NW TV]. pose proof M as [Ih Iw (l & L & Hl)].
  unfold mstep. rewrite L. destruct (hstep_maint_latest (hs st) W) as [L' C'].
  split; [exact NW|]. intros l' Ll'. cbn [hs] in Ll'. rewrite L' in Ll'.
  intros S HS. cbn [hs wlog] in *. rewrite C' in HS. now apply TV.
Qed.

Lemma tvinv_move k st ids dest :
  minv st -> tvinv k st -> mop_ok st (MMove ids dest) = true ->
  tvinv k (mstep st (MMove ids dest)).
Proof.
  intros M [NW TV] OK. pose proof (minv_move st ids dest M OK) as M'.
  pose proof M as [Ih Iw (l & L & Hl)]. specialize (TV l L).
  unfold mop_ok in OK. rewrite L in OK. rewrite !andb_true_iff in OK.
  destruct OK as [[[[[SA _] _] _] HD] MC].
  destruct (sv_inv_elim l (li_inv _ _ Hl)) as (_ & _ & HV & _ & _).
  revert M'. unfold mstep. rewrite L. intros M'.
  destruct (hstep_upgrade_latest (hs st) (sv_moved ids dest) l L) as [L' C'].
  split; [exact NW|]. intros l' Ll'. pose proof (minv_latest_uniq _ _ M' Ll') as U'.
  cbn [hs] in Ll'. rewrite L' in Ll'. inversion Ll'; subst l'. clear Ll'.
  apply (tview_same_bag k st _ l _ U'); cbn [hs wlog]; [|reflexivity|lia|exact TV].
  rewrite content_with_seq, !content_split. unfold sv_moved, mem_entries.
  cbn [active sealed ver]. apply Permutation_app_head. apply perm_concat_map_ents.
  apply moved_tables_perm. now apply ltb_7_lt.
Qed.

(** ** 9.3 flush *)
Lemma tvinv_flush k st W cuts :
  minv st -> tvinv k st -> mop_ok st (MFlush W cuts) = true ->
  tvinv k (mstep st (MFlush W cuts)).
Proof.
  intros M [NW TV] OK. pose proof (minv_flush st W cuts M OK) as M'.
  pose proof M as [Ih Iw (l & L & Hl)]. specialize (TV l L).
  unfold mop_ok in OK. rewrite L in OK. apply andb_true_iff in OK. destruct OK as [SA HC].
  revert M'. unfold mstep. rewrite L.
  destruct (sealed l) as [|m0 ms] eqn:ES.
  { intros _. split; [exact NW|]. intros l' Ll'. rewrite L in Ll'. now inversion Ll'; subst. }
  rewrite <- ES. clear m0 ms ES.
  destruct (flush_facts st l W Iw Hl) as (HSm & HSo & SUB & PM & Hin).
  destruct (sv_inv_elim l (li_inv _ _ Hl)) as (S1 & S2 & HV & R1 & R2).
  set (out := flush_out W l) in *.
  set (tables := build_tables (next_tid st) cuts out).
  set (f := sv_flushed (map mid (sealed l)) tables).
  intros M'. destruct (upgrade_maint_latest (hs st) f l W L) as [L' C'].
  split; [exact NW|]. intros l' Ll'. pose proof (minv_latest_uniq _ _ M' Ll') as U'.
  cbn [hs] in Ll'. rewrite L' in Ll'. inversion Ll'; subst l'. clear Ll'.
  intros S HS. cbn [hs wlog] in *. rewrite C' in HS.
  rewrite <- (TV S) by lia.
  set (A := ments (active l)) in *.
  set (T := concat (map ents (all_tables (ver l)))).
  set (merged := merge_sorted (map ments (sealed l))) in *.
  apply (replace_view W false (content l) _ merged (A ++ T) k S).
  - apply content_uniq. apply Hl.
  - exact U'.
  - exact HSm.
  - rewrite content_split. unfold mem_entries. fold A T. rewrite <- app_assoc.
    eapply perm_trans; [apply Permutation_app_swap_app|].
    apply Permutation_app_tail. apply Permutation_sym. exact PM.
  - rewrite content_with_seq, content_split. unfold f, sv_flushed, mem_entries.
    cbn [active sealed ver]. rewrite remove_sealed_all. cbn [rev map concat]. fold A.
    rewrite app_nil_r. fold out.
    eapply perm_trans; [|apply Permutation_app_swap_app]. apply Permutation_app_head.
    eapply perm_trans.
    { apply perm_concat_map_ents. apply new_l0_tables_perm. now apply levels_nonempty. }
    rewrite map_app, concat_app. fold T. apply Permutation_app_tail.
    destruct (build_tables_gen cuts (next_tid st) out HSo HC) as (_ & _ & I3 & _).
    fold tables in I3. rewrite I3. apply Permutation_refl.
  - intros e He. pose proof (linv_content_seq _ _ _ Iw Hl He). lia.
  - intros e He Ke. apply NW; [now apply (li_log _ _ Hl)|exact Ke].
  - discriminate.
Qed.

(** ** 9.4 compaction *)
Lemma evict_ok_spec v ids merged out e r t :
  evict_ok v ids merged out = true ->
  In e merged -> (forall h, In h out -> ukey h <> ukey e) ->
  In t (kept ids (all_tables v)) -> In r (ents t) -> ukey r = ukey e -> seq e < seq r.
Proof.
  unfold evict_ok. intros H He Hno Ht Hr Ek. rewrite forallb_forall in H.
  specialize (H e He). apply orb_true_iff in H. destruct H as [H|H].
  - unfold key_in in H. apply existsb_exists in H. destruct H as (h & Hh & E).
    key_prop. exfalso. now apply (Hno h Hh).
  - rewrite forallb_forall in H. specialize (H t Ht). rewrite forallb_forall in H.
    specialize (H r Hr). apply orb_true_iff in H. destruct H as [H|H].
    + apply negb_true_iff in H. key_prop. contradiction.
    + now apply N.ltb_lt.
Qed.

Lemma tvinv_compact k st ids dest W cuts :
  minv st -> tvinv k st -> mop_ok st (MCompact ids dest W cuts) = true ->
  tvinv k (mstep st (MCompact ids dest W cuts)).
Proof.
  intros M [NW TV] OK. pose proof (minv_compact st ids dest W cuts M OK) as M'.
  pose proof M as [Ih Iw (l & L & Hl)]. specialize (TV l L).
  unfold mop_ok in OK. rewrite L in OK. rewrite !andb_true_iff in OK.
  destruct OK as [[[[[[[[SA _] _] EX] _] HD] HC] MC] EO].
  revert M'. unfold mstep. rewrite L, EX.
  destruct (sv_inv_elim l (li_inv _ _ Hl)) as (S1 & S2 & HV & R1 & R2).
  destruct (compact_facts (ver l) ids W dest HV) as (HSm & HSo & SUB & PM & Hin).
  set (out := compact_out W dest (ver l) ids) in *.
  set (new := build_tables (next_tid st) cuts out) in *.
  set (f := sv_merged ids new dest).
  intros M'. destruct (upgrade_maint_latest (hs st) f l W L) as [L' C'].
  split; [exact NW|]. intros l' Ll'. pose proof (minv_latest_uniq _ _ M' Ll') as U'.
  cbn [hs] in Ll'. rewrite L' in Ll'. inversion Ll'; subst l'. clear Ll'.
  intros S HS. cbn [hs wlog] in *. rewrite C' in HS.
  rewrite <- (TV S) by lia.
  set (Mm := mem_entries l).
  set (K := concat (map ents (kept ids (all_tables (ver l))))).
  set (merged := compact_merged (ver l) ids) in *.
  assert (Permutation (concat (map ents (all_tables (ver l)))) (merged ++ K)) as PT.
  { eapply perm_trans.
    - apply perm_concat_map_ents. apply Permutation_sym.
      apply (vs_perm_filter_split (id_in ids) (all_tables (ver l))).
    - rewrite map_app, concat_app. apply Permutation_app_tail. apply Permutation_sym. exact PM. }
  apply (replace_view W (is_last_level dest) (content l) _ merged (Mm ++ K) k S).
  - apply content_uniq. apply Hl.
  - exact U'.
  - exact HSm.
  - rewrite content_split. fold Mm.
    eapply perm_trans; [apply Permutation_app_head; exact PT|]. apply Permutation_app_swap_app.
  - rewrite content_with_seq, content_split. unfold f, sv_merged, mem_entries.
    cbn [active sealed ver]. fold (mem_entries l). fold Mm.
    change (fst (run_stream W (is_last_level dest) no_filter merged)) with out.
    eapply perm_trans; [|apply Permutation_app_swap_app]. apply Permutation_app_head.
    eapply perm_trans.
    { apply perm_concat_map_ents. apply merge_tables_perm. now apply ltb_7_lt. }
    rewrite map_app, concat_app. fold K. apply Permutation_app_tail.
    destruct (build_tables_gen cuts (next_tid st) out HSo HC) as (_ & _ & I3 & _).
    fold new in I3. rewrite I3. apply Permutation_refl.
  - intros e He. pose proof (linv_content_seq _ _ _ Iw Hl He). lia.
  - intros e He Ke. apply NW; [now apply (li_log _ _ Hl)|exact Ke].
  - intros EV e He Hno r Hr Ek.
    change (fst (run_stream W (is_last_level dest) no_filter merged)) with out in Hno.
    rewrite EV in EO. cbn [negb orb] in EO.
    apply in_app_or in Hr. destruct Hr as [Hr|Hr].
    + apply mem_entries_In in Hr. destruct Hr as (c & Hc & Hr).
      apply (Permutation_in _ PM) in He. apply in_concat_map_ents in He.
      destruct He as (t0 & Ht0 & He0). apply compact_in_In in Ht0.
      apply (R2 c t0 Hc Ht0 r e Hr He0 Ek).
    + apply in_concat_map_ents in Hr. destruct Hr as (t0 & Ht0 & Hr).
      eapply evict_ok_spec; eauto.
Qed.

(** ** 9.5 every step, every run *)
Definition no_weak_write (k : key) (o : mop) : Prop :=
  forall k' t v, o = MWrite k' t v -> k' = k -> t <> WeakTomb.

Lemma tvinv_step k0 st o :
  minv st -> tvinv k0 st -> mop_ok st o = true -> no_weak_write k0 o -> tvinv k0 (mstep st o).
Proof.
  intros M T OK NWW. destruct o as [k t v| |W cuts|ids dest W cuts|ids dest|W].
  - apply tvinv_write; auto. now apply (NWW k t v).
  - now apply tvinv_rotate.
  - now apply tvinv_flush.
  - now apply tvinv_compact.
  - now apply tvinv_move.
  - now apply tvinv_maint.
Qed.

Lemma tvinv_run k : forall ops st,
  minv st -> tvinv k st -> mops_ok st ops = true -> (forall o, In o ops -> no_weak_write k o) ->
  tvinv k (mrun st ops).
Proof.
  induction ops as [|o ops IH]; intros st M T OK NWW; [exact T|].
  cbn [mops_ok] in OK. apply andb_true_iff in OK. destruct OK as [O1 O2].
  cbn [mrun fold_left]. apply IH; auto.
  - now apply minv_step.
  - apply tvinv_step; auto. apply NWW. now left.
  - intros o' Ho'. apply NWW. now right.
Qed.

Lemma tvinv_init k : tvinv k minit.
Proof.
  split; [intros e []|]. intros l L. cbn in L. inversion L; subst l.
  intros S _. reflexivity.
Qed.

(** * 10. Main theorems *)

(** Result 2.  Every state reachable from the fresh tree by legal operations satisfies the
    history invariant; its latest superversion exists and satisfies the structural
    invariant [check_inv_sv]; the id counters are above every id in use; everything stored
    was written (is in [wlog]) with a seqno the counter has handed out; seqnos of writes
    are pairwise distinct. *)
Theorem machine_inv : forall ops, mops_ok minit ops = true ->
  let st := mrun minit ops in
  hinv (hs st) /\
  (exists sv, latest (hist (hs st)) = Some sv) /\
  (forall sv, latest (hist (hs st)) = Some sv ->
     check_inv_sv sv = true /\
     uniq (content sv) /\
     (forall t, In t (all_tables (ver sv)) -> tid t < next_tid st) /\
     (forall m, In m (all_mts sv) -> mid m < next_mid st) /\
     (forall m, In m (sealed sv) -> mid m <> mid (active sv)) /\
     (forall e, In e (content sv) -> In e (wlog st) /\ seq e < ctr (hs st))) /\
  (forall e, In e (wlog st) -> seq e < ctr (hs st)) /\
  NoDup (map seq (wlog st)) /\ uniq (wlog st) /\
  ctr (hs st) <= SEQ_LIMIT.
Proof.
  intros ops OK st. pose proof (machine_minv ops OK) as M. fold st in M.
  pose proof M as [Ih Iw (l & L & Hl)].
  split; [exact Ih|]. split; [eauto|]. split.
  - intros sv Lsv. rewrite L in Lsv. inversion Lsv; subst sv.
    split; [apply Hl|]. split; [apply content_uniq; apply Hl|].
    split; [apply Hl|]. split; [apply Hl|]. split; [apply Hl|].
    intros e He. split; [now apply (li_log _ _ Hl)|eapply linv_content_seq; eauto].
  - split; [apply Iw|]. split; [apply Iw|]. split; [apply NoDup_seq_uniq; apply Iw|apply Iw].
Qed.

Lemma mops_ok_app : forall ops1 ops2 st,
  mops_ok st (ops1 ++ ops2) = true ->
  mops_ok st ops1 = true /\ mops_ok (mrun st ops1) ops2 = true.
Proof.
  induction ops1 as [|o ops1 IH]; intros ops2 st H; [auto|].
  cbn [app mops_ok mrun fold_left] in *. apply andb_true_iff in H. destruct H as [H1 H2].
  destruct (IH _ _ H2) as [A B]. now rewrite H1, A.
Qed.

Lemma SEQ_LIMIT_le_MAX : SEQ_LIMIT <= SEQ_MAX.
Proof. unfold SEQ_LIMIT, SEQ_MAX. lia. Qed.

(** Result 3, per key and general snapshot.  A key [k] that is never written with a weak
    tombstone (other keys may be) reads, at every snapshot [S] at or above the seqno
    counter, in the logical content of the latest superversion exactly as in the log of
    all writes. *)
Theorem machine_top_view_key : forall ops k,
  mops_ok minit ops = true ->
  (forall t v, In (MWrite k t v) ops -> t <> WeakTomb) ->
  let st := mrun minit ops in
  forall sv, latest (hist (hs st)) = Some sv ->
  forall S, ctr (hs st) <= S ->
  spec_get (content sv) k S = spec_get (wlog st) k S.
Proof.
  intros ops k OK NWW st sv L S HS.
  assert (tvinv k st) as [_ TV].
  { apply tvinv_run; auto using minv_init, tvinv_init.
    intros o Ho k0 t v E Ek. subst o k0. eauto. }
  unfold spec_get. now apply (TV sv L).
Qed.

(** Result 3, general snapshot.  Without weak-tombstone writes: at every snapshot [S] at or
    above the seqno counter, the logical content of the latest superversion reads, for
    EVERY key, exactly like the log of all writes. *)
Theorem machine_top_view_gen : forall ops,
  mops_ok minit ops = true ->
  (forall k t v, In (MWrite k t v) ops -> t <> WeakTomb) ->
  let st := mrun minit ops in
  forall sv, latest (hist (hs st)) = Some sv ->
  forall k S, ctr (hs st) <= S ->
  spec_get (content sv) k S = spec_get (wlog st) k S.
Proof.
  intros ops OK NWW st sv L k S HS. apply machine_top_view_key; eauto.
Qed.

(** Result 3 (property C01 for the model, unbounded), as stated: the newest snapshot *)
Theorem machine_top_view : forall ops,
  mops_ok minit ops = true ->
  (forall k t v, In (MWrite k t v) ops -> t <> WeakTomb) ->
  let st := mrun minit ops in
  forall sv, latest (hist (hs st)) = Some sv ->
  forall k, spec_get (content sv) k SEQ_MAX = spec_get (wlog st) k SEQ_MAX.
Proof.
  intros ops OK NWW st sv L k. apply machine_top_view_gen; auto.
  destruct (machine_inv ops OK) as (_ & _ & _ & _ & _ & _ & Hlim). fold st in Hlim.
  pose proof SEQ_LIMIT_le_MAX. fold st. lia.
Qed.

(** the same in every state passed on the way *)
Corollary machine_top_view_prefix : forall ops1 ops2,
  mops_ok minit (ops1 ++ ops2) = true ->
  (forall k t v, In (MWrite k t v) ops1 -> t <> WeakTomb) ->
  let st := mrun minit ops1 in
  forall sv, latest (hist (hs st)) = Some sv ->
  forall k, spec_get (content sv) k SEQ_MAX = spec_get (wlog st) k SEQ_MAX.
Proof.
  intros ops1 ops2 OK NWW. destruct (mops_ok_app _ _ _ OK) as [OK1 _].
  now apply machine_top_view.
Qed.

(** the real read path (memtable, sealed memtables newest first, runs in level order,
    first hit wins, tombstones read as absent) with any sound filter returns what the
    ordered-map Spec returns on the write log *)
Corollary machine_point_reads : forall ops,
  mops_ok minit ops = true ->
  (forall k t v, In (MWrite k t v) ops -> t <> WeakTomb) ->
  let st := mrun minit ops in
  forall sv, latest (hist (hs st)) = Some sv ->
  forall flt, filter_sound flt sv ->
  forall k, sv_get flt sv k SEQ_MAX = spec_get (wlog st) k SEQ_MAX.
Proof.
  intros ops OK NWW st sv L flt Hf k.
  destruct (machine_inv ops OK) as (_ & _ & Hsv & _). fold st in Hsv.
  destruct (Hsv sv L) as (CI & _).
  rewrite (sv_get_sound flt sv CI Hf). now apply machine_top_view.
Qed.

Corollary machine_mget : forall ops,
  mops_ok minit ops = true ->
  (forall k t v, In (MWrite k t v) ops -> t <> WeakTomb) ->
  forall k, mget (fun _ _ => true) (mrun minit ops) k = spec_get (wlog (mrun minit ops)) k SEQ_MAX.
Proof.
  intros ops OK NWW k. unfold mget, mlatest.
  destruct (machine_inv ops OK) as (_ & (sv & L) & _). rewrite L.
  apply machine_point_reads; auto. apply filter_sound_true.
Qed.


(** * 11. Examples *)

Module MachineExample.
  Definition ka : key := [97].  Definition kb : key := [98].  Definition kc : key := [99].

  (** writes, deletes, rotations, two flushes (the first one cut into two tables), a
      compaction of everything into the last level (tombstone of [ka] evicted together
      with the value beneath it), another delete + flush, a move, history GC *)
  Definition ops : list mop :=
    [ MWrite ka Value [1]; MWrite kb Value [2]; MWrite kc Value [3]; MRotate;
      MFlush 0 [2%nat];
      MWrite ka Tomb []; MWrite kb Value [4]; MRotate;
      MFlush 0 [];
      MCompact [0;1;2] 6 100 [1%nat];
      MWrite kc Tomb [];
      MRotate; MFlush 0 []; MMove [5] 3; MMaint 100 ].

  Example ops_ok : mops_ok minit ops = true.
  Proof. vm_compute; reflexivity. Qed.

  Example ops_noweak : forall k t v, In (MWrite k t v) ops -> t <> WeakTomb.
  Proof.
    intros k t v H. unfold ops in H. cbn [In] in H.
    repeat (destruct H as [H|H]; [try discriminate; inversion H; subst; discriminate|]).
    contradiction.
  Qed.

  (** the final tree: [kc]'s tombstone in level 3 shadows its value in level 6 *)
  Example final_levels :
    match mlatest (mrun minit ops) with
    | Some sv => map (map (map tid)) (levels (ver sv))
    | None => []
    end = [[]; []; []; [[5]]; []; []; [[3; 4]]].
  Proof. vm_compute; reflexivity. Qed.

  Example final_counters :
    let st := mrun minit ops in
    (ctr (hs st), next_tid st, next_mid st, length (hist (hs st))) = (11, 6, 4, 1%nat).
  Proof. vm_compute; reflexivity. Qed.

  (** the resulting reads through the real read path *)
  Example reads :
    map (mget (fun _ _ => true) (mrun minit ops)) [ka; kb; kc]
    = [None; Some (mkE kb 5 Value [4]); None].
  Proof. vm_compute; reflexivity. Qed.

  (** ... are the Spec's reads of the write log, by the theorem (no computation) *)
  Example reads_by_theorem : forall k,
    mget (fun _ _ => true) (mrun minit ops) k = spec_get (wlog (mrun minit ops)) k SEQ_MAX.
  Proof. apply machine_mget; [exact ops_ok|exact ops_noweak]. Qed.

  (** [build_tables_ok]: a sorted stream output, cut after the two versions of [ka] *)
  Definition out1 : list entry :=
    [mkE ka 7 Tomb []; mkE ka 2 Value [1]; mkE kb 5 Value [2]; mkE kc 9 Value [3]].
  Example build_tables_hyps :
    sorted_b out1 = true /\ out1 <> [] /\ cuts_ok [2%nat] out1 = true.
  Proof. repeat split; try (vm_compute; reflexivity). discriminate. Qed.
  Example build_tables_result :
    map (fun t => (tid t, kmin t, kmax t, slo t, shi t, n_items t, n_tomb t))
        (build_tables 7 [2%nat] out1)
    = [(7, ka, ka, 2, 7, 2, 1); (8, kb, kc, 5, 9, 2, 0)].
  Proof. vm_compute; reflexivity. Qed.
  (** a cut between two versions of the same user key is rejected (the MultiWriter never
      rotates there) *)
  Example cut_inside_key_rejected : cuts_ok [1%nat] out1 = false.
  Proof. vm_compute; reflexivity. Qed.
End MachineExample.

(** ** Why [evict_ok] looks at every level: checking only the tables kept in the
    destination level is not enough.  [ka]'s value is moved to level 3, its tombstone is
    flushed to level 0 and then compacted ALONE into the last level, where it is evicted:
    [merge_choice_ok], [contig_ok] and the destination-level-only check all pass, but the
    value in level 3 becomes visible again.  [mop_ok] (with [evict_ok]) rejects the op. *)
Module EvictExample.
  Definition ka : key := [97].
  Definition evict_ok_dest (v : version) (ids : list N) (dest : nat)
             (merged out : list entry) : bool :=
    forallb (fun e =>
      key_in (ukey e) out
      || forallb (fun t => negb (key_in (ukey e) (ents t)))
                 (kept ids (concat (nth dest (levels v) []))))
      merged.
  Definition ops : list mop :=
    [ MWrite ka Value [1]; MRotate; MFlush 0 []; MMove [0] 3;
      MWrite ka Tomb []; MRotate; MFlush 0 [] ].
  Definition bad : mop := MCompact [1] 6 100 [].

  Theorem evict_ok_dest_level_only_refuted :
    mops_ok minit ops = true /\
    (exists l, mlatest (mrun minit ops) = Some l /\
       let v := ver l in
       let out := compact_out 100 6 v [1] in
       ids_exist v [1] = true /\ contig_ok v [1] = true /\
       merge_choice_ok v [1] (build_tables (next_tid (mrun minit ops)) [] out) 6 = true /\
       evict_ok_dest v [1] 6 (compact_merged v [1]) out = true /\
       evict_ok v [1] (compact_merged v [1]) out = false) /\
    mop_ok (mrun minit ops) bad = false /\
    mget (fun _ _ => true) (mrun minit ops) ka = None /\
    mget (fun _ _ => true) (mstep (mrun minit ops) bad) ka = Some (mkE ka 0 Value [1]) /\
    spec_get (wlog (mstep (mrun minit ops) bad)) ka SEQ_MAX = None.
  Proof.
    split; [vm_compute; reflexivity|]. split.
    - eexists. split; [vm_compute; reflexivity|]. vm_compute. auto.
    - vm_compute. auto.
  Qed.
End EvictExample.

(** * 12. Major compaction is always a legal choice *)

Lemma kept_all ids ts : (forall t, In t ts -> id_in ids t = true) -> kept ids ts = [].
Proof. intros H. unfold kept. apply filter_none. intros t Ht. now rewrite (H t Ht). Qed.

Lemma id_in_all v t : In t (all_tables v) -> id_in (map tid (all_tables v)) t = true.
Proof.
  intros H. unfold id_in. apply existsb_exists. exists (tid t).
  split; [now apply in_map|apply N.eqb_refl].
Qed.

Lemma all_newer_nil_r xs : all_newer xs [] = true.
Proof. unfold all_newer. apply forallb_forall. intros x _. reflexivity. Qed.

Lemma drop_unchosen_In ids r t : In t (drop_unchosen ids r) -> In t r.
Proof.
  induction r as [|x r IH]; cbn [drop_unchosen]; [auto|].
  destruct (id_in ids x); [auto|]. intros H. right. auto.
Qed.

Lemma run_span_In ids r t : In t (run_span ids r) -> In t r.
Proof.
  unfold run_span. intros H. apply in_rev in H. apply drop_unchosen_In in H.
  apply in_rev in H. now apply drop_unchosen_In in H.
Qed.

Lemma tables_of_firstn_In d (ls : list level) t : In t (tables_of (firstn d ls)) -> In t (tables_of ls).
Proof.
  intros H. rewrite <- (firstn_skipn d ls), vs_tables_of_app. apply in_or_app. now left.
Qed.

Lemma tables_of_skipn_In d (ls : list level) t : In t (tables_of (skipn d ls)) -> In t (tables_of ls).
Proof.
  intros H. rewrite <- (firstn_skipn d ls), vs_tables_of_app. apply in_or_app. now right.
Qed.

(** (stretch) Compacting ALL tables of the latest version into the last level (a major
    compaction) satisfies every compaction condition of [mop_ok], whatever the watermark:
    only the cuts have to respect key boundaries and a seqno has to be available. *)
Theorem major_choice_ok : forall st l W cuts,
  minv st -> latest (hist (hs st)) = Some l ->
  all_tables (ver l) <> [] -> seq_avail st = true ->
  let ids := map tid (all_tables (ver l)) in
  cuts_ok cuts (compact_out W last_level (ver l) ids) = true ->
  mop_ok st (MCompact ids last_level W cuts) = true.
Proof.
  intros st l W cuts M L NE SA ids HC. pose proof M as [Ih Iw (l0 & L0 & Hl)].
  rewrite L in L0. inversion L0; subst l0. clear L0.
  destruct (sv_inv_elim l (li_inv _ _ Hl)) as (_ & _ & HV & _ & _).
  destruct (compact_facts (ver l) ids W last_level HV) as (HSm & HSo & _).
  assert (forall ts, (forall t, In t ts -> In t (all_tables (ver l))) -> kept ids ts = []) as HK.
  { intros ts Hts. apply kept_all. intros t Ht. apply id_in_all. auto. }
  unfold mop_ok. rewrite L. rewrite !andb_true_iff. repeat split.
  - exact SA.
  - unfold ids. destruct (all_tables (ver l)); [congruence|reflexivity].
  - apply vs_nodup_N_b. now apply version_inv_nodup.
  - unfold ids_exist. apply forallb_forall. intros id Hid. apply in_map_iff in Hid.
    destruct Hid as (t & <- & Ht). apply existsb_exists. exists t. split; [exact Ht|apply N.eqb_refl].
  - unfold contig_ok. apply forallb_forall. intros r Hr. apply forallb_forall. intros t Ht.
    apply id_in_all. unfold all_tables. apply in_concat. exists r. split; [exact Hr|].
    eapply run_span_In; eauto.
  - exact HC.
  - unfold merge_choice_ok. rewrite !andb_true_iff. repeat split.
    + now apply build_tables_opt_run_ok.
    + rewrite (HK (all_tables (ver l))) by auto. rewrite app_nil_r. apply vs_nodup_N_b.
      destruct (build_tables_gen cuts (next_tid st) _ HSo HC) as (_ & _ & _ & I4 & _).
      rewrite I4. apply ids_from_NoDup.
    + unfold place_ok. rewrite !HK.
      * now rewrite all_newer_nil_r.
      * intros t Ht. eapply tables_of_skipn_In; eauto.
      * intros t Ht. eapply tables_of_firstn_In; eauto.
  - cbn [is_last_level negb orb]. unfold evict_ok. rewrite (HK (all_tables (ver l))) by auto.
    apply forallb_forall. intros e _. cbn [forallb]. apply orb_true_r.
Qed.

Example major_choice_ex :
  let st := mrun minit (firstn 9 MachineExample.ops) in
  mlatest st <> None /\
  forall l, mlatest st = Some l ->
    map tid (all_tables (ver l)) = [2; 1; 0] /\
    mop_ok st (MCompact (map tid (all_tables (ver l))) last_level 100 []) = true.
Proof.
  split; [vm_compute; discriminate|]. intros l L. vm_compute in L. inversion L; subst l.
  vm_compute. auto.
Qed.


(** * 13. (stretch) Weak tombstones under the single-delete discipline *)

(** ** 13.1 the history of one key, newest first, independent of where the versions are *)

Definition ndik (l : list entry) : Prop := NoDup (map ik l).

Definition ksort (k : key) (l : list entry) : list entry :=
  fold_right ins_sorted [] (kents k l).

Lemma perm_filter {A} (p : A -> bool) l l' :
  Permutation l l' -> Permutation (filter p l) (filter p l').
Proof.
  induction 1 as [|x l l' P IH|x y l|l l' l'' P1 IH1 P2 IH2]; cbn [filter].
  - apply Permutation_refl.
  - destruct (p x); [now apply perm_skip|exact IH].
  - destruct (p x), (p y); try apply Permutation_refl. apply perm_swap.
  - eapply perm_trans; eauto.
Qed.

Lemma ndik_perm l l' : Permutation l l' -> ndik l -> ndik l'.
Proof. intros P. apply Permutation_NoDup. now apply Permutation_map. Qed.

Lemma ndik_filter p l : ndik l -> ndik (filter p l).
Proof.
  unfold ndik. induction l as [|x l IH]; intros ND; [constructor|].
  cbn [map] in ND. inversion ND as [|? ? NI ND']; subst. cbn [filter].
  destruct (p x); [|auto]. cbn [map]. constructor; [|auto].
  intros HI. apply NI. apply in_map_iff in HI. destruct HI as (y & E & Hy).
  apply filter_In in Hy. rewrite <- E. apply in_map. tauto.
Qed.

Lemma ndik_app_l a b : ndik (a ++ b) -> ndik a.
Proof. unfold ndik. rewrite map_app. apply NoDup_app_l'. Qed.

Lemma ndik_uniq l : ndik l -> uniq l.
Proof.
  unfold ndik. induction l as [|x l IH]; intros ND e1 e2 H1 H2 Ek Es; [contradiction|].
  cbn [map] in ND. inversion ND as [|? ? NI ND']; subst.
  destruct H1 as [->|H1], H2 as [->|H2]; auto.
  - exfalso. apply NI. replace (ik e1) with (ik e2) by (unfold ik; congruence). now apply in_map.
  - exfalso. apply NI. replace (ik e2) with (ik e1) by (unfold ik; congruence). now apply in_map.
  - apply IH; auto.
Qed.

Lemma ksort_perm k l : Permutation (ksort k l) (kents k l).
Proof.
  unfold ksort. eapply perm_trans; [apply fold_ins_perm|]. rewrite app_nil_r. apply Permutation_refl.
Qed.

Lemma ksort_sorted k l : ndik l -> ssorted (ksort k l) = true.
Proof.
  intros ND. unfold ksort. apply fold_ins_ssorted; [reflexivity|]. rewrite app_nil_r.
  now apply ndik_filter.
Qed.

Lemma ksort_In k l x : In x (ksort k l) <-> In x l /\ ukey x = k.
Proof.
  rewrite <- kents_in. split; apply Permutation_in; [|apply Permutation_sym]; apply ksort_perm.
Qed.

(** a strictly sorted list is determined by its elements *)
Lemma sorted_perm_eq : forall a b,
  ssorted a = true -> ssorted b = true -> Permutation a b -> a = b.
Proof.
  induction a as [|x a IH]; intros b HA HB P.
  - apply Permutation_nil in P. now subst.
  - destruct b as [|y b]; [apply Permutation_sym, Permutation_nil in P; discriminate|].
    assert (x = y) as ->.
    { assert (In x (y :: b)) as Hx by (eapply Permutation_in; [exact P|now left]).
      assert (In y (x :: a)) as Hy
          by (eapply Permutation_in; [apply Permutation_sym; exact P|now left]).
      destruct Hx as [->|Hx]; [reflexivity|]. destruct Hy as [->|Hy]; [reflexivity|].
      pose proof (ssorted_head_lt _ _ _ HB Hx) as L1.
      pose proof (ssorted_head_lt _ _ _ HA Hy) as L2.
      pose proof (ikey_ltb_trans _ _ _ L1 L2) as L3.
      rewrite ikey_ltb_irrefl' in L3; [discriminate|reflexivity|reflexivity]. }
    f_equal. apply IH; [eapply ssorted_tail; eauto|eapply ssorted_tail; eauto|].
    eapply Permutation_cons_inv; eauto.
Qed.

Lemma ksort_unique k l s :
  ndik l -> ssorted s = true -> Permutation s (kents k l) -> ksort k l = s.
Proof.
  intros ND HS P. apply sorted_perm_eq; [now apply ksort_sorted|exact HS|].
  eapply perm_trans; [apply ksort_perm|now apply Permutation_sym].
Qed.

Lemma ksort_of_sorted k l : ssorted l = true -> ksort k l = kents k l.
Proof.
  intros HS. apply ksort_unique; [now apply ssorted_NoDup_ik|now apply kents_ssorted|].
  apply Permutation_refl.
Qed.

Lemma ksort_perm_inv k l l' : ndik l -> Permutation l l' -> ksort k l = ksort k l'.
Proof.
  intros ND P. apply ksort_unique; [exact ND|apply ksort_sorted; eapply ndik_perm; eauto|].
  eapply perm_trans; [apply ksort_perm|]. apply Permutation_sym. now apply perm_filter.
Qed.

Lemma kents_idem k l : kents k (kents k l) = kents k l.
Proof.
  unfold kents. induction l as [|x l IH]; [reflexivity|]. cbn [filter].
  destruct (key_eqb (ukey x) k) eqn:E; [|exact IH]. cbn [filter]. now rewrite E, IH.
Qed.

Lemma kents_ksort k l : kents k (ksort k l) = ksort k l.
Proof.
  unfold kents. induction (ksort k l) as [|x s IH] eqn:E; [reflexivity|].
  assert (forall y, In y (x :: s) -> ukey y = k) as H.
  { intros y Hy. rewrite <- E in Hy. apply ksort_In in Hy. tauto. }
  clear E IH. induction (x :: s) as [|y t IH]; [reflexivity|]. cbn [filter].
  assert (key_eqb (ukey y) k = true) as -> by (apply key_eqb_eq; apply H; now left).
  f_equal. apply IH. intros z Hz. apply H. now right.
Qed.

(** the Spec's [newest], at a snapshot above every version of [k], is the head of the
    key's history *)
Lemma newest_ksort k S l :
  ndik l -> (forall e, In e l -> ukey e = k -> seq e < S) ->
  newest k S l = hd_error (ksort k l).
Proof.
  intros ND HSn. rewrite newest_filter_key. fold (kents k l).
  rewrite (newest_perm k S (kents k l) (ksort k l)).
  - rewrite newest_hd.
    + now rewrite kents_ksort.
    + now apply ksort_sorted.
    + intros e He Ek. apply ksort_In in He. apply HSn; tauto.
  - apply ndik_uniq. now apply ndik_filter.
  - apply Permutation_sym, ksort_perm.
Qed.

(** ** 13.2 the discipline survives when a contiguous part of a key's history goes through
    the stream *)

Lemma ssorted_app_intro a b :
  ssorted a = true -> ssorted b = true ->
  (forall x y, In x a -> In y b -> ikey_ltb x y = true) -> ssorted (a ++ b) = true.
Proof.
  induction a as [|x a IH]; intros HA HB HX; [exact HB|].
  cbn [app]. apply ssorted_cons. split.
  - apply Forall_forall. intros y Hy. apply in_app_or in Hy. destruct Hy as [Hy|Hy].
    + eapply ssorted_head_lt; eauto.
    + apply HX; [now left|exact Hy].
  - apply IH; [eapply ssorted_tail; eauto|exact HB|]. intros u w Hu Hw. apply HX; [now right|exact Hw].
Qed.

Lemma alt_app_r a b : alternating (a ++ b) = true -> alternating b = true.
Proof.
  induction a as [|x a IH]; [auto|]. cbn [app]. intros H.
  destruct (alt_cons_inv1 _ _ H) as [_ HA]. auto.
Qed.

Lemma hk_nil_r o : hk o [] -> o = [].
Proof. auto. Qed.

Lemma hk_trans X Y Z : hk X Y -> hk Y Z -> hk X Z.
Proof.
  destruct Z as [|z Z']; cbn [hk].
  - intros H ->. exact H.
  - destruct (is_val z) eqn:Vz.
    + intros H (t & ->). cbn [hk] in H. now rewrite Vz in H.
    + intros H [->|(w & t & -> & Hw)]; [left; exact H|]. cbn [hk] in H.
      destruct (weak_facts _ Hw) as (Vw & _). rewrite Vw in H. exact H.
Qed.

Lemma hk_prefix n N X Y Z : hk ((n :: N) ++ Y) Z -> hk ((n :: N) ++ X) Z.
Proof.
  destruct Z as [|z Z']; cbn [hk app]; [discriminate|].
  destruct (is_val z).
  - intros (t & E). inversion E; subst. eauto.
  - intros [E|(w & t & E & Hw)]; [discriminate|]. inversion E; subst. right. eauto.
Qed.

Lemma kinds_neq x y :
  (is_val x = true /\ is_weak_tomb y = true) \/ (is_weak_tomb x = true /\ is_val y = true) ->
  is_weak_tomb x <> is_weak_tomb y.
Proof.
  intros [[Ex Ey]|[Ex Ey]].
  - destruct (val_facts _ Ex) as (-> & _). rewrite Ey. discriminate.
  - destruct (val_facts _ Ey) as (-> & _). rewrite Ex. discriminate.
Qed.

Lemma alt_prefix_hk N X Y :
  alternating (N ++ Y) = true -> alternating X = true -> hk X Y -> alternating (N ++ X) = true.
Proof.
  induction N as [|n N IH]; intros HA HX HK; [exact HX|].
  cbn [app] in *. destruct (alt_cons_inv1 _ _ HA) as [Wn HA'].
  apply alt_cons_intro; [exact Wn|now apply IH|].
  intros y t E. destruct N as [|n' N'].
  - cbn [app] in *. subst X. destruct Y as [|y0 Y']; [cbn [hk] in HK; discriminate|].
    cbn [hk] in HK. destruct (is_val y0) eqn:V0.
    + destruct HK as (t' & E). inversion E; subst.
      destruct (alt_cons_inv _ _ _ HA) as [_ T]. now apply kinds_neq.
    + destruct HK as [E|(w & t' & E & Hw)]; [discriminate|]. inversion E; subst.
      destruct (alt_cons_inv _ _ _ HA) as [_ T].
      destruct T as [[Ex Ey]|[_ Ey]]; [|congruence].
      destruct (val_facts _ Ex) as (-> & _). rewrite Hw. discriminate.
  - cbn [app] in E. inversion E; subst. cbn [app] in HA.
    destruct (alt_cons_inv _ _ _ HA) as [_ T]. now apply kinds_neq.
Qed.

Lemma kents_all k l : (forall x, In x l -> ukey x = k) -> kents k l = l.
Proof.
  induction l as [|x l IH]; intros H; [reflexivity|]. rewrite kents_cons.
  assert (key_eqb (ukey x) k = true) as -> by (apply key_eqb_eq; apply H; now left).
  f_equal. apply IH. intros y Hy. apply H. now right.
Qed.

Lemma ndik_app_r a b : ndik (a ++ b) -> ndik b.
Proof. unfold ndik. rewrite map_app. apply NoDup_app_r'. Qed.

Lemma ikey_ltb_same_key x y : ukey x = ukey y -> seq y < seq x -> ikey_ltb x y = true.
Proof. intros Ek Es. apply ikey_ltb_spec. right. auto. Qed.

(** the shape of a key's history when part [I] of the bag is sorted and the rest of the
    key's versions are split by [i0] into newer ([Rn]) and older ([Ro]) ones *)
Lemma ksort_three k C I R Rn Ro :
  ndik C -> ssorted I = true -> Permutation C (I ++ R) ->
  Permutation (kents k R) (Rn ++ Ro) ->
  (forall r i, In r Rn -> In i I -> ukey i = k -> seq i < seq r) ->
  (forall r i, In r Ro -> In i I -> ukey i = k -> seq r < seq i) ->
  (forall r r', In r Rn -> In r' Ro -> seq r' < seq r) ->
  ksort k C = ksort k Rn ++ kents k I ++ ksort k Ro.
Proof.
  intros ND HS P PR Hn Ho Hno.
  assert (ndik (kents k R)) as NDR.
  { apply ndik_filter. eapply ndik_app_r. eapply ndik_perm; eauto. }
  assert (ndik Rn /\ ndik Ro) as [NDn NDo].
  { pose proof (ndik_perm _ _ PR NDR) as H. split; [eapply ndik_app_l|eapply ndik_app_r]; eauto. }
  assert (forall r, In r (Rn ++ Ro) -> ukey r = k) as Hk.
  { intros r Hr. apply (Permutation_in _ (Permutation_sym PR)) in Hr. apply kents_in in Hr. tauto. }
  apply ksort_unique; [exact ND| |].
  - apply ssorted_app_intro; [now apply ksort_sorted| |].
    + apply ssorted_app_intro; [now apply kents_ssorted|now apply ksort_sorted|].
      intros x y Hx Hy. apply kents_in in Hx. apply ksort_In in Hy. destruct Hx as [Hx Kx], Hy as [Hy Ky].
      apply ikey_ltb_same_key; [congruence|]. now apply (Ho y x).
    + intros x y Hx Hy. apply ksort_In in Hx. destruct Hx as [Hx Kx].
      apply in_app_or in Hy. destruct Hy as [Hy|Hy].
      * apply kents_in in Hy. destruct Hy as [Hy Ky].
        apply ikey_ltb_same_key; [congruence|]. now apply (Hn x y).
      * apply ksort_In in Hy. destruct Hy as [Hy Ky].
        apply ikey_ltb_same_key; [congruence|]. now apply Hno.
  - eapply perm_trans; [|apply perm_filter; apply Permutation_sym; exact P].
    fold (kents k (I ++ R)). rewrite kents_app.
    eapply perm_trans; [apply Permutation_app_swap_app|]. apply Permutation_app_head.
    eapply perm_trans; [|apply Permutation_sym; exact PR].
    apply Permutation_app.
    + eapply perm_trans; [apply ksort_perm|]. rewrite kents_all; [apply Permutation_refl|].
      intros x Hx. apply Hk. apply in_or_app. now left.
    + eapply perm_trans; [apply ksort_perm|]. rewrite kents_all; [apply Permutation_refl|].
      intros x Hx. apply Hk. apply in_or_app. now right.
Qed.

Lemma nil_no_In {A} (l : list A) : (forall x, In x l -> False) -> l = [].
Proof. destruct l as [|x l]; [reflexivity|]. intros H. exfalso. apply (H x). now left. Qed.

(** [C] = [I] + [R] becomes [C'] = [O] + [R], [O] the stream output on the sorted input [I];
    the versions of [k] outside [I] are each newer than all of [I]'s or (not under
    eviction) older than all of [I]'s.  Then a disciplined history of [k] stays
    disciplined and keeps its head shape. *)
Lemma replace_weak W evict C C' I R k :
  ndik C -> ndik C' -> sorted_b I = true ->
  Permutation C (I ++ R) ->
  Permutation C' (fst (run_stream W evict no_filter I) ++ R) ->
  alternating (ksort k C) = true ->
  (forall r, In r R -> ukey r = k ->
     (forall i, In i I -> ukey i = k -> seq i < seq r) \/
     (evict = false /\ forall i, In i I -> ukey i = k -> seq r < seq i)) ->
  alternating (ksort k C') = true /\ (forall Z, hk (ksort k C) Z -> hk (ksort k C') Z).
Proof.
  intros ND ND' HS P P' HA HR. rewrite <- ssorted_eq in HS.
  destruct (run_stream W evict no_filter I) as [O log] eqn:ER. cbn [fst] in P'.
  pose proof (cstream_out_subseq _ _ _ _ _ ER) as SUB.
  pose proof (cstream_out_sorted _ _ _ _ _ _ HS ER) as HSO.
  destruct (kents k I) as [|i0 Ik] eqn:EI.
  - assert (kents k O = []) as EO.
    { apply kents_nil. intros x Hx Ek.
      assert (In x (kents k I)) as H
          by (apply kents_in; split; [apply (subseq_incl _ _ SUB); auto|auto]).
      rewrite EI in H. destruct H. }
    assert (ksort k C' = ksort k C) as ->; [|auto].
    apply ksort_unique; [exact ND'|now apply ksort_sorted|].
    eapply perm_trans; [apply ksort_perm|].
    eapply perm_trans; [apply perm_filter; exact P|]. fold (kents k (I ++ R)).
    eapply perm_trans; [|apply perm_filter; apply Permutation_sym; exact P'].
    fold (kents k (O ++ R)). rewrite !kents_app, EI, EO. apply Permutation_refl.
  - set (Rn := filter (fun r => seq i0 <? seq r) (kents k R)).
    set (Ro := filter (fun r => negb (seq i0 <? seq r)) (kents k R)).
    assert (In i0 I /\ ukey i0 = k) as [Hi0 Ki0] by (apply kents_in; rewrite EI; now left).
    assert (Permutation (kents k R) (Rn ++ Ro)) as PR
        by (apply Permutation_sym, vs_perm_filter_split).
    assert (forall r i, In r Rn -> In i I -> ukey i = k -> seq i < seq r) as Hn.
    { intros r i Hr Hi Ki. apply filter_In in Hr. destruct Hr as [Hr Lt].
      apply N.ltb_lt in Lt. apply kents_in in Hr. destruct Hr as [Hr Kr].
      destruct (HR r Hr Kr) as [A|[_ B]]; [auto|]. specialize (B i0 Hi0 Ki0). lia. }
    assert (forall r i, In r Ro -> In i I -> ukey i = k -> seq r < seq i /\ evict = false) as Ho.
    { intros r i Hr Hi Ki. apply filter_In in Hr. destruct Hr as [Hr Lt].
      apply negb_true_iff, N.ltb_ge in Lt. apply kents_in in Hr. destruct Hr as [Hr Kr].
      destruct (HR r Hr Kr) as [A|[E B]]; [specialize (A i0 Hi0 Ki0); lia|auto]. }
    assert (forall r r', In r Rn -> In r' Ro -> seq r' < seq r) as Hno.
    { intros r r' Hr Hr'. specialize (Hn r i0 Hr Hi0 Ki0).
      destruct (Ho r' i0 Hr' Hi0 Ki0). lia. }
    assert (evict = true -> Ro = []) as HD.
    { intros Ev. apply nil_no_In. intros r Hr. destruct (Ho r i0 Hr Hi0 Ki0). congruence. }
    assert (ksort k C = ksort k Rn ++ kents k I ++ ksort k Ro) as EC.
    { apply (ksort_three k C I R Rn Ro ND HS P PR Hn); [|exact Hno].
      intros r i Hr Hi Ki. now apply (Ho r i). }
    assert (ksort k C' = ksort k Rn ++ kents k O ++ ksort k Ro) as EC'.
    { apply (ksort_three k C' O R Rn Ro ND' HSO P' PR); [| |exact Hno].
      - intros r i Hr Hi Ki. apply (Hn r i); auto. now apply (subseq_incl _ _ SUB).
      - intros r i Hr Hi Ki. apply (Ho r i); auto. now apply (subseq_incl _ _ SUB). }
    rewrite EC in HA. rewrite EC, EC'.
    set (N := ksort k Rn) in *. set (D := ksort k Ro) in *.
    pose proof (alt_app_r _ _ HA) as HA2.
    pose proof (cstream_weak_red W evict I O log k HS ER (alt_app_l _ _ HA2)) as RED.
    assert (evict = true -> D = []) as HD' by (intros Ev; unfold D; now rewrite (HD Ev)).
    destruct (wred_alt _ _ _ RED D HA2 HD') as [A1 A2].
    split.
    + apply (alt_prefix_hk N _ (kents k I ++ D)); auto.
    + intros Z HZ. destruct N as [|n N'].
      * cbn [app] in *. eapply hk_trans; eauto.
      * eapply hk_prefix; eauto.
Qed.

(** ** 13.3 the weak-delete invariant along the machine, for one key [k] *)

(** newest first *)
Fixpoint desc (l : list entry) : Prop :=
  match l with
  | [] => True
  | x :: r => (forall y, In y r -> seq y < seq x) /\ desc r
  end.

Lemma desc_ssorted_kents k l : desc l -> ssorted (kents k l) = true.
Proof.
  induction l as [|x l IH]; intros D; [reflexivity|]. destruct D as [D1 D2].
  rewrite kents_cons. destruct (key_eqb (ukey x) k) eqn:E; [|auto].
  apply ssorted_cons. split; [|auto]. apply Forall_forall. intros y Hy.
  apply kents_in in Hy. destruct Hy as [Hy Ky]. key_prop.
  apply ikey_ltb_same_key; [congruence|auto].
Qed.

Lemma NoDup_seq_ndik l : NoDup (map seq l) -> ndik l.
Proof.
  unfold ndik. induction l as [|x l IH]; intros ND; [constructor|].
  cbn [map] in *. inversion ND as [|? ? NI ND']; subst. constructor; [|auto].
  intros HI. apply NI. apply in_map_iff in HI. destruct HI as (y & E & Hy).
  unfold ik in E. inversion E as [[Ek Es]]. apply in_map_iff. exists y. auto.
Qed.

Lemma ksort_desc k l : NoDup (map seq l) -> desc l -> ksort k l = kents k l.
Proof.
  intros ND D. apply ksort_unique; [now apply NoDup_seq_ndik|now apply desc_ssorted_kents|].
  apply Permutation_refl.
Qed.

Lemma content_ndik sv : check_inv_sv sv = true -> ndik (content sv).
Proof.
  intros H. unfold content. apply recency_NoDup_ik; [now apply inv_all_sorted|].
  apply (check_inv_sv_inv _ H).
Qed.

Lemma minv_latest_ndik st l : minv st -> latest (hist (hs st)) = Some l -> ndik (content l).
Proof.
  intros [_ _ (l0 & L0 & Hl)] L. rewrite L in L0. inversion L0; subst l0.
  apply content_ndik. apply Hl.
Qed.

(** the extra obligation on a compaction, for a key [k] under the single-delete
    discipline: each version of [k] in a table that is NOT compacted is newer than all
    compacted versions of [k], or (not at the last level) older than all of them; i.e. the
    compacted versions of [k] are a contiguous part of its history and, at the last
    level, its oldest part *)
Definition wcontig (k : key) (v : version) (ids : list N) (dest : nat) : Prop :=
  forall t r, In t (kept ids (all_tables v)) -> In r (ents t) -> ukey r = k ->
    (forall i, In i (compact_merged v ids) -> ukey i = k -> seq i < seq r) \/
    (is_last_level dest = false /\
     forall i, In i (compact_merged v ids) -> ukey i = k -> seq r < seq i).

Definition wop_ok (k : key) (st : mstate) (o : mop) : Prop :=
  match o with
  | MCompact ids dest W cuts =>
      forall l, latest (hist (hs st)) = Some l -> wcontig k (ver l) ids dest
  | _ => True
  end.

Fixpoint wops_ok (k : key) (st : mstate) (ops : list mop) : Prop :=
  match ops with
  | [] => True
  | o :: ops' => wop_ok k st o /\ wops_ok k (mstep st o) ops'
  end.

(** the history of [k] in the latest superversion is disciplined and has the head shape
    of the logged history of [k] *)
Definition wkinv (k : key) (st : mstate) : Prop :=
  desc (wlog st) /\
  forall l, latest (hist (hs st)) = Some l ->
    alternating (ksort k (content l)) = true /\
    hk (ksort k (content l)) (kents k (wlog st)).

Lemma wkinv_same_bag k st st' l l' :
  ndik (content l') -> Permutation (content l') (content l) -> wlog st' = wlog st ->
  alternating (ksort k (content l)) = true /\ hk (ksort k (content l)) (kents k (wlog st)) ->
  alternating (ksort k (content l')) = true /\ hk (ksort k (content l')) (kents k (wlog st')).
Proof. intros ND P EW H. rewrite (ksort_perm_inv k _ _ ND P), EW. exact H. Qed.

(** ** 13.4 what a write / flush / compaction does to the content, as bags *)

Lemma write_step_facts st k' t v l :
  minv st -> latest (hist (hs st)) = Some l -> mop_ok st (MWrite k' t v) = true ->
  let e := mkE k' (ctr (hs st)) t v in
  let st' := mstep st (MWrite k' t v) in
  exists l', latest (hist (hs st')) = Some l' /\
             Permutation (content l') (e :: content l) /\
             wlog st' = e :: wlog st /\ ctr (hs st') = ctr (hs st) + 1.
Proof.
  intros M L OK e st'. pose proof M as [Ih Iw (l0 & L0 & Hl)].
  rewrite L in L0. inversion L0; subst l0. clear L0.
  unfold st', mstep. rewrite L. fold e.
  destruct (hstep_write_latest (hs st) e l L) as [L' C'].
  rewrite (sv_write_latest l e (li_act _ _ Hl)) in L'.
  eexists. split; [exact L'|]. split; [|split; [reflexivity|exact C']].
  rewrite !content_split. unfold mem_entries. cbn [active sealed ver ments].
  change (e :: (ments (active l) ++ concat (map ments (rev (sealed l)))) ++
               concat (map ents (all_tables (ver l))))
    with (((e :: ments (active l)) ++ concat (map ments (rev (sealed l)))) ++
               concat (map ents (all_tables (ver l)))).
  do 2 apply Permutation_app_tail. apply mt_insert_perm.
  intros x Hx. cbn [seq e]. eapply linv_content_seq; eauto. now apply In_content_active.
Qed.

Lemma flush_step_facts st W cuts l :
  minv st -> latest (hist (hs st)) = Some l -> mop_ok st (MFlush W cuts) = true ->
  sealed l <> [] ->
  let st' := mstep st (MFlush W cuts) in
  let merged := merge_sorted (map ments (sealed l)) in
  let R := ments (active l) ++ concat (map ents (all_tables (ver l))) in
  exists l', latest (hist (hs st')) = Some l' /\
             wlog st' = wlog st /\ ctr (hs st') = ctr (hs st) + 1 /\
             sorted_b merged = true /\
             Permutation (content l) (merged ++ R) /\
             Permutation (content l') (fst (run_stream W false no_filter merged) ++ R) /\
             (forall i, In i merged -> exists m, In m (sealed l) /\ In i (ments m)).
Proof.
  intros M L OK NE. cbv zeta. pose proof M as [Ih Iw (l0 & L0 & Hl)].
  rewrite L in L0. inversion L0; subst l0. clear L0.
  unfold mop_ok in OK. rewrite L in OK. apply andb_true_iff in OK. destruct OK as [SA HC].
  unfold mstep. rewrite L. destruct (sealed l) as [|m0 ms] eqn:ES; [congruence|].
  rewrite <- ES in *. clear m0 ms ES NE.
  set (merged := merge_sorted (map ments (sealed l))).
  set (R := ments (active l) ++ concat (map ents (all_tables (ver l)))).
  destruct (flush_facts st l W Iw Hl) as (HSm & HSo & SUB & PM & Hin).
  destruct (sv_inv_elim l (li_inv _ _ Hl)) as (S1 & S2 & HV & R1 & R2).
  set (out := flush_out W l) in *.
  set (tables := build_tables (next_tid st) cuts out).
  set (f := sv_flushed (map mid (sealed l)) tables).
  destruct (upgrade_maint_latest (hs st) f l W L) as [L' C'].
  eexists. split; [exact L'|]. split; [reflexivity|]. split; [exact C'|]. split; [exact HSm|].
  split; [|split].
  - rewrite content_split. unfold mem_entries, R. rewrite <- app_assoc.
    eapply perm_trans; [apply Permutation_app_swap_app|].
    apply Permutation_app_tail. apply Permutation_sym. exact PM.
  - rewrite content_with_seq, content_split. unfold f, sv_flushed, mem_entries, R.
    cbn [active sealed ver]. rewrite remove_sealed_all. cbn [rev map concat].
    rewrite app_nil_r. fold merged. fold (flush_out W l). fold out.
    eapply perm_trans; [|apply Permutation_app_swap_app]. apply Permutation_app_head.
    eapply perm_trans.
    { apply perm_concat_map_ents. apply new_l0_tables_perm. now apply levels_nonempty. }
    rewrite map_app, concat_app. apply Permutation_app_tail.
    destruct (build_tables_gen cuts (next_tid st) out HSo HC) as (_ & _ & I3 & _).
    fold tables in I3. rewrite I3. apply Permutation_refl.
  - intros i Hi. apply merge_sorted_In in Hi. apply in_concat in Hi.
    destruct Hi as (c & Hc & Hi). apply in_map_iff in Hc. destruct Hc as (m & <- & Hm). eauto.
Qed.

Lemma compact_step_facts st ids dest W cuts l :
  minv st -> latest (hist (hs st)) = Some l -> mop_ok st (MCompact ids dest W cuts) = true ->
  let st' := mstep st (MCompact ids dest W cuts) in
  let merged := compact_merged (ver l) ids in
  let K := concat (map ents (kept ids (all_tables (ver l)))) in
  let R := mem_entries l ++ K in
  exists l', latest (hist (hs st')) = Some l' /\
             wlog st' = wlog st /\ ctr (hs st') = ctr (hs st) + 1 /\
             sorted_b merged = true /\
             Permutation (content l) (merged ++ R) /\
             Permutation (content l')
               (fst (run_stream W (is_last_level dest) no_filter merged) ++ R) /\
             (forall i, In i merged -> exists t, In t (all_tables (ver l)) /\ In i (ents t)).
Proof.
  intros M L OK st' merged K R. pose proof M as [Ih Iw (l0 & L0 & Hl)].
  rewrite L in L0. inversion L0; subst l0. clear L0.
  unfold mop_ok in OK. rewrite L in OK. rewrite !andb_true_iff in OK.
  destruct OK as [[[[[[[[SA _] _] EX] _] HD] HC] MC] EO].
  unfold st', mstep. rewrite L, EX.
  destruct (sv_inv_elim l (li_inv _ _ Hl)) as (S1 & S2 & HV & R1 & R2).
  destruct (compact_facts (ver l) ids W dest HV) as (HSm & HSo & SUB & PM & Hin).
  set (out := compact_out W dest (ver l) ids) in *.
  set (new := build_tables (next_tid st) cuts out) in *.
  set (f := sv_merged ids new dest).
  destruct (upgrade_maint_latest (hs st) f l W L) as [L' C'].
  assert (Permutation (concat (map ents (all_tables (ver l)))) (merged ++ K)) as PT.
  { eapply perm_trans.
    - apply perm_concat_map_ents. apply Permutation_sym.
      apply (vs_perm_filter_split (id_in ids) (all_tables (ver l))).
    - rewrite map_app, concat_app. apply Permutation_app_tail. apply Permutation_sym. exact PM. }
  eexists. split; [exact L'|]. split; [reflexivity|]. split; [exact C'|]. split; [exact HSm|].
  split; [|split].
  - rewrite content_split. unfold R.
    eapply perm_trans; [apply Permutation_app_head; exact PT|]. apply Permutation_app_swap_app.
  - rewrite content_with_seq, content_split. unfold f, sv_merged, mem_entries, R.
    cbn [active sealed ver]. fold (mem_entries l).
    change (fst (run_stream W (is_last_level dest) no_filter merged)) with out.
    eapply perm_trans; [|apply Permutation_app_swap_app]. apply Permutation_app_head.
    eapply perm_trans.
    { apply perm_concat_map_ents. apply merge_tables_perm. now apply ltb_7_lt. }
    rewrite map_app, concat_app. apply Permutation_app_tail.
    destruct (build_tables_gen cuts (next_tid st) out HSo HC) as (_ & _ & I3 & _).
    fold new in I3. rewrite I3. apply Permutation_refl.
  - intros i Hi. apply (Permutation_in _ PM) in Hi. apply in_concat_map_ents in Hi.
    destruct Hi as (t0 & Ht0 & Hi0). exists t0. split; [eapply compact_in_In; eauto|exact Hi0].
Qed.

Lemma samebag_step_facts st o l :
  minv st -> latest (hist (hs st)) = Some l -> mop_ok st o = true ->
  (o = MRotate \/ (exists ids dest, o = MMove ids dest) \/ (exists W, o = MMaint W)) ->
  exists l', latest (hist (hs (mstep st o))) = Some l' /\
             Permutation (content l') (content l) /\
             wlog (mstep st o) = wlog st /\ ctr (hs st) <= ctr (hs (mstep st o)).
Proof.
  intros M L OK Ho. pose proof M as [Ih Iw (l0 & L0 & Hl)].
  rewrite L in L0. inversion L0; subst l0. clear L0.
  destruct Ho as [->|[(ids & dest & ->)|(W & ->)]]; unfold mstep; rewrite L.
  - destruct (ments (active l)) as [|a0 ar] eqn:EA.
    + exists l. split; [exact L|]. split; [apply Permutation_refl|]. split; [reflexivity|lia].
    + destruct (hstep_rotate_latest (hs st) (next_mid st) l L) as [L' C'];
        [rewrite EA; discriminate|].
      eexists. split; [exact L'|]. cbn [hs wlog]. split; [|split; [reflexivity|lia]].
      unfold content, containers, sv_rotate. cbn [active sealed ver ments].
      rewrite rev_app_distr. apply Permutation_refl.
  - unfold mop_ok in OK. rewrite L in OK. rewrite !andb_true_iff in OK.
    destruct OK as [[[[[SA _] _] _] HD] MC].
    destruct (sv_inv_elim l (li_inv _ _ Hl)) as (_ & _ & HV & _ & _).
    destruct (hstep_upgrade_latest (hs st) (sv_moved ids dest) l L) as [L' C'].
    eexists. split; [exact L'|]. cbn [hs wlog]. split; [|split; [reflexivity|lia]].
    rewrite content_with_seq, !content_split. unfold sv_moved, mem_entries.
    cbn [active sealed ver]. apply Permutation_app_head. apply perm_concat_map_ents.
    apply moved_tables_perm. now apply ltb_7_lt.
  - destruct (hstep_maint_latest (hs st) W) as [L' C'].
    exists l. cbn [hs wlog]. split; [now rewrite L'|].
    split; [apply Permutation_refl|]. split; [reflexivity|lia].
Qed.

(** ** 13.5 one step, every run *)

Lemma wkinv_step k st o :
  minv st -> wkinv k st -> mop_ok st o = true -> wop_ok k st o ->
  alternating (kents k (wlog (mstep st o))) = true ->
  wkinv k (mstep st o).
Proof.
  intros M [D WK] OK WO HA. pose proof (minv_step st o M OK) as M'.
  pose proof M as [Ih Iw (l & L & Hl)]. destruct (WK l L) as [A1 A2].
  pose proof (minv_latest_ndik _ _ M L) as ND. unfold wkinv.
  destruct o as [k' t v| |W cuts|ids dest W cuts|ids dest|W].
  - (* write *)
    destruct (write_step_facts st k' t v l M L OK) as (l' & L' & P & EW & C').
    set (e := mkE k' (ctr (hs st)) t v) in *.
    pose proof (minv_latest_ndik _ _ M' L') as ND'.
    rewrite EW in HA |- *. split.
    { split; [|exact D]. intros y Hy. apply (wi_seq _ Iw y Hy). }
    intros l2 L2. rewrite L' in L2. inversion L2; subst l2. clear L2.
    rewrite kents_cons in *. cbn [ukey e] in *.
    destruct (key_eqb k' k) eqn:E.
    + key_prop. subst k'.
      assert (ksort k (content l') = e :: ksort k (content l)) as ->.
      { apply ksort_unique; [exact ND'| |].
        - apply ssorted_cons. split; [|now apply ksort_sorted].
          apply Forall_forall. intros y Hy. apply ksort_In in Hy. destruct Hy as [Hy Ky].
          apply ikey_ltb_same_key; [cbn [ukey e]; congruence|].
          cbn [seq e]. eapply linv_content_seq; eauto.
        - eapply perm_trans; [|apply perm_filter; apply Permutation_sym; exact P].
          fold (kents k (e :: content l)). rewrite kents_cons. cbn [ukey e].
          rewrite key_eqb_refl. apply perm_skip. apply ksort_perm. }
      split.
      * apply (alt_prefix_hk [e] _ (kents k (wlog st))); auto.
      * cbn [hk]. destruct (is_val e) eqn:Ve; [eauto|]. right. exists e, (ksort k (content l)).
        split; [reflexivity|]. destruct (alt_cons_inv1 _ _ HA) as [We _].
        destruct (wv_cases _ We) as [X|X]; [congruence|exact X].
    + assert (ksort k (content l') = ksort k (content l)) as ->; [|auto].
      rewrite (ksort_perm_inv k _ _ ND' P). unfold ksort. rewrite kents_cons. cbn [ukey e].
      now rewrite E.
  - (* rotate *)
    destruct (samebag_step_facts st MRotate l M L OK) as (l' & L' & P & EW & _); [auto|].
    rewrite EW. split; [exact D|]. intros l2 L2. rewrite L' in L2. inversion L2; subst l2.
    rewrite <- EW. apply (wkinv_same_bag k st _ l l'); auto. eapply minv_latest_ndik; eauto.
  - (* flush *)
    destruct (sealed l) as [|m0 ms] eqn:ES.
    { revert HA. unfold mstep. rewrite L, ES. intros HA. split; auto. }
    assert (sealed l <> []) as NE by (rewrite ES; discriminate). clear m0 ms ES.
    destruct (flush_step_facts st W cuts l M L OK NE)
      as (l' & L' & EW & C' & HSm & P & P' & Hin).
    pose proof (minv_latest_ndik _ _ M' L') as ND'.
    rewrite EW. split; [exact D|]. intros l2 L2. rewrite L' in L2. inversion L2; subst l2.
    destruct (sv_inv_elim l (li_inv _ _ Hl)) as (S1 & S2 & HV & R1 & R2).
    destruct (replace_weak W false _ _ _ _ k ND ND' HSm P P' A1) as [B1 B2]; [|auto].
    intros r Hr Kr. apply in_app_or in Hr. destruct Hr as [Hr|Hr].
    + left. intros i Hi Ki. destruct (Hin i Hi) as (m & Hm & Him).
      unfold memc in R1. cbn [recency_b] in R1. apply andb_true_iff in R1.
      destruct R1 as [R1 _]. rewrite forallb_forall in R1.
      assert (newer_than (ments (active l)) (ments m) = true) as NT
          by (apply R1; apply in_map; now apply in_rev in Hm).
      rewrite newer_than_spec in NT. apply (NT r i Hr Him). congruence.
    + right. split; [reflexivity|]. intros i Hi Ki. destruct (Hin i Hi) as (m & Hm & Him).
      apply in_concat_map_ents in Hr. destruct Hr as (t0 & Ht0 & Hr).
      apply (R2 (ments m) t0); auto; [apply memc_In; right; eauto|congruence].
  - (* compaction *)
    destruct (compact_step_facts st ids dest W cuts l M L OK)
      as (l' & L' & EW & C' & HSm & P & P' & Hin).
    pose proof (minv_latest_ndik _ _ M' L') as ND'.
    rewrite EW. split; [exact D|]. intros l2 L2. rewrite L' in L2. inversion L2; subst l2.
    destruct (sv_inv_elim l (li_inv _ _ Hl)) as (S1 & S2 & HV & R1 & R2).
    destruct (replace_weak W (is_last_level dest) _ _ _ _ k ND ND' HSm P P' A1) as [B1 B2];
      [|auto].
    intros r Hr Kr. apply in_app_or in Hr. destruct Hr as [Hr|Hr].
    + left. intros i Hi Ki. destruct (Hin i Hi) as (t0 & Ht0 & Hi0).
      apply mem_entries_In in Hr. destruct Hr as (c & Hc & Hr).
      apply (R2 c t0 Hc Ht0 r i Hr Hi0). congruence.
    + apply in_concat_map_ents in Hr. destruct Hr as (t0 & Ht0 & Hr).
      apply (WO l L t0 r Ht0 Hr Kr).
  - (* move *)
    destruct (samebag_step_facts st (MMove ids dest) l M L OK) as (l' & L' & P & EW & _); [eauto|].
    rewrite EW. split; [exact D|]. intros l2 L2. rewrite L' in L2. inversion L2; subst l2.
    rewrite <- EW. apply (wkinv_same_bag k st _ l l'); auto. eapply minv_latest_ndik; eauto.
  - (* history GC *)
    destruct (samebag_step_facts st (MMaint W) l M L OK) as (l' & L' & P & EW & _); [eauto|].
    rewrite EW. split; [exact D|]. intros l2 L2. rewrite L' in L2. inversion L2; subst l2.
    rewrite <- EW. apply (wkinv_same_bag k st _ l l'); auto. eapply minv_latest_ndik; eauto.
Qed.

Lemma mstep_wlog st o : exists pre, wlog (mstep st o) = pre ++ wlog st.
Proof.
  unfold mstep. destruct (latest (hist (hs st))) as [l|]; [|exists []; reflexivity].
  destruct o as [k' t v| |W cuts|ids dest W cuts|ids dest|W].
  - eexists [_]. reflexivity.
  - destruct (ments (active l)); exists []; reflexivity.
  - destruct (sealed l); exists []; reflexivity.
  - destruct (ids_exist (ver l) ids); exists []; reflexivity.
  - exists []; reflexivity.
  - exists []; reflexivity.
Qed.

Lemma mrun_wlog : forall ops st, exists pre, wlog (mrun st ops) = pre ++ wlog st.
Proof.
  induction ops as [|o ops IH]; intros st; [exists []; reflexivity|].
  cbn [mrun fold_left]. destruct (IH (mstep st o)) as (p1 & E1).
  destruct (mstep_wlog st o) as (p2 & E2). exists (p1 ++ p2).
  unfold mrun in E1. rewrite E1, E2. now rewrite app_assoc.
Qed.

Lemma wkinv_run k : forall ops st,
  minv st -> wkinv k st -> mops_ok st ops = true -> wops_ok k st ops ->
  alternating (kents k (wlog (mrun st ops))) = true ->
  wkinv k (mrun st ops).
Proof.
  induction ops as [|o ops IH]; intros st M WK OK WO HA; [exact WK|].
  cbn [mops_ok] in OK. apply andb_true_iff in OK. destruct OK as [O1 O2].
  cbn [wops_ok] in WO. destruct WO as [W1 W2].
  cbn [mrun fold_left] in *. apply IH; auto.
  - now apply minv_step.
  - apply wkinv_step; auto.
    destruct (mrun_wlog ops (mstep st o)) as (pre & E). unfold mrun in E.
    rewrite E, kents_app in HA. eapply alt_app_r; eauto.
Qed.

Lemma wkinv_init k : wkinv k minit.
Proof.
  split; [exact I|]. intros l L. cbn in L. inversion L; subst l. split; reflexivity.
Qed.

(** (stretch) Result 4.  A key [k] whose whole history (all writes, newest first) obeys the
    single-delete discipline -- only values and weak tombstones, strictly alternating --
    reads, at every snapshot at or above the seqno counter, exactly like the write log,
    provided every compaction on the way took a contiguous part of [k]'s history
    ([wcontig]).  Other keys may be written in any way (strong tombstones included). *)
Theorem machine_weak_view : forall ops k,
  mops_ok minit ops = true -> wops_ok k minit ops ->
  let st := mrun minit ops in
  alternating (kents k (wlog st)) = true ->
  forall sv, latest (hist (hs st)) = Some sv ->
  forall S, ctr (hs st) <= S ->
  spec_get (content sv) k S = spec_get (wlog st) k S.
Proof.
  intros ops k OK WO st HA sv L S HS.
  pose proof (machine_minv ops OK) as M. fold st in M.
  assert (wkinv k st) as [D WK]
      by (apply wkinv_run; auto using minv_init, wkinv_init).
  destruct (WK sv L) as [A1 A2]. pose proof M as [Ih Iw (l & L0 & Hl)].
  rewrite L in L0. inversion L0; subst l. clear L0.
  unfold spec_get.
  rewrite (newest_ksort k S (content sv)); [|eapply minv_latest_ndik; eauto|].
  2:{ intros e He _. pose proof (linv_content_seq _ _ _ Iw Hl He). lia. }
  rewrite (newest_ksort k S (wlog st)); [|apply NoDup_seq_ndik; apply Iw|].
  2:{ intros e He _. pose proof (wi_seq _ Iw e He). lia. }
  rewrite (ksort_desc k (wlog st) (wi_nodup _ Iw) D).
  now apply hk_visible.
Qed.

Corollary machine_weak_reads : forall ops k,
  mops_ok minit ops = true -> wops_ok k minit ops ->
  let st := mrun minit ops in
  alternating (kents k (wlog st)) = true ->
  forall sv, latest (hist (hs st)) = Some sv ->
  forall flt, filter_sound flt sv ->
  sv_get flt sv k SEQ_MAX = spec_get (wlog st) k SEQ_MAX.
Proof.
  intros ops k OK WO st HA sv L flt Hf.
  destruct (machine_inv ops OK) as (_ & _ & Hsv & _ & _ & _ & Hlim). fold st in Hsv, Hlim.
  destruct (Hsv sv L) as (CI & _).
  rewrite (sv_get_sound flt sv CI Hf). apply machine_weak_view; auto.
  pose proof SEQ_LIMIT_le_MAX. fold st. lia.
Qed.

(** a decidable form of the compaction obligation, for concrete runs *)
Definition wcontig_b (k : key) (v : version) (ids : list N) (dest : nat) : bool :=
  let Ik := kents k (compact_merged v ids) in
  forallb (fun t =>
    forallb (fun r =>
      negb (key_eqb (ukey r) k)
      || forallb (fun i => seq i <? seq r) Ik
      || (negb (is_last_level dest) && forallb (fun i => seq r <? seq i) Ik))
      (ents t))
    (kept ids (all_tables v)).

Definition wop_ok_b (k : key) (st : mstate) (o : mop) : bool :=
  match o with
  | MCompact ids dest W cuts =>
      match latest (hist (hs st)) with
      | Some l => wcontig_b k (ver l) ids dest
      | None => true
      end
  | _ => true
  end.

Fixpoint wops_ok_b (k : key) (st : mstate) (ops : list mop) : bool :=
  match ops with
  | [] => true
  | o :: ops' => wop_ok_b k st o && wops_ok_b k (mstep st o) ops'
  end.

Lemma wcontig_b_sound k v ids dest : wcontig_b k v ids dest = true -> wcontig k v ids dest.
Proof.
  unfold wcontig_b, wcontig. intros H t r Ht Hr Kr. rewrite forallb_forall in H.
  specialize (H t Ht). rewrite forallb_forall in H. specialize (H r Hr).
  apply orb_true_iff in H. destruct H as [H|H].
  - apply orb_true_iff in H. destruct H as [H|H].
    + apply negb_true_iff in H. key_prop. contradiction.
    + left. intros i Hi Ki. rewrite forallb_forall in H. apply N.ltb_lt. apply H.
      apply kents_in. auto.
  - apply andb_true_iff in H. destruct H as [H1 H2]. right.
    split; [now apply negb_true_iff in H1|].
    intros i Hi Ki. rewrite forallb_forall in H2. apply N.ltb_lt. apply H2. apply kents_in. auto.
Qed.

Lemma wops_ok_b_sound k : forall ops st, wops_ok_b k st ops = true -> wops_ok k st ops.
Proof.
  induction ops as [|o ops IH]; intros st H; [exact I|].
  cbn [wops_ok_b] in H. apply andb_true_iff in H. destruct H as [H1 H2].
  split; [|auto]. destruct o; cbn [wop_ok]; auto.
  intros l L. cbn [wop_ok_b] in H1. rewrite L in H1. now apply wcontig_b_sound.
Qed.


(** ** 13.6 examples *)
Module WeakExample.
  Definition ka : key := [97].  Definition kb : key := [98].

  (** [ka]: put, single-delete, put, single-delete (disciplined); [kb]: put, delete, put;
      flushes, a compaction of two tables into level 1 and one of everything into the
      last level (where all of [ka] cancels out) *)
  Definition ops : list mop :=
    [ MWrite ka Value [1]; MWrite kb Value [2]; MRotate; MFlush 0 [];
      MWrite ka WeakTomb []; MWrite kb Tomb []; MRotate; MFlush 0 [];
      MWrite ka Value [3]; MWrite kb Value [4]; MRotate; MFlush 0 [];
      MCompact [0;1] 1 100 [];
      MWrite ka WeakTomb []; MRotate; MFlush 0 [];
      MCompact [2;3;4] 6 100 [] ].

  Example hyps :
    mops_ok minit ops = true /\ wops_ok_b ka minit ops = true /\
    alternating (kents ka (wlog (mrun minit ops))) = true.
  Proof. vm_compute. auto. Qed.

  Example reads :
    map (mget (fun _ _ => true) (mrun minit ops)) [ka; kb] = [None; Some (mkE kb 7 Value [4])].
  Proof. vm_compute; reflexivity. Qed.

  Example read_by_theorem : forall sv, latest (hist (hs (mrun minit ops))) = Some sv ->
    sv_get (fun _ _ => true) sv ka SEQ_MAX = spec_get (wlog (mrun minit ops)) ka SEQ_MAX.
  Proof.
    intros sv L. destruct hyps as (H1 & H2 & H3).
    exact (machine_weak_reads ops ka H1 (wops_ok_b_sound ka _ _ H2) H3 sv L _
             (filter_sound_true sv)).
  Qed.

  (** The contiguity obligation is needed.  [ka]: put@0 (flushed, moved to the last level),
      single-delete@2, put@3 (flushed), then the table with @3/@2 is compacted ALONE into
      the last level, as a second run next to the table with @0: every [mop_ok] condition
      holds (the key does not vanish, so [evict_ok] is silent), but the weak tombstone @2
      is collected while the value @0 it cancelled stays.  After one more single-delete
      and a major compaction the value @0 is visible again. *)
  Definition bad_ops : list mop :=
    [ MWrite ka Value [1]; MRotate; MFlush 0 []; MMove [0] 6;
      MWrite ka WeakTomb []; MWrite ka Value [2]; MRotate; MFlush 0 [];
      MCompact [1] 6 100 [];
      MWrite ka WeakTomb []; MRotate; MFlush 0 [];
      MCompact [0;2;3] 6 100 [] ].

  Theorem weak_without_contiguity_refuted :
    mops_ok minit bad_ops = true /\
    alternating (kents ka (wlog (mrun minit bad_ops))) = true /\
    wops_ok_b ka minit bad_ops = false /\
    mget (fun _ _ => true) (mrun minit bad_ops) ka = Some (mkE ka 0 Value [1]) /\
    spec_get (wlog (mrun minit bad_ops)) ka SEQ_MAX = None.
  Proof. vm_compute. auto. Qed.
End WeakExample.

(** * 14. Point reads of a mixed workload *)

(** Every key that is either never weak-deleted, or weak-deleted under the single-delete
    discipline (with contiguous compactions), is read correctly at the newest snapshot by
    the real read path with any sound filter.  Keys of both kinds may coexist. *)
Theorem machine_reads_mixed : forall ops,
  mops_ok minit ops = true ->
  let st := mrun minit ops in
  forall sv, latest (hist (hs st)) = Some sv ->
  forall flt, filter_sound flt sv ->
  forall k,
    ((forall t v, In (MWrite k t v) ops -> t <> WeakTomb) \/
     (wops_ok k minit ops /\ alternating (kents k (wlog st)) = true)) ->
    sv_get flt sv k SEQ_MAX = spec_get (wlog st) k SEQ_MAX.
Proof.
  intros ops OK st sv L flt Hf k [NW|[WO HA]].
  - destruct (machine_inv ops OK) as (_ & _ & Hsv & _ & _ & _ & Hlim). fold st in Hsv, Hlim.
    destruct (Hsv sv L) as (CI & _).
    rewrite (sv_get_sound flt sv CI Hf). apply machine_top_view_key; auto.
    pose proof SEQ_LIMIT_le_MAX. fold st. lia.
  - now apply machine_weak_reads.
Qed.

(** * 14b. Replay of the unit tests of src/table/multi_writer.rs
    (the tests pass explicit seqnos; here the machine hands them out, 0, 1, 2, ...;
    [tree.len] = number of live keys; the MultiWriter's size-driven rotation requests are
    the [cuts], and a request inside a user key is not honoured) *)
Module CrateTests.
  Definition ka : key := [97].  Definition kb : key := [98].  Definition kc : key := [99].
  Definition table_count (st : mstate) : nat :=
    match mlatest st with Some sv => length (all_tables (ver sv)) | None => O end.
  Definition live_keys (st : mstate) : nat :=
    match mlatest st with
    | Some sv => length (spec_range (content sv) Unb Unb SEQ_MAX)
    | None => O
    end.

  (* table_multi_writer_same_key_norotate: five versions of one key stay in one table,
     at flush and at major compaction, wherever a rotation is requested *)
  Definition t1_ops : list mop :=
    [ MWrite ka Value [1]; MWrite ka Value [2]; MWrite ka Value [3]; MWrite ka Value [4];
      MWrite ka Value [5]; MRotate; MFlush 0 [] ].
  Example same_key_norotate :
    mops_ok minit t1_ops = true /\
    let st := mrun minit t1_ops in
    (table_count st, live_keys st) = (1%nat, 1%nat) /\
    (forall l, mlatest st = Some l ->
       length (compact_out 0 6 (ver l) [0]) = 5%nat /\
       forallb (fun c => negb (cuts_ok [c] (compact_out 0 6 (ver l) [0])))
               [1%nat; 2%nat; 3%nat; 4%nat] = true) /\
    mop_ok st (MCompact [0] 6 0 []) = true /\
    let st' := mstep st (MCompact [0] 6 0 []) in
    (table_count st', live_keys st') = (1%nat, 1%nat).
  Proof.
    split; [vm_compute; reflexivity|]. split; [vm_compute; reflexivity|]. split.
    - intros l L. vm_compute in L. inversion L; subst l. vm_compute. auto.
    - vm_compute. auto.
  Qed.

  (* table_multi_writer_same_key_norotate_2: a (3 versions), b, c (2 versions): one table
     after the flush, three after a major compaction that rotates at every key change *)
  Definition t2_ops : list mop :=
    [ MWrite ka Value [1]; MWrite ka Value [1]; MWrite ka Value [1]; MWrite kb Value [1];
      MWrite kc Value [1]; MWrite kc Value [1]; MRotate; MFlush 0 [] ].
  Example same_key_norotate_2 :
    mops_ok minit t2_ops = true /\
    let st := mrun minit t2_ops in
    (table_count st, live_keys st) = (1%nat, 3%nat) /\
    mop_ok st (MCompact [0] 6 0 [3%nat; 1%nat]) = true /\
    mop_ok st (MCompact [0] 6 0 [2%nat]) = false /\
    let st' := mstep st (MCompact [0] 6 0 [3%nat; 1%nat]) in
    (table_count st', live_keys st') = (3%nat, 3%nat).
  Proof. vm_compute. auto. Qed.
End CrateTests.

(** * 15. Assumptions *)
Print Assumptions build_tables_ok.
Print Assumptions machine_minv.
Print Assumptions machine_inv.
Print Assumptions machine_top_view_key.
Print Assumptions machine_top_view_gen.
Print Assumptions machine_top_view.
Print Assumptions machine_top_view_prefix.
Print Assumptions machine_point_reads.
Print Assumptions machine_mget.
Print Assumptions major_choice_ok.
Print Assumptions machine_weak_view.
Print Assumptions machine_weak_reads.
Print Assumptions machine_reads_mixed.
Print Assumptions EvictExample.evict_ok_dest_level_only_refuted.
Print Assumptions WeakExample.weak_without_contiguity_refuted.
