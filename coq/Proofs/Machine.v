(** Proofs about the whole-tree state machine (Model/Machine.v):
    1. [build_tables_ok]: what the MultiWriter produces from a sorted stream is a legal run;
    2. [machine_inv]: every reachable state satisfies the history invariant [hinv] and the
       structural invariant [check_inv_sv] of the latest superversion (plus bookkeeping);
    3. [machine_top_view] / [machine_point_reads]: without weak tombstones, a point read of
       the latest superversion at the newest snapshot returns exactly what the ordered-map
       Spec returns on the log of all writes (property C01 for the model, unbounded). *)
From LsmV Require Import Proofs.Newest Proofs.Lookup Proofs.Stream Proofs.Version
     Proofs.Snapshot.
From LsmV Require Import Model.Machine.
From Coq Require Import Permutation Sorting.Sorted PeanoNat.
Open Scope N_scope.

Arguments N.add : simpl never.
Arguments N.sub : simpl never.
Arguments N.mul : simpl never.
Arguments N.ltb : simpl never.
Arguments N.leb : simpl never.
Arguments N.eqb : simpl never.
Arguments N.max : simpl never.

(** * 0. Small facts *)

Lemma ssorted_eq l : ssorted l = sorted_b l.
Proof.
  induction l as [|e l IH]; [reflexivity|].
  destruct l as [|e' l]; [reflexivity|].
  change (ssorted (e :: e' :: l)) with (ikey_ltb e e' && ssorted (e' :: l)).
  change (sorted_b (e :: e' :: l)) with (ikey_ltb e e' && sorted_b (e' :: l)).
  now rewrite IH.
Qed.

Lemma sorted_b_app_l a b : sorted_b (a ++ b) = true -> sorted_b a = true.
Proof. rewrite <- !ssorted_eq. apply ssorted_app_l. Qed.

Lemma sorted_b_app_r a b : sorted_b (a ++ b) = true -> sorted_b b = true.
Proof. rewrite <- !ssorted_eq. apply ssorted_app_r. Qed.

Lemma sorted_b_firstn c l : sorted_b l = true -> sorted_b (firstn c l) = true.
Proof. intros H. rewrite <- (firstn_skipn c l) in H. now apply sorted_b_app_l in H. Qed.

Lemma sorted_b_skipn c l : sorted_b l = true -> sorted_b (skipn c l) = true.
Proof. intros H. rewrite <- (firstn_skipn c l) in H. now apply sorted_b_app_r in H. Qed.

(** * 1. The tables written from a sorted stream *)

(** consecutive ids *)
Fixpoint ids_from (first : N) (n : nat) : list N :=
  match n with
  | O => []
  | S n' => first :: ids_from (first + 1) n'
  end.

Lemma ids_from_In first n x : In x (ids_from first n) <-> first <= x < first + N.of_nat n.
Proof.
  revert first; induction n as [|n IH]; intros first.
  - cbn [ids_from In]. lia.
  - cbn [ids_from In]. rewrite IH. lia.
Qed.

Lemma mk_table_ents id es : ents (mk_table id es) = es.
Proof. destruct es; reflexivity. Qed.

Lemma mk_table_tid id es : tid (mk_table id es) = id.
Proof. destruct es; reflexivity. Qed.

Lemma mk_table_gseq id es : gseq (mk_table id es) = 0.
Proof. destruct es; reflexivity. Qed.

Lemma mk_table_ok id es : es <> [] -> sorted_b es = true -> table_ok (mk_table id es) = true.
Proof.
  intros NE HS. destruct es as [|e0 r]; [congruence|].
  unfold table_ok, table_meta_ok, mk_table.
  cbn [ents kmin kmax slo shi gseq n_items n_tomb n_weak].
  rewrite HS, !key_eqb_refl, !N.add_0_r, !N.eqb_refl. reflexivity.
Qed.

Definition hd_clause (ts : list table) (out : list entry) : Prop :=
  match ts with
  | [] => out = []
  | t :: _ => exists e0 r, out = e0 :: r /\ kmin t = ukey e0
  end.

Lemma build_tables_gen : forall cuts fid out,
  sorted_b out = true -> cuts_ok cuts out = true ->
  forallb table_ok (build_tables fid cuts out) = true /\
  run_disjoint_b (build_tables fid cuts out) = true /\
  concat (map ents (build_tables fid cuts out)) = out /\
  map tid (build_tables fid cuts out) = ids_from fid (length (build_tables fid cuts out)) /\
  (forall t, In t (build_tables fid cuts out) -> gseq t = 0) /\
  hd_clause (build_tables fid cuts out) out.
Proof.
  induction cuts as [|c cuts IH]; intros fid out HS HC.
  - cbn [build_tables]. destruct out as [|e0 r].
    + cbn. repeat split; auto. intros t [].
    + cbn [forallb run_disjoint_b map concat length ids_from hd_clause].
      rewrite mk_table_ok by (auto; discriminate).
      rewrite mk_table_ents, mk_table_tid, app_nil_r. repeat split; auto.
      * intros t [<-|[]]. apply mk_table_gseq.
      * exists e0, r. split; reflexivity.
  - cbn [build_tables cuts_ok] in *. apply andb_true_iff in HC. destruct HC as [HC1 HC2].
    pose proof (firstn_skipn c out) as FS.
    destruct (firstn c out) as [|a0 ch] eqn:F.
    + cbn [app] in FS. rewrite FS in *. apply IH; assumption.
    + set (chunk := a0 :: ch) in *.
      assert (sorted_b chunk = true) as HSc.
      { rewrite <- F. now apply sorted_b_firstn. }
      destruct (IH (fid + 1) (skipn c out) (sorted_b_skipn c out HS) HC2)
        as (I1 & I2 & I3 & I4 & I5 & I6).
      set (rest := build_tables (fid + 1) cuts (skipn c out)) in *.
      assert (table_ok (mk_table fid chunk) = true) as Tok
          by (apply mk_table_ok; [discriminate|exact HSc]).
      repeat split.
      * cbn [forallb]. now rewrite Tok, I1.
      * destruct rest as [|t' rest'] eqn:R; [reflexivity|].
        change (run_disjoint_b (mk_table fid chunk :: t' :: rest'))
          with (key_ltb (kmax (mk_table fid chunk)) (kmin t') && run_disjoint_b (t' :: rest')).
        rewrite I2, andb_true_r. cbn [hd_clause] in I6.
        destruct I6 as (b & r & Eb & Ek). rewrite Ek.
        unfold cut_ok in HC1. rewrite Eb in HC1. exact HC1.
      * cbn [map concat]. rewrite mk_table_ents, I3. exact FS.
      * cbn [map length ids_from]. now rewrite mk_table_tid, I4.
      * intros t [<-|HI]; [apply mk_table_gseq|auto].
      * cbn [hd_clause]. exists a0, (ch ++ skipn c out). split; [symmetry; exact FS|reflexivity].
Qed.

(** Result 1.  [out]: a strictly sorted, non-empty stream output; [cuts]: rotation points
    between different user keys.  The MultiWriter then writes a legal run: every table
    satisfies [table_ok] (sorted, metadata consistent with the entries), the tables are
    pairwise disjoint and ascending, carry the consecutive ids [first_id, first_id+1, ..],
    and together hold exactly the stream output. *)
Theorem build_tables_ok : forall first_id cuts out,
  sorted_b out = true -> out <> [] -> cuts_ok cuts out = true ->
  let ts := build_tables first_id cuts out in
  (forall t, In t ts -> table_ok t = true) /\
  run_ok ts = true /\ opt_run_ok ts = true /\
  map tid ts = ids_from first_id (length ts) /\
  (forall t, In t ts -> gseq t = 0) /\
  concat (map ents ts) = out.
Proof.
  intros fid cuts out HS NE HC ts.
  destruct (build_tables_gen cuts fid out HS HC) as (I1 & I2 & I3 & I4 & I5 & I6).
  fold ts in I1, I2, I3, I4, I5, I6.
  assert (run_ok ts = true) as RO.
  { unfold run_ok. destruct ts as [|t ts']; [cbn [hd_clause] in I6; congruence|].
    now rewrite I1, I2. }
  repeat split; auto.
  - intros t HI. rewrite forallb_forall in I1. auto.
  - unfold opt_run_ok. now rewrite I1, I2.
Qed.

(** * 2. The tables of a transformed version, up to permutation *)

Lemma perm_concat {A} (l l' : list (list A)) :
  Permutation l l' -> Permutation (concat l) (concat l').
Proof.
  induction 1 as [|x l l' P IH|x y l|l l' l'' P1 IH1 P2 IH2]; cbn [concat].
  - apply Permutation_refl.
  - now apply Permutation_app_head.
  - rewrite !app_assoc. apply Permutation_app_tail. apply Permutation_app_comm.
  - eapply perm_trans; eauto.
Qed.

Lemma all_tables_tables_of v : all_tables v = tables_of (levels v).
Proof. reflexivity. Qed.

Lemma tables_of_map_opt (pre : list level) :
  Permutation (tables_of (map optimize_runs pre)) (tables_of pre).
Proof.
  induction pre as [|p pre IH]; [apply Permutation_refl|].
  cbn [map]. rewrite !vs_tables_of_cons. apply Permutation_app; [|exact IH].
  apply optimize_runs_perm.
Qed.

Lemma new_l0_tables_perm v new :
  levels v <> [] ->
  Permutation (all_tables (with_new_l0_run v new)) (new ++ all_tables v).
Proof.
  intros NE. unfold with_new_l0_run. rewrite !all_tables_tables_of.
  destruct (levels v) as [|l0 rest]; [congruence|]. cbn [levels].
  rewrite !vs_tables_of_cons, app_assoc. apply Permutation_app_tail.
  eapply perm_trans; [apply optimize_runs_perm|].
  rewrite concat_app, vs_concat_run_new. apply Permutation_refl.
Qed.

Lemma rebuild_tables_perm ids ins dest ls :
  (dest < length ls)%nat ->
  Permutation (tables_of (rebuild_from O ids ins dest ls))
              (concat ins ++ kept ids (tables_of ls)).
Proof.
  intros Hd. rewrite vs_rebuild_shape by lia. rewrite Nat.sub_0_r.
  eapply perm_trans; [apply tables_of_map_opt|].
  rewrite vs_pre_levels_tables by exact Hd.
  rewrite <- (firstn_skipn dest ls) at 3. rewrite vs_tables_of_app, vs_kept_app.
  rewrite !app_assoc. apply Permutation_app_tail. apply Permutation_app_comm.
Qed.

Lemma merge_tables_perm v ids new dest :
  (dest < length (levels v))%nat ->
  Permutation (all_tables (with_merge v ids new dest)) (new ++ kept ids (all_tables v)).
Proof.
  intros Hd. unfold with_merge. rewrite !all_tables_tables_of. cbn [levels].
  eapply perm_trans; [apply rebuild_tables_perm; exact Hd|].
  rewrite vs_concat_run_new. apply Permutation_refl.
Qed.

Lemma moved_tables_perm v ids dest :
  (dest < length (levels v))%nat ->
  Permutation (all_tables (with_moved v ids dest)) (all_tables v).
Proof.
  intros Hd. unfold with_moved.
  destruct (Nat.eqb _ _); [|apply Permutation_refl].
  rewrite !all_tables_tables_of. cbn [levels].
  eapply perm_trans; [apply rebuild_tables_perm; exact Hd|].
  rewrite vs_concat_moved_runs. rewrite <- all_tables_tables_of.
  apply (vs_perm_filter_split (id_in ids) (all_tables v)).
Qed.

Lemma kept_In ids ts t : In t (kept ids ts) -> In t ts.
Proof. unfold kept. intros H. apply filter_In in H. tauto. Qed.

Lemma compact_in_In v ids t : In t (compact_in v ids) -> In t (all_tables v).
Proof. unfold compact_in. intros H. apply filter_In in H. tauto. Qed.

Lemma in_concat_map_ents (ts : list table) e :
  In e (concat (map ents ts)) <-> exists t, In t ts /\ In e (ents t).
Proof.
  rewrite in_concat. split.
  - intros (c & Hc & He). apply in_map_iff in Hc. destruct Hc as (t & <- & Ht). eauto.
  - intros (t & Ht & He). exists (ents t). split; [now apply in_map|exact He].
Qed.

Lemma perm_concat_map_ents (a b : list table) :
  Permutation a b -> Permutation (concat (map ents a)) (concat (map ents b)).
Proof. intros P. apply perm_concat. now apply Permutation_map. Qed.

(** * 3. The structural invariant, taken apart *)

(** every version of a key in [X] is newer than every version of that key in [Y] *)
Definition enewer (X Y : list entry) : Prop :=
  forall e e', In e X -> In e' Y -> ukey e = ukey e' -> seq e' < seq e.

Lemma enewer_incl X X' Y Y' : incl X' X -> incl Y' Y -> enewer X Y -> enewer X' Y'.
Proof. intros HX HY H e e' He He'. apply H; auto. Qed.

Lemma recency_app a b :
  recency_b (a ++ b) = true <->
  recency_b a = true /\ recency_b b = true /\
  (forall c c', In c a -> In c' b -> newer_than c c' = true).
Proof.
  induction a as [|x a IH]; cbn [app recency_b].
  - split; [intros H; repeat split; auto; intros c c' []|tauto].
  - rewrite !andb_true_iff, forallb_app, andb_true_iff, IH, !forallb_forall. split.
    + intros [[H1 H2] (H3 & H4 & H5)]. repeat split; auto.
      intros c c' [<-|HI] Hc'; auto.
    + intros [[H1 H2] (H3 & H4)]. repeat split; auto.
      * intros c' Hc'. apply H4; [now left|exact Hc'].
      * intros c c' Hc Hc'. apply H4; [now right|exact Hc'].
Qed.

(** the memtable containers in lookup order *)
Definition memc (sv : superversion) : list (list entry) :=
  ments (active sv) :: map ments (rev (sealed sv)).

Lemma containers_split sv : containers sv = memc sv ++ map ents (all_tables (ver sv)).
Proof. reflexivity. Qed.

Lemma check_inv_sv_iff sv :
  check_inv_sv sv = true <->
  sorted_b (ments (active sv)) = true /\
  (forall m, In m (sealed sv) -> sorted_b (ments m) = true) /\
  version_inv (ver sv) = true /\
  recency_b (containers sv) = true.
Proof.
  split.
  - intros H. pose proof (check_inv_sv_version_inv _ H) as HV.
    destruct (check_inv_sv_inv _ H) as (H1 & H2 & _ & _ & _ & H6). auto.
  - intros (H1 & H2 & HV & HR). unfold check_inv_sv. unfold version_inv in HV.
    rewrite !andb_true_iff in HV. destruct HV as [[[V1 V2] V3] _].
    rewrite H1, V1, V2, V3, HR, !andb_true_r. cbn [andb].
    apply forallb_forall. exact H2.
Qed.

Lemma sv_recency_iff sv :
  recency_b (containers sv) = true <->
  recency_b (memc sv) = true /\
  recency_b (map ents (all_tables (ver sv))) = true /\
  (forall c t, In c (memc sv) -> In t (all_tables (ver sv)) -> enewer c (ents t)).
Proof.
  rewrite containers_split, recency_app. split.
  - intros (H1 & H2 & H3). repeat split; auto. intros c t Hc Ht.
    unfold enewer. apply newer_than_spec. apply H3; [exact Hc|now apply in_map].
  - intros (H1 & H2 & H3). repeat split; auto. intros c c' Hc Hc'.
    apply in_map_iff in Hc'. destruct Hc' as (t & <- & Ht).
    apply newer_than_spec. now apply (H3 c t).
Qed.

Lemma version_inv_recency v : version_inv v = true -> recency_b (map ents (all_tables v)) = true.
Proof. unfold version_inv. rewrite !andb_true_iff. tauto. Qed.

Lemma version_inv_length v : version_inv v = true -> length (levels v) = 7%nat.
Proof.
  unfold version_inv. rewrite !andb_true_iff. intros [[[H _] _] _]. apply N.eqb_eq in H. lia.
Qed.

Lemma version_inv_nodup v : version_inv v = true -> NoDup (map tid (all_tables v)).
Proof. unfold version_inv. rewrite !andb_true_iff. intros [[_ H] _]. now apply vs_nodup_N_b. Qed.

Lemma version_inv_table_ok v t : version_inv v = true -> In t (all_tables v) -> table_ok t = true.
Proof.
  unfold version_inv. rewrite !andb_true_iff. intros [[[_ H] _] _] HI.
  rewrite forallb_forall in H. unfold all_tables in HI. apply in_concat in HI.
  destruct HI as (r & Hr & Ht). eapply run_ok_table; eauto.
Qed.

Lemma sv_inv_intro q a s v :
  sorted_b (ments a) = true ->
  (forall m, In m s -> sorted_b (ments m) = true) ->
  version_inv v = true ->
  recency_b (ments a :: map ments (rev s)) = true ->
  (forall c t, In c (ments a :: map ments (rev s)) -> In t (all_tables v) -> enewer c (ents t)) ->
  check_inv_sv (mkSV q a s v) = true.
Proof.
  intros H1 H2 HV HR HC. apply check_inv_sv_iff. cbn [active sealed ver].
  repeat split; auto. apply sv_recency_iff. unfold memc. cbn [active sealed ver].
  repeat split; auto. now apply version_inv_recency.
Qed.

Lemma sv_inv_elim sv :
  check_inv_sv sv = true ->
  sorted_b (ments (active sv)) = true /\
  (forall m, In m (sealed sv) -> sorted_b (ments m) = true) /\
  version_inv (ver sv) = true /\
  recency_b (memc sv) = true /\
  (forall c t, In c (memc sv) -> In t (all_tables (ver sv)) -> enewer c (ents t)).
Proof.
  intros H. apply check_inv_sv_iff in H. destruct H as (H1 & H2 & HV & HR).
  apply sv_recency_iff in HR. destruct HR as (R1 & _ & R3). auto.
Qed.

(** every memtable entry / every table entry is part of [content] *)
Lemma content_In sv e :
  In e (content sv) <->
  (exists c, In c (memc sv) /\ In e c) \/ (exists t, In t (all_tables (ver sv)) /\ In e (ents t)).
Proof.
  unfold content. rewrite containers_split, concat_app, in_app_iff, in_concat,
    in_concat_map_ents. tauto.
Qed.

Lemma memc_In sv c :
  In c (memc sv) <-> c = ments (active sv) \/ exists m, In m (sealed sv) /\ c = ments m.
Proof.
  unfold memc. cbn [In]. rewrite in_map_iff. split.
  - intros [H|(m & <- & Hm)]; [left; auto|right]. exists m. split; [now apply in_rev|reflexivity].
  - intros [->|(m & Hm & ->)]; [left; reflexivity|right]. exists m.
    split; [reflexivity|now apply in_rev in Hm].
Qed.

(** * 4. The effect of one history step on the latest superversion *)

Lemma hstep_write_latest st e l :
  latest (hist st) = Some l ->
  latest (hist (hstep st (HWrite e))) = Some (sv_write (mid (active l)) e l) /\
  ctr (hstep st (HWrite e)) = ctr st + 1.
Proof.
  intros L. unfold hstep. rewrite L. cbn [hist ctr]. rewrite latest_map, L. auto.
Qed.

Lemma hstep_rotate_latest st nm l :
  latest (hist st) = Some l -> ments (active l) <> [] ->
  latest (hist (hstep st (HRotate nm))) = Some (sv_rotate nm l) /\
  ctr (hstep st (HRotate nm)) = ctr st.
Proof.
  intros L NE. unfold hstep. rewrite L. destruct (ments (active l)); [congruence|].
  cbn [hist ctr]. rewrite latest_snoc. auto.
Qed.

Lemma hstep_upgrade_latest st f l :
  latest (hist st) = Some l ->
  latest (hist (hstep st (HUpgrade f))) = Some (sv_with_seq (ctr st) (f l)) /\
  ctr (hstep st (HUpgrade f)) = ctr st + 1.
Proof.
  intros L. unfold hstep. rewrite L. cbn [hist ctr]. rewrite latest_snoc. auto.
Qed.

Lemma hstep_maint_latest st W :
  latest (hist (hstep st (HMaint W))) = latest (hist st) /\
  ctr (hstep st (HMaint W)) = ctr st.
Proof.
  unfold hstep. destruct (latest (hist st)) as [l|] eqn:L; [|auto].
  cbn [hist ctr]. rewrite maintenance_latest. auto.
Qed.

Lemma sv_write_latest l e :
  (forall m, In m (sealed l) -> mid m <> mid (active l)) ->
  sv_write (mid (active l)) e l =
  mkSV (sv_seq l) (mkM (mid (active l)) (mt_insert e (ments (active l)))) (sealed l) (ver l).
Proof.
  intros H. unfold sv_write, mem_insert. rewrite N.eqb_refl. f_equal.
  rewrite <- (map_id (sealed l)) at 2. apply map_ext_in. intros m Hm.
  destruct (mid m =? mid (active l)) eqn:E; [|reflexivity].
  apply N.eqb_eq in E. exfalso. eapply H; eauto.
Qed.

Lemma mt_insert_sorted e l : sorted_b l = true -> sorted_b (mt_insert e l) = true.
Proof.
  rewrite <- !ssorted_eq. induction l as [|x l IH]; intros HS; [reflexivity|].
  cbn [mt_insert]. destruct (ikey_ltb e x) eqn:C1.
  - apply ssorted_cons. split; [|exact HS]. constructor; [exact C1|].
    apply Forall_forall. intros y Hy. eapply ikey_ltb_trans; [exact C1|].
    eapply ssorted_head_lt; eauto.
  - destruct (ikey_ltb x e) eqn:C2.
    + apply ssorted_cons. split; [|apply IH; eapply ssorted_tail; eauto].
      apply Forall_forall. intros y Hy. apply In_mt_insert in Hy.
      destruct Hy as [->|Hy]; [exact C2|]. eapply ssorted_head_lt; eauto.
    + destruct (ikey_neither _ _ C1 C2) as [Ek Es].
      apply ssorted_cons. split; [|eapply ssorted_tail; eauto].
      apply Forall_forall. intros y Hy.
      rewrite (ikey_ltb_ext e x y y); auto. eapply ssorted_head_lt; eauto.
Qed.

(** * 5. The machine invariant *)

(** about the latest superversion [l] of state [st] *)
Record linv (st : mstate) (l : superversion) : Prop := mk_linv {
  li_inv : check_inv_sv l = true;
  li_mid : forall m, In m (all_mts l) -> mid m < next_mid st;
  li_act : forall m, In m (sealed l) -> mid m <> mid (active l);
  li_tid : forall t, In t (all_tables (ver l)) -> tid t < next_tid st;
  li_log : forall e, In e (content l) -> In e (wlog st) }.

(** about the write log and the seqno counter *)
Record winv (st : mstate) : Prop := mk_winv {
  wi_seq : forall e, In e (wlog st) -> seq e < ctr (hs st);
  wi_nodup : NoDup (map seq (wlog st));
  wi_lim : ctr (hs st) <= SEQ_LIMIT }.

Record minv (st : mstate) : Prop := mk_minv {
  mi_h : hinv (hs st);
  mi_w : winv st;
  mi_l : exists l, latest (hist (hs st)) = Some l /\ linv st l }.

Lemma linv_content_seq st l e : winv st -> linv st l -> In e (content l) -> seq e < ctr (hs st).
Proof. intros Wv Hl HI. apply (wi_seq _ Wv). now apply (li_log _ _ Hl). Qed.

Lemma seq_avail_lt st : seq_avail st = true -> ctr (hs st) + 1 <= SEQ_LIMIT.
Proof. unfold seq_avail. intros H. apply N.ltb_lt in H. lia. Qed.

Lemma In_content_memc sv c e : In c (memc sv) -> In e c -> In e (content sv).
Proof. intros Hc He. apply content_In. left. eauto. Qed.

Lemma In_content_active sv e : In e (ments (active sv)) -> In e (content sv).
Proof. intros He. eapply In_content_memc; [|exact He]. apply memc_In. now left. Qed.

Lemma In_content_sealed sv m e : In m (sealed sv) -> In e (ments m) -> In e (content sv).
Proof. intros Hm He. eapply In_content_memc; [|exact He]. apply memc_In. right. eauto. Qed.

Lemma In_content_table sv t e : In t (all_tables (ver sv)) -> In e (ents t) -> In e (content sv).
Proof. intros Ht He. apply content_In. right. eauto. Qed.

Lemma enewer_insert e A Y :
  enewer A Y -> (forall y, In y Y -> seq y < seq e) -> enewer (mt_insert e A) Y.
Proof.
  intros H HY x y Hx Hy Ek. apply In_mt_insert in Hx. destruct Hx as [->|Hx]; [auto|].
  now apply (H x y).
Qed.

(** ** 5.1 write *)
Lemma minv_write st k t v :
  minv st -> mop_ok st (MWrite k t v) = true -> minv (mstep st (MWrite k t v)).
Proof.
  intros [Ih Iw (l & L & Hl)] OK.
  unfold mop_ok in OK. rewrite L in OK. apply andb_true_iff in OK. destruct OK as [SA _].
  unfold mstep. rewrite L. set (e := mkE k (ctr (hs st)) t v).
  destruct (hstep_write_latest (hs st) e l L) as [L' C'].
  pose proof (sv_write_latest l e (li_act _ _ Hl)) as SW.
  assert (forall x, In x (content l) -> seq x < seq e) as Hnew.
  { intros x Hx. cbn [seq e]. eapply linv_content_seq; eauto. }
  constructor; cbn [hs wlog next_tid next_mid].
  - apply hinv_step; [exact Ih| |exact I]. intros e0 E. inversion E. reflexivity.
  - constructor; cbn [hs wlog].
    + rewrite C'. intros x [<-|Hx]; [cbn [seq e]; lia|].
      pose proof (wi_seq _ Iw x Hx). lia.
    + cbn [map]. constructor; [|apply (wi_nodup _ Iw)].
      intros HI. apply in_map_iff in HI. destruct HI as (x & Ex & Hx).
      pose proof (wi_seq _ Iw x Hx). cbn [seq e] in Ex. lia.
    + rewrite C'. now apply seq_avail_lt.
  - eexists. split; [exact L'|]. rewrite SW.
    destruct (sv_inv_elim l (li_inv _ _ Hl)) as (S1 & S2 & HV & R1 & R2).
    unfold memc in R1, R2. cbn [recency_b] in R1. apply andb_true_iff in R1.
    destruct R1 as [R1a R1b]. rewrite forallb_forall in R1a.
    constructor; cbn [active sealed ver mid ments all_mts].
    + apply sv_inv_intro; cbn [ments]; auto using mt_insert_sorted.
      * cbn [recency_b]. rewrite R1b, andb_true_r. apply forallb_forall. intros c Hc.
        apply newer_than_spec. apply enewer_insert.
        -- unfold enewer. apply newer_than_spec. now apply R1a.
        -- intros y Hy. apply Hnew. eapply In_content_memc; [right; exact Hc|exact Hy].
      * intros c t0 [<-|Hc] Ht.
        -- apply enewer_insert; [apply R2; [now left|exact Ht]|].
           intros y Hy. apply Hnew. eapply In_content_table; eauto.
        -- apply R2; [now right|exact Ht].
    + intros m [<-|Hm]; cbn [mid].
      * apply (li_mid _ _ Hl (active l)). now left.
      * apply (li_mid _ _ Hl m). now right.
    + apply (li_act _ _ Hl).
    + apply (li_tid _ _ Hl).
    + intros x Hx. apply content_In in Hx. unfold memc in Hx. cbn [active sealed ver ments] in Hx.
      destruct Hx as [(c & [<-|Hc] & Hx)|(t0 & Ht & Hx)].
      * apply In_mt_insert in Hx. destruct Hx as [->|Hx]; [now left|right].
        apply (li_log _ _ Hl). now apply In_content_active.
      * right. apply (li_log _ _ Hl). eapply In_content_memc; [right; exact Hc|exact Hx].
      * right. apply (li_log _ _ Hl). eapply In_content_table; eauto.
Qed.

(** ** 5.2 rotate *)
Lemma minv_rotate st :
  minv st -> minv (mstep st MRotate).
Proof.
  intros [Ih Iw (l & L & Hl)]. unfold mstep. rewrite L.
  destruct (ments (active l)) as [|a0 ar] eqn:EA; [constructor; eauto|].
  destruct (hstep_rotate_latest (hs st) (next_mid st) l L) as [L' C'];
    [rewrite EA; discriminate|].
  constructor; cbn [hs wlog next_tid next_mid].
  - apply hinv_step; [exact Ih| |exact I]. intros e0 E. discriminate.
  - constructor; cbn [hs wlog]; rewrite ?C'; apply Iw.
  - eexists. split; [exact L'|]. unfold sv_rotate.
    destruct (sv_inv_elim l (li_inv _ _ Hl)) as (S1 & S2 & HV & R1 & R2).
    assert (map ments (rev (sealed l ++ [active l])) = memc l) as EM.
    { rewrite rev_app_distr. reflexivity. }
    constructor; unfold all_mts; cbn [active sealed ver mid ments next_mid next_tid wlog hs In].
    + apply sv_inv_intro; cbn [ments]; auto.
      * intros m Hm. apply in_app_or in Hm. destruct Hm as [Hm|[<-|[]]]; auto.
      * rewrite EM. cbn [recency_b]. rewrite R1, andb_true_r.
        apply forallb_forall. intros c _. reflexivity.
      * rewrite EM. intros c t0 [<-|Hc] Ht; [intros x y []|]. now apply R2.
    + intros m [<-|Hm]; cbn [mid]; [lia|].
      assert (mid m < next_mid st); [|lia]. apply (li_mid _ _ Hl).
      apply in_app_or in Hm. destruct Hm as [Hm|[<-|[]]]; [now right|now left].
    + intros m Hm. cbn [mid].
      assert (mid m < next_mid st); [|lia]. apply (li_mid _ _ Hl).
      apply in_app_or in Hm. destruct Hm as [Hm|[<-|[]]]; [now right|now left].
    + apply (li_tid _ _ Hl).
    + intros x Hx. apply (li_log _ _ Hl). apply content_In in Hx.
      unfold memc in Hx at 1. cbn [active sealed ver ments] in Hx. rewrite EM in Hx.
      apply content_In. destruct Hx as [(c & [<-|Hc] & Hx)|Hx]; [destruct Hx| |right; exact Hx].
      left. eauto.
Qed.

(** ** 5.3 history GC and the generic version upgrade *)
Lemma minv_maint st W :
  minv st ->
  minv (mkMS (hstep (hs st) (HMaint W)) (next_tid st) (next_mid st) (wlog st)).
Proof.
  intros [Ih Iw (l & L & Hl)].
  destruct (hstep_maint_latest (hs st) W) as [L' C'].
  constructor; cbn [hs wlog next_tid next_mid].
  - apply hinv_step; [exact Ih| |exact I]. intros e0 E. discriminate.
  - constructor; cbn [hs wlog]; rewrite ?C'; apply Iw.
  - exists l. split; [now rewrite L'|]. constructor; apply Hl.
Qed.

Lemma check_inv_sv_with_seq s sv : check_inv_sv (sv_with_seq s sv) = check_inv_sv sv.
Proof. reflexivity. Qed.

Lemma content_with_seq s sv : content (sv_with_seq s sv) = content sv.
Proof. reflexivity. Qed.

(** an upgrade whose closure keeps the active memtable, keeps a subset of the sealed
    memtables, yields a structurally sound superversion whose table ids are below the new
    counter value and whose entries all come from the old content *)
Lemma minv_upgrade st l f nt :
  minv st -> latest (hist (hs st)) = Some l -> seq_avail st = true ->
  check_inv_sv (f l) = true ->
  active (f l) = active l ->
  (forall m, In m (sealed (f l)) -> In m (sealed l)) ->
  (forall t, In t (all_tables (ver (f l))) -> tid t < nt) ->
  (forall e, In e (content (f l)) -> In e (content l)) ->
  minv (mkMS (hstep (hs st) (HUpgrade f)) nt (next_mid st) (wlog st)).
Proof.
  intros [Ih Iw (l0 & L0 & Hl)] L SA CI EA HS HT HC.
  rewrite L in L0. inversion L0; subst l0. clear L0.
  destruct (hstep_upgrade_latest (hs st) f l L) as [L' C'].
  assert (forall m, In m (all_mts (f l)) -> In m (all_mts l)) as HM.
  { unfold all_mts. rewrite EA. intros m [<-|Hm]; [now left|right; auto]. }
  constructor; cbn [hs wlog next_tid next_mid].
  - apply hinv_step; [exact Ih|intros e0 E; discriminate|].
    cbn [upg_seqs_ok]. intros l1 L1. rewrite L in L1. inversion L1; subst l1.
    apply seqs_below_spec. intros m e Hm He.
    assert (seq e < ctr (hs st)); [|lia].
    apply (hi_ents _ Ih l m e); auto. now apply latest_In.
  - constructor; cbn [hs wlog]; rewrite ?C'.
    + intros e He. pose proof (wi_seq _ Iw e He). lia.
    + apply Iw.
    + now apply seq_avail_lt.
  - eexists. split; [exact L'|].
    constructor; unfold all_mts; cbn [sv_with_seq active sealed ver next_mid next_tid wlog hs].
    + rewrite check_inv_sv_with_seq. exact CI.
    + intros m Hm. apply (li_mid _ _ Hl). apply HM. exact Hm.
    + intros m Hm. rewrite EA. apply (li_act _ _ Hl). auto.
    + exact HT.
    + intros e He. rewrite content_with_seq in He. apply (li_log _ _ Hl). auto.
Qed.

(** ** 5.4 facts about the merged input and the stream output *)

Lemma filter_none {A} (p : A -> bool) l : (forall x, In x l -> p x = false) -> filter p l = [].
Proof.
  induction l as [|x l IH]; intros H; [reflexivity|]. cbn [filter].
  rewrite (H x (or_introl eq_refl)). apply IH. intros y Hy. apply H. now right.
Qed.

Lemma remove_sealed_all ms : remove_sealed (map mid ms) ms = [].
Proof.
  unfold remove_sealed. apply filter_none. intros m Hm. apply negb_false_iff.
  apply existsb_exists. exists (mid m). split; [now apply in_map|apply N.eqb_refl].
Qed.

Lemma recency_NoDup_ik cs :
  all_sorted cs -> recency_b cs = true -> NoDup (map ik (concat cs)).
Proof.
  induction cs as [|c cs IH]; intros HS HR; [constructor|].
  cbn [concat]. rewrite map_app. apply NoDup_app_intro.
  - apply ssorted_NoDup_ik. rewrite ssorted_eq. apply HS. now left.
  - apply IH; [|eapply recency_tail; eauto]. intros c' Hc'. apply HS. now right.
  - intros x HA HB. apply in_map_iff in HA, HB.
    destruct HA as (a & <- & HA), HB as (b & E & HB). unfold ik in E. inversion E as [[Ek Es]].
    pose proof (recency_head _ _ HR a b HA HB (eq_sym Ek)). lia.
Qed.

Lemma merge_sorted_sorted_b srcs cs :
  Permutation srcs cs -> all_sorted cs -> recency_b cs = true ->
  sorted_b (merge_sorted srcs) = true.
Proof.
  intros P HS HR. rewrite <- ssorted_eq. apply merge_sorted_sorted_nodup.
  eapply Permutation_NoDup; [|apply (recency_NoDup_ik cs HS HR)].
  apply Permutation_map. apply perm_concat. now apply Permutation_sym.
Qed.

Lemma merge_sorted_In srcs e : In e (merge_sorted srcs) <-> In e (concat srcs).
Proof.
  split; apply Permutation_in; [|apply Permutation_sym]; apply merge_sorted_perm.
Qed.

Lemma stream_out_props W ev l :
  (sorted_b l = true -> sorted_b (fst (run_stream W ev no_filter l)) = true) /\
  subseq (fst (run_stream W ev no_filter l)) l.
Proof.
  destruct (run_stream W ev no_filter l) as [out log] eqn:E. cbn [fst]. split.
  - rewrite <- !ssorted_eq. intros HS. eapply cstream_out_sorted; eauto.
  - eapply cstream_out_subseq; eauto.
Qed.

Lemma ids_from_NoDup first n : NoDup (ids_from first n).
Proof.
  revert first; induction n as [|n IH]; intros first; cbn [ids_from]; constructor; [|apply IH].
  rewrite ids_from_In. lia.
Qed.

Lemma build_tables_In_tid fid cuts out t :
  sorted_b out = true -> cuts_ok cuts out = true ->
  In t (build_tables fid cuts out) -> fid <= tid t < fid + ids_used (build_tables fid cuts out).
Proof.
  intros HS HC HI.
  destruct (build_tables_gen cuts fid out HS HC) as (_ & _ & _ & I4 & _).
  assert (In (tid t) (ids_from fid (length (build_tables fid cuts out)))) as H
      by (rewrite <- I4; now apply in_map).
  apply ids_from_In in H. unfold ids_used. lia.
Qed.

Lemma build_tables_In_ents fid cuts out t e :
  sorted_b out = true -> cuts_ok cuts out = true ->
  In t (build_tables fid cuts out) -> In e (ents t) -> In e out.
Proof.
  intros HS HC HI He.
  destruct (build_tables_gen cuts fid out HS HC) as (_ & _ & I3 & _).
  rewrite <- I3. apply in_concat_map_ents. eauto.
Qed.

Lemma build_tables_opt_run_ok fid cuts out :
  sorted_b out = true -> cuts_ok cuts out = true ->
  opt_run_ok (build_tables fid cuts out) = true.
Proof.
  intros HS HC. destruct (build_tables_gen cuts fid out HS HC) as (I1 & I2 & _).
  unfold opt_run_ok. now rewrite I1, I2.
Qed.

(** ** 5.5 flush *)

Lemma levels_nonempty v : version_inv v = true -> levels v <> [].
Proof. intros H E. apply version_inv_length in H. rewrite E in H. discriminate. Qed.

(** what the flush of the latest superversion [l] works on *)
Lemma flush_facts st l W :
  winv st -> linv st l ->
  let cs := map ments (rev (sealed l)) in
  let merged := merge_sorted (map ments (sealed l)) in
  sorted_b merged = true /\
  sorted_b (flush_out W l) = true /\
  subseq (flush_out W l) merged /\
  Permutation merged (concat cs) /\
  (forall x, In x (flush_out W l) -> exists m, In m (sealed l) /\ In x (ments m)).
Proof.
  intros Iw Hl cs merged.
  destruct (sv_inv_elim l (li_inv _ _ Hl)) as (S1 & S2 & HV & R1 & R2).
  assert (Permutation (map ments (sealed l)) cs) as P
      by (apply Permutation_map, Permutation_rev).
  assert (sorted_b merged = true) as HSm.
  { apply (merge_sorted_sorted_b _ cs P).
    - intros c Hc. apply in_map_iff in Hc. destruct Hc as (m & <- & Hm).
      apply S2. now apply in_rev.
    - eapply recency_tail. exact R1. }
  destruct (stream_out_props W false merged) as [O1 O2]. fold (flush_out W l) in O1, O2.
  repeat split; auto.
  - eapply perm_trans; [apply merge_sorted_perm|]. now apply perm_concat.
  - intros x Hx. apply (subseq_incl _ _ O2) in Hx. apply merge_sorted_In in Hx.
    apply in_concat in Hx. destruct Hx as (c & Hc & Hx). apply in_map_iff in Hc.
    destruct Hc as (m & <- & Hm). eauto.
Qed.

Lemma minv_flush st W cuts :
  minv st -> mop_ok st (MFlush W cuts) = true -> minv (mstep st (MFlush W cuts)).
Proof.
  intros M OK. pose proof M as [Ih Iw (l & L & Hl)].
  unfold mop_ok in OK. rewrite L in OK. apply andb_true_iff in OK. destruct OK as [SA HC].
  unfold mstep. rewrite L. destruct (sealed l) as [|m0 ms] eqn:ES; [exact M|]. rewrite <- ES.
  clear m0 ms ES.
  destruct (flush_facts st l W Iw Hl) as (HSm & HSo & SUB & _ & Hin).
  destruct (sv_inv_elim l (li_inv _ _ Hl)) as (S1 & S2 & HV & R1 & R2).
  set (out := flush_out W l) in *.
  set (tables := build_tables (next_tid st) cuts out).
  set (v' := with_new_l0_run (ver l) tables).
  assert (forall m, In m (sealed l) -> In (ments m) (memc l)) as Hmc
      by (intros m Hm; apply memc_In; right; eauto).
  assert (forall m, In m (sealed l) -> enewer (ments (active l)) (ments m)) as Hact.
  { intros m Hm. unfold memc in R1. cbn [recency_b] in R1. apply andb_true_iff in R1.
    destruct R1 as [R1 _]. rewrite forallb_forall in R1. unfold enewer.
    apply newer_than_spec. apply R1. apply in_map. now apply in_rev in Hm. }
  assert (forall t e, In t tables -> In e (ents t) -> exists m, In m (sealed l) /\ In e (ments m))
    as Htab.
  { intros t e Ht He. apply Hin. eapply build_tables_In_ents; eauto. }
  assert (version_inv v' = true) as HV'.
  { apply with_new_l0_run_inv; [exact HV|]. unfold l0_choice_ok.
    assert (opt_run_ok tables = true) as ORO by (apply build_tables_opt_run_ok; auto).
    rewrite ORO. cbn [andb]. apply andb_true_iff. split.
    - apply vs_nodup_N_b. rewrite map_app. apply NoDup_app_intro.
      + destruct (build_tables_gen cuts (next_tid st) out HSo HC) as (_ & _ & _ & I4 & _).
        fold tables in I4. rewrite I4. apply ids_from_NoDup.
      + now apply version_inv_nodup.
      + intros x HA HB. apply in_map_iff in HA, HB.
        destruct HA as (a & <- & HA), HB as (b & E & HB).
        pose proof (build_tables_In_tid _ _ _ _ HSo HC HA).
        pose proof (li_tid _ _ Hl b HB). lia.
    - apply vs_all_newer_iff. intros x y Hx Hy. unfold tnewer. apply newer_than_spec.
      intros e e' He He'. destruct (Htab x e Hx He) as (m & Hm & Hem).
      apply (R2 (ments m) y (Hmc m Hm) Hy e e' Hem He'). }
  assert (forall t, In t (all_tables v') -> In t tables \/ In t (all_tables (ver l))) as Hsplit.
  { intros t Ht. apply in_app_or.
    eapply Permutation_in; [apply new_l0_tables_perm; now apply levels_nonempty|exact Ht]. }
  apply (minv_maint (mkMS (hstep (hs st) (HUpgrade (sv_flushed (map mid (sealed l)) tables)))
                          (next_tid st + ids_used tables) (next_mid st) (wlog st)) W).
  apply (minv_upgrade st l _ _ M L SA); unfold sv_flushed; cbn [active sealed ver];
    rewrite ?remove_sealed_all; fold v'.
  - apply sv_inv_intro; auto.
    cbn [rev map]. intros c t [<-|[]] Ht. destruct (Hsplit t Ht) as [Ht'|Ht'].
    + intros e e' He He' Ek. destruct (Htab t e' Ht' He') as (m & Hm & Hem).
      apply (Hact m Hm e e' He Hem Ek).
    + apply R2; [now left|exact Ht'].
  - reflexivity.
  - intros m [].
  - intros t Ht. destruct (Hsplit t Ht) as [Ht'|Ht'].
    + pose proof (build_tables_In_tid _ _ _ _ HSo HC Ht'). fold tables in H. lia.
    + pose proof (li_tid _ _ Hl t Ht'). unfold ids_used. lia.
  - intros e He. apply content_In in He. unfold memc in He. cbn [active sealed ver rev map] in He.
    destruct He as [(c & [<-|[]] & He)|(t & Ht & He)].
    + now apply In_content_active.
    + destruct (Hsplit t Ht) as [Ht'|Ht'].
      * destruct (Htab t e Ht' He) as (m & Hm & Hem). eapply In_content_sealed; eauto.
      * eapply In_content_table; eauto.
Qed.

(** ** 5.6 compaction and move: the version changes, the memtables stay *)

Lemma minv_version_change st l v' nt f :
  minv st -> latest (hist (hs st)) = Some l -> seq_avail st = true ->
  f l = mkSV (sv_seq l) (active l) (sealed l) v' ->
  version_inv v' = true ->
  (forall t, In t (all_tables v') -> tid t < nt) ->
  (forall t e, In t (all_tables v') -> In e (ents t) ->
     exists t0, In t0 (all_tables (ver l)) /\ In e (ents t0)) ->
  minv (mkMS (hstep (hs st) (HUpgrade f)) nt (next_mid st) (wlog st)).
Proof.
  intros M L SA Ef HV' HT HE. pose proof M as [Ih Iw (l0 & L0 & Hl)].
  rewrite L in L0. inversion L0; subst l0. clear L0.
  destruct (sv_inv_elim l (li_inv _ _ Hl)) as (S1 & S2 & HV & R1 & R2).
  apply (minv_upgrade st l f nt M L SA); rewrite Ef; cbn [active sealed ver]; auto.
  - apply sv_inv_intro; auto. intros c t Hc Ht e e' He He' Ek.
    destruct (HE t e' Ht He') as (t0 & Ht0 & He0). apply (R2 c t0 Hc Ht0 e e' He He0 Ek).
  - intros e He. apply content_In in He. unfold memc in He. cbn [active sealed ver] in He.
    destruct He as [(c & Hc & He)|(t & Ht & He)].
    + eapply In_content_memc; eauto.
    + destruct (HE t e Ht He) as (t0 & Ht0 & He0). eapply In_content_table; eauto.
Qed.

(** what a compaction of the tables [ids] of version [v] works on *)
Lemma compact_facts v ids W dest :
  version_inv v = true ->
  sorted_b (compact_merged v ids) = true /\
  sorted_b (compact_out W dest v ids) = true /\
  subseq (compact_out W dest v ids) (compact_merged v ids) /\
  Permutation (compact_merged v ids) (concat (map ents (compact_in v ids))) /\
  (forall x, In x (compact_out W dest v ids) ->
     exists t, In t (compact_in v ids) /\ In x (ents t)).
Proof.
  intros HV. unfold compact_out, compact_merged.
  assert (sorted_b (merge_sorted (map ents (compact_in v ids))) = true) as HSm.
  { apply (merge_sorted_sorted_b _ _ (Permutation_refl _)).
    - intros c Hc. apply in_map_iff in Hc. destruct Hc as (t & <- & Ht).
      apply table_sorted. eapply version_inv_table_ok; eauto. eapply compact_in_In; eauto.
    - apply (vs_trec_filter (id_in ids) (all_tables v)). now apply version_inv_recency. }
  destruct (stream_out_props W (is_last_level dest) (merge_sorted (map ents (compact_in v ids))))
    as [O1 O2].
  repeat split; auto.
  - apply merge_sorted_perm.
  - intros x Hx. apply (subseq_incl _ _ O2) in Hx. apply merge_sorted_In in Hx.
    now apply in_concat_map_ents.
Qed.

Lemma ltb_7_lt dest v : Nat.ltb dest 7 = true -> version_inv v = true ->
  (dest < length (levels v))%nat.
Proof. intros H HV. apply Nat.ltb_lt in H. rewrite (version_inv_length _ HV). exact H. Qed.

Lemma minv_compact st ids dest W cuts :
  minv st -> mop_ok st (MCompact ids dest W cuts) = true ->
  minv (mstep st (MCompact ids dest W cuts)).
Proof.
  intros M OK. pose proof M as [Ih Iw (l & L & Hl)].
  unfold mop_ok in OK. rewrite L in OK. rewrite !andb_true_iff in OK.
  destruct OK as [[[[[[[[SA _] _] EX] _] HD] HC] MC] _].
  unfold mstep. rewrite L, EX.
  destruct (sv_inv_elim l (li_inv _ _ Hl)) as (S1 & S2 & HV & R1 & R2).
  destruct (compact_facts (ver l) ids W dest HV) as (HSm & HSo & SUB & _ & Hin).
  set (out := compact_out W dest (ver l) ids) in *.
  set (new := build_tables (next_tid st) cuts out) in *.
  set (v' := with_merge (ver l) ids new dest).
  assert (version_inv v' = true) as HV' by (apply with_merge_inv; assumption).
  assert (forall t, In t (all_tables v') ->
                    In t new \/ In t (kept ids (all_tables (ver l)))) as Hsplit.
  { intros t Ht. apply in_app_or.
    eapply Permutation_in; [|exact Ht]. apply merge_tables_perm. now apply ltb_7_lt. }
  apply (minv_maint (mkMS (hstep (hs st) (HUpgrade (sv_merged ids new dest)))
                          (next_tid st + ids_used new) (next_mid st) (wlog st)) W).
  apply (minv_version_change st l v' _ _ M L SA); auto.
  - intros t Ht. destruct (Hsplit t Ht) as [Ht'|Ht'].
    + pose proof (build_tables_In_tid _ _ _ _ HSo HC Ht'). fold new in H. lia.
    + pose proof (li_tid _ _ Hl t (kept_In _ _ _ Ht')). unfold ids_used. lia.
  - intros t e Ht He. destruct (Hsplit t Ht) as [Ht'|Ht'].
    + destruct (Hin e (build_tables_In_ents _ _ _ _ _ HSo HC Ht' He)) as (t0 & Ht0 & He0).
      exists t0. split; [eapply compact_in_In; eauto|exact He0].
    + exists t. split; [eapply kept_In; eauto|exact He].
Qed.

Lemma minv_move st ids dest :
  minv st -> mop_ok st (MMove ids dest) = true -> minv (mstep st (MMove ids dest)).
Proof.
  intros M OK. pose proof M as [Ih Iw (l & L & Hl)].
  unfold mop_ok in OK. rewrite L in OK. rewrite !andb_true_iff in OK.
  destruct OK as [[[[[SA _] _] _] HD] MC].
  unfold mstep. rewrite L.
  destruct (sv_inv_elim l (li_inv _ _ Hl)) as (S1 & S2 & HV & R1 & R2).
  set (v' := with_moved (ver l) ids dest).
  assert (version_inv v' = true) as HV' by (apply with_moved_inv; assumption).
  assert (forall t, In t (all_tables v') -> In t (all_tables (ver l))) as Hsub.
  { intros t Ht. eapply Permutation_in; [|exact Ht]. apply moved_tables_perm.
    now apply ltb_7_lt. }
  apply (minv_version_change st l v' _ _ M L SA); auto.
  - intros t Ht. apply (li_tid _ _ Hl). auto.
  - intros t e Ht He. exists t. auto.
Qed.

(** ** 5.7 every step, every run *)

Lemma minv_step st o : minv st -> mop_ok st o = true -> minv (mstep st o).
Proof.
  intros M OK. destruct o as [k t v| |W cuts|ids dest W cuts|ids dest|W].
  - now apply minv_write.
  - now apply minv_rotate.
  - now apply minv_flush.
  - now apply minv_compact.
  - now apply minv_move.
  - pose proof M as [_ _ (l & L & _)]. unfold mstep. rewrite L. now apply minv_maint.
Qed.

Lemma minv_run : forall ops st, minv st -> mops_ok st ops = true -> minv (mrun st ops).
Proof.
  induction ops as [|o ops IH]; intros st M OK; [exact M|].
  cbn [mops_ok] in OK. apply andb_true_iff in OK. destruct OK as [O1 O2].
  cbn [mrun fold_left]. apply IH; [now apply minv_step|exact O2].
Qed.

Lemma minv_init : minv minit.
Proof.
  constructor.
  - apply hinv_init.
  - constructor; cbn; [intros e []|constructor|discriminate].
  - eexists. split; [reflexivity|]. constructor; cbn.
    + reflexivity.
    + intros m [<-|[]]. reflexivity.
    + intros m [].
    + intros t [].
    + intros e [].
Qed.

(** Result 2 (record form): every reachable state satisfies the machine invariant *)
Theorem machine_minv : forall ops, mops_ok minit ops = true -> minv (mrun minit ops).
Proof. intros ops OK. apply minv_run; [apply minv_init|exact OK]. Qed.

(** * 6. [newest] over a union *)

Definition nmax (a b : option entry) : option entry :=
  match a, b with
  | Some x, Some y => if seq x <? seq y then Some y else Some x
  | Some x, None => Some x
  | None, y => y
  end.

Lemma newest_app_max k S a b :
  uniq (a ++ b) -> newest k S (a ++ b) = nmax (newest k S a) (newest k S b).
Proof.
  intros U.
  destruct (newest k S a) as [x|] eqn:A; destruct (newest k S b) as [y|] eqn:B; cbn [nmax].
  - destruct (newest_some _ _ _ _ A) as [XI XM]. destruct (newest_some _ _ _ _ B) as [YI YM].
    destruct (seq x <? seq y) eqn:C.
    + apply N.ltb_lt in C. apply newest_char; auto; [apply in_or_app; auto|].
      intros e' HI HM. apply in_app_or in HI. destruct HI as [HI|HI].
      * pose proof (newest_max _ _ _ _ A e' HI HM). lia.
      * apply (newest_max _ _ _ _ B e' HI HM).
    + apply N.ltb_ge in C. apply newest_char; auto; [apply in_or_app; auto|].
      intros e' HI HM. apply in_app_or in HI. destruct HI as [HI|HI].
      * apply (newest_max _ _ _ _ A e' HI HM).
      * pose proof (newest_max _ _ _ _ B e' HI HM). lia.
  - destruct (newest_some _ _ _ _ A) as [XI XM]. rewrite newest_none in B.
    apply newest_char; auto; [apply in_or_app; auto|].
    intros e' HI HM. apply in_app_or in HI. destruct HI as [HI|HI].
    + apply (newest_max _ _ _ _ A e' HI HM).
    + rewrite (B e' HI) in HM. discriminate.
  - destruct (newest_some _ _ _ _ B) as [YI YM]. rewrite newest_none in A.
    apply newest_char; auto; [apply in_or_app; auto|].
    intros e' HI HM. apply in_app_or in HI. destruct HI as [HI|HI].
    + rewrite (A e' HI) in HM. discriminate.
    + apply (newest_max _ _ _ _ B e' HI HM).
  - rewrite newest_none in *. intros e HI. apply in_app_or in HI. destruct HI; auto.
Qed.

(** replacing a part [I] of a bag by [O] with the same newest version of [k] *)
Lemma newest_replace_eq k S I O R :
  uniq (I ++ R) -> uniq (O ++ R) -> newest k S O = newest k S I ->
  newest k S (O ++ R) = newest k S (I ++ R).
Proof. intros U1 U2 E. rewrite !newest_app_max by assumption. now rewrite E. Qed.

(** replacing [I], whose newest version of [k] is a tombstone, by [O] without any version
    of [k], when everything else of [k] is newer than that tombstone *)
Lemma newest_replace_evict k S I O R t :
  uniq (I ++ R) -> uniq (O ++ R) ->
  newest k S I = Some t -> is_tomb t = true -> newest k S O = None ->
  (forall r, In r R -> ukey r = k -> seq t < seq r) ->
  visible (newest k S (O ++ R)) = visible (newest k S (I ++ R)).
Proof.
  intros U1 U2 EI TB EO HR. rewrite !newest_app_max by assumption. rewrite EI, EO.
  destruct (newest k S R) as [r|] eqn:ER; cbn [nmax].
  - destruct (newest_some _ _ _ _ ER) as [RI RM]. apply matches_iff in RM.
    destruct RM as [Rk _]. specialize (HR r RI Rk). apply N.ltb_lt in HR. now rewrite HR.
  - cbn [visible]. now rewrite TB.
Qed.
