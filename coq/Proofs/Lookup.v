(** Soundness of the model's point-read path ([sv_get_raw], [sv_get]) with respect to
    the Spec ([newest], [spec_get]) under the decidable structural invariant
    [check_inv_sv].

    Structure:
    - order facts on [ikey_lt]; [sorted_b] implies [StronglySorted ikey_lt] and [uniq];
    - [slab_get] (Memtable::get / the block lookup inside Table::get) is [newest] on a
      sorted slab;
    - [table_get] is [newest] on the table's entries when the table metadata is exact
      and the filter has no false negatives;
    - [run_get_for_key] picks the only table of a disjoint run that can hold the key;
    - [recency_b] makes [newest] over the concatenation of all containers equal to the
      first container (in lookup order) with a visible hit ([first_hit]);
    - the read path computes exactly [first_hit] over [containers sv]. *)
From LsmV Require Import Model.Tree Proofs.Newest.
From Coq Require Import Sorting.Sorted.
Open Scope N_scope.

Arguments N.add : simpl never.
Arguments N.sub : simpl never.
Arguments N.mul : simpl never.
Arguments N.ltb : simpl never.
Arguments N.leb : simpl never.
Arguments N.eqb : simpl never.

(** * The internal-key order *)

Lemma ikey_ltb_spec a b :
  ikey_ltb a b = true <->
  key_lt (ukey a) (ukey b) \/ (ukey a = ukey b /\ seq b < seq a).
Proof.
  unfold ikey_ltb, key_lt. destruct (key_cmp (ukey a) (ukey b)) eqn:E.
  - apply key_cmp_eq in E. rewrite N.ltb_lt. split.
    + intros H. right. auto.
    + intros [H|[_ H]]; [discriminate|exact H].
  - split; auto.
  - split; [discriminate|]. intros [H|[H _]]; [discriminate|].
    apply (proj2 (key_cmp_eq _ _)) in H. congruence.
Qed.

Lemma ikey_lt_trans a b c : ikey_lt a b -> ikey_lt b c -> ikey_lt a c.
Proof.
  unfold ikey_lt. rewrite !ikey_ltb_spec.
  intros [H1|[E1 H1]] [H2|[E2 H2]].
  - left. eapply key_lt_trans; eauto.
  - left. rewrite <- E2. exact H1.
  - left. rewrite E1. exact H2.
  - right. split; [congruence|lia].
Qed.

Lemma ikey_lt_irrefl a : ~ ikey_lt a a.
Proof.
  unfold ikey_lt. rewrite ikey_ltb_spec. intros [H|[_ H]].
  - exact (key_lt_irrefl _ H).
  - lia.
Qed.

Lemma ikey_lt_key_le a b : ikey_lt a b -> key_le (ukey a) (ukey b).
Proof.
  unfold ikey_lt. rewrite ikey_ltb_spec. intros [H|[E _]].
  - now apply key_lt_le.
  - rewrite E. apply key_le_refl.
Qed.

(** * Sorted slabs *)

Lemma sorted_b_cons2 e e' l :
  sorted_b (e :: e' :: l) = ikey_ltb e e' && sorted_b (e' :: l).
Proof. reflexivity. Qed.

Lemma sorted_b_cons e l : sorted_b (e :: l) = true -> sorted_b l = true.
Proof.
  destruct l as [|e' l']; [reflexivity|].
  rewrite sorted_b_cons2. intros H. apply andb_true_iff in H. apply H.
Qed.

Lemma sorted_b_StronglySorted : forall l, sorted_b l = true -> StronglySorted ikey_lt l.
Proof.
  induction l as [|e l IH]; intros H; [constructor|].
  pose proof (sorted_b_cons _ _ H) as Hl. specialize (IH Hl).
  constructor; [exact IH|].
  destruct l as [|e' l']; [constructor|].
  rewrite sorted_b_cons2 in H. apply andb_true_iff in H. destruct H as [H1 _].
  inversion IH as [|x l0 SS FA]; subst.
  constructor; [exact H1|].
  eapply Forall_impl; [|exact FA]. intros x Hx.
  eapply ikey_lt_trans; [exact H1|exact Hx].
Qed.

Lemma sorted_head_lt e l :
  sorted_b (e :: l) = true -> forall x, In x l -> ikey_lt e x.
Proof.
  intros H. apply sorted_b_StronglySorted in H.
  inversion H as [|x l0 SS FA]; subst.
  rewrite Forall_forall in FA. exact FA.
Qed.

Lemma sorted_uniq : forall l, sorted_b l = true -> uniq l.
Proof.
  induction l as [|x l IH]; intros H e1 e2 H1 H2 Ek Es; [contradiction|].
  pose proof (sorted_head_lt _ _ H) as HL.
  specialize (IH (sorted_b_cons _ _ H)).
  destruct H1 as [<-|H1], H2 as [<-|H2].
  - reflexivity.
  - exfalso. specialize (HL _ H2). unfold ikey_lt in HL. rewrite ikey_ltb_spec in HL.
    destruct HL as [HL|[_ HL]]; [|lia]. rewrite Ek in HL. exact (key_lt_irrefl _ HL).
  - exfalso. specialize (HL _ H1). unfold ikey_lt in HL. rewrite ikey_ltb_spec in HL.
    destruct HL as [HL|[_ HL]]; [|lia]. rewrite Ek in HL. exact (key_lt_irrefl _ HL).
  - apply IH; auto.
Qed.

Lemma matches_key_neq k S e : ukey e <> k -> matches k S e = false.
Proof.
  intros H. unfold matches. apply key_eqb_neq in H. rewrite H. reflexivity.
Qed.

Lemma newest_none_key k S l :
  (forall e, In e l -> ukey e <> k) -> newest k S l = None.
Proof.
  intros H. apply newest_none. intros e HI. apply matches_key_neq. auto.
Qed.

(** the partition-point lookup on a sorted slab finds the newest visible version *)
Lemma lower_bound_newest l k S :
  S <> 0 -> sorted_b l = true ->
  match lower_bound k (S - 1) l with
  | Some e => if key_eqb (ukey e) k then Some e else None
  | None => None
  end = newest k S l.
Proof.
  intros HS. induction l as [|e l IH]; intros Hs; [reflexivity|].
  pose proof (sorted_b_cons _ _ Hs) as Hl.
  pose proof (sorted_head_lt _ _ Hs) as HL.
  cbn [lower_bound newest].
  destruct (before_probe k (S - 1) e) eqn:B.
  - (* [e] sorts before the probe: it is not a visible version of [k] *)
    assert (M : matches k S e = false).
    { unfold before_probe in B. unfold matches, key_eqb.
      destruct (key_cmp (ukey e) k) eqn:C; [|reflexivity|discriminate].
      apply N.ltb_lt in B. cbn [andb].
      apply N.ltb_ge. lia. }
    rewrite M. apply IH. exact Hl.
  - unfold before_probe in B.
    destruct (key_cmp (ukey e) k) eqn:C; [| discriminate |].
    + (* same user key, seqno below the snapshot: the hit *)
      assert (Ek : key_eqb (ukey e) k = true) by (unfold key_eqb; rewrite C; reflexivity).
      rewrite Ek.
      assert (M : matches k S e = true).
      { unfold matches. rewrite Ek. cbn [andb]. apply N.ltb_ge in B.
        apply N.ltb_lt. lia. }
      rewrite M.
      destruct (newest k S l) as [e'|] eqn:R; [|reflexivity].
      destruct (newest_some _ _ _ _ R) as [RI RM].
      apply matches_iff in RM. destruct RM as [Rk _].
      specialize (HL _ RI). unfold ikey_lt in HL. rewrite ikey_ltb_spec in HL.
      apply key_eqb_eq in Ek.
      destruct HL as [HL|[_ HL]].
      * exfalso. rewrite Ek, Rk in HL. exact (key_lt_irrefl _ HL).
      * apply N.ltb_lt in HL. rewrite HL. reflexivity.
    + (* already past [k]: no version of [k] here or later *)
      assert (Ek : key_eqb (ukey e) k = false) by (unfold key_eqb; rewrite C; reflexivity).
      rewrite Ek. symmetry.
      apply key_lt_gt in C.
      change (newest k S (e :: l) = None).
      apply newest_none_key. intros x [<-|HI] E.
      * rewrite E in C. exact (key_lt_irrefl _ C).
      * specialize (HL _ HI). apply ikey_lt_key_le in HL. rewrite E in HL.
        exact (key_lt_irrefl _ (key_lt_le_trans _ _ _ C HL)).
Qed.

Lemma slab_get_newest : forall l k S, sorted_b l = true -> slab_get l k S = newest k S l.
Proof.
  intros l k S Hs. unfold slab_get.
  destruct (S =? 0) eqn:Z.
  - apply N.eqb_eq in Z. subst S. symmetry. apply newest_none.
    intros e _. unfold matches. replace (seq e <? 0) with false.
    + apply andb_false_r.
    + symmetry. apply N.ltb_ge. lia.
  - apply N.eqb_neq in Z. apply lower_bound_newest; assumption.
Qed.

(** * Tables *)

Lemma fold_min_le l : forall a,
  fold_left (fun a x => N.min a (seq x)) l a <= a /\
  forall x, In x l -> fold_left (fun a x => N.min a (seq x)) l a <= seq x.
Proof.
  induction l as [|y l IH]; intros a; cbn [fold_left].
  - split; [lia|intros x []].
  - destruct (IH (N.min a (seq y))) as [H1 H2]. split; [lia|].
    intros x [->|HI]; [lia|auto].
Qed.

Lemma min_seq_le l e : In e l -> min_seq l <= seq e.
Proof.
  destruct l as [|e0 l]; [intros []|]. unfold min_seq.
  destruct (fold_min_le l (seq e0)) as [H1 H2].
  intros [->|HI]; [exact H1|auto].
Qed.

Lemma sorted_last_ge l : sorted_b l = true ->
  forall d x, In x l -> key_le (ukey x) (ukey (last l d)).
Proof.
  induction l as [|e l IH]; intros Hs d x HI; [contradiction|].
  destruct l as [|e' l'].
  - destruct HI as [->|[]]. apply key_le_refl.
  - pose proof (sorted_b_cons _ _ Hs) as Hl.
    change (last (e :: e' :: l') d) with (last (e' :: l') d).
    destruct HI as [<-|HI].
    + eapply key_le_trans; [|apply (IH Hl d e'); left; reflexivity].
      apply ikey_lt_key_le. apply (sorted_head_lt _ _ Hs). left; reflexivity.
    + apply IH; assumption.
Qed.

Lemma table_ok_inv t : table_ok t = true ->
  sorted_b (ents t) = true /\
  exists e0 l, ents t = e0 :: l /\ kmin t = ukey e0 /\
               kmax t = ukey (last (e0 :: l) e0) /\
               slo t + gseq t = min_seq (ents t).
Proof.
  unfold table_ok, table_meta_ok. intros H.
  apply andb_true_iff in H. destruct H as [Hs H]. split; [exact Hs|].
  destruct (ents t) as [|e0 l] eqn:E; [discriminate|].
  rewrite !andb_true_iff in H.
  destruct H as [[[[[[H1 H2] H3] _] _] _] _].
  exists e0, l. key_prop. apply N.eqb_eq in H3. auto.
Qed.

Lemma table_sorted t : table_ok t = true -> sorted_b (ents t) = true.
Proof. intros H. apply (table_ok_inv _ H). Qed.

(** the stored key range is exact: it bounds all entries, and is non-empty *)
Lemma table_bounds t : table_ok t = true ->
  (forall e, In e (ents t) -> key_le (kmin t) (ukey e) /\ key_le (ukey e) (kmax t)) /\
  key_le (kmin t) (kmax t).
Proof.
  intros H. destruct (table_ok_inv _ H) as [Hs [e0 [l [E [Kmin [Kmax _]]]]]].
  rewrite E in *.
  assert (A : forall e, In e (e0 :: l) ->
                        key_le (kmin t) (ukey e) /\ key_le (ukey e) (kmax t)).
  { intros e HI. split.
    - rewrite Kmin. destruct HI as [<-|HI]; [apply key_le_refl|].
      apply ikey_lt_key_le. apply (sorted_head_lt _ _ Hs). exact HI.
    - rewrite Kmax. apply sorted_last_ge; assumption. }
  split; [exact A|].
  destruct (A e0 (or_introl eq_refl)) as [A1 A2]. eapply key_le_trans; eauto.
Qed.

Lemma table_seq_lower t : table_ok t = true ->
  forall e, In e (ents t) -> slo t + gseq t <= seq e.
Proof.
  intros H e HI. destruct (table_ok_inv _ H) as [_ [e0 [l [_ [_ [_ M]]]]]].
  rewrite M. apply min_seq_le. exact HI.
Qed.

Lemma table_get_newest : forall flt t k S,
  table_ok t = true ->
  (forall e, In e (ents t) -> flt (tid t) (ukey e) = true) ->
  table_get flt t k S = newest k S (ents t).
Proof.
  intros flt t k S Hok Hf. unfold table_get, ssub.
  destruct (S - gseq t <=? slo t) eqn:G.
  - (* seqno guard: the whole table is invisible at this snapshot *)
    apply N.leb_le in G. symmetry. apply newest_none. intros e HI.
    pose proof (table_seq_lower _ Hok _ HI) as L.
    unfold matches. replace (seq e <? S) with false; [apply andb_false_r|].
    symmetry. apply N.ltb_ge. lia.
  - destruct (flt (tid t) k) eqn:F; cbn [negb].
    + apply slab_get_newest. apply table_sorted. exact Hok.
    + (* filter miss: sound filters have no false negatives *)
      symmetry. apply newest_none_key. intros e HI E.
      specialize (Hf _ HI). rewrite E in Hf. congruence.
Qed.

(** * Runs *)

Lemma run_disjoint_cons2 t t' r :
  run_disjoint_b (t :: t' :: r) = key_ltb (kmax t) (kmin t') && run_disjoint_b (t' :: r).
Proof. reflexivity. Qed.

Lemma run_disjoint_cons t r : run_disjoint_b (t :: r) = true -> run_disjoint_b r = true.
Proof.
  destruct r as [|t' r']; [reflexivity|].
  rewrite run_disjoint_cons2. intros H. apply andb_true_iff in H. apply H.
Qed.

Lemma run_head_lt r : forall t,
  forallb table_ok (t :: r) = true -> run_disjoint_b (t :: r) = true ->
  forall t', In t' r -> key_lt (kmax t) (kmin t').
Proof.
  induction r as [|t1 r IH]; intros t Hok Hd t' HI; [contradiction|].
  rewrite run_disjoint_cons2 in Hd. apply andb_true_iff in Hd. destruct Hd as [D1 D2].
  key_prop.
  destruct HI as [<-|HI]; [exact D1|].
  cbn [forallb] in Hok. apply andb_true_iff in Hok. destruct Hok as [_ Hok].
  pose proof Hok as Hok'. cbn [forallb] in Hok'. apply andb_true_iff in Hok'.
  destruct Hok' as [Ht1 _].
  specialize (IH t1 Hok D2 t' HI).
  destruct (table_bounds _ Ht1) as [_ B].
  eapply key_lt_trans; [|exact IH]. eapply key_lt_le_trans; eauto.
Qed.

Lemma run_ok_inv r : run_ok r = true ->
  r <> [] /\ forallb table_ok r = true /\ run_disjoint_b r = true.
Proof.
  unfold run_ok. destruct r as [|t r]; [discriminate|].
  intros H. apply andb_true_iff in H. destruct H. split; [discriminate|auto].
Qed.

Lemma run_ok_table r t : run_ok r = true -> In t r -> table_ok t = true.
Proof.
  intros H HI. destruct (run_ok_inv _ H) as [_ [Hok _]].
  rewrite forallb_forall in Hok. auto.
Qed.

Definition no_key (k : key) (t : table) : Prop := forall e, In e (ents t) -> ukey e <> k.

Lemma run_get_for_key_aux r k :
  forallb table_ok r = true -> run_disjoint_b r = true ->
  match run_get_for_key r k with
  | Some t => exists r1 r2, r = r1 ++ t :: r2 /\ forall t', In t' (r1 ++ r2) -> no_key k t'
  | None => forall t', In t' r -> no_key k t'
  end.
Proof.
  induction r as [|t r IH]; intros Hok Hd; cbn [run_get_for_key]; [intros t' []|].
  pose proof (run_head_lt _ _ Hok Hd) as HL.
  pose proof Hok as Hok'. cbn [forallb] in Hok'. apply andb_true_iff in Hok'.
  destruct Hok' as [Ht Hr].
  destruct (table_bounds _ Ht) as [B Bmm].
  specialize (IH Hr (run_disjoint_cons _ _ Hd)).
  destruct (key_ltb (kmax t) k) eqn:C1; key_prop.
  - (* whole table below [k]: skipped by the partition point *)
    assert (N0 : no_key k t).
    { intros e HI E. destruct (B _ HI) as [_ B2]. rewrite E in B2.
      exact (key_lt_irrefl _ (key_le_lt_trans _ _ _ B2 C1)). }
    destruct (run_get_for_key r k) as [t0|].
    + destruct IH as [r1 [r2 [E HN]]]. exists (t :: r1), r2. split.
      * rewrite E. reflexivity.
      * intros t' [<-|HI]; [exact N0|]. apply HN. exact HI.
    + intros t' [<-|HI]; [exact N0|]. apply IH. exact HI.
  - (* k <= kmax t: all later tables lie strictly above [k] *)
    assert (NR : forall t', In t' r -> no_key k t').
    { intros t' HI e He E. specialize (HL _ HI).
      rewrite forallb_forall in Hr. destruct (table_bounds _ (Hr _ HI)) as [B' _].
      destruct (B' _ He) as [B1 _]. rewrite E in B1.
      exact (key_lt_irrefl _ (key_le_lt_trans _ _ _ C1 (key_lt_le_trans _ _ _ HL B1))). }
    destruct (key_leb (kmin t) k) eqn:C2; key_prop.
    + exists [], r. split; [reflexivity|]. exact NR.
    + intros t' [<-|HI]; [|apply NR; exact HI].
      intros e He E. destruct (B _ He) as [B1 _]. rewrite E in B1.
      exact (key_lt_irrefl _ (key_lt_le_trans _ _ _ C2 B1)).
Qed.

(** [run_get_for_key] returns the only table of the run that can hold [k]: the run
    splits around it and no other table (before or after) has an entry with user key
    [k]; on [None], no table of the run has such an entry. *)
Theorem run_get_for_key_spec : forall r k, run_ok r = true ->
  match run_get_for_key r k with
  | Some t => exists r1 r2, r = r1 ++ t :: r2 /\
                            forall t', In t' (r1 ++ r2) -> forall e, In e (ents t') -> ukey e <> k
  | None => forall t', In t' r -> forall e, In e (ents t') -> ukey e <> k
  end.
Proof.
  intros r k H. destruct (run_ok_inv _ H) as [_ [Hok Hd]].
  exact (run_get_for_key_aux r k Hok Hd).
Qed.

Corollary run_get_for_key_In r k t :
  run_ok r = true -> run_get_for_key r k = Some t -> In t r /\ table_ok t = true.
Proof.
  intros H E. pose proof (run_get_for_key_spec r k H) as Sp. rewrite E in Sp.
  destruct Sp as [r1 [r2 [-> _]]].
  assert (HI : In t (r1 ++ t :: r2)) by (apply in_or_app; right; left; reflexivity).
  split; [exact HI|]. eapply run_ok_table; eauto.
Qed.

(** a table holding an entry with key [k] is the one [run_get_for_key] selects *)
Corollary run_get_for_key_complete r k t e :
  run_ok r = true -> In t r -> In e (ents t) -> ukey e = k ->
  run_get_for_key r k = Some t.
Proof.
  intros H HI He Ek. pose proof (run_get_for_key_spec r k H) as Sp.
  destruct (run_get_for_key r k) as [t0|].
  - destruct Sp as [r1 [r2 [-> HN]]]. f_equal.
    apply in_app_or in HI. destruct HI as [HI|[HI|HI]]; [|exact HI|].
    + exfalso. apply (HN t (in_or_app _ _ _ (or_introl HI)) e He Ek).
    + exfalso. apply (HN t (in_or_app _ _ _ (or_intror HI)) e He Ek).
  - exfalso. exact (Sp t HI e He Ek).
Qed.

(** * Recency *)

Lemma newer_than_spec c c' :
  newer_than c c' = true <->
  forall e e', In e c -> In e' c' -> ukey e = ukey e' -> seq e' < seq e.
Proof.
  unfold newer_than. rewrite forallb_forall. split.
  - intros H e e' HI HI' Ek. specialize (H e HI). rewrite forallb_forall in H.
    specialize (H e' HI'). apply orb_true_iff in H. destruct H as [H|H].
    + apply negb_true_iff in H. key_prop. contradiction.
    + apply N.ltb_lt. exact H.
  - intros H e HI. rewrite forallb_forall. intros e' HI'.
    destruct (key_eqb (ukey e) (ukey e')) eqn:Ek; cbn [negb orb]; [|reflexivity].
    key_prop. apply N.ltb_lt. auto.
Qed.

Lemma recency_b_pairs cs :
  recency_b cs = true <-> ForallOrdPairs (fun c c' => newer_than c c' = true) cs.
Proof.
  induction cs as [|c cs IH]; cbn [recency_b].
  - split; [constructor|reflexivity].
  - rewrite andb_true_iff, forallb_forall, IH. split.
    + intros [H1 H2]. constructor; [apply Forall_forall; exact H1|exact H2].
    + intros H. inversion H as [|x l FA FO]; subst. rewrite Forall_forall in FA. auto.
Qed.

(** positional form: a container at an earlier lookup position holds strictly newer
    versions (of every key the two share) than a container at a later position *)
Lemma recency_b_spec cs :
  recency_b cs = true <->
  forall i j c c', (i < j)%nat -> nth_error cs i = Some c -> nth_error cs j = Some c' ->
    forall e e', In e c -> In e' c' -> ukey e = ukey e' -> seq e' < seq e.
Proof.
  induction cs as [|c0 cs IH]; cbn [recency_b].
  - split; [|reflexivity]. intros _ i j c c' _ Hi. destruct i; discriminate.
  - rewrite andb_true_iff, forallb_forall, IH. split.
    + intros [H1 H2] i j c c' Hij Hi Hj.
      destruct j as [|j]; [lia|]. cbn [nth_error] in Hj.
      destruct i as [|i]; cbn [nth_error] in Hi.
      * inversion Hi; subst c0. apply newer_than_spec. apply H1.
        eapply nth_error_In; eauto.
      * apply (H2 i j c c'); [lia|assumption|assumption].
    + intros H. split.
      * intros c' HI. apply In_nth_error in HI. destruct HI as [j Hj].
        apply newer_than_spec. apply (H 0%nat (S j) c0 c'); [lia|reflexivity|exact Hj].
      * intros i j c c' Hij Hi Hj. apply (H (S i) (S j) c c'); [lia|exact Hi|exact Hj].
Qed.

(** * [newest] over a recency-ordered list of sorted containers *)

Definition all_sorted (cs : list (list entry)) : Prop :=
  forall c, In c cs -> sorted_b c = true.

Lemma uniq_app a b :
  uniq a -> uniq b ->
  (forall e e', In e a -> In e' b -> ukey e = ukey e' -> seq e <> seq e') ->
  uniq (a ++ b).
Proof.
  intros Ua Ub Hab e1 e2 H1 H2 Ek Es.
  apply in_app_or in H1. apply in_app_or in H2.
  destruct H1 as [H1|H1], H2 as [H2|H2].
  - apply Ua; auto.
  - exfalso. apply (Hab e1 e2); auto.
  - exfalso. apply (Hab e2 e1); auto.
  - apply Ub; auto.
Qed.

Lemma recency_head c cs :
  recency_b (c :: cs) = true ->
  forall e e', In e c -> In e' (concat cs) -> ukey e = ukey e' -> seq e' < seq e.
Proof.
  cbn [recency_b]. intros H e e' HI HI' Ek.
  apply andb_true_iff in H. destruct H as [H _]. rewrite forallb_forall in H.
  apply in_concat in HI'. destruct HI' as [c' [Hc' He']].
  specialize (H c' Hc'). rewrite newer_than_spec in H. eauto.
Qed.

Lemma recency_tail c cs : recency_b (c :: cs) = true -> recency_b cs = true.
Proof. cbn [recency_b]. intros H. apply andb_true_iff in H. apply H. Qed.

Lemma concat_uniq cs : all_sorted cs -> recency_b cs = true -> uniq (concat cs).
Proof.
  induction cs as [|c cs IH]; intros Hs Hr.
  - intros e1 e2 [].
  - cbn [concat]. apply uniq_app.
    + apply sorted_uniq. apply Hs. left; reflexivity.
    + apply IH; [|eapply recency_tail; eauto]. intros c' HI. apply Hs. right; exact HI.
    + intros e e' HI HI' Ek Es.
      pose proof (recency_head _ _ Hr e e' HI HI' Ek). lia.
Qed.

(** the first container, in lookup order, with a visible version of [k] decides *)
Fixpoint first_hit (k : key) (S : N) (cs : list (list entry)) : option entry :=
  match cs with
  | [] => None
  | c :: cs' => match newest k S c with Some e => Some e | None => first_hit k S cs' end
  end.

Lemma first_hit_app k S a b :
  first_hit k S (a ++ b) =
  match first_hit k S a with Some e => Some e | None => first_hit k S b end.
Proof.
  induction a as [|c a IH]; cbn [app first_hit]; [reflexivity|].
  destruct (newest k S c); [reflexivity|exact IH].
Qed.

Lemma first_hit_none k S cs :
  (forall c, In c cs -> forall e, In e c -> ukey e <> k) -> first_hit k S cs = None.
Proof.
  induction cs as [|c cs IH]; intros H; cbn [first_hit]; [reflexivity|].
  rewrite newest_none_key; [|apply H; left; reflexivity].
  apply IH. intros c' HI. apply H. right; exact HI.
Qed.

Lemma newest_concat k S cs :
  all_sorted cs -> recency_b cs = true -> newest k S (concat cs) = first_hit k S cs.
Proof.
  induction cs as [|c cs IH]; intros Hs Hr; [reflexivity|].
  cbn [concat first_hit].
  rewrite newest_app.
  - rewrite IH; [reflexivity| |eapply recency_tail; eauto].
    intros c' HI. apply Hs. right; exact HI.
  - change (uniq (concat (c :: cs))). apply concat_uniq; assumption.
  - intros e e' HI HI' E1 E2. apply (recency_head _ _ Hr e e' HI HI'). congruence.
Qed.

(** * The read path computes [first_hit] over [containers] *)

Lemma slabs_get_first_hit ms k S :
  (forall m, In m ms -> sorted_b (ments m) = true) ->
  slabs_get ms k S = first_hit k S (map ments ms).
Proof.
  induction ms as [|m ms IH]; intros H; [reflexivity|].
  cbn [slabs_get map first_hit]. unfold mt_get.
  rewrite slab_get_newest; [|apply H; left; reflexivity].
  destruct (newest k S (ments m)); [reflexivity|].
  apply IH. intros m' HI. apply H. right; exact HI.
Qed.

(** one run: consulting only the table selected by [run_get_for_key] is the same as
    consulting all tables of the run in order *)
Lemma run_first_hit flt r k S :
  run_ok r = true ->
  (forall t e, In t r -> In e (ents t) -> flt (tid t) (ukey e) = true) ->
  first_hit k S (map ents r) =
  match run_get_for_key r k with Some t => table_get flt t k S | None => None end.
Proof.
  intros Hok Hf. pose proof (run_get_for_key_spec r k Hok) as Sp.
  destruct (run_get_for_key r k) as [t|] eqn:G.
  - destruct (run_get_for_key_In _ _ _ Hok G) as [HI Ht].
    destruct Sp as [r1 [r2 [E HN]]].
    rewrite (table_get_newest flt t k S Ht (fun e He => Hf t e HI He)).
    rewrite E, map_app, first_hit_app. cbn [map first_hit].
    rewrite first_hit_none.
    + rewrite (first_hit_none k S (map ents r2)).
      * destruct (newest k S (ents t)); reflexivity.
      * intros c Hc. apply in_map_iff in Hc. destruct Hc as [t' [<- Ht']].
        apply HN. apply in_or_app. right; exact Ht'.
    + intros c Hc. apply in_map_iff in Hc. destruct Hc as [t' [<- Ht']].
      apply HN. apply in_or_app. left; exact Ht'.
  - apply first_hit_none. intros c Hc. apply in_map_iff in Hc.
    destruct Hc as [t' [<- Ht']]. apply Sp. exact Ht'.
Qed.

Lemma runs_get_first_hit flt rs k S :
  (forall r, In r rs -> run_ok r = true) ->
  (forall t e, In t (concat rs) -> In e (ents t) -> flt (tid t) (ukey e) = true) ->
  runs_get flt rs k S = first_hit k S (map ents (concat rs)).
Proof.
  induction rs as [|r rs IH]; intros Hok Hf; [reflexivity|].
  cbn [runs_get concat]. rewrite map_app, first_hit_app.
  rewrite (run_first_hit flt r k S).
  - rewrite <- IH.
    + destruct (run_get_for_key r k) as [t|]; [|reflexivity].
      destruct (table_get flt t k S); reflexivity.
    + intros r' HI. apply Hok. right; exact HI.
    + intros t e HI He. apply Hf; [|exact He]. cbn [concat]. apply in_or_app. right; exact HI.
  - apply Hok. left; reflexivity.
  - intros t e HI He. apply Hf; [|exact He]. cbn [concat]. apply in_or_app. left; exact HI.
Qed.

(** * Unpacking the invariant *)

Lemma check_inv_sv_inv sv : check_inv_sv sv = true ->
  sorted_b (ments (active sv)) = true /\
  (forall m, In m (sealed sv) -> sorted_b (ments m) = true) /\
  length (levels (ver sv)) = 7%nat /\
  (forall r, In r (all_runs (ver sv)) -> run_ok r = true) /\
  nodup_N_b (map tid (all_tables (ver sv))) = true /\
  recency_b (containers sv) = true.
Proof.
  unfold check_inv_sv. intros H. rewrite !andb_true_iff in H.
  destruct H as [[[[[H1 H2] H3] H4] H5] H6].
  rewrite forallb_forall in H2, H4. apply N.eqb_eq in H3.
  repeat split; auto. lia.
Qed.

Lemma inv_all_sorted sv : check_inv_sv sv = true -> all_sorted (containers sv).
Proof.
  intros H. destruct (check_inv_sv_inv _ H) as [Ha [Hs [_ [Hr _]]]].
  unfold containers. intros c [<-|HI]; [exact Ha|].
  apply in_app_or in HI. destruct HI as [HI|HI]; apply in_map_iff in HI.
  - destruct HI as [m [<- Hm]]. apply Hs. apply in_rev. exact Hm.
  - destruct HI as [t [<- Ht]]. unfold all_tables in Ht. apply in_concat in Ht.
    destruct Ht as [r [Hr' Ht]]. apply table_sorted. eapply run_ok_table; eauto.
Qed.

(** * Main results *)

Definition filter_sound (flt : N -> key -> bool) (sv : superversion) : Prop :=
  forall t e, In t (all_tables (ver sv)) -> In e (ents t) -> flt (tid t) (ukey e) = true.

(** uniqueness of (user key, seqno) over the whole content *)
Theorem content_uniq : forall sv, check_inv_sv sv = true -> uniq (content sv).
Proof.
  intros sv H. unfold content. apply concat_uniq.
  - apply inv_all_sorted. exact H.
  - apply (check_inv_sv_inv _ H).
Qed.

(** the lookup is [first_hit] over the containers in lookup order *)
Lemma sv_get_raw_first_hit flt sv k S :
  check_inv_sv sv = true -> filter_sound flt sv ->
  sv_get_raw flt sv k S = first_hit k S (containers sv).
Proof.
  intros H Hf. destruct (check_inv_sv_inv _ H) as [Ha [Hs [_ [Hr _]]]].
  unfold sv_get_raw, containers. cbn [first_hit]. rewrite first_hit_app.
  unfold mt_get at 1. rewrite (slab_get_newest _ _ _ Ha).
  destruct (newest k S (ments (active sv))); [reflexivity|].
  rewrite slabs_get_first_hit.
  - destruct (first_hit k S (map ments (rev (sealed sv)))); [reflexivity|].
    unfold all_tables. apply runs_get_first_hit; [exact Hr|exact Hf].
  - intros m HI. apply Hs. apply in_rev. exact HI.
Qed.

(** the raw entry at which the lookup stops is the newest visible version over ALL
    containers *)
Theorem sv_get_raw_sound : forall flt sv, check_inv_sv sv = true -> filter_sound flt sv ->
  forall k S, sv_get_raw flt sv k S = newest k S (content sv).
Proof.
  intros flt sv H Hf k S. unfold content.
  rewrite newest_concat.
  - apply sv_get_raw_first_hit; assumption.
  - apply inv_all_sorted. exact H.
  - apply (check_inv_sv_inv _ H).
Qed.

Corollary sv_get_sound : forall flt sv, check_inv_sv sv = true -> filter_sound flt sv ->
  forall k S, sv_get flt sv k S = spec_get (content sv) k S.
Proof.
  intros flt sv H Hf k S. unfold sv_get, spec_get. f_equal.
  apply sv_get_raw_sound; assumption.
Qed.

(** the trivial filter (always "maybe present") is sound for every superversion *)
Lemma filter_sound_true sv : filter_sound (fun _ _ => true) sv.
Proof. intros t e _ _. reflexivity. Qed.

(** * Examples *)

Module LookupExample.

  Definition k1 : key := [1]. Definition k2 : key := [2]. Definition k3 : key := [3].
  Definition k4 : key := [4]. Definition k5 : key := [5].

  (* L1: one run of two key-disjoint tables (oldest data) *)
  Definition tA : table :=
    mkT 1 0 [mkE k1 0 Value [10]; mkE k2 1 Value [20]] k1 k2 0 1 2 0 0.
  Definition tB : table :=
    mkT 2 0 [mkE k4 2 Value [40]; mkE k5 3 Value [50]] k4 k5 2 3 2 0 0.
  (* L0, older run: overwrites k2, deletes k4 *)
  Definition tC : table :=
    mkT 3 0 [mkE k2 4 Value [21]; mkE k4 5 Tomb []] k2 k4 4 5 2 1 0.
  (* L0, newer run: an ingested table with global seqno 6 (stored seqnos 0..1) *)
  Definition tD : table :=
    mkT 4 6 [mkE k1 6 Value [11]; mkE k3 7 Value [30]] k1 k3 0 1 2 0 0.
  (* sealed memtable: deletes k2, overwrites k3 *)
  Definition mS : memtable := mkM 1 [mkE k2 8 Tomb []; mkE k3 9 Value [31]].
  (* active memtable: two more versions of k3, weak tombstone on k5 *)
  Definition mA : memtable :=
    mkM 2 [mkE k3 11 Value [33]; mkE k3 10 Value [32]; mkE k5 12 WeakTomb []].

  Definition sv0 : superversion :=
    mkSV 13 mA [mS] (mkV 0 [ [[tD]; [tC]]; [[tA; tB]]; []; []; []; []; [] ]).

  (* a filter with false positives but no false negatives on [sv0] *)
  Definition flt0 (id : N) (k : key) : bool :=
    match id with
    | 1 => key_eqb k k1 || key_eqb k k2 || key_eqb k k3
    | 2 => key_eqb k k4 || key_eqb k k5
    | 3 => key_eqb k k2 || key_eqb k k4
    | _ => true
    end.

  Example sv0_inv : check_inv_sv sv0 = true.
  Proof. vm_compute. reflexivity. Qed.

  Example flt0_sound : filter_sound flt0 sv0.
  Proof.
    intros t e Ht He. vm_compute in Ht.
    repeat (destruct Ht as [<-|Ht];
            [vm_compute in He;
             repeat (destruct He as [<-|He]; [vm_compute; reflexivity|]); contradiction|]).
    contradiction.
  Qed.

  (* k1: overwritten in L0 by the ingested table *)
  Example get_k1 : sv_get flt0 sv0 k1 13 = Some (mkE k1 6 Value [11]).
  Proof. vm_compute. reflexivity. Qed.
  (* k1 at snapshot 6: the ingested table is skipped by the seqno guard, L1 answers *)
  Example get_k1_old : sv_get flt0 sv0 k1 6 = Some (mkE k1 0 Value [10]).
  Proof. vm_compute. reflexivity. Qed.
  (* k2: deleted in the sealed memtable; the raw hit is the tombstone *)
  Example get_k2 : sv_get flt0 sv0 k2 13 = None.
  Proof. vm_compute. reflexivity. Qed.
  Example get_raw_k2 : sv_get_raw flt0 sv0 k2 13 = Some (mkE k2 8 Tomb []).
  Proof. vm_compute. reflexivity. Qed.
  (* k2 before the delete: the L0 overwrite *)
  Example get_k2_old : sv_get flt0 sv0 k2 8 = Some (mkE k2 4 Value [21]).
  Proof. vm_compute. reflexivity. Qed.
  (* k3: overwritten several times, newest in the active memtable *)
  Example get_k3 : sv_get flt0 sv0 k3 13 = Some (mkE k3 11 Value [33]).
  Proof. vm_compute. reflexivity. Qed.
  Example get_k3_snap : sv_get flt0 sv0 k3 10 = Some (mkE k3 9 Value [31]).
  Proof. vm_compute. reflexivity. Qed.
  (* k4: deleted in L0, value still present in L1 *)
  Example get_k4 : sv_get flt0 sv0 k4 13 = None.
  Proof. vm_compute. reflexivity. Qed.
  Example get_k4_old : sv_get flt0 sv0 k4 5 = Some (mkE k4 2 Value [40]).
  Proof. vm_compute. reflexivity. Qed.
  (* k5: weak tombstone in the active memtable *)
  Example get_k5 : sv_get flt0 sv0 k5 13 = None.
  Proof. vm_compute. reflexivity. Qed.
  (* snapshot 0 sees nothing *)
  Example get_k1_zero : sv_get flt0 sv0 k1 0 = None.
  Proof. vm_compute. reflexivity. Qed.

  (* and the results agree with the Spec, as the theorem says *)
  Example get_k3_spec : sv_get flt0 sv0 k3 13 = spec_get (content sv0) k3 13.
  Proof. apply sv_get_sound; [exact sv0_inv|exact flt0_sound]. Qed.
  Example spec_k4 : spec_get (content sv0) k4 13 = None.
  Proof. vm_compute. reflexivity. Qed.

  (** the invariant is needed: swapping the two L0 runs breaks recency, and the lookup
      returns a stale value for k1 although every container is well-formed *)
  Definition sv_bad : superversion :=
    mkSV 13 mA [mS] (mkV 0 [ [[tA; tB]]; [[tD]; [tC]]; []; []; []; []; [] ]).
  Example sv_bad_inv : check_inv_sv sv_bad = false.
  Proof. vm_compute. reflexivity. Qed.
  Example sv_bad_stale :
    sv_get flt0 sv_bad k1 13 = Some (mkE k1 0 Value [10]) /\
    spec_get (content sv_bad) k1 13 = Some (mkE k1 6 Value [11]).
  Proof. vm_compute. split; reflexivity. Qed.

  (** filter soundness is needed: a false negative hides the newest version *)
  Example filter_unsound_stale :
    sv_get (fun id _ => negb (id =? 4)) sv0 k1 13 = Some (mkE k1 0 Value [10]).
  Proof. vm_compute. reflexivity. Qed.

End LookupExample.

(** ** Replays of crate unit tests *)

Module CrateTests.

  (* src/version/run.rs: tests::run_point_lookup -- tables a..d, e..j, k..o, p..z.
     Only the key ranges matter for [run_get_for_key]. Bytes are ASCII codes. *)
  Definition s (id : N) (lo hi : N) : table :=
    mkT id 0 [mkE [lo] 0 Value []; mkE [hi] 0 Value []] [lo] [hi] 0 0 2 0 0.
  Definition run0 : run := [s 0 97 100; s 1 101 106; s 2 107 111; s 3 112 122].

  Definition id_of (o : option table) : option N :=
    match o with Some t => Some (tid t) | None => None end.

  Example run_ok_run0 : run_ok run0 = true.
  Proof. vm_compute. reflexivity. Qed.

  Example run_point_lookup :
    id_of (run_get_for_key run0 [97]) = Some 0 /\          (* "a" *)
    id_of (run_get_for_key run0 [97;97;97]) = Some 0 /\    (* "aaa" *)
    id_of (run_get_for_key run0 [98]) = Some 0 /\          (* "b" *)
    id_of (run_get_for_key run0 [99]) = Some 0 /\          (* "c" *)
    id_of (run_get_for_key run0 [100]) = Some 0 /\         (* "d" *)
    id_of (run_get_for_key run0 [101]) = Some 1 /\         (* "e" *)
    id_of (run_get_for_key run0 [106]) = Some 1 /\         (* "j" *)
    id_of (run_get_for_key run0 [107]) = Some 2 /\         (* "k" *)
    id_of (run_get_for_key run0 [111]) = Some 2 /\         (* "o" *)
    id_of (run_get_for_key run0 [112]) = Some 3 /\         (* "p" *)
    id_of (run_get_for_key run0 [122]) = Some 3 /\         (* "z" *)
    id_of (run_get_for_key run0 [122;122;122]) = None.     (* "zzz" *)
  Proof. vm_compute. repeat split; reflexivity. Qed.

  (* src/memtable/mod.rs: tests::memtable_get_old_version ("abc" at seqnos 0, 99, 255);
     SeqNo::MAX = 2^64 - 1 *)
  Definition abc : key := [97; 98; 99].
  Definition seqno_max : N := 18446744073709551615.
  Definition mt_abc : list entry :=
    [mkE abc 255 Value abc; mkE abc 99 Value abc; mkE abc 0 Value abc].

  Example memtable_get_old_version :
    sorted_b mt_abc = true /\
    slab_get mt_abc abc seqno_max = Some (mkE abc 255 Value abc) /\
    slab_get mt_abc abc 100 = Some (mkE abc 99 Value abc) /\
    slab_get mt_abc abc 50 = Some (mkE abc 0 Value abc).
  Proof. vm_compute. repeat split; reflexivity. Qed.

  (* src/memtable/mod.rs: tests::memtable_mvcc_point_read, with a short key "k1" whose
     strict prefix "k" must not match (hello-key-99999 vs hello-key-999991) *)
  Definition kp : key := [107].       (* "k"  *)
  Definition kk : key := [107; 49].   (* "k1" *)
  Definition mt_mvcc : list entry := [mkE kk 1 Value [2]; mkE kk 0 Value [1]].

  Example memtable_mvcc_point_read :
    sorted_b mt_mvcc = true /\
    slab_get mt_mvcc kp seqno_max = None /\
    slab_get mt_mvcc kk seqno_max = Some (mkE kk 1 Value [2]) /\
    slab_get mt_mvcc kp 1 = None /\
    slab_get mt_mvcc kk 1 = Some (mkE kk 0 Value [1]) /\
    slab_get mt_mvcc kp 2 = None /\
    slab_get mt_mvcc kk 2 = Some (mkE kk 1 Value [2]).
  Proof. vm_compute. repeat split; reflexivity. Qed.

End CrateTests.

Print Assumptions sv_get_raw_sound.
Print Assumptions content_uniq.
Print Assumptions sv_get_sound.
Print Assumptions run_get_for_key_spec.
Print Assumptions table_get_newest.
