(** Soundness of the decidable certificates of Model/Cert.v. *)
From LsmV Require Import Model.Cert Proofs.Newest.
Open Scope N_scope.

Lemma list_N_eqb_eq a b : list_N_eqb a b = true <-> a = b.
Proof.
  revert b; induction a as [|x a IH]; intros [|y b]; simpl; split; try congruence; try discriminate.
  - rewrite andb_true_iff, N.eqb_eq, IH. intros [-> ->]; reflexivity.
  - intros E; inversion E; subst. rewrite N.eqb_refl. simpl. now apply IH.
Qed.

Lemma vtype_eqb_eq a b : vtype_eqb a b = true <-> a = b.
Proof. destruct a, b; simpl; split; congruence. Qed.

Lemma entry_eqb_eq a b : entry_eqb a b = true <-> a = b.
Proof.
  unfold entry_eqb. rewrite !andb_true_iff, key_eqb_eq, N.eqb_eq, vtype_eqb_eq, list_N_eqb_eq.
  destruct a, b; simpl. split.
  - intros [[[-> ->] ->] ->]; reflexivity.
  - intros E; inversion E; auto.
Qed.

Lemma opt_entry_eqb_eq a b : opt_entry_eqb a b = true <-> a = b.
Proof.
  destruct a, b; simpl; split; try congruence; try discriminate.
  - intros E. apply entry_eqb_eq in E. congruence.
  - intros E; inversion E; subst. now apply entry_eqb_eq.
Qed.

Lemma key_insert_In k x l : In x (key_insert k l) <-> x = k \/ In x l.
Proof.
  induction l as [|y l IH]; simpl; [intuition|].
  destruct (key_cmp k y) eqn:C; simpl.
  - apply key_cmp_eq in C. subst. intuition.
  - intuition.
  - rewrite IH. intuition.
Qed.

Lemma keys_of_In k H : In k (keys_of H) <-> exists e, In e H /\ ukey e = k.
Proof.
  induction H as [|e H IH]; simpl.
  - split; [tauto | intros (e & [] & _)].
  - rewrite key_insert_In, IH. split.
    + intros [->|(e' & HI & E)]; [exists e; auto | exists e'; auto].
    + intros (e' & [->|HI] & E); [left; auto | right; exists e'; auto].
Qed.

Lemma newest_absent k S l : ~ In k (keys_of l) -> newest k S l = None.
Proof.
  intros A. apply newest_none. intros e HI.
  destruct (matches k S e) eqn:M; auto.
  apply matches_iff in M. destruct M as [E _].
  exfalso. apply A. apply keys_of_In. eauto.
Qed.

(** the certificate decides agreement with the history for EVERY key *)
Theorem content_agrees_sound c H S :
  content_agrees c H S = true -> forall k, spec_get c k S = spec_get H k S.
Proof.
  unfold content_agrees. rewrite forallb_forall. intros A k.
  destruct (in_dec key_eq_dec k (keys_of c ++ keys_of H)) as [I|NI].
  - apply opt_entry_eqb_eq. now apply A.
  - unfold spec_get. rewrite !newest_absent; auto;
      intro HI; apply NI; apply in_or_app; auto.
Qed.

Theorem content_agrees_complete c H S :
  (forall k, spec_get c k S = spec_get H k S) -> content_agrees c H S = true.
Proof.
  intros A. unfold content_agrees. apply forallb_forall. intros k _.
  apply opt_entry_eqb_eq. apply A.
Qed.

Lemma content_diff_none c H S : content_diff c H S = None <-> content_agrees c H S = true.
Proof.
  unfold content_diff, content_agrees. split.
  - intros F. apply forallb_forall. intros k HI.
    pose proof (find_none _ _ F k HI) as N. simpl in N.
    now apply negb_false_iff in N.
  - intros A. rewrite forallb_forall in A.
    destruct (find _ _) as [k|] eqn:F; auto.
    apply find_some in F. destruct F as [HI N]. rewrite (A k HI) in N. discriminate.
Qed.
