(** Theorems about the blob (value log) bookkeeping model [Model/Blob.v]
    (properties C08 and C09).

    Contents (in file order)
      1. the invariant [BInvG d] / [BInv] and its decidable checker
      2. the statistics map
      3. pointers of entry lists, tables and permutations
      4. garbage: what removing pointers does to the brute-force count
      5. dead files
      8a. [with_merge]: the general preservation lemma
      9. dropping tables
      6. the blob file writer
      7. flush
      8b. the stream's accounting in terms of pointers; standard merge
     12. statistics are exact; dead iff unreferenced; when files leave the version
     10. relocation
     14a. replayed tests     14b. reopen; refuted statements
     13. transparency
     11. compaction filter with separation
     15. instances of the main theorems; Print Assumptions *)
From LsmV Require Import Model.Entry Model.Stream Model.Blob Proofs.Newest Proofs.Stream.
From Coq Require Import Permutation.
Open Scope N_scope.
Local Arguments N.add : simpl never.
Local Arguments N.sub : simpl never.
Local Arguments N.mul : simpl never.
Local Arguments N.ltb : simpl never.
Local Arguments N.leb : simpl never.
Local Arguments N.eqb : simpl never.
Local Arguments N.of_nat : simpl never.

(** * 1. The invariant *)

Definition file_ok_P (bf : blobfile) : Prop :=
  frames bf <> [] /\ NoDup (map fr_off (frames bf)).

(** [d = true]: the three counters agree; [d = false]: len and bytes only *)
Definition gce_eq (d : bool) (a b : gcentry) : Prop :=
  g_len a = g_len b /\ g_bytes a = g_bytes b /\ (d = true -> g_disk a = g_disk b).

Record BInvG (d : bool) (v : bversion) : Prop := mkBInv {
  bi_tids : NoDup (map fst (b_tables v));
  bi_fids : NoDup (map bf_id (b_blobs v));
  bi_gkeys : NoDup (map fst (b_gc v));
  bi_files : forall bf, In bf (b_blobs v) -> file_ok_P bf;
  (* every Ind entry decodes *)
  bi_wf : forall t e, In t (b_tables v) -> In e (snd t) -> wf_ind e = true;
  (* (a) every pointer resolves, to a blob written for its key, and (b2) carries its sizes *)
  bi_res : forall p, In p (vptrs v) -> presolve (b_blobs v) p = true;
  (* (b1) distinct pointers point to distinct blobs *)
  bi_inj : NoDup (map tgt (vptrs v));
  (* (c) the statistics of every file of the version equal the brute-force count *)
  bi_gc : forall bf, In bf (b_blobs v) ->
          gce_eq d (gc_get (b_gc v) (bf_id bf)) (garbage_of v (bf_id bf)) }.

Definition BInv : bversion -> Prop := BInvG true.

Definition gc_pruned (v : bversion) : Prop :=
  forall f, In f (map fst (b_gc v)) -> In f (map bf_id (b_blobs v)).
Definition frames_pos (blobs : list blobfile) : Prop :=
  forall bf fr, In bf blobs -> In fr (frames bf) -> 0 < lenN (fr_val fr).
Definition ids_below (nid : N) (v : bversion) : Prop :=
  (forall bf, In bf (b_blobs v) -> bf_id bf < nid) /\
  (forall f, In f (map fst (b_gc v)) -> f < nid).

(** ** generic boolean reflection helpers *)
Lemma memN_In x l : memN x l = true <-> In x l.
Proof.
  unfold memN. rewrite existsb_exists. split.
  - intros (y & HI & E). apply N.eqb_eq in E. now subst.
  - intros HI. exists x. split; [exact HI | apply N.eqb_refl].
Qed.

Lemma memN_false x l : memN x l = false <-> ~ In x l.
Proof. rewrite <- memN_In. destruct (memN x l); split; congruence. Qed.

Lemma nodup_b_spec {A} (eqb : A -> A -> bool) :
  (forall a b, eqb a b = true <-> a = b) ->
  forall l, nodup_b eqb l = true <-> NoDup l.
Proof.
  intros E. induction l as [|x l IH]; cbn [nodup_b].
  - split; [constructor | reflexivity].
  - rewrite andb_true_iff, negb_true_iff, IH. split.
    + intros [H1 H2]. constructor; [|exact H2]. intros HI.
      assert (existsb (eqb x) l = true) as C; [|congruence].
      apply existsb_exists. exists x. split; [exact HI | now apply E].
    + intros H. inversion H as [|? ? NI ND]; subst. split; [|exact ND].
      destruct (existsb (eqb x) l) eqn:C; [|reflexivity]. exfalso. apply NI.
      apply existsb_exists in C. destruct C as (y & HI & Ey). apply E in Ey. now subst.
Qed.

Lemma pairN_eqb_spec a b : pairN_eqb a b = true <-> a = b.
Proof.
  unfold pairN_eqb. rewrite andb_true_iff, !N.eqb_eq. destruct a, b; cbn. split.
  - intros [-> ->]; reflexivity.
  - intros H; inversion H; auto.
Qed.

Lemma nodup_N_spec l : nodup_b N.eqb l = true <-> NoDup l.
Proof. apply nodup_b_spec. intros; apply N.eqb_eq. Qed.

Lemma nodup_pair_spec l : nodup_b pairN_eqb l = true <-> NoDup l.
Proof. apply nodup_b_spec. apply pairN_eqb_spec. Qed.

Lemma is_nil_spec {A} (l : list A) : is_nil l = true <-> l = [].
Proof. destruct l; cbn; split; congruence. Qed.

Lemma file_ok_spec bf : file_ok bf = true <-> file_ok_P bf.
Proof.
  unfold file_ok, file_ok_P. rewrite andb_true_iff, negb_true_iff, nodup_N_spec.
  destruct (frames bf); cbn; split; intros [A B]; split; auto; congruence.
Qed.

Lemma gce_eqb_spec d a b : gce_eqb d a b = true <-> gce_eq d a b.
Proof.
  unfold gce_eqb, gce_eq. rewrite !andb_true_iff, !N.eqb_eq, orb_true_iff, negb_true_iff, N.eqb_eq.
  destruct d; cbn [negb]; split.
  - intros ((A & B) & C). repeat split; auto. intros _. destruct C as [C|C]; [discriminate | exact C].
  - intros (A & B & C). repeat split; auto.
  - intros ((A & B) & C). repeat split; auto. discriminate.
  - intros (A & B & C). repeat split; auto.
Qed.

Theorem check_binv_g_iff d v : check_binv_g d v = true <-> BInvG d v.
Proof.
  unfold check_binv_g. rewrite !andb_true_iff, !nodup_N_spec, nodup_pair_spec, !forallb_forall.
  split.
  - intros (((((((H1 & H2) & H3) & H4) & H5) & H6) & H7) & H8). constructor; auto.
    + intros bf HI. apply file_ok_spec. auto.
    + intros t e Ht He. specialize (H5 t Ht). rewrite forallb_forall in H5. auto.
    + intros bf HI. apply gce_eqb_spec. auto.
  - intros [H1 H2 H3 H4 H5 H6 H7 H8]. repeat split; auto.
    + intros bf HI. apply file_ok_spec. auto.
    + intros t Ht. apply forallb_forall. intros e He. eauto.
    + intros bf HI. apply gce_eqb_spec. auto.
Qed.

Theorem check_binv_iff v : check_binv v = true <-> BInv v.
Proof. apply check_binv_g_iff. Qed.

Lemma BInvG_weaken d v : BInvG d v -> BInvG false v.
Proof.
  intros [H1 H2 H3 H4 H5 H6 H7 H8]. constructor; auto.
  intros bf HI. destruct (H8 bf HI) as (A & B & _). repeat split; auto. discriminate.
Qed.

Lemma has_file_In blobs f : has_file blobs f = true <-> In f (map bf_id blobs).
Proof.
  unfold has_file. rewrite existsb_exists, in_map_iff. split.
  - intros (bf & HI & E). apply N.eqb_eq in E. eauto.
  - intros (bf & E & HI). exists bf. split; [exact HI | now apply N.eqb_eq].
Qed.

Lemma gc_pruned_b_spec v : gc_pruned_b v = true <-> gc_pruned v.
Proof.
  unfold gc_pruned_b, gc_pruned. rewrite forallb_forall. split.
  - intros H f HI. apply in_map_iff in HI. destruct HI as (kx & <- & HI).
    apply has_file_In. auto.
  - intros H kx HI. apply has_file_In. apply H. now apply in_map.
Qed.

Lemma frames_pos_b_spec blobs : frames_pos_b blobs = true <-> frames_pos blobs.
Proof.
  unfold frames_pos_b, frames_pos. rewrite forallb_forall. split.
  - intros H bf fr Hb Hf. specialize (H bf Hb). rewrite forallb_forall in H.
    apply N.ltb_lt. auto.
  - intros H bf Hb. apply forallb_forall. intros fr Hf. apply N.ltb_lt. eauto.
Qed.

Lemma ids_below_b_spec nid v : ids_below_b nid v = true <-> ids_below nid v.
Proof.
  unfold ids_below_b, ids_below. rewrite andb_true_iff, !forallb_forall. split.
  - intros [A B]. split.
    + intros bf HI. apply N.ltb_lt. auto.
    + intros f HI. apply in_map_iff in HI. destruct HI as (kx & <- & HI). apply N.ltb_lt. auto.
  - intros [A B]. split.
    + intros bf HI. apply N.ltb_lt. auto.
    + intros kx HI. apply N.ltb_lt. apply B. now apply in_map.
Qed.

(** * 2. The statistics map *)

Lemma gcentry_eq a b :
  g_len a = g_len b -> g_bytes a = g_bytes b -> g_disk a = g_disk b -> a = b.
Proof. destruct a, b; cbn; intros -> -> ->; reflexivity. Qed.

Lemma gadd_comm a b : gadd a b = gadd b a.
Proof. apply gcentry_eq; cbn; lia. Qed.
Lemma gadd_assoc a b c : gadd a (gadd b c) = gadd (gadd a b) c.
Proof. apply gcentry_eq; cbn; lia. Qed.
Lemma gadd_zero_l a : gadd gzero a = a.
Proof. apply gcentry_eq; cbn; lia. Qed.
Lemma gadd_zero_r a : gadd a gzero = a.
Proof. apply gcentry_eq; cbn; lia. Qed.

Lemma gce_eq_refl d a : gce_eq d a a.
Proof. repeat split. Qed.
Lemma gce_eq_gadd d a b c : gce_eq d a b -> gce_eq d (gadd a c) (gadd b c).
Proof.
  intros (A & B & C). repeat split; cbn; try congruence. intros D. rewrite (C D). reflexivity.
Qed.
Lemma gce_eq_trans d a b c : gce_eq d a b -> gce_eq d b c -> gce_eq d a c.
Proof.
  intros (A & B & C) (A' & B' & C'). repeat split; try congruence.
  intros D. rewrite (C D). auto.
Qed.
Lemma gce_eq_of_eq d a b : a = b -> gce_eq d a b.
Proof. intros ->. apply gce_eq_refl. Qed.

Lemma gc_mem_keys m f : gc_mem m f = true <-> In f (map fst m).
Proof.
  unfold gc_mem. induction m as [|[k x] m IH]; cbn [gc_find map fst In].
  - split; [discriminate | contradiction].
  - destruct (k =? f) eqn:E.
    + apply N.eqb_eq in E. split; auto.
    + apply N.eqb_neq in E. rewrite IH. split; [auto | intros [C|C]; [congruence | exact C]].
Qed.

Lemma gc_mem_false m f : gc_mem m f = false <-> ~ In f (map fst m).
Proof. rewrite <- gc_mem_keys. destruct (gc_mem m f); split; congruence. Qed.

Lemma gc_get_notin m f : ~ In f (map fst m) -> gc_get m f = gzero.
Proof.
  intros H. apply gc_mem_false in H. unfold gc_mem, gc_get in *.
  destruct (gc_find m f); [discriminate | reflexivity].
Qed.

Lemma gc_find_modify g f m f' :
  gc_find (gc_modify g f m) f' =
  if f =? f' then option_map g (gc_find m f) else gc_find m f'.
Proof.
  induction m as [|[k x] m IH]; cbn [gc_modify gc_find option_map].
  - destruct (f =? f'); reflexivity.
  - destruct (k =? f) eqn:E1.
    + apply N.eqb_eq in E1. subst k. cbn [gc_find]. destruct (f =? f') eqn:E2; reflexivity.
    + cbn [gc_find]. rewrite IH. destruct (f =? f') eqn:E2; [|reflexivity].
      apply N.eqb_eq in E2. subst f'. rewrite E1. reflexivity.
Qed.

Lemma gc_find_insert f x m f' :
  ~ In f (map fst m) ->
  gc_find (gc_insert f x m) f' = if f =? f' then Some x else gc_find m f'.
Proof.
  induction m as [|[k y] m IH]; intros NI; cbn [gc_insert gc_find].
  - reflexivity.
  - cbn [map fst In] in NI. destruct (f <? k).
    + cbn [gc_find]. reflexivity.
    + cbn [gc_find]. rewrite IH by tauto. destruct (f =? f') eqn:E; [|reflexivity].
      apply N.eqb_eq in E. subst f'. destruct (k =? f) eqn:E2; [|reflexivity].
      apply N.eqb_eq in E2. tauto.
Qed.

Lemma keys_modify g f m : map fst (gc_modify g f m) = map fst m.
Proof.
  induction m as [|[k x] m IH]; cbn [gc_modify map fst]; [reflexivity|].
  destruct (k =? f); cbn [map fst]; [reflexivity | now rewrite IH].
Qed.

Lemma keys_insert f x m : Permutation (map fst (gc_insert f x m)) (f :: map fst m).
Proof.
  induction m as [|[k y] m IH]; cbn [gc_insert map fst]; [apply Permutation_refl|].
  destruct (f <? k); cbn [map fst]; [apply Permutation_refl|].
  eapply perm_trans; [apply perm_skip; exact IH | apply perm_swap].
Qed.

Lemma keys_add_with g m f x :
  forall k, In k (map fst (gc_add_with g m f x)) <-> k = f \/ In k (map fst m).
Proof.
  intros k. unfold gc_add_with. destruct (gc_mem m f) eqn:M.
  - rewrite keys_modify. apply gc_mem_keys in M. split; [auto | intros [->|H]; auto].
  - split.
    + intros H. apply (Permutation_in _ (keys_insert f x m)) in H. destruct H; auto.
    + intros H. apply (Permutation_in _ (Permutation_sym (keys_insert f x m))).
      destruct H; [left; auto | right; auto].
Qed.

Lemma keys_add_with_nodup g m f x :
  NoDup (map fst m) -> NoDup (map fst (gc_add_with g m f x)).
Proof.
  intros ND. unfold gc_add_with. destruct (gc_mem m f) eqn:M.
  - now rewrite keys_modify.
  - apply gc_mem_false in M.
    eapply Permutation_NoDup; [apply Permutation_sym; apply keys_insert|]. now constructor.
Qed.

Lemma gc_get_add_with g m f x f' :
  gc_get (gc_add_with g m f x) f' =
  if f =? f' then (if gc_mem m f then g (gc_get m f) x else x) else gc_get m f'.
Proof.
  unfold gc_add_with, gc_get. destruct (gc_mem m f) eqn:M.
  - rewrite gc_find_modify. destruct (f =? f'); [|reflexivity].
    unfold gc_mem in M. destruct (gc_find m f); [reflexivity | discriminate].
  - rewrite gc_find_insert by (now apply gc_mem_false). destruct (f =? f'); reflexivity.
Qed.

Lemma gc_get_add m f x f' :
  gc_get (gc_add m f x) f' = if f =? f' then gadd (gc_get m f) x else gc_get m f'.
Proof.
  unfold gc_add. rewrite gc_get_add_with. destruct (f =? f'); [|reflexivity].
  destruct (gc_mem m f) eqn:M; [reflexivity|].
  rewrite gc_get_notin by (now apply gc_mem_false). now rewrite gadd_zero_l.
Qed.

(** the total of an association list for one key *)
Fixpoint gtot (l : gcmap) (f : N) : gcentry :=
  match l with
  | [] => gzero
  | (k, x) :: l' => if k =? f then gadd x (gtot l' f) else gtot l' f
  end.

Lemma gtot_nodup l f : NoDup (map fst l) -> gtot l f = gc_get l f.
Proof.
  unfold gc_get. induction l as [|[k x] l IH]; intros ND; cbn [gtot gc_find]; [reflexivity|].
  cbn [map fst] in ND. inversion ND as [|? ? NI ND']; subst.
  destruct (k =? f) eqn:E; [|auto].
  apply N.eqb_eq in E. subst k.
  assert (gtot l f = gzero) as ->; [|apply gadd_zero_r].
  rewrite IH by exact ND'. fold (gc_get l f). now apply gc_get_notin.
Qed.

Lemma gc_get_merge diff : forall m f,
  gc_get (gc_merge diff m) f = gadd (gc_get m f) (gtot diff f).
Proof.
  unfold gc_merge. induction diff as [|[k x] diff IH]; intros m f; cbn [fold_left gtot fst snd].
  - now rewrite gadd_zero_r.
  - rewrite IH, gc_get_add. destruct (k =? f) eqn:E.
    + apply N.eqb_eq in E. subst k. now rewrite gadd_assoc.
    + reflexivity.
Qed.

Lemma keys_merge_nodup diff : forall m, NoDup (map fst m) -> NoDup (map fst (gc_merge diff m)).
Proof.
  unfold gc_merge. induction diff as [|[k x] diff IH]; intros m ND; cbn [fold_left]; [exact ND|].
  apply IH. now apply keys_add_with_nodup.
Qed.

Lemma keys_merge diff : forall m k,
  In k (map fst (gc_merge diff m)) <-> In k (map fst diff) \/ In k (map fst m).
Proof.
  unfold gc_merge. induction diff as [|[f x] diff IH]; intros m k; cbn [fold_left map fst In].
  - tauto.
  - rewrite IH. unfold gc_add. rewrite keys_add_with. cbn [fst snd]. split.
    + intros [H|[->|H]]; auto.
    + intros [[->|H]|H]; auto.
Qed.

Lemma gc_find_filter (q : N -> bool) m f :
  gc_find (filter (fun kx => q (fst kx)) m) f = if q f then gc_find m f else None.
Proof.
  induction m as [|[k x] m IH]; cbn [filter gc_find fst].
  - destruct (q f); reflexivity.
  - destruct (q k) eqn:Q; cbn [gc_find].
    + rewrite IH. destruct (k =? f) eqn:E; [|reflexivity].
      apply N.eqb_eq in E. subst k. now rewrite Q.
    + rewrite IH. destruct (k =? f) eqn:E; [|reflexivity].
      apply N.eqb_eq in E. subst k. now rewrite Q.
Qed.

Lemma gc_get_prune m blobs f :
  gc_get (gc_prune m blobs) f = if has_file blobs f then gc_get m f else gzero.
Proof.
  unfold gc_get, gc_prune. rewrite (gc_find_filter (has_file blobs)).
  destruct (has_file blobs f); reflexivity.
Qed.

Lemma keys_prune m blobs k :
  In k (map fst (gc_prune m blobs)) <-> In k (map fst m) /\ has_file blobs k = true.
Proof.
  unfold gc_prune. rewrite !in_map_iff. split.
  - intros (kx & <- & HI). apply filter_In in HI. destruct HI as [HI Q]. split; eauto.
  - intros [(kx & <- & HI) Q]. exists kx. split; [reflexivity|]. apply filter_In. auto.
Qed.

Lemma NoDup_map_filter {A B} (g : A -> B) (q : A -> bool) l :
  NoDup (map g l) -> NoDup (map g (filter q l)).
Proof.
  induction l as [|x l IH]; cbn [map filter]; intros ND; [constructor|].
  inversion ND as [|? ? NI ND']; subst. destruct (q x); cbn [map]; [|auto].
  constructor; [|auto]. intros HI. apply NI. apply in_map_iff in HI.
  destruct HI as (y & E & HI). apply filter_In in HI. rewrite <- E. apply in_map. tauto.
Qed.

Lemma keys_prune_nodup m blobs : NoDup (map fst m) -> NoDup (map fst (gc_prune m blobs)).
Proof. apply NoDup_map_filter. Qed.

(** the sum the drop callback computes for one file from a list of pointers *)
Fixpoint psum (f : N) (P : list ptr) : gcentry :=
  match P with
  | [] => gzero
  | p :: P' => if pf p =? f then gadd (mkG 1 (ps p) (pd p)) (psum f P') else psum f P'
  end.

Lemma psum_app f P Q : psum f (P ++ Q) = gadd (psum f P) (psum f Q).
Proof.
  induction P as [|p P IH]; cbn [app psum]; [now rewrite gadd_zero_l|].
  destruct (pf p =? f); [|exact IH]. now rewrite IH, gadd_assoc.
Qed.

Lemma psum_perm f P Q : Permutation P Q -> psum f P = psum f Q.
Proof.
  induction 1 as [|p P Q H IH|p q P|P Q R H1 IH1 H2 IH2]; cbn [psum].
  - reflexivity.
  - now rewrite IH.
  - destruct (pf p =? f), (pf q =? f); try reflexivity.
    rewrite !gadd_assoc. f_equal. apply gadd_comm.
  - congruence.
Qed.

Lemma psum_none f P : (forall p, In p P -> pf p <> f) -> psum f P = gzero.
Proof.
  induction P as [|p P IH]; intros H; cbn [psum]; [reflexivity|].
  destruct (pf p =? f) eqn:E.
  - apply N.eqb_eq in E. exfalso. apply (H p); [now left | exact E].
  - apply IH. intros q HI. apply H. now right.
Qed.

Lemma ptrs_cons e l :
  ptrs (e :: l) = match ptr_of e with Some p => p :: ptrs l | None => ptrs l end.
Proof. unfold ptrs. cbn [flat_map]. destruct (ptr_of e); reflexivity. Qed.

Lemma ptrs_app a b : ptrs (a ++ b) = ptrs a ++ ptrs b.
Proof. unfold ptrs. apply flat_map_app. Qed.

Lemma gc_get_fold_dropped log : forall m f,
  gc_get (fold_left on_dropped log m) f = gadd (gc_get m f) (psum f (ptrs log)).
Proof.
  induction log as [|e log IH]; intros m f; cbn [fold_left].
  - cbn. now rewrite gadd_zero_r.
  - rewrite IH, ptrs_cons. unfold on_dropped. destruct (ptr_of e) as [p|]; [|reflexivity].
    rewrite gc_get_add. cbn [psum]. destruct (pf p =? f) eqn:E; [|reflexivity].
    apply N.eqb_eq in E. subst f. now rewrite gadd_assoc.
Qed.

Lemma gc_get_of_log log f : gc_get (gc_of_log log) f = psum f (ptrs log).
Proof. unfold gc_of_log. rewrite gc_get_fold_dropped. cbn. apply gadd_zero_l. Qed.

Lemma keys_fold_dropped_nodup log : forall m,
  NoDup (map fst m) -> NoDup (map fst (fold_left on_dropped log m)).
Proof.
  induction log as [|e log IH]; intros m ND; cbn [fold_left]; [exact ND|].
  apply IH. unfold on_dropped. destruct (ptr_of e); [|exact ND].
  now apply keys_add_with_nodup.
Qed.

Lemma keys_of_log_nodup log : NoDup (map fst (gc_of_log log)).
Proof. apply keys_fold_dropped_nodup. constructor. Qed.

Lemma keys_fold_dropped log : forall m k,
  In k (map fst (fold_left on_dropped log m)) <->
  In k (map fst m) \/ exists p, In p (ptrs log) /\ pf p = k.
Proof.
  induction log as [|e log IH]; intros m k; cbn [fold_left].
  - split; [auto | intros [H|(p & [] & _)]; exact H].
  - rewrite IH, ptrs_cons. unfold on_dropped. destruct (ptr_of e) as [p|].
    + unfold gc_add. rewrite keys_add_with. split.
      * intros [[->|H]|(q & HI & E)]; auto.
        -- right. exists p. split; [now left | reflexivity].
        -- right. exists q. split; [now right | exact E].
      * intros [H|(q & [<-|HI] & E)]; auto. right. eauto.
    + tauto.
Qed.

Lemma keys_of_log log k :
  In k (map fst (gc_of_log log)) <-> exists p, In p (ptrs log) /\ pf p = k.
Proof. unfold gc_of_log. rewrite keys_fold_dropped. cbn. tauto. Qed.

Lemma gtot_of_log log f : gtot (gc_of_log log) f = psum f (ptrs log).
Proof. rewrite gtot_nodup by apply keys_of_log_nodup. apply gc_get_of_log. Qed.

(** * 3. Pointers of entry lists, tables and permutations *)

Definition tptrs (tabs : list (N * list entry)) : list ptr := flat_map (fun t => ptrs (snd t)) tabs.

Lemma vptrs_tptrs v : vptrs v = tptrs (b_tables v).
Proof. reflexivity. Qed.

Lemma tptrs_app a b : tptrs (a ++ b) = tptrs a ++ tptrs b.
Proof. unfold tptrs. apply flat_map_app. Qed.

Lemma tptrs_concat tabs : tptrs tabs = ptrs (concat (map snd tabs)).
Proof.
  induction tabs as [|t tabs IH]; [reflexivity|].
  cbn [map concat]. rewrite ptrs_app, <- IH. reflexivity.
Qed.

Lemma ptrs_perm a b : Permutation a b -> Permutation (ptrs a) (ptrs b).
Proof. unfold ptrs. apply Permutation_flat_map. Qed.

Lemma in_ptrs p l : In p (ptrs l) <-> exists e, In e l /\ ptr_of e = Some p.
Proof.
  unfold ptrs. rewrite in_flat_map. split.
  - intros (e & HI & H). exists e. split; [exact HI|].
    destruct (ptr_of e) as [q|]; [|contradiction]. destruct H as [->|[]]. reflexivity.
  - intros (e & HI & H). exists e. split; [exact HI|]. rewrite H. now left.
Qed.

Lemma in_tptrs p tabs : In p (tptrs tabs) <-> exists t, In t tabs /\ In p (ptrs (snd t)).
Proof. unfold tptrs. apply in_flat_map. Qed.

Lemma ptr_of_ind e p : ptr_of e = Some p -> ty e = Ind /\ pk p = ukey e /\ val e = [pf p; po p; pd p; ps p].
Proof.
  unfold ptr_of. destruct (ty e); try discriminate.
  destruct (val e) as [|f [|o [|d [|s [|x r]]]]]; try discriminate.
  intros H. inversion H. cbn. auto.
Qed.

Lemma ptr_of_tomb e : is_tomb e = true -> ptr_of e = None.
Proof. unfold is_tomb, ptr_of. destruct (ty e); try discriminate; reflexivity. Qed.

Lemma ptrs_tombs l : forallb is_tomb l = true -> ptrs l = [].
Proof.
  induction l as [|e l IH]; cbn [forallb]; [reflexivity|].
  rewrite andb_true_iff. intros [A B]. rewrite ptrs_cons, (ptr_of_tomb _ A). auto.
Qed.

Lemma ptr_of_mk_ind k s f o d sz : ptr_of (mk_ind k s f o d sz) = Some (mkP k f o d sz).
Proof. reflexivity. Qed.

Lemma filter_partition_perm {A} (q : A -> bool) l :
  Permutation l (filter q l ++ filter (fun x => negb (q x)) l).
Proof.
  induction l as [|x l IH]; cbn [filter]; [apply Permutation_refl|].
  destruct (q x); cbn [negb app].
  - now apply perm_skip.
  - now apply Permutation_cons_app.
Qed.

Lemma tables_split tids tabs :
  Permutation tabs (sel_tables tids tabs ++ rest_tables tids tabs).
Proof. apply filter_partition_perm. Qed.

Lemma tptrs_perm a b : Permutation a b -> Permutation (tptrs a) (tptrs b).
Proof. unfold tptrs. apply Permutation_flat_map. Qed.

Lemma vptrs_split tids v :
  Permutation (vptrs v) (tptrs (sel_tables tids (b_tables v)) ++ tptrs (rest_tables tids (b_tables v))).
Proof. rewrite vptrs_tptrs, <- tptrs_app. apply tptrs_perm. apply tables_split. Qed.

(** the merge of the sources is a permutation of their concatenation (restated here;
    Proofs/Stream.v has it as [merge_sorted_perm]) *)
Lemma ins_sorted_perm' e l : Permutation (ins_sorted e l) (e :: l).
Proof.
  induction l as [|x l IH]; cbn [ins_sorted]; [apply Permutation_refl|].
  destruct (ikey_ltb x e || ikey_eqb x e); [|apply Permutation_refl].
  eapply perm_trans; [apply perm_skip; exact IH | apply perm_swap].
Qed.

Lemma merge_sorted_perm' srcs : Permutation (merge_sorted srcs) (concat srcs).
Proof.
  induction srcs as [|s r IH]; [apply Permutation_refl|].
  unfold merge_sorted in *. cbn [fold_right concat].
  assert (forall src acc, Permutation (fold_right ins_sorted acc src) (src ++ acc)) as F.
  { induction src as [|e src IHs]; intros acc; cbn [fold_right app]; [apply Permutation_refl|].
    eapply perm_trans; [apply ins_sorted_perm' | apply perm_skip; apply IHs]. }
  eapply perm_trans; [apply F | apply Permutation_app_head; exact IH].
Qed.

Lemma merge_input_ptrs tids v :
  Permutation (ptrs (merge_input tids v)) (tptrs (sel_tables tids (b_tables v))).
Proof.
  unfold merge_input. rewrite tptrs_concat. apply ptrs_perm. apply merge_sorted_perm'.
Qed.

Lemma merge_input_in tids v e :
  In e (merge_input tids v) -> exists t, In t (b_tables v) /\ In e (snd t).
Proof.
  intros HI. apply (Permutation_in _ (merge_sorted_perm' _)) in HI.
  apply in_concat in HI. destruct HI as (l & Hl & He). apply in_map_iff in Hl.
  destruct Hl as (t & <- & Ht). apply filter_In in Ht. exists t. tauto.
Qed.

(** * 4. Garbage *)

Lemma pointed_true P f off :
  pointed P f off = true <-> In (f, off) (map tgt P).
Proof.
  unfold pointed. rewrite existsb_exists, in_map_iff. split.
  - intros (p & HI & E). apply andb_true_iff in E. destruct E as [E1 E2].
    apply N.eqb_eq in E1, E2. exists p. split; [|exact HI]. unfold tgt. congruence.
  - intros (p & E & HI). exists p. split; [exact HI|]. unfold tgt in E. inversion E.
    now rewrite !N.eqb_refl.
Qed.

Lemma pointed_false P f off :
  pointed P f off = false <-> ~ In (f, off) (map tgt P).
Proof. rewrite <- pointed_true. destruct (pointed P f off); split; congruence. Qed.

Lemma pointed_cons p P f off :
  pointed (p :: P) f off = ((pf p =? f) && (po p =? off)) || pointed P f off.
Proof. reflexivity. Qed.

Lemma pointed_app P Q f off : pointed (P ++ Q) f off = pointed P f off || pointed Q f off.
Proof. unfold pointed. apply existsb_app. Qed.

Lemma garb_ext P Q bf :
  (forall off, pointed P (bf_id bf) off = pointed Q (bf_id bf) off) -> garb P bf = garb Q bf.
Proof.
  intros H. unfold garb. apply filter_ext. intros fr. now rewrite H.
Qed.

Lemma pointed_other P f off :
  (forall p, In p P -> pf p <> f) -> pointed P f off = false.
Proof.
  intros H. apply pointed_false. intros HI. apply in_map_iff in HI.
  destruct HI as (p & E & HI). unfold tgt in E. inversion E. apply (H p HI). assumption.
Qed.

(** pointers into other files do not matter *)
Lemma garb_app_other P Q bf :
  (forall p, In p P -> pf p <> bf_id bf) -> garb (P ++ Q) bf = garb Q bf.
Proof.
  intros H. apply garb_ext. intros off. rewrite pointed_app, (pointed_other P) by exact H.
  reflexivity.
Qed.

Lemma garb_perm P Q bf : Permutation P Q -> garb P bf = garb Q bf.
Proof.
  intros H. apply garb_ext. intros off.
  destruct (pointed P (bf_id bf) off) eqn:A.
  - symmetry. apply pointed_true. apply pointed_true in A.
    eapply Permutation_in; [apply Permutation_map; exact H | exact A].
  - symmetry. apply pointed_false. apply pointed_false in A. intros C. apply A.
    eapply Permutation_in; [apply Permutation_map; apply Permutation_sym; exact H | exact C].
Qed.

Lemma gsum_cons fr l : gsum (fr :: l) = gadd (gof fr) (gsum l).
Proof. reflexivity. Qed.

(** taking one blob (identified by its offset) out of a selection *)
Lemma gsum_filter_remove (q : frame -> bool) (o : N) l fr :
  NoDup (map fr_off l) -> In fr l -> fr_off fr = o -> q fr = true ->
  gsum (filter q l) =
  gadd (gsum (filter (fun x => q x && negb (fr_off x =? o)) l)) (gof fr).
Proof.
  induction l as [|x l IH]; intros ND HI Eo Q; [contradiction|].
  cbn [map] in ND. inversion ND as [|? ? NI ND']; subst.
  cbn [filter]. destruct HI as [->|HI].
  - rewrite Q, N.eqb_refl. cbn [negb andb]. rewrite gsum_cons.
    assert (filter (fun x => q x && negb (fr_off x =? fr_off fr)) l = filter q l) as ->.
    { apply filter_ext_in. intros y Hy. destruct (fr_off y =? fr_off fr) eqn:E.
      - apply N.eqb_eq in E. exfalso. apply NI. rewrite <- E. now apply in_map.
      - cbn. now rewrite andb_true_r. }
    apply gadd_comm.
  - assert (fr_off x =? fr_off fr = false) as NE.
    { apply N.eqb_neq. intros E. apply NI. rewrite E. now apply in_map. }
    rewrite NE. cbn [negb]. rewrite andb_true_r. destruct (q x).
    + rewrite !gsum_cons, (IH ND' HI eq_refl Q), gadd_assoc. reflexivity.
    + apply IH; auto.
Qed.

Lemma garb_remove1 p Q bf fr :
  pf p = bf_id bf -> NoDup (map fr_off (frames bf)) -> In fr (frames bf) -> fr_off fr = po p ->
  ~ In (tgt p) (map tgt Q) ->
  gsum (garb Q bf) = gadd (gsum (garb (p :: Q) bf)) (gof fr).
Proof.
  intros Ef ND HI Eo NI. unfold garb.
  rewrite (gsum_filter_remove _ (po p) (frames bf) fr ND HI Eo).
  - f_equal. f_equal. apply filter_ext. intros x.
    rewrite pointed_cons, Ef, N.eqb_refl, negb_orb. cbn [andb]. rewrite (N.eqb_sym (po p)).
    apply andb_comm.
  - apply negb_true_iff. apply pointed_false. rewrite Eo, <- Ef. exact NI.
Qed.

(** [p] carries the sizes of the blob it points to in [bf] *)
Definition ptr_frame (bf : blobfile) (p : ptr) : Prop :=
  exists fr, In fr (frames bf) /\ fr_off fr = po p /\ lenN (fr_val fr) = ps p /\ fr_disk fr = pd p.

(** removing the pointers [L] from [L ++ Q] turns exactly the blobs they point to into
    garbage, and the drop callback's sum over [L] is the increase *)
Lemma garb_diff L : forall Q bf,
  NoDup (map tgt (L ++ Q)) -> NoDup (map fr_off (frames bf)) ->
  (forall p, In p L -> pf p = bf_id bf -> ptr_frame bf p) ->
  gsum (garb Q bf) = gadd (gsum (garb (L ++ Q) bf)) (psum (bf_id bf) L).
Proof.
  induction L as [|p L IH]; intros Q bf ND NDo HF; cbn [app psum].
  - now rewrite gadd_zero_r.
  - cbn [map app] in ND. inversion ND as [|? ? NI ND']; subst.
    assert (forall q, In q L -> pf q = bf_id bf -> ptr_frame bf q) as HF'
        by (intros q Hq; apply HF; now right).
    rewrite (IH Q bf ND' NDo HF').
    destruct (pf p =? bf_id bf) eqn:E.
    + apply N.eqb_eq in E. destruct (HF p (or_introl eq_refl) E) as (fr & HI & Eo & Es & Ed).
      rewrite (garb_remove1 p (L ++ Q) bf fr E NDo HI Eo NI).
      rewrite <- gadd_assoc. f_equal. f_equal. unfold gof. now rewrite Es, Ed.
    + apply N.eqb_neq in E. f_equal. f_equal.
      change (p :: L ++ Q) with ([p] ++ (L ++ Q)). symmetry. apply garb_app_other.
      intros q [<-|[]]. exact E.
Qed.

Lemma garb_all_pointed P bf :
  (forall fr, In fr (frames bf) -> pointed P (bf_id bf) (fr_off fr) = true) -> garb P bf = [].
Proof.
  intros H. unfold garb. induction (frames bf) as [|fr l IH]; cbn [filter]; [reflexivity|].
  rewrite (H fr (or_introl eq_refl)). cbn [negb]. apply IH. intros x Hx. apply H. now right.
Qed.

Lemma garb_none_pointed P bf :
  (forall fr, In fr (frames bf) -> pointed P (bf_id bf) (fr_off fr) = false) ->
  garb P bf = frames bf.
Proof.
  intros H. unfold garb. induction (frames bf) as [|fr l IH]; cbn [filter]; [reflexivity|].
  rewrite (H fr (or_introl eq_refl)). cbn [negb]. f_equal. apply IH. intros x Hx. apply H. now right.
Qed.

Lemma gsum_bytes l : g_bytes (gsum l) = sumN (map (fun fr => lenN (fr_val fr)) l).
Proof. induction l as [|fr l IH]; [reflexivity|]. rewrite gsum_cons. cbn. now rewrite IH. Qed.
Lemma gsum_len l : g_len (gsum l) = lenN l.
Proof.
  induction l as [|fr l IH]; [reflexivity|]. rewrite gsum_cons. cbn [gadd g_len gof].
  rewrite IH. unfold lenN. cbn [length]. lia.
Qed.
Lemma gsum_disk l : g_disk (gsum l) = sumN (map fr_disk l).
Proof. induction l as [|fr l IH]; [reflexivity|]. rewrite gsum_cons. cbn. now rewrite IH. Qed.

Lemma gsum_frames_bytes bf : g_bytes (gsum (frames bf)) = bf_uncomp bf.
Proof. apply gsum_bytes. Qed.

(** a strict sub-selection of blobs with non-empty values weighs strictly less *)
Lemma filter_bytes_lt (q : frame -> bool) l :
  (forall fr, In fr l -> 0 < lenN (fr_val fr)) ->
  (exists fr, In fr l /\ q fr = false) ->
  g_bytes (gsum (filter q l)) < g_bytes (gsum l).
Proof.
  induction l as [|x l IH]; intros POS (fr & HI & Q); [contradiction|].
  assert (g_bytes (gsum (filter q l)) <= g_bytes (gsum l)) as LE.
  { clear. induction l as [|y l IHl]; cbn [filter]; [lia|].
    destruct (q y); rewrite ?gsum_cons; cbn [gadd g_bytes]; lia. }
  cbn [filter]. destruct HI as [->|HI].
  - rewrite Q, gsum_cons. cbn [gadd g_bytes gof]. specialize (POS fr (or_introl eq_refl)). lia.
  - assert (g_bytes (gsum (filter q l)) < g_bytes (gsum l)) as LT.
    { apply IH; [intros y Hy; apply POS; now right | eauto]. }
    destruct (q x); rewrite ?gsum_cons; cbn [gadd g_bytes gof]; lia.
Qed.

(** ** files and blobs by id *)
Lemma find_file_some blobs f bf : find_file blobs f = Some bf -> In bf blobs /\ bf_id bf = f.
Proof.
  unfold find_file. intros H. apply find_some in H. destruct H as [A B].
  apply N.eqb_eq in B. auto.
Qed.

Lemma find_file_none blobs f : ~ In f (map bf_id blobs) -> find_file blobs f = None.
Proof.
  intros H. unfold find_file. destruct (find _ blobs) as [bf|] eqn:E; [|reflexivity].
  apply find_some in E. destruct E as [A B]. apply N.eqb_eq in B. exfalso. apply H.
  rewrite <- B. now apply in_map.
Qed.

Lemma find_file_in blobs bf :
  NoDup (map bf_id blobs) -> In bf blobs -> find_file blobs (bf_id bf) = Some bf.
Proof.
  unfold find_file. induction blobs as [|x l IH]; intros ND HI; [contradiction|].
  cbn [map] in ND. inversion ND as [|? ? NI ND']; subst. cbn [find].
  destruct HI as [->|HI].
  - now rewrite N.eqb_refl.
  - destruct (bf_id x =? bf_id bf) eqn:E; [|auto].
    apply N.eqb_eq in E. exfalso. apply NI. rewrite E. now apply in_map.
Qed.

Lemma find_file_app a b f :
  find_file (a ++ b) f = match find_file a f with Some x => Some x | None => find_file b f end.
Proof.
  unfold find_file. induction a as [|x a IH]; cbn [app find]; [reflexivity|].
  destruct (bf_id x =? f); [reflexivity | exact IH].
Qed.

Lemma find_file_filter (g : N -> bool) l f :
  find_file (filter (fun bf => g (bf_id bf)) l) f = if g f then find_file l f else None.
Proof.
  unfold find_file. induction l as [|x l IH]; cbn [filter find].
  - destruct (g f); reflexivity.
  - destruct (g (bf_id x)) eqn:G; cbn [find]; rewrite IH;
      destruct (bf_id x =? f) eqn:E; try reflexivity;
      apply N.eqb_eq in E; subst f; now rewrite G.
Qed.

Lemma presolve_spec blobs p :
  presolve blobs p = true <->
  exists bf fr, find_file blobs (pf p) = Some bf /\
    find (fun fr => fr_off fr =? po p) (frames bf) = Some fr /\
    fr_key fr = pk p /\ lenN (fr_val fr) = ps p /\ fr_disk fr = pd p.
Proof.
  unfold presolve, find_frame. split.
  - destruct (find_file blobs (pf p)) as [bf|]; [|discriminate].
    destruct (find _ (frames bf)) as [fr|] eqn:F; [|discriminate].
    rewrite !andb_true_iff, !N.eqb_eq, key_eqb_eq. intros [[A B] C]. exists bf, fr. repeat split; auto.
  - intros (bf & fr & -> & -> & A & B & C).
    rewrite !andb_true_iff, !N.eqb_eq, key_eqb_eq. repeat split; auto.
Qed.

Lemma find_frame_in l o fr :
  find (fun fr => fr_off fr =? o) l = Some fr -> In fr l /\ fr_off fr = o.
Proof. intros H. apply find_some in H. destruct H as [A B]. apply N.eqb_eq in B. auto. Qed.

Lemma find_frame_nodup l fr :
  NoDup (map fr_off l) -> In fr l -> find (fun x => fr_off x =? fr_off fr) l = Some fr.
Proof.
  induction l as [|x l IH]; intros ND HI; [contradiction|].
  cbn [map] in ND. inversion ND as [|? ? NI ND']; subst. cbn [find].
  destruct HI as [->|HI]; [now rewrite N.eqb_refl|].
  destruct (fr_off x =? fr_off fr) eqn:E; [|auto].
  apply N.eqb_eq in E. exfalso. apply NI. rewrite E. now apply in_map.
Qed.

Lemma presolve_ptr_frame blobs p bf :
  presolve blobs p = true -> find_file blobs (pf p) = Some bf -> ptr_frame bf p.
Proof.
  intros H F. apply presolve_spec in H. destruct H as (bf' & fr & F' & Hf & _ & B & C).
  rewrite F in F'. inversion F'; subst bf'. apply find_frame_in in Hf. destruct Hf as [HI Eo].
  exists fr. auto.
Qed.

Lemma presolve_has_file blobs p : presolve blobs p = true -> In (pf p) (map bf_id blobs).
Proof.
  intros H. apply presolve_spec in H. destruct H as (bf & fr & F & _).
  apply find_file_some in F. destruct F as [HI <-]. now apply in_map.
Qed.

(** resolution only looks at the file the pointer names *)
Lemma presolve_same_file blobs blobs' p :
  find_file blobs' (pf p) = find_file blobs (pf p) -> presolve blobs' p = presolve blobs p.
Proof. intros H. unfold presolve, find_frame. now rewrite H. Qed.

(** a pointer that resolves marks its blob as pointed-to *)
Lemma presolve_pointed blobs P p bf :
  In p P -> find_file blobs (pf p) = Some bf -> pointed P (bf_id bf) (po p) = true.
Proof.
  intros HI F. apply find_file_some in F. destruct F as [_ E]. apply pointed_true.
  rewrite E. change (pf p, po p) with (tgt p). now apply in_map.
Qed.

Lemma garbage_of_in v bf :
  NoDup (map bf_id (b_blobs v)) -> In bf (b_blobs v) ->
  garbage_of v (bf_id bf) = gsum (garb (vptrs v) bf).
Proof. intros ND HI. unfold garbage_of. now rewrite (find_file_in _ _ ND HI). Qed.

(** * 5. Dead files *)

Lemma is_dead_spec m P bf :
  gce_eq false (gc_get m (bf_id bf)) (gsum (garb P bf)) ->
  frames bf <> [] -> (forall fr, In fr (frames bf) -> 0 < lenN (fr_val fr)) ->
  (is_dead m bf = true <->
   forall fr, In fr (frames bf) -> pointed P (bf_id bf) (fr_off fr) = false).
Proof.
  intros (EL & EB & _) NE POS. unfold is_dead, gc_get in *. split.
  - destruct (gc_find m (bf_id bf)) as [x|]; [|discriminate].
    intros H. apply N.eqb_eq in H. intros fr HI.
    destruct (pointed P (bf_id bf) (fr_off fr)) eqn:PT; [|reflexivity]. exfalso.
    assert (g_bytes (gsum (garb P bf)) < g_bytes (gsum (frames bf))) as LT.
    { unfold garb. apply filter_bytes_lt; [exact POS|]. exists fr. split; [exact HI|].
      now rewrite PT. }
    rewrite gsum_frames_bytes in LT. lia.
  - intros H. rewrite (garb_none_pointed P bf H) in EL, EB.
    destruct (gc_find m (bf_id bf)) as [x|].
    + apply N.eqb_eq. rewrite EB. apply gsum_frames_bytes.
    + exfalso. cbn in EL. rewrite gsum_len in EL. destruct (frames bf); [congruence|].
      unfold lenN in EL. cbn [length] in EL. lia.
Qed.

Lemma BInv_is_dead d v bf :
  BInvG d v -> frames_pos (b_blobs v) -> In bf (b_blobs v) ->
  (is_dead (b_gc v) bf = true <->
   forall fr, In fr (frames bf) -> pointed (vptrs v) (bf_id bf) (fr_off fr) = false).
Proof.
  intros I POS HI. apply is_dead_spec.
  - rewrite <- (garbage_of_in v bf (bi_fids _ _ I) HI).
    destruct (bi_gc _ _ I bf HI) as (A & B & _). repeat split; auto. discriminate.
  - apply (bi_files _ _ I bf HI).
  - intros fr Hf. eapply POS; eauto.
Qed.

(** no pointer of the version points into a file that is dead by the statistics *)
Lemma dead_no_ptr d v bf p :
  BInvG d v -> frames_pos (b_blobs v) -> In bf (b_blobs v) -> is_dead (b_gc v) bf = true ->
  In p (vptrs v) -> pf p <> bf_id bf.
Proof.
  intros I POS HI DEAD Hp E.
  pose proof (proj1 (BInv_is_dead d v bf I POS HI) DEAD) as NP.
  pose proof (bi_res _ _ I p Hp) as R.
  assert (find_file (b_blobs v) (pf p) = Some bf) as F.
  { rewrite E. apply find_file_in; [apply (bi_fids _ _ I) | exact HI]. }
  destruct (presolve_ptr_frame _ _ _ R F) as (fr & Hf & Eo & _).
  specialize (NP fr Hf). rewrite Eo in NP.
  rewrite (presolve_pointed _ _ _ _ Hp F) in NP. discriminate.
Qed.

Lemma in_dead_ids v f :
  In f (dead_ids v) <-> exists bf, In bf (b_blobs v) /\ is_dead (b_gc v) bf = true /\ bf_id bf = f.
Proof.
  unfold dead_ids. rewrite in_map_iff. split.
  - intros (bf & E & HI). apply filter_In in HI. exists bf. tauto.
  - intros (bf & HI & D & E). exists bf. split; [exact E|]. apply filter_In. auto.
Qed.

(** * 8a. [with_merge]: the general preservation lemma *)

Lemma NoDup_app_intro' {A} (a b : list A) :
  NoDup a -> NoDup b -> (forall x, In x a -> In x b -> False) -> NoDup (a ++ b).
Proof.
  induction a as [|y a IH]; intros NA NB D; [exact NB|].
  cbn [app]. inversion NA as [|? ? NI NA']; subst. constructor.
  - intros HI. apply in_app_or in HI. destruct HI as [HI|HI]; [auto|].
    apply (D y); [now left | exact HI].
  - apply IH; auto. intros x HA HB. apply (D x); [now right | exact HB].
Qed.

Lemma NoDup_app_l'' {A} (a b : list A) : NoDup (a ++ b) -> NoDup a.
Proof.
  induction a as [|y a IH]; intros ND; [constructor|].
  cbn [app] in ND. inversion ND as [|? ? NI ND']; subst. constructor; auto.
  intros HI. apply NI. apply in_or_app. now left.
Qed.

Lemma NoDup_app_r'' {A} (a b : list A) : NoDup (a ++ b) -> NoDup b.
Proof.
  induction a as [|y a IH]; intros ND; [exact ND|].
  cbn [app] in ND. inversion ND; subst. auto.
Qed.

Lemma NoDup_app_disj' {A} (a b : list A) x : NoDup (a ++ b) -> In x a -> In x b -> False.
Proof.
  induction a as [|y a IH]; intros ND HA HB; [contradiction|].
  cbn [app] in ND. inversion ND as [|? ? NI ND']; subst.
  destruct HA as [->|HA].
  - apply NI. apply in_or_app. now right.
  - eauto.
Qed.

Lemma with_merge_tables v tids newtabs diff newfiles drops :
  b_tables (with_merge v tids newtabs diff newfiles drops)
  = newtabs ++ rest_tables tids (b_tables v).
Proof. reflexivity. Qed.

Lemma filter_all_true {A} (q : A -> bool) l : (forall x, In x l -> q x = true) -> filter q l = l.
Proof.
  induction l as [|x l IH]; intros H; cbn [filter]; [reflexivity|].
  rewrite (H x (or_introl eq_refl)). f_equal. apply IH. intros y Hy. apply H. now right.
Qed.

Lemma with_merge_blobs v tids newtabs diff newfiles drops :
  b_blobs (with_merge v tids newtabs diff newfiles drops)
  = filter (fun bf => negb (memN (bf_id bf) drops)) (b_blobs v ++ newfiles).
Proof.
  unfold with_merge. cbn [b_blobs].
  destruct (negb (is_nil diff) || negb (is_nil newfiles) || negb (is_nil drops)) eqn:C;
    [reflexivity|].
  apply orb_false_iff in C. destruct C as [C C3]. apply orb_false_iff in C. destruct C as [C1 C2].
  apply negb_false_iff, is_nil_spec in C2, C3. subst newfiles drops.
  rewrite app_nil_r. symmetry. apply filter_all_true. reflexivity.
Qed.

Lemma with_merge_gc_get v tids newtabs diff newfiles drops f :
  In f (map bf_id (b_blobs (with_merge v tids newtabs diff newfiles drops))) ->
  gc_get (b_gc (with_merge v tids newtabs diff newfiles drops)) f
  = gadd (gc_get (b_gc v) f) (gtot diff f).
Proof.
  intros HI. apply has_file_In in HI. revert HI. unfold with_merge. cbn [b_blobs b_gc].
  set (blobs' := if negb (is_nil diff) || negb (is_nil newfiles) || negb (is_nil drops)
                 then _ else _).
  intros HI. destruct (negb (is_nil diff) || negb (is_nil drops)) eqn:C.
  - rewrite gc_get_prune, HI. apply gc_get_merge.
  - apply orb_false_iff in C. destruct C as [C1 _]. apply negb_false_iff, is_nil_spec in C1.
    subst diff. cbn [gtot]. now rewrite gadd_zero_r.
Qed.

Lemma with_merge_gkeys v tids newtabs diff newfiles drops :
  NoDup (map fst (b_gc v)) ->
  NoDup (map fst (b_gc (with_merge v tids newtabs diff newfiles drops))).
Proof.
  intros ND. unfold with_merge. cbn [b_gc].
  destruct (negb (is_nil diff) || negb (is_nil drops)); [|exact ND].
  apply keys_prune_nodup. now apply keys_merge_nodup.
Qed.

Lemma in_rest_tables tids tabs t : In t (rest_tables tids tabs) -> In t tabs.
Proof. intros H. apply filter_In in H. tauto. Qed.
Lemma in_sel_tables tids tabs t : In t (sel_tables tids tabs) -> In t tabs.
Proof. intros H. apply filter_In in H. tauto. Qed.

Lemma with_merge_inv d v tids newtabs diff newfiles drops nid L M K Nn :
  BInvG d v -> ids_below nid v ->
  NoDup (map fst newtabs) ->
  (forall t, In t newtabs -> ~ In (fst t) (map fst (b_tables v))) ->
  (forall t e, In t newtabs -> In e (snd t) -> wf_ind e = true) ->
  Permutation (vptrs v) (L ++ M ++ K) ->
  Permutation (tptrs newtabs ++ tptrs (rest_tables tids (b_tables v))) (Nn ++ K) ->
  NoDup (map bf_id newfiles) ->
  (forall bf, In bf newfiles -> nid <= bf_id bf /\ file_ok_P bf) ->
  (forall p, In p Nn -> presolve newfiles p = true) ->
  NoDup (map tgt Nn) ->
  (forall bf fr, In bf newfiles -> In fr (frames bf) -> pointed Nn (bf_id bf) (fr_off fr) = true) ->
  (forall f, gtot diff f = psum f L) ->
  (forall f, In f drops -> f < nid) ->
  (forall p, In p K -> ~ In (pf p) drops) ->
  (forall p, In p M -> In (pf p) drops) ->
  BInvG d (with_merge v tids newtabs diff newfiles drops).
Proof.
  intros I [IB1 IB2] NDt FRt WFt PV PN NDf NF RN NDn COV DIFF DRlt DRK DRM.
  set (v' := with_merge v tids newtabs diff newfiles drops).
  assert (b_blobs v' = filter (fun bf => negb (memN (bf_id bf) drops)) (b_blobs v ++ newfiles))
    as EB by apply with_merge_blobs.
  (* basic facts *)
  assert (forall p, In p (vptrs v) -> pf p < nid) as Plt.
  { intros p Hp. pose proof (presolve_has_file _ _ (bi_res _ _ I p Hp)) as H.
    apply in_map_iff in H. destruct H as (bf & E & HI). rewrite <- E. auto. }
  assert (forall p, In p Nn -> nid <= pf p) as Nge.
  { intros p Hp. pose proof (presolve_has_file _ _ (RN p Hp)) as H.
    apply in_map_iff in H. destruct H as (bf & E & HI). rewrite <- E. apply NF. exact HI. }
  assert (forall p, In p K -> In p (vptrs v)) as KV.
  { intros p Hp. eapply Permutation_in; [apply Permutation_sym; exact PV|].
    apply in_or_app. right. apply in_or_app. now right. }
  assert (forall p, In p L -> In p (vptrs v)) as LV.
  { intros p Hp. eapply Permutation_in; [apply Permutation_sym; exact PV|].
    apply in_or_app. now left. }
  assert (NoDup (map tgt (L ++ M ++ K))) as NDall.
  { eapply Permutation_NoDup; [apply Permutation_map; exact PV | apply (bi_inj _ _ I)]. }
  assert (NoDup (map tgt (L ++ K))) as NDLK.
  { rewrite !map_app in NDall. rewrite map_app.
    apply NoDup_app_intro'.
    - eapply NoDup_app_l''; eauto.
    - eapply NoDup_app_r''. eapply NoDup_app_r''. exact NDall.
    - intros x HA HB. eapply (NoDup_app_disj' _ _ x NDall HA). apply in_or_app. now right. }
  assert (forall f, find_file (b_blobs v) f = None -> ~ In f drops ->
                    find_file (b_blobs v') f = find_file newfiles f) as FFnew.
  { intros f Hn Hd. rewrite EB, (find_file_filter (fun i => negb (memN i drops))).
    apply memN_false in Hd. rewrite Hd. cbn [negb]. now rewrite find_file_app, Hn. }
  assert (forall f bf, find_file (b_blobs v) f = Some bf -> ~ In f drops ->
                       find_file (b_blobs v') f = Some bf) as FFold.
  { intros f bf Hs Hd. rewrite EB, (find_file_filter (fun i => negb (memN i drops))).
    apply memN_false in Hd. rewrite Hd. cbn [negb]. now rewrite find_file_app, Hs. }
  assert (forall bf, In bf newfiles -> find_file (b_blobs v) (bf_id bf) = None) as NewNone.
  { intros bf HI. apply find_file_none. intros C. apply in_map_iff in C.
    destruct C as (bf' & E & HI'). specialize (IB1 bf' HI'). destruct (NF bf HI) as [G _]. lia. }
  assert (NoDup (map bf_id (b_blobs v'))) as NDids.
  { rewrite EB. apply NoDup_map_filter. rewrite map_app. apply NoDup_app_intro'.
    - apply (bi_fids _ _ I).
    - exact NDf.
    - intros x HA HB. apply in_map_iff in HA, HB.
      destruct HA as (a & <- & HA), HB as (b & E & HB).
      specialize (IB1 a HA). destruct (NF b HB) as [G _]. lia. }
  assert (Permutation (vptrs v') (Nn ++ K)) as PV'.
  { rewrite vptrs_tptrs. unfold v'. rewrite with_merge_tables, tptrs_app. exact PN. }
  constructor.
  - (* table ids *)
    unfold v'. rewrite with_merge_tables, map_app. apply NoDup_app_intro'.
    + exact NDt.
    + apply NoDup_map_filter. apply (bi_tids _ _ I).
    + intros x HA HB. apply in_map_iff in HA. destruct HA as (t & <- & HA).
      apply (FRt t HA). apply in_map_iff in HB. destruct HB as (t' & E & HB).
      rewrite <- E. apply in_map. eapply in_rest_tables; eauto.
  - exact NDids.
  - apply with_merge_gkeys. apply (bi_gkeys _ _ I).
  - intros bf HI. rewrite EB in HI. apply filter_In in HI. destruct HI as [HI _].
    apply in_app_or in HI. destruct HI as [HI|HI]; [apply (bi_files _ _ I bf HI) | apply NF; exact HI].
  - intros t e Ht He. unfold v' in Ht. rewrite with_merge_tables in Ht.
    apply in_app_or in Ht. destruct Ht as [Ht|Ht]; [eauto|].
    eapply (bi_wf _ _ I); [eapply in_rest_tables; eauto | exact He].
  - (* every pointer resolves *)
    intros p Hp. apply (Permutation_in _ PV') in Hp. apply in_app_or in Hp.
    destruct Hp as [Hp|Hp].
    + rewrite <- (RN p Hp). apply presolve_same_file. apply FFnew.
      * apply find_file_none. intros C. apply in_map_iff in C. destruct C as (bf & E & HI).
        specialize (IB1 bf HI). specialize (Nge p Hp). lia.
      * intros C. specialize (DRlt _ C). specialize (Nge p Hp). lia.
    + pose proof (bi_res _ _ I p (KV p Hp)) as R. rewrite <- R. apply presolve_same_file.
      apply presolve_spec in R. destruct R as (bf & fr & F & _).
      rewrite F. apply FFold; [exact F | apply DRK; exact Hp].
  - (* distinct pointers, distinct blobs *)
    eapply Permutation_NoDup; [apply Permutation_map; apply Permutation_sym; exact PV'|].
    rewrite map_app. apply NoDup_app_intro'.
    + exact NDn.
    + rewrite map_app in NDLK. eapply NoDup_app_r''; eauto.
    + intros x HA HB. apply in_map_iff in HA, HB.
      destruct HA as (a & <- & HA), HB as (b & E & HB). unfold tgt in E. inversion E.
      specialize (Nge a HA). specialize (Plt b (KV b HB)). lia.
  - (* statistics *)
    intros bf HI. rewrite (garbage_of_in v' bf NDids HI).
    unfold v'. rewrite with_merge_gc_get by (now apply in_map). fold v'.
    rewrite (garb_perm _ _ bf PV'), DIFF.
    pose proof HI as HI'. rewrite EB in HI'. apply filter_In in HI'. destruct HI' as [HI' ND'].
    apply negb_true_iff, memN_false in ND'.
    apply in_app_or in HI'. destruct HI' as [Hold|Hnew].
    + (* a file of the old version that stays *)
      rewrite garb_app_other.
      2:{ intros p Hp E. specialize (Nge p Hp). specialize (IB1 bf Hold). lia. }
      rewrite (garb_diff L K bf NDLK).
      * apply gce_eq_gadd.
        pose proof (bi_gc _ _ I bf Hold) as G.
        rewrite (garbage_of_in v bf (bi_fids _ _ I) Hold) in G.
        rewrite (garb_perm _ _ bf PV) in G.
        assert (garb (L ++ M ++ K) bf = garb (L ++ K) bf) as EG.
        { rewrite (garb_perm (L ++ M ++ K) (M ++ (L ++ K))).
          - apply garb_app_other. intros p Hp E. apply ND'. rewrite <- E. apply DRM. exact Hp.
          - rewrite !app_assoc. apply Permutation_app_tail. apply Permutation_app_comm. }
        now rewrite EG in G.
      * apply (bi_files _ _ I bf Hold).
      * intros p Hp E. eapply presolve_ptr_frame; [apply (bi_res _ _ I p (LV p Hp))|].
        rewrite E. apply find_file_in; [apply (bi_fids _ _ I) | exact Hold].
    + (* a new file: everything is pointed to, nothing was ever counted *)
      rewrite (garb_all_pointed (Nn ++ K) bf).
      2:{ intros fr Hf. rewrite pointed_app, (COV bf fr Hnew Hf). reflexivity. }
      destruct (NF bf Hnew) as [G _].
      rewrite (gc_get_notin (b_gc v)).
      2:{ intros C. specialize (IB2 _ C). lia. }
      rewrite psum_none.
      2:{ intros p Hp E. specialize (Plt p (LV p Hp)). lia. }
      apply gce_eq_refl.
Qed.

(** * 9. Dropping tables *)

Lemma gce_false_intro a b : g_len a = g_len b -> g_bytes a = g_bytes b -> gce_eq false a b.
Proof. intros A B. repeat split; auto. discriminate. Qed.

Lemma gc_get_add_nodisk m f x f' :
  gce_eq false (gc_get (gc_add_nodisk m f x) f')
               (if f =? f' then gadd (gc_get m f) x else gc_get m f').
Proof.
  unfold gc_add_nodisk. rewrite gc_get_add_with. destruct (f =? f'); [|apply gce_eq_refl].
  destruct (gc_mem m f) eqn:M.
  - apply gce_false_intro; reflexivity.
  - rewrite gc_get_notin by (now apply gc_mem_false). rewrite gadd_zero_l. apply gce_eq_refl.
Qed.

Lemma gc_get_fold_nodisk lk : forall m f,
  gce_eq false (gc_get (fold_left (fun acc kx => gc_add_nodisk acc (fst kx) (snd kx)) lk m) f)
               (gadd (gc_get m f) (gtot lk f)).
Proof.
  induction lk as [|[k x] lk IH]; intros m f; cbn [fold_left gtot fst snd].
  - rewrite gadd_zero_r. apply gce_eq_refl.
  - eapply gce_eq_trans; [apply IH|].
    pose proof (gc_get_add_nodisk m k x f) as H. destruct (k =? f) eqn:E.
    + apply N.eqb_eq in E. subst k. rewrite gadd_assoc. now apply gce_eq_gadd.
    + now apply gce_eq_gadd.
Qed.

(** what [with_dropped] needs of the way a dropped table's records enter the statistics:
    [al_exact d]: each file's entry grows by the callback sum over the table's pointers
    (up to [gce_eq d]); [al_keys]: keys stay distinct and only linked files are added *)
Definition al_exact (d : bool) (al : gcmap -> list entry -> gcmap) : Prop :=
  forall m ents f, gce_eq d (gc_get (al m ents) f) (gadd (gc_get m f) (psum f (ptrs ents))).
Definition al_keys (al : gcmap -> list entry -> gcmap) : Prop :=
  (forall m ents, NoDup (map fst m) -> NoDup (map fst (al m ents))) /\
  (forall m ents k, In k (map fst (al m ents)) ->
     In k (map fst m) \/ exists p, In p (ptrs ents) /\ pf p = k).

Lemma gce_eq_weaken d a b : gce_eq d a b -> gce_eq false a b.
Proof. intros (A & B & _). repeat split; auto. discriminate. Qed.

Lemma keys_fold_nodisk_nodup lk : forall m,
  NoDup (map fst m) ->
  NoDup (map fst (fold_left (fun acc kx => gc_add_nodisk acc (fst kx) (snd kx)) lk m)).
Proof.
  induction lk as [|[k x] lk IH]; intros m ND; cbn [fold_left]; [exact ND|].
  apply IH. now apply keys_add_with_nodup.
Qed.

Lemma keys_fold_nodisk lk : forall m k,
  In k (map fst (fold_left (fun acc kx => gc_add_nodisk acc (fst kx) (snd kx)) lk m)) <->
  In k (map fst lk) \/ In k (map fst m).
Proof.
  induction lk as [|[f x] lk IH]; intros m k; cbn [fold_left map fst In]; [tauto|].
  rewrite IH. unfold gc_add_nodisk. rewrite keys_add_with. cbn [fst snd]. split.
  - intros [H|[->|H]]; auto.
  - intros [[->|H]|H]; auto.
Qed.

(** the current code: the full entry is added *)
Lemma add_linked_merge m ents : add_linked m ents = gc_merge (linked_of ents) m.
Proof. reflexivity. Qed.

Lemma add_linked_exact d : al_exact d add_linked.
Proof.
  intros m ents f. rewrite add_linked_merge, gc_get_merge. unfold linked_of.
  rewrite gtot_of_log. apply gce_eq_refl.
Qed.

Lemma add_linked_keys : al_keys add_linked.
Proof.
  split.
  - intros m ents ND. rewrite add_linked_merge. now apply keys_merge_nodup.
  - intros m ents k H. rewrite add_linked_merge in H. apply keys_merge in H.
    destruct H as [H|H]; [|now left]. right. unfold linked_of in H. now apply keys_of_log in H.
Qed.

(** 3.1.9: len and bytes only *)
Lemma add_linked_old_exact : al_exact false add_linked_old.
Proof.
  intros m ents f. unfold add_linked_old, linked_of. rewrite <- gtot_of_log. apply gc_get_fold_nodisk.
Qed.

Lemma add_linked_old_keys : al_keys add_linked_old.
Proof.
  split.
  - intros m ents ND. unfold add_linked_old. now apply keys_fold_nodisk_nodup.
  - intros m ents k H. unfold add_linked_old in H. apply keys_fold_nodisk in H.
    destruct H as [H|H]; [|now left]. right. unfold linked_of in H. now apply keys_of_log in H.
Qed.

Lemma gc_get_drop_fold d al (tabs : list (N * list entry)) : al_exact d al -> forall m f,
  gce_eq d (gc_get (fold_left (fun acc t => al acc (snd t)) tabs m) f)
           (gadd (gc_get m f) (psum f (tptrs tabs))).
Proof.
  intros AE. induction tabs as [|t tabs IH]; intros m f; cbn [fold_left].
  - cbn. rewrite gadd_zero_r. apply gce_eq_refl.
  - eapply gce_eq_trans; [apply IH|].
    change (tptrs (t :: tabs)) with (ptrs (snd t) ++ tptrs tabs).
    rewrite psum_app, gadd_assoc. apply gce_eq_gadd. apply AE.
Qed.

Lemma keys_drop_fold_nodup al (tabs : list (N * list entry)) : al_keys al -> forall m,
  NoDup (map fst m) ->
  NoDup (map fst (fold_left (fun acc t => al acc (snd t)) tabs m)).
Proof.
  intros [AK _]. induction tabs as [|t tabs IH]; intros m ND; cbn [fold_left]; [exact ND|].
  apply IH. now apply AK.
Qed.

Lemma keys_drop_fold al (tabs : list (N * list entry)) : al_keys al -> forall m k,
  In k (map fst (fold_left (fun acc t => al acc (snd t)) tabs m)) ->
  In k (map fst m) \/ exists p, In p (tptrs tabs) /\ pf p = k.
Proof.
  intros [_ AK]. induction tabs as [|t tabs IH]; intros m k H; cbn [fold_left] in H; [now left|].
  destruct (IH _ _ H) as [H1|(p & Hp & E)].
  - apply AK in H1. destruct H1 as [H1|(p & Hp & E)]; [now left|].
    right. exists p. split; [|exact E]. change (tptrs (t :: tabs)) with (ptrs (snd t) ++ tptrs tabs).
    apply in_or_app. now left.
  - right. exists p. split; [|exact E]. change (tptrs (t :: tabs)) with (ptrs (snd t) ++ tptrs tabs).
    apply in_or_app. now right.
Qed.

(** the statistics plus the callback sum over removed pointers [L] is the brute-force count
    of what remains pointed to by [Q] *)
Lemma exact_after_removal d v bf L Q :
  BInvG d v -> In bf (b_blobs v) -> Permutation (vptrs v) (L ++ Q) ->
  gce_eq d (gadd (gc_get (b_gc v) (bf_id bf)) (psum (bf_id bf) L)) (gsum (garb Q bf)).
Proof.
  intros I HI PV.
  assert (NoDup (map tgt (L ++ Q))) as ND.
  { eapply Permutation_NoDup; [apply Permutation_map; exact PV | apply (bi_inj _ _ I)]. }
  rewrite (garb_diff L Q bf ND).
  - apply gce_eq_gadd. pose proof (bi_gc _ _ I bf HI) as G.
    rewrite (garbage_of_in v bf (bi_fids _ _ I) HI) in G. now rewrite (garb_perm _ _ bf PV) in G.
  - apply (bi_files _ _ I bf HI).
  - intros p Hp E. eapply presolve_ptr_frame.
    + apply (bi_res _ _ I p). eapply Permutation_in; [apply Permutation_sym; exact PV|].
      apply in_or_app. now left.
    + rewrite E. apply find_file_in; [apply (bi_fids _ _ I) | exact HI].
Qed.

Lemma drop_tables_with_inv d al tids v :
  al_exact d al -> al_keys al ->
  BInvG d v -> frames_pos (b_blobs v) -> BInvG d (drop_tables_with al tids v).
Proof.
  intros AE AK I POS. unfold drop_tables_with.
  destruct (negb (tids_known tids v)); [exact I|].
  destruct (is_nil (sel_tables tids (b_tables v))); [exact I|].
  set (D := sel_tables tids (b_tables v)). set (R := rest_tables tids (b_tables v)).
  set (gc' := fold_left (fun acc t => al acc (snd t)) D (b_gc v)).
  set (blobs' := filter (fun bf => negb (is_dead gc' bf)) (b_blobs v)).
  pose proof (vptrs_split tids v) as PV. fold D R in PV.
  assert (NoDup (map bf_id blobs')) as NDids by (apply NoDup_map_filter, (bi_fids _ _ I)).
  (* the new statistics are exact for every old file w.r.t. the remaining tables *)
  assert (forall bf, In bf (b_blobs v) ->
            gce_eq d (gc_get gc' (bf_id bf)) (gsum (garb (tptrs R) bf))) as EX.
  { intros bf HI. eapply gce_eq_trans; [apply (gc_get_drop_fold d al D AE)|].
    apply (exact_after_removal d v bf (tptrs D) (tptrs R) I HI PV). }
  assert (forall p, In p (tptrs R) -> In p (vptrs v)) as RV.
  { intros p Hp. eapply Permutation_in; [apply Permutation_sym; exact PV|].
    apply in_or_app. now right. }
  constructor; cbn [b_tables b_blobs b_gc].
  - apply NoDup_map_filter, (bi_tids _ _ I).
  - exact NDids.
  - apply (keys_drop_fold_nodup al D AK), (bi_gkeys _ _ I).
  - intros bf HI. apply filter_In in HI. apply (bi_files _ _ I bf). tauto.
  - intros t e Ht He. eapply (bi_wf _ _ I); [eapply in_rest_tables; eauto | exact He].
  - intros p Hp. change (In p (tptrs R)) in Hp.
    pose proof (bi_res _ _ I p (RV p Hp)) as RS. rewrite <- RS. apply presolve_same_file.
    apply presolve_spec in RS. destruct RS as (bf & fr & F & Hf & _).
    rewrite F. pose proof (find_file_some _ _ _ F) as [HI Eid].
    rewrite <- Eid. apply find_file_in; [exact NDids|]. apply filter_In. split; [exact HI|].
    apply negb_true_iff. destruct (is_dead gc' bf) eqn:DD; [|reflexivity]. exfalso.
    apply find_frame_in in Hf. destruct Hf as [Hfr Eo].
    pose proof (proj1 (is_dead_spec gc' (tptrs R) bf (gce_eq_weaken _ _ _ (EX bf HI))
                         (proj1 (bi_files _ _ I bf HI))
                         (fun x Hx => POS bf x HI Hx)) DD fr Hfr) as NP.
    rewrite Eo in NP. rewrite (presolve_pointed _ _ _ _ Hp F) in NP. discriminate.
  - change (NoDup (map tgt (tptrs R))).
    assert (NoDup (map tgt (tptrs D ++ tptrs R))) as ND.
    { eapply Permutation_NoDup; [apply Permutation_map; exact PV | apply (bi_inj _ _ I)]. }
    rewrite map_app in ND. eapply NoDup_app_r''; eauto.
  - intros bf HI.
    assert (In bf (b_blobs v)) as HI' by (apply filter_In in HI; tauto).
    unfold garbage_of. cbn [b_blobs]. rewrite (find_file_in _ _ NDids HI).
    change (vptrs _) with (tptrs R). apply EX. exact HI'.
Qed.

(** dropping tables preserves the invariant in full (since the repair of F6 the on-disk
    counter is maintained too) *)
Theorem blob_drop_tables_inv d tids v :
  BInvG d v -> frames_pos (b_blobs v) -> BInvG d (blob_drop_tables tids v).
Proof. apply drop_tables_with_inv; [apply add_linked_exact | apply add_linked_keys]. Qed.

(** 3.1.9's [with_dropped]: only len and bytes stay exact (see
    [blob_drop_tables_old_inv_refuted]) *)
Theorem blob_drop_tables_old_inv d tids v :
  BInvG d v -> frames_pos (b_blobs v) -> BInvG false (blob_drop_tables_old tids v).
Proof.
  intros I POS. apply drop_tables_with_inv;
    [apply add_linked_old_exact | apply add_linked_old_keys | eapply BInvG_weaken; eauto | exact POS].
Qed.

(** after a (non-trivial) drop no file of the version is dead: every file has a live pointer *)
Theorem blob_drop_tables_no_dead d tids v :
  BInvG d v -> frames_pos (b_blobs v) ->
  tids_known tids v = true -> sel_tables tids (b_tables v) <> [] ->
  forall bf, In bf (b_blobs (blob_drop_tables tids v)) ->
  exists p, In p (vptrs (blob_drop_tables tids v)) /\ pf p = bf_id bf.
Proof.
  intros I POS KN NE bf. pose proof (blob_drop_tables_inv d tids v I POS) as I'.
  revert I'. unfold blob_drop_tables, drop_tables_with. rewrite KN. cbn [negb].
  destruct (is_nil (sel_tables tids (b_tables v))) eqn:NIL;
    [apply is_nil_spec in NIL; contradiction|].
  set (gc' := fold_left _ _ _). intros I' HI. cbn [b_blobs] in HI.
  pose proof HI as HI0. apply filter_In in HI. destruct HI as [HI ND]. apply negb_true_iff in ND.
  set (v' := mkBV _ _ _) in *.
  assert (frames_pos (b_blobs v')) as POS'.
  { intros b fr Hb Hf. cbn [b_blobs v'] in Hb. apply filter_In in Hb. eapply POS; [apply Hb | exact Hf]. }
  destruct (bi_files _ _ I' bf HI0) as [NEf _].
  pose proof (BInv_is_dead d v' bf I' POS' HI0) as DS. cbn [b_gc v'] in DS.
  destruct (frames bf) as [|fr0 rest] eqn:EF; [congruence|].
  assert (exists fr, In fr (frames bf) /\ pointed (vptrs v') (bf_id bf) (fr_off fr) = true) as (fr & Hf & PT).
  { destruct (existsb (fun fr => pointed (vptrs v') (bf_id bf) (fr_off fr)) (frames bf)) eqn:EX.
    - apply existsb_exists in EX. exact EX.
    - exfalso. assert (is_dead gc' bf = true); [|congruence]. apply DS. intros fr Hf.
      rewrite <- EF in Hf.
      destruct (pointed (vptrs v') (bf_id bf) (fr_off fr)) eqn:PT; [|reflexivity].
      assert (existsb (fun fr => pointed (vptrs v') (bf_id bf) (fr_off fr)) (frames bf) = true);
        [|congruence].
      apply existsb_exists. eauto. }
  apply pointed_true in PT. apply in_map_iff in PT. destruct PT as (p & E & Hp).
  exists p. split; [exact Hp|]. unfold tgt in E. now inversion E.
Qed.

(** * 6. The blob file writer *)

Lemma add_frame_in fs id fr bf' :
  In bf' (add_frame fs id fr) ->
  In bf' fs \/
  (bf_id bf' = id /\
   ((exists bf, In bf fs /\ bf_id bf = id /\ frames bf' = frames bf ++ [fr]) \/ frames bf' = [fr])).
Proof.
  induction fs as [|x fs IH]; cbn [add_frame].
  - intros [<-|[]]. right. split; [reflexivity | now right].
  - destruct (bf_id x =? id) eqn:E.
    + apply N.eqb_eq in E. intros [<-|HI]; [|left; now right].
      right. split; [reflexivity|]. left. exists x. split; [now left | auto].
    + intros [<-|HI]; [left; now left|].
      destruct (IH HI) as [H|(A & [(bf & B & C & D)|B])]; [left; now right| |].
      * right. split; [exact A|]. left. exists bf. split; [now right | auto].
      * right. split; [exact A | now right].
Qed.

Lemma add_frame_frames fs id fr bf' fr' :
  In bf' (add_frame fs id fr) -> In fr' (frames bf') ->
  (exists bf, In bf fs /\ bf_id bf = bf_id bf' /\ In fr' (frames bf)) \/ (bf_id bf' = id /\ fr' = fr).
Proof.
  intros HI Hf. destruct (add_frame_in _ _ _ _ HI) as [H|(A & [(bf & B & C & D)|B])].
  - left. exists bf'. auto.
  - rewrite D in Hf. apply in_app_or in Hf. destruct Hf as [Hf|[<-|[]]].
    + left. exists bf. split; [exact B|]. split; [congruence | exact Hf].
    + right. auto.
  - rewrite B in Hf. destruct Hf as [<-|[]]. right. auto.
Qed.

Lemma add_frame_ids fs id fr :
  map bf_id (add_frame fs id fr)
  = if memN id (map bf_id fs) then map bf_id fs else map bf_id fs ++ [id].
Proof.
  induction fs as [|x fs IH]; cbn [add_frame map memN existsb app]; [reflexivity|].
  rewrite (N.eqb_sym id). destruct (bf_id x =? id) eqn:E; cbn [orb map bf_id].
  - apply N.eqb_eq in E. now rewrite E.
  - fold (memN id (map bf_id fs)). rewrite IH. destruct (memN id (map bf_id fs)); reflexivity.
Qed.

Lemma find_app_some {A} (q : A -> bool) l l' x : find q l = Some x -> find q (l ++ l') = Some x.
Proof.
  induction l as [|y l IH]; cbn [find app]; [discriminate|]. destruct (q y); auto.
Qed.

(** appending a blob never changes a lookup that succeeded *)
Lemma find_frame_add_mono fs id fr f o x :
  find_frame fs f o = Some x -> find_frame (add_frame fs id fr) f o = Some x.
Proof.
  unfold find_frame, find_file. induction fs as [|y fs IH]; cbn [find add_frame]; [discriminate|].
  destruct (bf_id y =? id) eqn:E.
  - cbn [find bf_id]. apply N.eqb_eq in E. rewrite <- E.
    destruct (bf_id y =? f); [|auto]. cbn [frames]. apply find_app_some.
  - cbn [find]. destruct (bf_id y =? f); auto.
Qed.

Lemma find_frame_add_new fs id fr :
  (forall bf x, In bf fs -> bf_id bf = id -> In x (frames bf) -> fr_off x <> fr_off fr) ->
  find_frame (add_frame fs id fr) id (fr_off fr) = Some fr.
Proof.
  unfold find_frame, find_file. induction fs as [|y fs IH]; intros H; cbn [add_frame find].
  - cbn [bf_id frames find]. rewrite N.eqb_refl. cbn [frames find]. now rewrite N.eqb_refl.
  - destruct (bf_id y =? id) eqn:E.
    + cbn [find bf_id frames]. rewrite N.eqb_refl. cbn [frames]. apply N.eqb_eq in E.
      assert (find (fun x => fr_off x =? fr_off fr) (frames y) = None) as FN.
      { destruct (find _ (frames y)) as [x|] eqn:F; [|reflexivity].
        apply find_frame_in in F. destruct F as [HI Eo]. exfalso.
        apply (H y x (or_introl eq_refl) E HI Eo). }
      clear H. induction (frames y) as [|z l IHl]; cbn [app find] in *.
      * now rewrite N.eqb_refl.
      * destruct (fr_off z =? fr_off fr); [discriminate | auto].
    + cbn [find]. rewrite E. apply IH. intros bf x Hb. apply H. now right.
Qed.

Section Writer.
  Variable Fp : frame -> Prop.

  Record WInv (lo : N) (w : bwriter) (P : list ptr) : Prop := mkWInv {
    wi_id : lo <= bw_id w /\ bw_id w < bw_next w;
    wi_ids : forall bf, In bf (bw_files w) -> lo <= bf_id bf /\ bf_id bf <= bw_id w;
    wi_nodup : NoDup (map bf_id (bw_files w));
    wi_ok : forall bf, In bf (bw_files w) -> file_ok_P bf;
    wi_off : forall bf fr, In bf (bw_files w) -> bf_id bf = bw_id w -> In fr (frames bf) ->
             fr_off fr < bw_off w;
    wi_res : forall p, In p P -> presolve (bw_files w) p = true;
    wi_inj : NoDup (map tgt P);
    wi_cov : forall bf fr, In bf (bw_files w) -> In fr (frames bf) ->
             pointed P (bf_id bf) (fr_off fr) = true;
    wi_fp : forall bf fr, In bf (bw_files w) -> In fr (frames bf) -> Fp fr }.

  Lemma WInv_new lo : WInv lo (bw_new lo) [].
  Proof.
    constructor; cbn [bw_new bw_id bw_next bw_files bw_off]; try (intros; contradiction).
    - lia.
    - constructor.
    - constructor.
  Qed.

  Lemma WInv_perm lo w P Q : Permutation P Q -> WInv lo w P -> WInv lo w Q.
  Proof.
    intros HP [H1 H2 H3 H4 H5 H6 H7 H8 H9]. constructor; auto.
    - intros p Hp. apply H6. eapply Permutation_in; [apply Permutation_sym; exact HP | exact Hp].
    - eapply Permutation_NoDup; [apply Permutation_map; exact HP | exact H7].
    - intros bf fr Hb Hf. specialize (H8 bf fr Hb Hf). apply pointed_true in H8. apply pointed_true.
      eapply Permutation_in; [apply Permutation_map; exact HP | exact H8].
  Qed.

  Lemma bw_write_inv lo target w P k s v disk w' h :
    WInv lo w P -> bw_write target w k s v disk = (w', h) ->
    Fp (mkFr k s (bw_off w) v disk) ->
    h = (bw_id w, bw_off w) /\
    find_frame (bw_files w') (fst h) (snd h) = Some (mkFr k s (bw_off w) v disk) /\
    (forall f o x, find_frame (bw_files w) f o = Some x -> find_frame (bw_files w') f o = Some x) /\
    WInv lo w' (mkP k (fst h) (snd h) disk (lenN v) :: P).
  Proof.
    intros [H1 H2 H3 H4 H5 H6 H7 H8 H9] HW HF. unfold bw_write in HW.
    set (fr := mkFr k s (bw_off w) v disk) in *.
    set (fs := add_frame (bw_files w) (bw_id w) fr) in *.
    assert (bw_files w' = fs /\ h = (bw_id w, bw_off w)) as [EF Eh].
    { destruct (target <=? bw_off w + frame_span k disk); inversion HW; auto. }
    subst h. cbn [fst snd]. split; [reflexivity|].
    assert (find_frame fs (bw_id w) (bw_off w) = Some fr) as FN.
    { change (bw_off w) with (fr_off fr). unfold fs.
      apply (find_frame_add_new (bw_files w) (bw_id w) fr).
      intros bf x Hb Ei Hx. specialize (H5 bf x Hb Ei Hx). cbn [fr fr_off]. lia. }
    assert (forall f o x, find_frame (bw_files w) f o = Some x -> find_frame fs f o = Some x) as MONO
      by (intros; now apply find_frame_add_mono).
    rewrite EF. split; [exact FN|]. split; [exact MONO|].
    (* facts that do not depend on rotation *)
    assert (forall bf, In bf fs -> lo <= bf_id bf /\ bf_id bf <= bw_id w) as IDS.
    { intros bf HI. destruct (add_frame_in _ _ _ _ HI) as [H|(A & _)]; [auto | lia]. }
    assert (NoDup (map bf_id fs)) as ND.
    { unfold fs. rewrite add_frame_ids. destruct (memN (bw_id w) (map bf_id (bw_files w))) eqn:M;
        [exact H3|]. apply memN_false in M. apply NoDup_app_intro'; [exact H3 | constructor; [intros [] | constructor] |].
      intros x HA [<-|[]]. exact (M HA). }
    assert (forall bf, In bf fs -> file_ok_P bf) as OK.
    { intros bf HI. destruct (add_frame_in _ _ _ _ HI) as [H|(A & [(b & B & C & D)|B])]; [auto| |].
      - unfold file_ok_P. rewrite D. split; [destruct (frames b); discriminate|].
        rewrite map_app. apply NoDup_app_intro'; [apply (H4 b B) | constructor; [intros [] | constructor] |].
        intros x HA [<-|[]]. apply in_map_iff in HA. destruct HA as (y & Ey & Hy).
        specialize (H5 b y B C Hy). cbn [fr fr_off] in Ey. lia.
      - unfold file_ok_P. rewrite B. split; [discriminate | constructor; [intros [] | constructor]]. }
    assert (forall bf x, In bf fs -> bf_id bf = bw_id w -> In x (frames bf) ->
                         fr_off x < bw_off w + frame_span k disk) as OFF.
    { intros bf x HI Ei Hx. unfold frame_span, BLOB_HEADER_LEN.
      destruct (add_frame_frames _ _ _ _ _ HI Hx) as [(b & B & C & D)|[_ ->]].
      - assert (fr_off x < bw_off w) by (apply (H5 b x B); congruence). lia.
      - cbn [fr fr_off]. lia. }
    assert (forall p, In p (mkP k (bw_id w) (bw_off w) disk (lenN v) :: P) -> presolve fs p = true) as RES.
    { intros p [<-|Hp].
      - unfold presolve. cbn [pf po pk ps pd]. rewrite FN. cbn [fr fr_key fr_val fr_disk].
        now rewrite key_eqb_refl, !N.eqb_refl.
      - specialize (H6 p Hp). unfold presolve in *.
        destruct (find_frame (bw_files w) (pf p) (po p)) as [x|] eqn:F; [|discriminate].
        now rewrite (MONO _ _ _ F). }
    assert (NoDup (map tgt (mkP k (bw_id w) (bw_off w) disk (lenN v) :: P))) as INJ.
    { cbn [map]. constructor; [|exact H7]. intros HI. apply in_map_iff in HI.
      destruct HI as (p & E & Hp). unfold tgt in E. cbn [pf po] in E. inversion E as [[E1 E2]].
      specialize (H6 p Hp). apply presolve_spec in H6. destruct H6 as (bf & x & F & Fx & _).
      apply find_file_some in F. destruct F as [Hb Ei]. apply find_frame_in in Fx.
      destruct Fx as [Hx Eo]. assert (fr_off x < bw_off w) by (apply (H5 bf x Hb); congruence). lia. }
    assert (forall bf x, In bf fs -> In x (frames bf) ->
              pointed (mkP k (bw_id w) (bw_off w) disk (lenN v) :: P) (bf_id bf) (fr_off x) = true) as COV.
    { intros bf x HI Hx. rewrite pointed_cons. cbn [pf po].
      destruct (add_frame_frames _ _ _ _ _ HI Hx) as [(b & B & C & D)|[Ei ->]].
      - rewrite <- C, (H8 b x B D). apply orb_true_r.
      - rewrite Ei. cbn [fr fr_off]. now rewrite !N.eqb_refl. }
    assert (forall bf x, In bf fs -> In x (frames bf) -> Fp x) as FP.
    { intros bf x HI Hx. destruct (add_frame_frames _ _ _ _ _ HI Hx) as [(b & B & C & D)|[_ ->]];
        [eapply H9; eauto | exact HF]. }
    destruct (target <=? bw_off w + frame_span k disk); inversion HW; subst w';
      constructor; cbn [bw_id bw_next bw_off bw_files]; auto.
    - lia.
    - intros bf HI. specialize (IDS bf HI). lia.
    - intros bf x HI Ei. specialize (IDS bf HI). lia.
  Qed.
End Writer.

(** * 7. Flush *)

(** how the table writer cuts an entry list into tables: nothing lost, nothing
    reordered, fresh distinct table ids *)
Definition split_ok (split : list entry -> list (N * list entry)) (old : list (N * list entry)) : Prop :=
  forall l, concat (map snd (split l)) = l /\ NoDup (map fst (split l)) /\
            (forall t, In t (split l) -> ~ In (fst t) (map fst old)).

Lemma split_ok_tptrs split old l : split_ok split old -> tptrs (split l) = ptrs l.
Proof. intros H. rewrite tptrs_concat. now rewrite (proj1 (H l)). Qed.

Lemma split_ok_in split old l t e : split_ok split old -> In t (split l) -> In e (snd t) -> In e l.
Proof.
  intros H Ht He. rewrite <- (proj1 (H l)). apply in_concat. exists (snd t).
  split; [now apply in_map | exact He].
Qed.

Definition big_enough (thr : N) (fr : frame) : Prop := thr <= lenN (fr_val fr).

Lemma separate_inv thr target lo : forall items w P ents w',
  WInv (big_enough thr) lo w P ->
  (forall e, In e items -> ty e <> Ind) ->
  separate thr target w items = (ents, w') ->
  (forall e, In e ents -> wf_ind e = true) /\
  (forall f o x, find_frame (bw_files w) f o = Some x -> find_frame (bw_files w') f o = Some x) /\
  exists P', WInv (big_enough thr) lo w' P' /\ Permutation P' (ptrs ents ++ P).
Proof.
  induction items as [|e r IH]; intros w P ents w' WI NI HS; cbn [separate] in HS.
  - inversion HS; subst. split; [intros e []|]. split; [auto|]. exists P. split; [exact WI | apply Permutation_refl].
  - assert (forall x, In x r -> ty x <> Ind) as NI' by (intros x Hx; apply NI; now right).
    destruct (is_tomb e) eqn:TB.
    + destruct (separate thr target w r) as [o w2] eqn:HR. inversion HS; subst.
      destruct (IH w P o w' WI NI' HR) as (WF & MONO & P' & WI' & PP).
      split; [|split; [exact MONO|]].
      * intros x [<-|Hx]; [|auto]. unfold wf_ind. cbn [ty].
        unfold is_tomb in TB. destruct (ty e); try discriminate; reflexivity.
      * exists P'. split; [exact WI'|]. rewrite ptrs_cons.
        assert (ptr_of (mkE (ukey e) (seq e) (ty e) []) = None) as ->.
        { unfold ptr_of. cbn [ty val]. destruct (ty e); reflexivity. }
        exact PP.
    + destruct (thr <=? lenN (val e)) eqn:BIG.
      * destruct (bw_write target w (ukey e) (seq e) (val e) (lenN (val e))) as [w1 h] eqn:HW.
        destruct (separate thr target w1 r) as [o w2] eqn:HR. inversion HS; subst.
        apply N.leb_le in BIG.
        destruct (bw_write_inv (big_enough thr) lo target w P _ _ _ _ w1 h WI HW BIG)
          as (Eh & FN & MONO1 & WI1).
        destruct (IH w1 _ o w' WI1 NI' HR) as (WF & MONO & P' & WI' & PP).
        split; [|split].
        -- intros x [<-|Hx]; [reflexivity | auto].
        -- intros f o' x Hx. apply MONO. apply MONO1. exact Hx.
        -- exists P'. split; [exact WI'|]. rewrite ptrs_cons, ptr_of_mk_ind.
           eapply perm_trans; [exact PP|]. cbn [app]. apply Permutation_sym, Permutation_middle.
      * destruct (separate thr target w r) as [o w2] eqn:HR. inversion HS; subst.
        destruct (IH w P o w' WI NI' HR) as (WF & MONO & P' & WI' & PP).
        assert (ptr_of e = None) as PN.
        { unfold ptr_of. pose proof (NI e (or_introl eq_refl)) as T. destruct (ty e); congruence. }
        split; [|split; [exact MONO|]].
        -- intros x [<-|Hx]; [|auto]. unfold wf_ind. pose proof (NI e (or_introl eq_refl)) as T.
           destruct (ty e); congruence.
        -- exists P'. split; [exact WI'|]. rewrite ptrs_cons, PN. exact PP.
Qed.

Lemma rest_tables_nil tabs : rest_tables [] tabs = tabs.
Proof. unfold rest_tables. apply filter_all_true. reflexivity. Qed.

(** a flush is a merge of no tables that drops nothing *)
Lemma flush_as_merge v newtabs files :
  mkBV (newtabs ++ b_tables v) (b_blobs v ++ files) (b_gc v) = with_merge v [] newtabs [] files [].
Proof.
  unfold with_merge. rewrite rest_tables_nil. cbn [is_nil negb orb].
  f_equal. rewrite orb_false_r. destruct files as [|f fs]; cbn [is_nil negb].
  - now rewrite app_nil_r.
  - symmetry. apply filter_all_true. reflexivity.
Qed.

Theorem blob_flush_inv d thr target W nid split mem v :
  BInvG d v -> ids_below nid v ->
  (forall e, In e mem -> ty e <> Ind) ->
  split_ok split (b_tables v) ->
  BInvG d (fst (blob_flush thr target W nid split mem v)) /\
  ids_below (snd (blob_flush thr target W nid split mem v))
            (fst (blob_flush thr target W nid split mem v)) /\
  nid <= snd (blob_flush thr target W nid split mem v) /\
  (0 < thr -> frames_pos (b_blobs v) ->
   frames_pos (b_blobs (fst (blob_flush thr target W nid split mem v)))) /\
  b_gc (fst (blob_flush thr target W nid split mem v)) = b_gc v.
Proof.
  intros I IB NI SP. unfold blob_flush.
  destruct (run_stream W false no_filter mem) as [out lg] eqn:HR.
  destruct (separate thr target (bw_new nid) out) as [ents w] eqn:HS.
  unfold bw_finish. cbn [fst snd].
  assert (forall e, In e out -> ty e <> Ind) as NI'.
  { intros e He. apply NI. eapply cstream_out_in; eauto. }
  destruct (separate_inv thr target nid out (bw_new nid) [] ents w (WInv_new _ nid) NI' HS)
    as (WF & _ & P' & WI & PP).
  rewrite app_nil_r in PP.
  destruct WI as [W1 W2 W3 W4 W5 W6 W7 W8 W9].
  split; [|split; [|split; [|split]]].
  - rewrite flush_as_merge.
    apply (with_merge_inv d v [] (split ents) [] (bw_files w) [] nid [] [] (vptrs v) P'); auto.
    + apply (SP ents).
    + apply (SP ents).
    + intros t e Ht He. apply WF. eapply split_ok_in; eauto.
    + rewrite rest_tables_nil, (split_ok_tptrs _ _ _ SP). rewrite <- vptrs_tptrs.
      apply Permutation_app_tail. apply Permutation_sym. exact PP.
    + intros bf HI. split; [apply (W2 bf HI) | apply (W4 bf HI)].
    + intros f [].
  - destruct IB as [B1 B2]. split; cbn [b_blobs b_gc].
    + intros bf HI. apply in_app_or in HI. destruct HI as [HI|HI].
      * specialize (B1 bf HI). lia.
      * specialize (W2 bf HI). lia.
    + intros f Hf. specialize (B2 f Hf). lia.
  - lia.
  - intros TP POS bf fr Hb Hf. cbn [b_blobs] in Hb. apply in_app_or in Hb. destruct Hb as [Hb|Hb].
    + eapply POS; eauto.
    + specialize (W9 bf fr Hb Hf). unfold big_enough in W9. lia.
  - reflexivity.
Qed.

(** * 8b. The stream's accounting, in terms of pointers; standard merge *)

(** the filter never hands back something that decodes as a pointer *)
Definition flt_noptr (flt : entry -> verdict) : Prop :=
  forall e t v, flt e = Replace t v -> ptr_of (mkE (ukey e) (seq e) t v) = None.
(** the plain filters: never an indirection *)
Definition flt_plain (flt : entry -> verdict) : Prop :=
  forall e t v, flt e = Replace t v -> t <> Ind.

Lemma flt_plain_noptr flt : flt_plain flt -> flt_noptr flt.
Proof.
  intros H e t v Hf. specialize (H e t v Hf). unfold ptr_of. cbn [ty]. destruct t; congruence.
Qed.

Lemma no_filter_plain : flt_plain no_filter.
Proof. intros e t v H. discriminate. Qed.

(** every pointer of the input is either emitted unchanged or reported to the callback,
    exactly once; nothing else is *)
Lemma stream_ptrs W evict flt l out log :
  flt_noptr flt -> run_stream W evict flt l = (out, log) ->
  Permutation (ptrs l) (ptrs out ++ ptrs log).
Proof.
  intros NP HR.
  destruct (cstream_log_exact _ _ _ _ _ _ HR) as (kept & silent & repl & P1 & TS & P2 & FR & _).
  assert (ptrs repl = []) as ER.
  { clear P2. induction repl as [|h repl IH]; [reflexivity|].
    inversion FR as [|? ? Hh FR']; subst. rewrite ptrs_cons, (IH FR').
    destruct Hh as (e & t & v & _ & _ & Hf & ->). now rewrite (NP e t v Hf). }
  eapply perm_trans; [apply ptrs_perm; exact P1|].
  rewrite !ptrs_app, (ptrs_tombs _ TS), app_nil_r.
  apply Permutation_app_tail. apply Permutation_sym.
  eapply perm_trans; [apply ptrs_perm; exact P2|]. now rewrite ptrs_app, ER, app_nil_r.
Qed.

Lemma in_le_sumN x l : In x l -> x <= sumN l.
Proof.
  induction l as [|y l IH]; [contradiction|]. cbn [sumN fold_right]. fold (sumN l).
  intros [->|H]; [lia | specialize (IH H); lia].
Qed.

Lemma ids_below_ex v : exists nid, ids_below nid v.
Proof.
  exists (sumN (map bf_id (b_blobs v)) + sumN (map fst (b_gc v)) + 1). split.
  - intros bf HI. pose proof (in_le_sumN _ _ (in_map bf_id _ _ HI)). lia.
  - intros f HI. pose proof (in_le_sumN _ _ HI). lia.
Qed.

Lemma dead_ids_below nid v f : ids_below nid v -> In f (dead_ids v) -> f < nid.
Proof.
  intros [B _] H. apply in_dead_ids in H. destruct H as (bf & HI & _ & <-). auto.
Qed.

Lemma wf_ind_not_ind e : ty e <> Ind -> wf_ind e = true.
Proof. unfold wf_ind. destruct (ty e); congruence. Qed.

Theorem blob_merge_standard_inv d W evict flt tids split v :
  BInvG d v -> frames_pos (b_blobs v) -> flt_plain flt -> split_ok split (b_tables v) ->
  BInvG d (blob_merge_standard W evict flt tids split v).
Proof.
  intros I POS FP SP. unfold blob_merge_standard.
  destruct (negb (tids_known tids v)); [exact I|].
  destruct (run_stream W evict flt (merge_input tids v)) as [out log] eqn:HR.
  destruct (ids_below_ex v) as (nid & IB).
  set (R := rest_tables tids (b_tables v)).
  pose proof (stream_ptrs _ _ _ _ _ _ (flt_plain_noptr _ FP) HR) as PS.
  assert (Permutation (vptrs v) (ptrs log ++ [] ++ (ptrs out ++ tptrs R))) as PV.
  { eapply perm_trans; [apply (vptrs_split tids v)|]. fold R. cbn [app].
    eapply perm_trans; [apply Permutation_app_tail; apply Permutation_sym; apply merge_input_ptrs|].
    eapply perm_trans; [apply Permutation_app_tail; exact PS|].
    rewrite <- app_assoc. eapply perm_trans; [apply Permutation_app_swap_app|]. apply Permutation_refl. }
  apply (with_merge_inv d v tids (split out) (gc_of_log log) [] (dead_ids v) nid
                        (ptrs log) [] (ptrs out ++ tptrs R) []).
  - exact I.
  - exact IB.
  - apply (SP out).
  - apply (SP out).
  - intros t e Ht He. pose proof (split_ok_in _ _ _ _ _ SP Ht He) as Ho.
    destruct (cstream_replace_keeps_seq _ _ _ _ _ _ HR e Ho) as [Hl|(e0 & t0 & v0 & _ & _ & Hf & ->)].
    + destruct (merge_input_in _ _ _ Hl) as (t' & Ht' & He'). apply (bi_wf _ _ I t' e Ht' He').
    + apply wf_ind_not_ind. cbn [ty]. apply (FP e0 t0 v0 Hf).
  - exact PV.
  - cbn [app]. rewrite (split_ok_tptrs _ _ _ SP). apply Permutation_refl.
  - constructor.
  - intros bf [].
  - intros p [].
  - constructor.
  - intros bf fr [].
  - intros f. apply gtot_of_log.
  - intros f Hf. eapply dead_ids_below; eauto.
  - intros p Hp Hd. apply in_dead_ids in Hd. destruct Hd as (bf & HI & DD & E).
    apply (dead_no_ptr d v bf p I POS HI DD); [|now symmetry].
    eapply Permutation_in; [apply Permutation_sym; exact PV|]. apply in_or_app. right. exact Hp.
  - intros p [].
Qed.

(** * 12. Statistics are exact; dead iff unreferenced; when files leave the version *)

Lemma sumN_ext_in {A} (g h : A -> N) l :
  (forall x, In x l -> g x = h x) -> sumN (map g l) = sumN (map h l).
Proof.
  induction l as [|x l IH]; intros H; [reflexivity|]. cbn [map sumN fold_right].
  fold (sumN (map g l)) (sumN (map h l)). rewrite (H x (or_introl eq_refl)), IH; [reflexivity|].
  intros y Hy. apply H. now right.
Qed.

Lemma sumN_cons x l : sumN (x :: l) = x + sumN l.
Proof. reflexivity. Qed.

Lemma sum_upd (blobs : list blobfile) k a (h : N -> N) :
  NoDup (map bf_id blobs) -> In k (map bf_id blobs) -> h k = 0 ->
  sumN (map (fun bf => if k =? bf_id bf then a else h (bf_id bf)) blobs)
  = a + sumN (map (fun bf => h (bf_id bf)) blobs).
Proof.
  induction blobs as [|bf bs IH]; intros ND HI H0; [contradiction|].
  cbn [map] in ND, HI. inversion ND as [|? ? NI ND']; subst. cbn [map]. rewrite !sumN_cons.
  destruct (k =? bf_id bf) eqn:E.
  - apply N.eqb_eq in E. subst k. rewrite H0.
    rewrite (sumN_ext_in _ (fun b => h (bf_id b))); [lia|].
    intros b Hb. destruct (bf_id bf =? bf_id b) eqn:E2; [|reflexivity].
    apply N.eqb_eq in E2. exfalso. apply NI. rewrite E2. now apply in_map.
  - apply N.eqb_neq in E. destruct HI as [HI|HI]; [congruence|].
    rewrite (IH ND' HI H0). lia.
Qed.

Lemma sum_gc_blobs m : forall blobs,
  NoDup (map fst m) -> NoDup (map bf_id blobs) ->
  (forall k, In k (map fst m) -> In k (map bf_id blobs)) ->
  stale_bytes m = sumN (map (fun bf => g_disk (gc_get m (bf_id bf))) blobs).
Proof.
  unfold stale_bytes. induction m as [|[k x] m IH]; intros blobs NDm NDb SUB.
  - cbn [map sumN fold_right]. induction blobs as [|b bs IHb]; [reflexivity|].
    cbn [map] in *. rewrite sumN_cons. inversion NDb; subst. rewrite <- IHb; auto.
    intros k [].
  - cbn [map fst snd] in *. inversion NDm as [|? ? NI NDm']; subst. rewrite sumN_cons.
    rewrite (IH blobs NDm' NDb) by (intros j Hj; apply SUB; now right).
    rewrite <- (sum_upd blobs k (g_disk x) (fun f => g_disk (gc_get m f)) NDb).
    + apply sumN_ext_in. intros bf _. unfold gc_get. cbn [gc_find].
      destruct (k =? bf_id bf); reflexivity.
    + apply SUB. now left.
    + now rewrite gc_get_notin.
Qed.

(** [FragmentationMap::stale_bytes] is the on-disk size of the unreferenced blobs of the
    version, provided the map has no entries for files outside the version *)
Theorem stale_bytes_exact v :
  BInv v -> gc_pruned v ->
  stale_bytes (b_gc v) = sumN (map (fun bf => g_disk (garbage_of v (bf_id bf))) (b_blobs v)).
Proof.
  intros I PR. rewrite (sum_gc_blobs (b_gc v) (b_blobs v) (bi_gkeys _ _ I) (bi_fids _ _ I) PR).
  apply sumN_ext_in. intros bf HI. destruct (bi_gc _ _ I bf HI) as (_ & _ & C). now apply C.
Qed.

(** ... and in terms of blobs *)
Lemma garbage_disk v bf :
  NoDup (map bf_id (b_blobs v)) -> In bf (b_blobs v) ->
  g_disk (garbage_of v (bf_id bf)) = sumN (map fr_disk (garb (vptrs v) bf)).
Proof. intros ND HI. rewrite (garbage_of_in v bf ND HI). apply gsum_disk. Qed.

(** [BlobFile::is_dead] holds exactly when no table entry points into the file
    (given all blobs have non-empty values) *)
Theorem is_dead_iff d v bf :
  BInvG d v -> frames_pos (b_blobs v) -> In bf (b_blobs v) ->
  (is_dead (b_gc v) bf = true <-> forall p, In p (vptrs v) -> pf p <> bf_id bf).
Proof.
  intros I POS HI. split.
  - intros DD p Hp. eapply dead_no_ptr; eauto.
  - intros H. apply (BInv_is_dead d v bf I POS HI). intros fr _. now apply pointed_other.
Qed.

(** ** when files leave the version *)

Lemma blob_merge_standard_blobs W evict flt tids split v :
  tids_known tids v = true ->
  b_blobs (blob_merge_standard W evict flt tids split v)
  = filter (fun bf => negb (memN (bf_id bf) (dead_ids v))) (b_blobs v).
Proof.
  intros KN. unfold blob_merge_standard. rewrite KN. cbn [negb].
  destruct (run_stream _ _ _ _) as [out log]. now rewrite with_merge_blobs, app_nil_r.
Qed.

(** the code drops a dead file at the next merge: a file stays iff it is not dead by the
    statistics of the version the merge starts from, iff some pointer of that version
    points into it *)
Theorem blob_merge_standard_keeps_iff d W evict flt tids split v bf :
  BInvG d v -> frames_pos (b_blobs v) -> tids_known tids v = true -> In bf (b_blobs v) ->
  (In bf (b_blobs (blob_merge_standard W evict flt tids split v)) <->
   exists p, In p (vptrs v) /\ pf p = bf_id bf).
Proof.
  intros I POS KN HI. rewrite (blob_merge_standard_blobs _ _ _ _ _ _ KN), filter_In.
  pose proof (is_dead_iff d v bf I POS HI) as DI.
  assert (In (bf_id bf) (dead_ids v) <-> is_dead (b_gc v) bf = true) as DID.
  { rewrite in_dead_ids. split.
    - intros (b & Hb & DD & E).
      assert (b = bf) as ->; [|exact DD].
      pose proof (find_file_in _ _ (bi_fids _ _ I) Hb) as F1.
      pose proof (find_file_in _ _ (bi_fids _ _ I) HI) as F2. rewrite E in F1. congruence.
    - intros DD. exists bf. auto. }
  split.
  - intros [_ ND]. apply negb_true_iff, memN_false in ND.
    destruct (existsb (fun p => pf p =? bf_id bf) (vptrs v)) eqn:EX.
    + apply existsb_exists in EX. destruct EX as (p & Hp & E). apply N.eqb_eq in E. eauto.
    + exfalso. apply ND, DID, DI. intros p Hp E.
      assert (existsb (fun p => pf p =? bf_id bf) (vptrs v) = true); [|congruence].
      apply existsb_exists. exists p. split; [exact Hp | now apply N.eqb_eq].
  - intros (p & Hp & E). split; [exact HI|]. apply negb_true_iff, memN_false.
    intros C. apply DID in C. apply (proj1 DI C p Hp E).
Qed.

(** a file that is dead in [v] is gone after the next merge on [v] (no invariant needed) *)
Theorem dead_removed_by_merge W evict flt tids split v bf :
  tids_known tids v = true -> In bf (b_blobs v) -> is_dead (b_gc v) bf = true ->
  ~ In (bf_id bf) (map bf_id (b_blobs (blob_merge_standard W evict flt tids split v))).
Proof.
  intros KN HI DD C. rewrite (blob_merge_standard_blobs _ _ _ _ _ _ KN) in C.
  apply in_map_iff in C. destruct C as (b & E & Hb). apply filter_In in Hb.
  destruct Hb as [_ ND]. apply negb_true_iff, memN_false in ND. apply ND.
  rewrite E. apply in_dead_ids. exists bf. auto.
Qed.

(** dropping tables removes files at once: a file stays iff a remaining table points into it *)
Theorem blob_drop_tables_keeps_iff d tids v bf :
  BInvG d v -> frames_pos (b_blobs v) ->
  tids_known tids v = true -> sel_tables tids (b_tables v) <> [] -> In bf (b_blobs v) ->
  (In bf (b_blobs (blob_drop_tables tids v)) <->
   exists p, In p (vptrs (blob_drop_tables tids v)) /\ pf p = bf_id bf).
Proof.
  intros I POS KN NE HI. split.
  - apply (blob_drop_tables_no_dead d tids v I POS KN NE).
  - intros (p & Hp & E). pose proof (blob_drop_tables_inv d tids v I POS) as I'.
    pose proof (presolve_has_file _ _ (bi_res _ _ I' p Hp)) as HF.
    apply in_map_iff in HF. destruct HF as (b & Eb & Hb).
    assert (In b (b_blobs v)) as Hb'.
    { revert Hb. unfold blob_drop_tables, drop_tables_with. destruct (negb (tids_known tids v)); [auto|].
      destruct (is_nil _); [auto|]. cbn [b_blobs]. intros Hb. apply filter_In in Hb. tauto. }
    assert (b = bf) as <-; [|exact Hb].
    pose proof (find_file_in _ _ (bi_fids _ _ I) Hb') as F1.
    pose proof (find_file_in _ _ (bi_fids _ _ I) HI) as F2.
    rewrite Eb, E in F1. congruence.
Qed.

Lemma drop_vptrs_incl tids v p :
  In p (vptrs (blob_drop_tables tids v)) -> In p (vptrs v).
Proof.
  unfold blob_drop_tables, drop_tables_with. destruct (negb (tids_known tids v)); [auto|].
  destruct (is_nil _); [auto|]. rewrite !vptrs_tptrs. cbn [b_tables]. intros H.
  apply in_tptrs in H. destruct H as (t & Ht & Hp). apply in_tptrs. exists t.
  split; [eapply in_rest_tables; eauto | exact Hp].
Qed.

(** a file that is dead in [v] is gone after the next (non-trivial) drop on [v] *)
Theorem dead_removed_by_drop d tids v bf :
  BInvG d v -> frames_pos (b_blobs v) ->
  tids_known tids v = true -> sel_tables tids (b_tables v) <> [] ->
  In bf (b_blobs v) -> is_dead (b_gc v) bf = true ->
  ~ In bf (b_blobs (blob_drop_tables tids v)).
Proof.
  intros I POS KN NE HI DD C.
  apply (blob_drop_tables_keeps_iff d tids v bf I POS KN NE HI) in C.
  destruct C as (p & Hp & E). apply drop_vptrs_incl in Hp.
  apply (dead_no_ptr d v bf p I POS HI DD Hp E).
Qed.

(** ** side invariants: id bound, non-empty values, pruned statistics *)

Lemma with_merge_aux v tids newtabs diff newfiles drops nid nid' :
  ids_below nid v -> nid <= nid' -> (forall bf, In bf newfiles -> bf_id bf < nid') ->
  let v' := with_merge v tids newtabs diff newfiles drops in
  ids_below nid' v' /\
  (frames_pos (b_blobs v) -> frames_pos newfiles -> frames_pos (b_blobs v')) /\
  (gc_pruned v -> gc_pruned v') /\
  (diff <> [] \/ drops <> [] -> gc_pruned v').
Proof.
  intros [B1 B2] LE NB v'.
  assert (forall bf, In bf (b_blobs v') -> In bf (b_blobs v) \/ In bf newfiles) as SUB.
  { intros bf HI. unfold v' in HI. rewrite with_merge_blobs in HI. apply filter_In in HI.
    destruct HI as [HI _]. now apply in_app_or in HI. }
  assert (forall bf, In bf (b_blobs v') -> bf_id bf < nid') as BL.
  { intros bf HI. destruct (SUB bf HI) as [H|H]; [specialize (B1 bf H); lia | auto]. }
  assert (negb (is_nil diff) || negb (is_nil drops) = true ->
          forall k, In k (map fst (b_gc v')) -> In k (map bf_id (b_blobs v'))) as PR.
  { intros C k Hk. unfold v', with_merge in Hk |- *. cbn [b_gc b_blobs] in Hk |- *.
    rewrite C in Hk. apply keys_prune in Hk. destruct Hk as [_ Hk]. now apply has_file_In in Hk. }
  split; [|split; [|split]].
  - split; [exact BL|]. intros k Hk.
    destruct (negb (is_nil diff) || negb (is_nil drops)) eqn:C.
    + specialize (PR eq_refl k Hk). apply in_map_iff in PR. destruct PR as (bf & <- & HI). auto.
    + unfold v', with_merge in Hk. cbn [b_gc] in Hk. rewrite C in Hk. specialize (B2 k Hk). lia.
  - intros P1 P2 bf fr Hb Hf. destruct (SUB bf Hb); [eapply P1 | eapply P2]; eauto.
  - intros GP. destruct (negb (is_nil diff) || negb (is_nil drops)) eqn:C; [exact (PR eq_refl)|].
    intros k Hk. pose proof C as C'. apply orb_false_iff in C'. destruct C' as [C1 C2].
    apply negb_false_iff, is_nil_spec in C1, C2. subst diff drops.
    unfold v', with_merge in Hk |- *. cbn [b_gc b_blobs is_nil negb orb] in Hk |- *.
    specialize (GP k Hk). destruct (negb (is_nil newfiles)).
    + cbn [orb]. rewrite filter_all_true by reflexivity. rewrite map_app. apply in_or_app. now left.
    + exact GP.
  - intros H. unfold gc_pruned. apply PR. destruct H as [H|H].
    + destruct diff; [congruence | reflexivity].
    + destruct drops; [congruence|]. cbn. apply orb_true_r.
Qed.

Theorem blob_merge_standard_aux W evict flt tids split v nid :
  ids_below nid v ->
  let v' := blob_merge_standard W evict flt tids split v in
  ids_below nid v' /\ (frames_pos (b_blobs v) -> frames_pos (b_blobs v')) /\
  (gc_pruned v -> gc_pruned v').
Proof.
  intros IB v'. unfold v', blob_merge_standard.
  destruct (negb (tids_known tids v)); [auto|].
  destruct (run_stream _ _ _ _) as [out log].
  destruct (with_merge_aux v tids (split out) (gc_of_log log) [] (dead_ids v) nid nid IB (N.le_refl _))
    as (A & B & C & _); [intros bf []|].
  split; [exact A|]. split; [|exact C]. intros P. apply B; [exact P|]. intros bf fr [].
Qed.

Theorem blob_drop_tables_aux d tids v nid :
  BInvG d v -> ids_below nid v ->
  let v' := blob_drop_tables tids v in
  ids_below nid v' /\ (frames_pos (b_blobs v) -> frames_pos (b_blobs v')).
Proof.
  intros I [B1 B2] v'. unfold v', blob_drop_tables, drop_tables_with.
  destruct (negb (tids_known tids v)); [split; [split|]; auto|].
  destruct (is_nil _); [split; [split|]; auto|]. cbn [b_blobs b_gc]. split; [split|].
  - intros bf HI. apply filter_In in HI. apply B1. tauto.
  - intros k Hk. apply (keys_drop_fold _ _ add_linked_keys) in Hk. destruct Hk as [Hk|(p & Hp & <-)]; [auto|].
    assert (In p (vptrs v)) as Hv.
    { rewrite vptrs_tptrs. apply in_tptrs in Hp. destruct Hp as (t & Ht & Hp). apply in_tptrs.
      exists t. split; [eapply in_sel_tables; eauto | exact Hp]. }
    pose proof (presolve_has_file _ _ (bi_res _ _ I p Hv)) as HF. apply in_map_iff in HF.
    destruct HF as (bf & <- & HI). auto.
  - intros P bf fr Hb Hf. apply filter_In in Hb. eapply P; [apply Hb | exact Hf].
Qed.

(** * 10. Relocation *)

Definition keep_ptr (rw : list N) (p : ptr) : bool := negb (memN (pf p) rw).

Lemma relocate_inv Fp target blobs rw lo : forall items w P out' w',
  WInv Fp lo w P ->
  (forall p, In p (ptrs items) -> memN (pf p) rw = true -> presolve blobs p = true) ->
  (forall f o fr, find_frame blobs f o = Some fr ->
     forall k s off, Fp (mkFr k s off (fr_val fr) (fr_disk fr))) ->
  relocate target blobs rw w items = (out', w') ->
  (forall e, In e out' -> In e items \/ wf_ind e = true) /\
  exists Nn, WInv Fp lo w' (Nn ++ P) /\
             Permutation (ptrs out') (Nn ++ filter (keep_ptr rw) (ptrs items)).
Proof.
  induction items as [|e r IH]; intros w P out' w' WI RS FPb HR; cbn [relocate] in HR.
  - inversion HR; subst. split; [intros e []|]. exists []. split; [exact WI | apply Permutation_refl].
  - assert (forall q, In q (ptrs r) -> memN (pf q) rw = true -> presolve blobs q = true) as RS'.
    { intros q Hq. apply RS. rewrite ptrs_cons. destruct (ptr_of e); [now right | exact Hq]. }
    (* the pass-through case, used three times *)
    assert (forall o w2, relocate target blobs rw w r = (o, w2) -> (e :: o, w2) = (out', w') ->
            (forall p, ptr_of e = Some p -> keep_ptr rw p = true) ->
            (forall x, In x out' -> In x (e :: r) \/ wf_ind x = true) /\
            exists Nn, WInv Fp lo w' (Nn ++ P) /\
               Permutation (ptrs out') (Nn ++ filter (keep_ptr rw) (ptrs (e :: r)))) as PASS.
    { intros o w2 HR2 EQ KP. inversion EQ; subst.
      destruct (IH w P o w' WI RS' FPb HR2) as (WF & Nn & WI' & PP). split.
      - intros x [<-|Hx]; [left; now left|]. destruct (WF x Hx); [left; now right | now right].
      - exists Nn. split; [exact WI'|]. rewrite !ptrs_cons. destruct (ptr_of e) as [p|]; [|exact PP].
        cbn [filter]. rewrite (KP p eq_refl). now apply Permutation_cons_app. }
    destruct (ptr_of e) as [p|] eqn:PE.
    2:{ destruct (relocate target blobs rw w r) as [o w2] eqn:HR2.
        apply (PASS o w2 eq_refl HR). intros q C. discriminate. }
    destruct (memN (pf p) rw) eqn:MR.
    2:{ destruct (relocate target blobs rw w r) as [o w2] eqn:HR2.
        apply (PASS o w2 eq_refl HR). intros q C. inversion C; subst. unfold keep_ptr. now rewrite MR. }
    assert (presolve blobs p = true) as PR.
    { apply RS; [|exact MR]. rewrite ptrs_cons, PE. now left. }
    pose proof PR as PR'. unfold presolve in PR'.
    destruct (find_frame blobs (pf p) (po p)) as [fr|] eqn:FF; [|discriminate].
    apply andb_true_iff in PR'. destruct PR' as [PR' _]. apply andb_true_iff in PR'.
    destruct PR' as [_ SZ]. apply N.eqb_eq in SZ.
    destruct (bw_write target w (ukey e) (seq e) (fr_val fr) (fr_disk fr)) as [w1 h] eqn:HW.
    destruct (relocate target blobs rw w1 r) as [o w2] eqn:HR2. inversion HR; subst.
    destruct (bw_write_inv Fp lo target w P _ _ _ _ w1 h WI HW) as (Eh & _ & _ & WI1).
    { eapply FPb. exact FF. }
    destruct (IH w1 _ o w' WI1 RS' FPb HR2) as (WF & Nn & WI' & PP).
    split.
    + intros x [<-|Hx]; [now right|]. destruct (WF x Hx); [left; now right | now right].
    + exists (Nn ++ [mkP (ukey e) (fst h) (snd h) (fr_disk fr) (lenN (fr_val fr))]). split.
      * now rewrite <- app_assoc.
      * rewrite !ptrs_cons, ptr_of_mk_ind, PE. cbn [filter]. unfold keep_ptr at 1. rewrite MR. cbn [negb].
        rewrite <- SZ, <- app_assoc. cbn [app]. now apply Permutation_cons_app.
Qed.

Lemma find_frame_In blobs f o fr :
  find_frame blobs f o = Some fr -> exists bf, In bf blobs /\ bf_id bf = f /\ In fr (frames bf) /\ fr_off fr = o.
Proof.
  unfold find_frame. destruct (find_file blobs f) as [bf|] eqn:F; [|discriminate].
  intros H. apply find_frame_in in H. apply find_file_some in F. exists bf. tauto.
Qed.

(** the eligibility condition of worker.rs: pick_blob_files_to_rewrite -- the files are in
    the version and no table outside the compaction points into them *)
Definition reloc_ok (tids rw : list N) (v : bversion) : Prop :=
  (forall f, In f rw -> In f (map bf_id (b_blobs v))) /\
  (forall p, In p (tptrs (rest_tables tids (b_tables v))) -> ~ In (pf p) rw).

Definition pos_val (fr : frame) : Prop := 0 < lenN (fr_val fr).

Theorem blob_merge_relocating_inv d W evict flt tids rw target nid split v :
  BInvG d v -> frames_pos (b_blobs v) -> ids_below nid v -> flt_plain flt ->
  split_ok split (b_tables v) -> reloc_ok tids rw v ->
  let r := blob_merge_relocating W evict flt tids rw target nid split v in
  BInvG d (fst r) /\ ids_below (snd r) (fst r) /\ nid <= snd r /\ frames_pos (b_blobs (fst r)) /\
  (gc_pruned v -> gc_pruned (fst r)).
Proof.
  intros I POS IB FP SP [RW1 RW2] r. unfold r, blob_merge_relocating.
  destruct (negb (tids_known tids v));
    [cbn [fst snd]; split; [exact I|]; split; [exact IB|]; split; [lia|]; split; [exact POS | auto]|].
  destruct (run_stream W evict flt (merge_input tids v)) as [out log] eqn:HR.
  destruct (relocate target (b_blobs v) rw (bw_new nid) out) as [out' w] eqn:HL.
  unfold bw_finish. cbn [fst snd].
  set (R := rest_tables tids (b_tables v)).
  pose proof (stream_ptrs _ _ _ _ _ _ (flt_plain_noptr _ FP) HR) as PS.
  assert (Permutation (vptrs v) (ptrs log ++ ptrs out ++ tptrs R)) as PV0.
  { eapply perm_trans; [apply (vptrs_split tids v)|]. fold R.
    eapply perm_trans; [apply Permutation_app_tail; apply Permutation_sym; apply merge_input_ptrs|].
    eapply perm_trans; [apply Permutation_app_tail; exact PS|].
    rewrite <- app_assoc. apply Permutation_app_swap_app. }
  assert (forall p, In p (ptrs out) -> In p (vptrs v)) as OV.
  { intros p Hp. eapply Permutation_in; [apply Permutation_sym; exact PV0|].
    apply in_or_app. right. apply in_or_app. now left. }
  assert (forall e, In e out -> wf_ind e = true) as WFo.
  { intros e Ho.
    destruct (cstream_replace_keeps_seq _ _ _ _ _ _ HR e Ho) as [Hl|(e0 & t0 & v0 & _ & _ & Hf & ->)].
    - destruct (merge_input_in _ _ _ Hl) as (t' & Ht' & He'). apply (bi_wf _ _ I t' e Ht' He').
    - apply wf_ind_not_ind. cbn [ty]. apply (FP e0 t0 v0 Hf). }
  destruct (relocate_inv pos_val target (b_blobs v) rw nid out (bw_new nid) [] out' w
              (WInv_new _ nid)) as (WF & Nn & WI & PP); [| |exact HL|].
  { intros p Hp _. apply (bi_res _ _ I p (OV p Hp)). }
  { intros f o fr FF k s off. unfold pos_val. cbn [fr_val].
    destruct (find_frame_In _ _ _ _ FF) as (bf & Hb & _ & Hf & _). eapply POS; eauto. }
  rewrite app_nil_r in WI. destruct WI as [W1 W2 W3 W4 W5 W6 W7 W8 W9].
  set (M := filter (fun p => negb (keep_ptr rw p)) (ptrs out)).
  set (K1 := filter (keep_ptr rw) (ptrs out)) in *.
  assert (Permutation (ptrs out) (M ++ K1)) as PO.
  { eapply perm_trans; [apply (filter_partition_perm (keep_ptr rw))|]. apply Permutation_app_comm. }
  assert (Permutation (vptrs v) (ptrs log ++ M ++ (K1 ++ tptrs R))) as PV.
  { eapply perm_trans; [exact PV0|]. apply Permutation_app_head.
    rewrite app_assoc. apply Permutation_app_tail. exact PO. }
  assert (forall p, In p (K1 ++ tptrs R) -> In p (vptrs v)) as KV.
  { intros p Hp. eapply Permutation_in; [apply Permutation_sym; exact PV|].
    apply in_or_app. right. apply in_or_app. now right. }
  split; [|split; [|split; [|split]]].
  - apply (with_merge_inv d v tids (split out') (gc_of_log log) (bw_files w) (rw ++ dead_ids v) nid
                          (ptrs log) M (K1 ++ tptrs R) Nn).
    + exact I.
    + exact IB.
    + apply (SP out').
    + apply (SP out').
    + intros t e Ht He. pose proof (split_ok_in _ _ _ _ _ SP Ht He) as Ho.
      destruct (WF e Ho) as [H|H]; [apply WFo; exact H | exact H].
    + exact PV.
    + rewrite (split_ok_tptrs _ _ _ SP). rewrite app_assoc. apply Permutation_app_tail. exact PP.
    + exact W3.
    + intros bf HI. split; [apply (W2 bf HI) | apply (W4 bf HI)].
    + exact W6.
    + exact W7.
    + exact W8.
    + intros f. apply gtot_of_log.
    + intros f Hf. apply in_app_or in Hf. destruct Hf as [Hf|Hf].
      * specialize (RW1 f Hf). apply in_map_iff in RW1. destruct RW1 as (bf & <- & HI). apply (proj1 IB bf HI).
      * eapply dead_ids_below; eauto.
    + intros p Hp Hd. apply in_app_or in Hd. destruct Hd as [Hd|Hd].
      * apply in_app_or in Hp. destruct Hp as [Hp|Hp].
        -- unfold K1 in Hp. apply filter_In in Hp. destruct Hp as [_ KP]. unfold keep_ptr in KP.
           apply negb_true_iff, memN_false in KP. contradiction.
        -- apply (RW2 p Hp Hd).
      * apply in_dead_ids in Hd. destruct Hd as (bf & HI & DD & E).
        apply (dead_no_ptr d v bf p I POS HI DD (KV p Hp)). now symmetry.
    + intros p Hp. unfold M in Hp. apply filter_In in Hp. destruct Hp as [_ KP].
      unfold keep_ptr in KP. rewrite negb_involutive in KP. apply memN_In in KP.
      apply in_or_app. now left.
  - destruct (with_merge_aux v tids (split out') (gc_of_log log) (bw_files w) (rw ++ dead_ids v)
                nid (bw_next w) IB) as (A & _); [lia | | exact A].
    intros bf HI. specialize (W2 bf HI). lia.
  - lia.
  - destruct (with_merge_aux v tids (split out') (gc_of_log log) (bw_files w) (rw ++ dead_ids v)
                nid (bw_next w) IB) as (_ & B & _); [lia | |].
    + intros bf HI. specialize (W2 bf HI). lia.
    + apply B; [exact POS|]. intros bf fr Hb Hf. apply (W9 bf fr Hb Hf).
  - destruct (with_merge_aux v tids (split out') (gc_of_log log) (bw_files w) (rw ++ dead_ids v)
                nid (bw_next w) IB) as (_ & _ & C & _); [lia | | exact C].
    intros bf HI. specialize (W2 bf HI). lia.
Qed.

Lemma in_insert_N y x l : In y (insert_N x l) -> y = x \/ In y l.
Proof.
  induction l as [|z l IH]; cbn [insert_N].
  - intros [<-|[]]. now left.
  - destruct (x <? z); [intros [<-|H]; auto|]. destruct (x =? z); [auto|].
    intros [<-|H]; [right; now left|]. destruct (IH H); [auto | right; now right].
Qed.

Lemma in_sort_dedup y l : In y (sort_dedup l) -> In y l.
Proof.
  unfold sort_dedup. induction l as [|x l IH]; cbn [fold_right]; [auto|].
  intros H. apply in_insert_N in H. destruct H as [->|H]; [now left | right; auto].
Qed.

Lemma in_firstn' {A} n (l : list A) x : In x (firstn n l) -> In x l.
Proof.
  revert l. induction n as [|n IH]; intros [|y l]; cbn [firstn]; try contradiction.
  intros [<-|H]; [now left | right; auto].
Qed.

Lemma in_linked_ids f ents : In f (linked_ids ents) <-> exists p, In p (ptrs ents) /\ pf p = f.
Proof. unfold linked_ids, linked_of. apply keys_of_log. Qed.

(** what [pick_blob_files_to_rewrite] returns is eligible (whatever the thresholds) *)
Theorem pick_rewrite_ok sn sd an ad tids v :
  reloc_ok tids (pick_rewrite sn sd an ad tids v) v.
Proof.
  unfold pick_rewrite. split.
  - intros f Hf. apply filter_In in Hf. destruct Hf as [Hf _]. apply in_firstn' in Hf.
    apply in_sort_dedup in Hf. apply filter_In in Hf. destruct Hf as [_ Hf].
    destruct (find_file (b_blobs v) f) as [bf|] eqn:F; [|discriminate].
    apply find_file_some in F. destruct F as [HI <-]. now apply in_map.
  - intros p Hp Hf. apply filter_In in Hf. destruct Hf as [_ Hf].
    apply negb_true_iff, memN_false in Hf. apply Hf. apply in_flat_map.
    apply in_tptrs in Hp. destruct Hp as (t & Ht & Hp). exists t. split; [exact Ht|].
    apply in_linked_ids. eauto.
Qed.

(** * 14a. Replayed tests (values scaled down: "big" = 8 bytes, threshold 4) *)
Module BlobEx.
  Definition kbig : key := [98;105;103].
  Definition kanother : key := [97;110;111].
  Definition ksmol : key := [115;109;111;108].
  Definition ka : key := [97].  Definition kb : key := [98].  Definition kc : key := [99].
  Definition big : list N := [1;2;3;4;5;6;7;8].
  Definition big2 : list N := [9;9;9;9;9;9;9].
  Definition V k s v := mkE k s Value v.
  Definition T k s := mkE k s Tomb [].
  Definition Wt k s := mkE k s WeakTomb [].
  (** one output table with the given id *)
  Definition one (id : N) := fun l : list entry => if is_nil l then [] else [(id, l)].
  Definition G l b d := mkG l b d.

  (** tests/blob_major_compact_gc_stats.rs: blob_tree_major_compact_gc_stats *)
  Definition m1 := blob_flush 4 1000 0 0 (one 0) [V kbig 0 big; V ksmol 0 [1;2]] bv_empty.
  Definition m2 := blob_flush 4 1000 0 (snd m1) (one 1) [V kbig 1 big2] (fst m1).
  Definition m3 := blob_merge_standard 1000 true no_filter [0;1] (one 2) (fst m2).
  Example ex_major_compact_gc_stats :
    length (b_tables (fst m1)) = 1%nat /\ length (b_blobs (fst m1)) = 1%nat /\
    length (b_tables m3) = 1%nat /\ length (b_blobs m3) = 2%nat /\
    b_gc m3 = [(0, G 1 8 8)] /\ stale_bytes (b_gc m3) = 8 /\
    check_binv (fst m1) = true /\ check_binv (fst m2) = true /\ check_binv m3 = true.
  Proof. vm_compute. repeat split; reflexivity. Qed.

  (** blob_tree_major_compact_gc_stats_2: five versions of one key *)
  Definition n1 := blob_flush 4 1000 0 0 (one 0)
      [V kbig 4 big; V kbig 3 big; V kbig 2 big; V kbig 1 big; V kbig 0 big] bv_empty.
  Definition n2 := blob_merge_standard 1000 true no_filter [0] (one 1) (fst n1).
  Example ex_major_compact_gc_stats_2 :
    length (b_blobs (fst n1)) = 1%nat /\ length (b_blobs n2) = 1%nat /\
    b_gc n2 = [(0, G 4 32 32)] /\ check_binv n2 = true.
  Proof. vm_compute. repeat split; reflexivity. Qed.

  (** blob_tree_major_compact_gc_stats_tombstone (the second flush takes blob id 1 and
      creates no file; LinkedFile of the tables before and after) *)
  Definition t1 := blob_flush 4 1000 0 0 (one 0) [V kanother 0 big; V kbig 0 big; V ksmol 0 [1]] bv_empty.
  Definition t2 := blob_flush 4 1000 0 (snd t1) (one 1) [T kbig 1] (fst t1).
  Definition t3 := blob_merge_standard 1000 true no_filter [0;1] (one 2) (fst t2).
  Example ex_major_compact_gc_stats_tombstone :
    snd t2 = 2 /\ length (b_blobs (fst t2)) = 1%nat /\
    map (fun t => linked_of (snd t)) (b_tables (fst t2)) = [[]; [(0, G 2 16 16)]] /\
    b_gc t3 = [(0, G 1 8 8)] /\
    map (fun t => linked_of (snd t)) (b_tables t3) = [[(0, G 1 8 8)]] /\
    length (b_blobs t3) = 1%nat /\ check_binv t3 = true.
  Proof. vm_compute. repeat split; reflexivity. Qed.

  (** tests/blob_major_compact_drop_dead_files.rs *)
  Definition c1 := blob_flush 4 1000 0 0 (one 0) [V kbig 0 big] bv_empty.
  Definition c2 := blob_flush 4 1000 0 (snd c1) (one 1) [V kbig 1 big] (fst c1).
  Definition c3 := blob_flush 4 1000 0 (snd c2) (one 2) [V kbig 2 big] (fst c2).
  Definition c4 := blob_flush 4 1000 0 (snd c3) (one 3) [V kbig 3 big] (fst c3).
  Definition c5 := blob_flush 4 1000 0 (snd c4) (one 4) [V kbig 4 big2] (fst c4).
  Definition c6 := blob_merge_standard 1000 true no_filter [0;1;2;3;4] (one 5) (fst c5).
  Definition c7 := blob_merge_standard 1000 true no_filter [5] (one 6) c6.
  Example ex_major_compact_drop_dead_files :
    b_gc (fst c5) = [] /\ length (b_blobs (fst c5)) = 5%nat /\
    length (b_tables c6) = 1%nat /\ length (b_blobs c6) = 5%nat /\
    b_gc c6 = [(0, G 1 8 8); (1, G 1 8 8); (2, G 1 8 8); (3, G 1 8 8)] /\
    length (b_tables c7) = 1%nat /\ length (b_blobs c7) = 1%nat /\ b_gc c7 = [] /\
    check_binv c6 = true /\ check_binv c7 = true /\
    map (resolve_or_inline c7) (concat (map snd (b_tables c7))) = [V kbig 4 big2].
  Proof. vm_compute. repeat split; reflexivity. Qed.

  (** tests/blob_nuke_gc_stats.rs: the file is pruned, its statistics entry stays *)
  Definition k2 := blob_drop_tables [0] (fst c1).
  Example ex_nuke_gc_stats :
    b_tables k2 = [] /\ b_blobs k2 = [] /\ b_gc k2 = [(0, G 1 8 8)].
  Proof. vm_compute. repeat split; reflexivity. Qed.
  Definition k1m := blob_flush 4 1000 0 0 (one 0) [V kbig 1 big; V kbig 0 big] bv_empty.
  Example ex_nuke_gc_stats_multi :
    let v := blob_drop_tables [0] (fst k1m) in
    b_tables v = [] /\ b_blobs v = [] /\ b_gc v = [(0, G 2 16 16)].
  Proof. vm_compute. repeat split; reflexivity. Qed.

  (** tests/blob_flush_gc_stats.rs: the expired first version never reaches a blob file *)
  Example ex_flush_gc_stats :
    let r := blob_flush 4 1000 1000 0 (one 0) [V kbig 1 big2; V kbig 0 big; V ksmol 0 [1;2]] bv_empty in
    map bf_uncomp (b_blobs (fst r)) = [7] /\ b_gc (fst r) = [] /\
    lenN (concat (map snd (b_tables (fst r)))) = 2.
  Proof. vm_compute. repeat split; reflexivity. Qed.

  (** src/compaction/worker.rs: blob_file_picking_simple (threshold 1, staleness 0.01,
      age cutoff 1.0) *)
  Definition p1 := blob_flush 1 1000 1000 0 (one 0) [V ka 0 [97]; V kb 0 [98]; V kc 0 [99]] bv_empty.
  Definition p2 := blob_merge_standard 1000 true no_filter [0] (split_cuts [1;2;3] [1%nat;1%nat]) (fst p1).
  Definition p3 := blob_drop_tables [1] p2.
  Definition p4 := blob_merge_standard 1000 true no_filter [2] (one 4) p3.
  Definition p5 := blob_merge_relocating 1000 true no_filter [3;4]
                     (pick_rewrite 1 100 1 1 [3;4] p4) 1000 (snd p1) (one 5) p4.
  Example ex_blob_file_picking_simple :
    map fst (b_tables p2) = [1;2;3] /\ length (b_blobs p2) = 1%nat /\
    map fst (b_tables p3) = [2;3] /\ length (b_blobs p3) = 1%nat /\ b_gc p3 = [(0, G 1 1 1)] /\
    pick_rewrite 1 100 1 1 [2] p3 = [] /\
    length (b_tables p4) = 2%nat /\ length (b_blobs p4) = 1%nat /\ b_gc p4 = [(0, G 1 1 1)] /\
    pick_rewrite 1 100 1 1 [3;4] p4 = [0] /\
    length (b_tables (fst p5)) = 1%nat /\ map bf_id (b_blobs (fst p5)) = [1] /\ b_gc (fst p5) = [] /\
    check_binv p3 = true /\ check_binv p4 = true /\ check_binv (fst p5) = true.
  Proof. vm_compute. repeat split; reflexivity. Qed.

  (** src/blob_tree/gc.rs: frag_map_merge_into *)
  Example ex_frag_map_merge_into :
    gc_merge [(0, G 3 3000 1500); (3, G 4 4000 2000)] [(0, G 1 1000 500); (1, G 2 2000 1000)]
    = [(0, G 4 4000 2000); (1, G 2 2000 1000); (3, G 4 4000 2000)].
  Proof. vm_compute. reflexivity. Qed.

  (** src/blob_tree/gc.rs: compaction_stream_gc_count_drops *)
  Example ex_gc_count_drops :
    let '(out, log) := run_stream 1000 false no_filter [V ka 1 [97;98;99]; mk_ind ka 0 0 0 500 1000] in
    out = [V ka 1 [97;98;99]] /\ gc_of_log log = [(0, G 1 1000 500)].
  Proof. vm_compute. split; reflexivity. Qed.
End BlobEx.

(** * 14b. Reopen, and statements that are FALSE of the faithful model *)

Lemma in_le_max x l : In x l -> x <= fold_right N.max 0 l.
Proof.
  induction l as [|y l IH]; [contradiction|]. cbn [fold_right].
  intros [->|H]; [lia | specialize (IH H); lia].
Qed.

(** BlobTree::open restarts the blob file id counter above the files of the version: that
    is above everything the version knows only if the statistics carry no entry for a
    file outside the version *)
Theorem reopen_counter_fresh v : gc_pruned v -> ids_below (reopen_counter v) v.
Proof.
  intros GP. unfold reopen_counter.
  assert (forall bf, In bf (b_blobs v) -> bf_id bf < fold_right N.max 0 (map bf_id (b_blobs v)) + 1) as B.
  { intros bf HI. pose proof (in_le_max _ _ (in_map bf_id _ _ HI)). lia. }
  split.
  - intros bf HI. destruct (b_blobs v) eqn:E; [contradiction|]. rewrite <- E in *. auto.
  - intros f Hf. specialize (GP f Hf). apply in_map_iff in GP. destruct GP as (bf & <- & HI).
    destruct (b_blobs v) eqn:E; [contradiction|]. rewrite <- E in *. auto.
Qed.

Ltac by_check := apply check_binv_g_iff; vm_compute; reflexivity.
Ltac by_check_not := let H := fresh in intros H; apply check_binv_g_iff in H; vm_compute in H; discriminate.

(** (1) finding F6 (fixed): 3.1.9's [with_dropped] forgot [on_disk_bytes] when the file
    already had an entry (the [and_modify] closure, version/mod.rs): with it the full
    invariant was NOT preserved by dropping tables, only len and bytes stayed exact
    ([blob_drop_tables_old_inv]).  Pre-fix witness: worker.rs blob_file_picking_simple
    continued by drop_range("b"..="b"): statistics {0: (2, 2, 1)}, truth (2, 2, 2).
    The current code ([blob_drop_tables]) gets (2, 2, 2). *)
Theorem blob_drop_tables_old_inv_refuted :
  exists tids v, BInv v /\ frames_pos (b_blobs v) /\ gc_pruned v /\
    ~ BInv (blob_drop_tables_old tids v) /\
    gc_get (b_gc (blob_drop_tables_old tids v)) 0 = mkG 2 2 1 /\
    garbage_of (blob_drop_tables_old tids v) 0 = mkG 2 2 2 /\
    BInv (blob_drop_tables tids v) /\
    gc_get (b_gc (blob_drop_tables tids v)) 0 = mkG 2 2 2.
Proof.
  exists [2], BlobEx.p3. split; [by_check|]. split; [apply frames_pos_b_spec; reflexivity|].
  split; [apply gc_pruned_b_spec; reflexivity|]. split; [by_check_not|].
  split; [vm_compute; reflexivity|]. split; [vm_compute; reflexivity|].
  split; [by_check | vm_compute; reflexivity].
Qed.

(** (2) [with_dropped] does not prune the statistics: "no entry for files outside the
    version" is NOT preserved, and [stale_bytes] then counts a file that is gone
    (tests/blob_nuke_gc_stats.rs asserts exactly this state) *)
Theorem gc_pruned_drop_refuted :
  exists tids v, BInv v /\ gc_pruned v /\
    BInv (blob_drop_tables tids v) /\ ~ gc_pruned (blob_drop_tables tids v) /\
    stale_bytes (b_gc (blob_drop_tables tids v)) = 8 /\
    sumN (map (fun bf => g_disk (garbage_of (blob_drop_tables tids v) (bf_id bf)))
              (b_blobs (blob_drop_tables tids v))) = 0.
Proof.
  exists [0], (fst BlobEx.c1). split; [by_check|]. split; [apply gc_pruned_b_spec; reflexivity|].
  split; [by_check|]. split.
  - intros H. apply gc_pruned_b_spec in H. vm_compute in H. discriminate.
  - split; vm_compute; reflexivity.
Qed.

(** (3) finding F5 (fixed): with 3.1.9's recovery ([blob_reopen_old]: the statistics come
    back unpruned) the stale entry of [gc_pruned_drop_refuted] meets a reused id: the
    counter restarts at 0, the next flush creates a NEW blob file 0 which inherits the dead
    file's statistics, looks dead ([bytes = total_uncompressed]), and the next merge removes
    it although the only entry of the tree points into it.  (Reproduced on the crate:
    put a; flush; drop_range(..); reopen; put b; flush; major_compact; get b panics.) *)
Theorem reopen_ghost_refuted :
  exists v, BInv v /\ ~ gc_pruned v /\ snd (blob_reopen_old v) = 0 /\
    let '(v0, nid) := blob_reopen_old v in
    let v1 := fst (blob_flush 4 1000 0 nid (BlobEx.one 1) [BlobEx.V BlobEx.kanother 1 BlobEx.big] v0) in
    let v2 := blob_merge_standard 1000 true no_filter [1] (BlobEx.one 2) v1 in
    ~ BInvG false v1 /\ stale_bytes (b_gc v1) = 8 /\ garbage_of v1 0 = gzero /\
    b_blobs v2 = [] /\
    map (resolve v2) (concat (map snd (b_tables v2))) = [None].
Proof.
  exists BlobEx.k2. split; [by_check|]. split.
  - intros H. apply gc_pruned_b_spec in H. vm_compute in H. discriminate.
  - split; [reflexivity|]. cbv zeta. unfold blob_reopen_old.
    split; [by_check_not|]. repeat split; vm_compute; reflexivity.
Qed.

(** the current recovery (version/recovery.rs: statistics of unlisted blob files are
    discarded) re-establishes "pruned", and with it the restarted counter is above
    everything the version knows: statistics survive reopen exactly for the files that
    survive *)
Theorem blob_reopen_inv d v :
  BInvG d v ->
  let '(v', nid') := blob_reopen v in
  BInvG d v' /\ gc_pruned v' /\ ids_below nid' v' /\
  b_tables v' = b_tables v /\ b_blobs v' = b_blobs v /\
  (forall bf, In bf (b_blobs v) -> gc_get (b_gc v') (bf_id bf) = gc_get (b_gc v) (bf_id bf)) /\
  (frames_pos (b_blobs v) -> frames_pos (b_blobs v')).
Proof.
  intros I. unfold blob_reopen.
  set (v' := mkBV (b_tables v) (b_blobs v) (gc_prune (b_gc v) (b_blobs v))).
  assert (forall bf, In bf (b_blobs v) -> gc_get (b_gc v') (bf_id bf) = gc_get (b_gc v) (bf_id bf)) as GE.
  { intros bf HI. cbn [v' b_gc]. rewrite gc_get_prune.
    assert (has_file (b_blobs v) (bf_id bf) = true) as -> by (apply has_file_In; now apply in_map).
    reflexivity. }
  assert (gc_pruned v') as GP.
  { intros f Hf. cbn [v' b_gc b_blobs] in *. apply keys_prune in Hf. destruct Hf as [_ Hf].
    now apply has_file_In in Hf. }
  split; [|split; [exact GP|split; [|repeat split; auto]]].
  - destruct I as [H1 H2 H3 H4 H5 H6 H7 H8]. constructor; cbn [v' b_tables b_blobs b_gc]; auto.
    + now apply keys_prune_nodup.
    + intros bf HI. specialize (GE bf HI). cbn [v' b_gc] in GE. rewrite GE. exact (H8 bf HI).
  - change (reopen_counter v) with (reopen_counter v'). now apply reopen_counter_fresh.
Qed.

(** B1's history under the current recovery: the new blob file 0 starts with clean
    statistics and survives the merge *)
Example blob_reopen_ex :
  let '(v0, nid) := blob_reopen BlobEx.k2 in
  let v1 := fst (blob_flush 4 1000 0 nid (BlobEx.one 1) [BlobEx.V BlobEx.kanother 1 BlobEx.big] v0) in
  let v2 := blob_merge_standard 1000 true no_filter [1] (BlobEx.one 2) v1 in
  nid = 0 /\ b_gc v0 = [] /\ check_binv v1 = true /\ stale_bytes (b_gc v1) = 0 /\
  check_binv v2 = true /\ map bf_id (b_blobs v2) = [0] /\
  map (resolve_or_inline v2) (concat (map snd (b_tables v2))) = [BlobEx.V BlobEx.kanother 1 BlobEx.big].
Proof. vm_compute. repeat split; reflexivity. Qed.

(** (4) relocation of a file that a table outside the compaction still points into
    (the eligibility check of pick_blob_files_to_rewrite left out): dangling pointer *)
Theorem reloc_ineligible_refuted :
  exists tids rw v, BInv v /\ frames_pos (b_blobs v) /\ ~ reloc_ok tids rw v /\
    let v' := fst (blob_merge_relocating 1000 true no_filter tids rw 1000 1 (BlobEx.one 4) v) in
    ~ BInvG false v' /\
    map (fun t => map (resolve v') (snd t)) (b_tables v') = [[Some [98]]; [None]].
Proof.
  exists [2], [0], BlobEx.p3. split; [by_check|]. split; [apply frames_pos_b_spec; reflexivity|].
  split.
  - intros [_ H]. apply (H (mkP BlobEx.kc 0 80 1 1)); vm_compute; auto.
  - cbv zeta. split; [by_check_not | vm_compute; reflexivity].
Qed.

(** (5) [is_dead] compares bytes only (vlog/blob_file/mod.rs:149-155): with
    separation_threshold = 0 an empty value is separated too, a file whose remaining live
    blobs are all empty looks dead and is removed while still referenced *)
Definition z1 := blob_flush 0 1000 0 0 (BlobEx.one 0) [BlobEx.V BlobEx.ka 0 []; BlobEx.V BlobEx.kb 0 [1;2;3]] bv_empty.
Definition z2 := blob_flush 0 1000 0 (snd z1) (BlobEx.one 1) [BlobEx.V BlobEx.kb 1 [4]] (fst z1).
Definition z3 := blob_merge_standard 1000 true no_filter [0;1] (BlobEx.one 2) (fst z2).
Theorem is_dead_zero_len_refuted :
  BInv z3 /\ ~ frames_pos (b_blobs z3) /\
  (exists bf, In bf (b_blobs z3) /\ is_dead (b_gc z3) bf = true /\
              exists p, In p (vptrs z3) /\ pf p = bf_id bf) /\
  let v' := blob_merge_standard 1000 true no_filter [2] (BlobEx.one 3) z3 in
  ~ BInvG false v' /\ map (resolve v') (concat (map snd (b_tables v'))) = [None; Some [4]].
Proof.
  split; [by_check|]. split.
  - intros H. apply frames_pos_b_spec in H. vm_compute in H. discriminate.
  - split.
    + exists (mkBf 0 [mkFr BlobEx.ka 0 0 [] 0; mkFr BlobEx.kb 0 39 [1;2;3] 3]).
      split; [vm_compute; auto|]. split; [vm_compute; reflexivity|].
      exists (mkP BlobEx.ka 0 0 0 0). split; [vm_compute; auto | reflexivity].
    + cbv zeta. split; [by_check_not | vm_compute; reflexivity].
Qed.

(** (6) the scanner-faithful relocation: blobs are matched by walking the merged scan of
    the rewritten files, which is ordered by the seqno stored in the blob; an ingested blob
    carries seqno 0 while its table entry carries the global seqno (blob_tree/ingest.rs),
    so the stream can ask for blobs in another order than the scan yields them and the
    code's "vptr was not matched with blob" assertion fires -- while looking the blob up
    at the pointer ([relocate]) is fine *)
Definition scan_v : bversion :=
  mkBV [(0, [mk_ind BlobEx.ka 10 1 0 4 4; mk_ind BlobEx.ka 5 0 0 4 4])]
       [mkBf 0 [mkFr BlobEx.ka 5 0 [1;2;3;4] 4]; mkBf 1 [mkFr BlobEx.ka 0 0 [1;2;3;4] 4]] [].
Theorem relocate_scan_refuted :
  BInv scan_v /\ reloc_ok [0] [0;1] scan_v /\
  relocate_scan 1000 [0;1] (scan_of (b_blobs scan_v) [0;1]) (bw_new 2)
                (concat (map snd (b_tables scan_v))) = None /\
  fst (relocate 1000 (b_blobs scan_v) [0;1] (bw_new 2) (concat (map snd (b_tables scan_v))))
  = [mk_ind BlobEx.ka 10 2 0 4 4; mk_ind BlobEx.ka 5 2 43 4 4].
Proof.
  split; [by_check|]. split.
  - split.
    + intros f [<-|[<-|[]]]; vm_compute; auto.
    + intros p [].
  - split; vm_compute; reflexivity.
Qed.

(** when blob seqnos agree with the entries' the two agree *)
Example relocate_scan_agrees_partial :
  let v := BlobEx.p4 in
  let items := merge_input [3;4] v in
  relocate_scan 1000 [0] (scan_of (b_blobs v) [0]) (bw_new 1) items
  = Some (relocate 1000 (b_blobs v) [0] (bw_new 1) items).
Proof. vm_compute. reflexivity. Qed.

(** * 13. Transparency: reading through pointers *)

Definition resolve_all (v : bversion) (l : list entry) : list entry := map (resolve_or_inline v) l.

(** what the standard tree's flush writes for a tombstone (its value is empty anyway) *)
Definition clear_tomb (e : entry) : entry :=
  if is_tomb e then mkE (ukey e) (seq e) (ty e) [] else e.

Lemma resolve_or_inline_not_ind v e : ty e <> Ind -> resolve_or_inline v e = e.
Proof. unfold resolve_or_inline. destruct (ty e); congruence. Qed.

Lemma separate_transp thr target lo v' : forall items w P ents w',
  WInv (big_enough thr) lo w P ->
  (forall e, In e items -> ty e <> Ind) ->
  separate thr target w items = (ents, w') ->
  (forall f o x, find_frame (bw_files w') f o = Some x -> find_frame (b_blobs v') f o = Some x) ->
  resolve_all v' ents = map clear_tomb items.
Proof.
  induction items as [|e r IH]; intros w P ents w' WI NI HS MONO'; cbn [separate] in HS.
  - inversion HS; subst. reflexivity.
  - assert (forall x, In x r -> ty x <> Ind) as NI' by (intros x Hx; apply NI; now right).
    pose proof (NI e (or_introl eq_refl)) as NIe.
    unfold resolve_all in *. cbn [map]. unfold clear_tomb at 1.
    destruct (is_tomb e) eqn:TB.
    + destruct (separate thr target w r) as [o w2] eqn:HR. inversion HS; subst.
      cbn [map]. f_equal; [|eapply IH; eauto].
      apply resolve_or_inline_not_ind. exact NIe.
    + destruct (thr <=? lenN (val e)) eqn:BIG.
      * destruct (bw_write target w (ukey e) (seq e) (val e) (lenN (val e))) as [w1 h] eqn:HW.
        destruct (separate thr target w1 r) as [o w2] eqn:HR. inversion HS; subst.
        apply N.leb_le in BIG.
        destruct (bw_write_inv (big_enough thr) lo target w P _ _ _ _ w1 h WI HW BIG)
          as (Eh & FN & MONO1 & WI1).
        destruct (separate_inv thr target lo r w1 _ o w' WI1 NI' HR) as (_ & MONO2 & _).
        cbn [map]. f_equal; [|eapply IH; eauto].
        unfold resolve_or_inline, resolve. cbn [ty mk_ind]. rewrite ptr_of_mk_ind. cbn [pf po ps].
        rewrite (MONO' _ _ _ (MONO2 _ _ _ FN)). cbn [fr_key fr_val ukey mk_ind].
        rewrite key_eqb_refl, N.eqb_refl. cbn [andb seq].
        unfold is_tomb in TB. destruct e as [k s t vl]. cbn [ty ukey seq val] in *.
        destruct t; try discriminate; try congruence. reflexivity.
      * destruct (separate thr target w r) as [o w2] eqn:HR. inversion HS; subst.
        cbn [map]. f_equal; [|eapply IH; eauto].
        apply resolve_or_inline_not_ind. exact NIe.
Qed.

(** the tables a blob flush creates, read through their pointers, hold exactly what the
    standard tree's flush of the same memtables writes *)
Theorem blob_flush_transparent d thr target W nid split mem v :
  BInvG d v -> ids_below nid v -> (forall e, In e mem -> ty e <> Ind) ->
  split_ok split (b_tables v) ->
  let v' := fst (blob_flush thr target W nid split mem v) in
  exists newtabs, b_tables v' = newtabs ++ b_tables v /\
    resolve_all v' (concat (map snd newtabs))
    = map clear_tomb (fst (run_stream W false no_filter mem)).
Proof.
  intros I IB NI SP. unfold blob_flush.
  destruct (run_stream W false no_filter mem) as [out lg] eqn:HR.
  destruct (separate thr target (bw_new nid) out) as [ents w] eqn:HS.
  unfold bw_finish. cbn [fst snd]. exists (split ents). split; [reflexivity|].
  rewrite (proj1 (SP ents)).
  assert (forall e, In e out -> ty e <> Ind) as NI'.
  { intros e He. apply NI. eapply cstream_out_in; eauto. }
  eapply (separate_transp thr target nid _ out (bw_new nid) []); [apply WInv_new | exact NI' | exact HS|].
  cbn [b_blobs]. intros f o x FF.
  destruct (separate_inv thr target nid out (bw_new nid) [] ents w (WInv_new _ nid) NI' HS)
    as (_ & _ & P' & WI & _).
  unfold find_frame in *. rewrite find_file_app.
  destruct (find_file (bw_files w) f) as [bf|] eqn:F; [|discriminate].
  rewrite (find_file_none (b_blobs v) f); [exact FF|].
  intros C. apply in_map_iff in C. destruct C as (b & E & Hb).
  apply find_file_some in F. destruct F as [Hbf Ef].
  pose proof (wi_ids _ _ _ _ WI bf Hbf) as [G _]. pose proof (proj1 IB b Hb). lia.
Qed.

(** the stream commutes with any entry map that keeps user key, seqno and the tombstone
    class (the weak-tombstone rule looks at [is_tombstone] of the entry below, which
    resolution does not change: a weak tombstone cancels an inline and a separated value
    alike) *)
Lemma cstream_map (r : entry -> entry) W evict :
  (forall e, ukey (r e) = ukey e /\ seq (r e) = seq e /\ is_tomb (r e) = is_tomb e /\
             is_strong_tomb (r e) = is_strong_tomb e /\ is_weak_tomb (r e) = is_weak_tomb e) ->
  forall l dr,
  cstream W evict no_filter dr (map r l)
  = (map r (fst (cstream W evict no_filter dr l)), map r (snd (cstream W evict no_filter dr l))).
Proof.
  intros HR. induction l as [|e rest IH]; intros dr; [reflexivity|].
  destruct (HR e) as (Ek & Es & Et & Est & Ew).
  cbn [map cstream].
  assert (draining evict dr (r e) = draining evict dr e) as ->.
  { unfold draining. now rewrite Ek, Ew. }
  destruct (draining evict dr e).
  - rewrite IH. destruct (cstream W evict no_filter (after_drop dr) rest) as [o d]. reflexivity.
  - assert (apply_filter no_filter (r e) = (Some (r e), [])) as ->
      by (unfold apply_filter, no_filter; destruct (is_tomb (r e)); reflexivity).
    assert (apply_filter no_filter e = (Some e, [])) as ->
      by (unfold apply_filter, no_filter; destruct (is_tomb e); reflexivity).
    destruct rest as [|p rest'].
    + cbn [map]. rewrite Et. destruct (is_tomb e && evict); reflexivity.
    + cbn [map]. destruct (HR p) as (Pk & Ps & Pt & _). rewrite Ek, Pk, Ps, Pt, Et, Est, Ew.
      change (r p :: map r rest') with (map r (p :: rest')).
      destruct (key_ltb (ukey e) (ukey p)).
      * rewrite IH. destruct (cstream W evict no_filter NoDrain (p :: rest')) as [o d].
        cbn [fst snd app]. destruct (is_tomb e && evict); reflexivity.
      * destruct (seq p <? W).
        -- destruct (is_strong_tomb e && evict).
           ++ rewrite IH. destruct (cstream W evict no_filter (Drain (ukey e)) (p :: rest')) as [o d].
              reflexivity.
           ++ destruct (negb (is_tomb p) && is_weak_tomb e).
              ** rewrite IH. destruct (cstream W evict no_filter DropNext (p :: rest')) as [o d].
                 reflexivity.
              ** rewrite IH. destruct (cstream W evict no_filter (Drain (ukey e)) (p :: rest')) as [o d].
                 reflexivity.
        -- rewrite IH. destruct (cstream W evict no_filter NoDrain (p :: rest')) as [o d].
           reflexivity.
Qed.

Lemma resolve_or_inline_class v e :
  ukey (resolve_or_inline v e) = ukey e /\ seq (resolve_or_inline v e) = seq e /\
  is_tomb (resolve_or_inline v e) = is_tomb e /\
  is_strong_tomb (resolve_or_inline v e) = is_strong_tomb e /\
  is_weak_tomb (resolve_or_inline v e) = is_weak_tomb e.
Proof.
  unfold resolve_or_inline. destruct (ty e) eqn:T; try (repeat split; reflexivity).
  destruct (resolve v e); [|repeat split; reflexivity].
  unfold is_tomb, is_strong_tomb, is_weak_tomb. cbn [ukey seq ty]. rewrite T. repeat split; reflexivity.
Qed.

Lemma resolve_same_file v v' e p :
  ptr_of e = Some p -> find_file (b_blobs v') (pf p) = find_file (b_blobs v) (pf p) ->
  resolve v' e = resolve v e.
Proof. intros PE H. unfold resolve, find_frame. rewrite PE, H. reflexivity. Qed.

Lemma in_table_ptr v t e p :
  In t (b_tables v) -> In e (snd t) -> ptr_of e = Some p -> In p (vptrs v).
Proof.
  intros Ht He PE. rewrite vptrs_tptrs. apply in_tptrs. exists t. split; [exact Ht|].
  apply in_ptrs. eauto.
Qed.

(** a standard (pass-through) merge without filter: the new tables, read through their
    pointers in the new version, hold what the standard tree's merge of the resolved input
    holds (weak tombstones included: the pair rule treats separated values like inline ones) *)
Theorem blob_merge_transparent d W evict tids split v :
  BInvG d v -> frames_pos (b_blobs v) -> split_ok split (b_tables v) -> tids_known tids v = true ->
  let v' := blob_merge_standard W evict no_filter tids split v in
  exists newtabs, b_tables v' = newtabs ++ rest_tables tids (b_tables v) /\
    resolve_all v' (concat (map snd newtabs))
    = fst (run_stream W evict no_filter (resolve_all v (merge_input tids v))).
Proof.
  intros I POS SP KN v'.
  pose proof (blob_merge_standard_blobs W evict no_filter tids split v KN) as EB. fold v' in EB.
  unfold v', blob_merge_standard in *. rewrite KN in *. cbn [negb] in *.
  destruct (run_stream W evict no_filter (merge_input tids v)) as [out log] eqn:HR.
  exists (split out). split; [reflexivity|]. rewrite (proj1 (SP out)).
  unfold run_stream, resolve_all in *.
  rewrite (cstream_map (resolve_or_inline v) W evict (resolve_or_inline_class v) _ _), HR.
  cbn [fst snd]. apply map_ext_in. intros e He.
  pose proof (cstream_out_in _ _ _ _ _ HR e He) as Hl.
  destruct (merge_input_in _ _ _ Hl) as (t & Ht & Het).
  unfold resolve_or_inline. destruct (ty e) eqn:T; try reflexivity.
  pose proof (bi_wf _ _ I t e Ht Het) as WF. unfold wf_ind in WF. rewrite T in WF.
  destruct (ptr_of e) as [p|] eqn:PE; [|discriminate].
  rewrite (resolve_same_file v _ e p PE); [reflexivity|].
  pose proof (in_table_ptr v t e p Ht Het PE) as Hp.
  pose proof (bi_res _ _ I p Hp) as RS. apply presolve_spec in RS.
  destruct RS as (bf & fr & F & _). rewrite F, EB.
  rewrite (find_file_filter (fun i => negb (memN i (dead_ids v)))).
  destruct (memN (pf p) (dead_ids v)) eqn:MD; [|exact F]. exfalso.
  apply memN_In, in_dead_ids in MD. destruct MD as (b & Hb & DD & E).
  apply (dead_no_ptr d v b p I POS Hb DD Hp). now symmetry.
Qed.

(** a weak tombstone directly above a separated value: since the repair of the weak-pair
    rule ([!peeked.is_tombstone()], stream.rs) the blob tree drops the pair exactly like
    the standard tree (with 3.1.9's [peeked.value_type == Value] it kept the weak
    tombstone: the former [blob_transparent_refuted]) *)
Definition wt1 := blob_flush 2 1000 0 0 (BlobEx.one 0) [BlobEx.V BlobEx.ka 1 [7;7;7]] bv_empty.
Definition wt2 := blob_flush 2 1000 0 (snd wt1) (BlobEx.one 1) [BlobEx.Wt BlobEx.ka 2] (fst wt1).
Theorem blob_transparent_weak_ex :
  BInv (fst wt2) /\ frames_pos (b_blobs (fst wt2)) /\
  let v := fst wt2 in
  let v' := blob_merge_standard 10 false no_filter [0;1] (BlobEx.one 2) v in
  resolve_all v' (concat (map snd (b_tables v'))) = [] /\
  fst (run_stream 10 false no_filter (resolve_all v (merge_input [0;1] v))) = [] /\
  BInv v'.
Proof.
  split; [by_check|]. split; [apply frames_pos_b_spec; reflexivity|]. cbv zeta.
  split; [vm_compute; reflexivity|]. split; [vm_compute; reflexivity | by_check].
Qed.

(** every pointer entry of the version reads as a value: the bytes of a blob written for
    its user key, of the recorded size *)
Theorem blob_resolves d v t e :
  BInvG d v -> In t (b_tables v) -> In e (snd t) -> ty e = Ind ->
  exists bf fr, In bf (b_blobs v) /\ In fr (frames bf) /\ fr_key fr = ukey e /\
    resolve v e = Some (fr_val fr) /\
    resolve_or_inline v e = mkE (ukey e) (seq e) Value (fr_val fr).
Proof.
  intros I Ht He T. pose proof (bi_wf _ _ I t e Ht He) as WF. unfold wf_ind in WF. rewrite T in WF.
  destruct (ptr_of e) as [p|] eqn:PE; [|discriminate].
  pose proof (bi_res _ _ I p (in_table_ptr v t e p Ht He PE)) as RS.
  apply presolve_spec in RS. destruct RS as (bf & fr & F & Ff & Ek & Es & _).
  destruct (ptr_of_ind _ _ PE) as (_ & Pk & _).
  assert (resolve v e = Some (fr_val fr)) as R.
  { unfold resolve, find_frame. rewrite PE, F, Ff, Ek, Pk, key_eqb_refl, Es, N.eqb_refl. reflexivity. }
  exists bf, fr. apply find_file_some in F. apply find_frame_in in Ff.
  repeat split; try tauto; try congruence.
  unfold resolve_or_inline. now rewrite T, R.
Qed.

Lemma relocate_transp Fp target v rw lo v' : forall items w P out' w',
  WInv Fp lo w P ->
  (forall p, In p (ptrs items) -> memN (pf p) rw = true -> presolve (b_blobs v) p = true) ->
  (forall f o fr, find_frame (b_blobs v) f o = Some fr ->
     forall k s off, Fp (mkFr k s off (fr_val fr) (fr_disk fr))) ->
  relocate target (b_blobs v) rw w items = (out', w') ->
  (forall f o x, find_frame (bw_files w') f o = Some x -> find_frame (b_blobs v') f o = Some x) ->
  (forall e p, In e items -> ptr_of e = Some p -> keep_ptr rw p = true -> resolve v' e = resolve v e) ->
  resolve_all v' out' = resolve_all v items.
Proof.
  induction items as [|e r IH]; intros w P out' w' WI RS FPb HR MONO' KEEP; cbn [relocate] in HR.
  - inversion HR; subst. reflexivity.
  - assert (forall q, In q (ptrs r) -> memN (pf q) rw = true -> presolve (b_blobs v) q = true) as RS'.
    { intros q Hq. apply RS. rewrite ptrs_cons. destruct (ptr_of e); [now right | exact Hq]. }
    assert (forall x p, In x r -> ptr_of x = Some p -> keep_ptr rw p = true -> resolve v' x = resolve v x)
      as KEEP' by (intros x p Hx; apply KEEP; now right).
    assert (forall o w2, relocate target (b_blobs v) rw w r = (o, w2) -> (e :: o, w2) = (out', w') ->
            resolve_or_inline v' e = resolve_or_inline v e ->
            resolve_all v' out' = resolve_all v (e :: r)) as PASS.
    { intros o w2 HR2 EQ RE. inversion EQ; subst. unfold resolve_all. cbn [map]. rewrite RE. f_equal.
      eapply (IH w P o w'); eauto. }
    destruct (ptr_of e) as [p|] eqn:PE.
    2:{ destruct (relocate target (b_blobs v) rw w r) as [o w2] eqn:HR2.
        apply (PASS o w2 eq_refl HR). unfold resolve_or_inline, resolve. now rewrite PE. }
    destruct (memN (pf p) rw) eqn:MR.
    2:{ destruct (relocate target (b_blobs v) rw w r) as [o w2] eqn:HR2.
        apply (PASS o w2 eq_refl HR). unfold resolve_or_inline.
        rewrite (KEEP e p (or_introl eq_refl) PE); [reflexivity|]. unfold keep_ptr. now rewrite MR. }
    assert (presolve (b_blobs v) p = true) as PR.
    { apply RS; [|exact MR]. rewrite ptrs_cons, PE. now left. }
    pose proof PR as PR'. unfold presolve in PR'.
    destruct (find_frame (b_blobs v) (pf p) (po p)) as [fr|] eqn:FF; [|discriminate].
    apply andb_true_iff in PR'. destruct PR' as [PR' _]. apply andb_true_iff in PR'.
    destruct PR' as [KE SZ]. apply N.eqb_eq in SZ. apply key_eqb_eq in KE.
    destruct (bw_write target w (ukey e) (seq e) (fr_val fr) (fr_disk fr)) as [w1 h] eqn:HW.
    destruct (relocate target (b_blobs v) rw w1 r) as [o w2] eqn:HR2. inversion HR; subst.
    destruct (bw_write_inv Fp lo target w P _ _ _ _ w1 h WI HW) as (Eh & FN & _ & WI1).
    { eapply FPb. exact FF. }
    destruct (relocate_inv Fp target (b_blobs v) rw lo r w1 _ o w' WI1 RS' FPb HR2) as (_ & Nn & WI' & _).
    assert (forall f o' x, find_frame (bw_files w1) f o' = Some x -> find_frame (bw_files w') f o' = Some x)
      as MONO2.
    { (* lookups that succeed in a writer's files keep succeeding: each is a resolved pointer *)
      clear - HR2. revert w1 o w' HR2. induction r as [|x r IHr]; intros w1 o w' HR2 f o' y Hy;
        cbn [relocate] in HR2.
      - inversion HR2; subst. exact Hy.
      - destruct (ptr_of x) as [q|].
        + destruct (memN (pf q) rw).
          * destruct (find_frame (b_blobs v) (pf q) (po q)) as [fq|].
            -- destruct (bw_write target w1 (ukey x) (seq x) (fr_val fq) (fr_disk fq)) as [w3 hh] eqn:HW3.
               destruct (relocate target (b_blobs v) rw w3 r) as [o3 w4] eqn:HR3. inversion HR2; subst.
               eapply IHr; [exact HR3|]. unfold bw_write in HW3.
               destruct (target <=? _); inversion HW3; subst; cbn [bw_files]; now apply find_frame_add_mono.
            -- destruct (relocate target (b_blobs v) rw w1 r) as [o3 w4] eqn:HR3. inversion HR2; subst.
               eapply IHr; eauto.
          * destruct (relocate target (b_blobs v) rw w1 r) as [o3 w4] eqn:HR3. inversion HR2; subst.
            eapply IHr; eauto.
        + destruct (relocate target (b_blobs v) rw w1 r) as [o3 w4] eqn:HR3. inversion HR2; subst.
          eapply IHr; eauto. }
    unfold resolve_all. cbn [map]. f_equal; [|eapply (IH w1 _ o w'); eauto].
    destruct (ptr_of_ind _ _ PE) as (T & Pk & _).
    unfold resolve_or_inline, resolve. cbn [ty mk_ind]. rewrite T, ptr_of_mk_ind, PE, FF. cbn [pf po ps].
    rewrite (MONO' _ _ _ (MONO2 _ _ _ FN)). cbn [fr_key fr_val ukey seq mk_ind].
    rewrite key_eqb_refl, KE, Pk, key_eqb_refl, SZ, N.eqb_refl. reflexivity.
Qed.

(** relocation changes no byte a reader sees: as [blob_merge_transparent], with blob files
    being rewritten on the way *)
Theorem blob_merge_relocating_transparent d W evict tids rw target nid split v :
  BInvG d v -> frames_pos (b_blobs v) -> ids_below nid v -> split_ok split (b_tables v) ->
  reloc_ok tids rw v -> tids_known tids v = true ->
  let v' := fst (blob_merge_relocating W evict no_filter tids rw target nid split v) in
  exists newtabs, b_tables v' = newtabs ++ rest_tables tids (b_tables v) /\
    resolve_all v' (concat (map snd newtabs))
    = fst (run_stream W evict no_filter (resolve_all v (merge_input tids v))).
Proof.
  intros I POS IB SP [RW1 RW2] KN v'. unfold v', blob_merge_relocating. rewrite KN. cbn [negb].
  destruct (run_stream W evict no_filter (merge_input tids v)) as [out log] eqn:HR.
  destruct (relocate target (b_blobs v) rw (bw_new nid) out) as [out' w] eqn:HL.
  unfold bw_finish. cbn [fst snd]. exists (split out'). split; [reflexivity|].
  rewrite (proj1 (SP out')).
  set (v2 := with_merge v tids (split out') (gc_of_log log) (bw_files w) (rw ++ dead_ids v)).
  assert (forall e p, In e out -> ptr_of e = Some p -> In p (vptrs v)) as OV.
  { intros e p He PE. pose proof (cstream_out_in _ _ _ _ _ HR e He) as Hl.
    destruct (merge_input_in _ _ _ Hl) as (t & Ht & Het). eapply in_table_ptr; eauto. }
  assert (forall p, In p (ptrs out) -> memN (pf p) rw = true -> presolve (b_blobs v) p = true) as RS.
  { intros p Hp _. apply in_ptrs in Hp. destruct Hp as (e & He & PE). apply (bi_res _ _ I p). eauto. }
  assert (forall f o fr, find_frame (b_blobs v) f o = Some fr ->
            forall k s off, pos_val (mkFr k s off (fr_val fr) (fr_disk fr))) as FPb.
  { intros f o fr FF k s off. unfold pos_val. cbn [fr_val].
    destruct (find_frame_In _ _ _ _ FF) as (bf & Hb & _ & Hf & _). eapply POS; eauto. }
  destruct (relocate_inv pos_val target (b_blobs v) rw nid out (bw_new nid) [] out' w
              (WInv_new _ nid) RS FPb HL) as (_ & Nn & WI & _).
  assert (b_blobs v2 = filter (fun bf => negb (memN (bf_id bf) (rw ++ dead_ids v))) (b_blobs v ++ bw_files w))
    as EB by apply with_merge_blobs.
  assert (forall f, In f (rw ++ dead_ids v) -> f < nid) as DRlt.
  { intros f Hf. apply in_app_or in Hf. destruct Hf as [Hf|Hf].
    - specialize (RW1 f Hf). apply in_map_iff in RW1. destruct RW1 as (bf & <- & HI). apply (proj1 IB bf HI).
    - eapply dead_ids_below; eauto. }
  rewrite (relocate_transp pos_val target v rw nid v2 out (bw_new nid) [] out' w (WInv_new _ nid) RS FPb HL).
  - unfold run_stream, resolve_all in *.
    rewrite (cstream_map (resolve_or_inline v) W evict (resolve_or_inline_class v) _ _), HR.
    reflexivity.
  - (* the new files are found in the new version *)
    intros f o x FF. unfold find_frame in *.
    destruct (find_file (bw_files w) f) as [bf|] eqn:F; [|discriminate].
    pose proof (find_file_some _ _ _ F) as [Hbf Ef].
    pose proof (wi_ids _ _ _ _ WI bf Hbf) as [G _].
    rewrite EB, (find_file_filter (fun i => negb (memN i (rw ++ dead_ids v)))).
    destruct (memN f (rw ++ dead_ids v)) eqn:MD.
    + apply memN_In, DRlt in MD. lia.
    + cbn [negb]. rewrite find_file_app, (find_file_none (b_blobs v) f), F; [exact FF|].
      intros C. apply in_map_iff in C. destruct C as (b & E & Hb). pose proof (proj1 IB b Hb). lia.
  - (* pointers that are not relocated resolve as before *)
    intros e p He PE KP. apply (resolve_same_file v v2 e p PE).
    pose proof (OV e p He PE) as Hp. pose proof (bi_res _ _ I p Hp) as PR.
    apply presolve_spec in PR. destruct PR as (bf & fr & F & _).
    rewrite F, EB, (find_file_filter (fun i => negb (memN i (rw ++ dead_ids v)))).
    destruct (memN (pf p) (rw ++ dead_ids v)) eqn:MD.
    + exfalso. apply memN_In, in_app_or in MD. destruct MD as [MD|MD].
      * unfold keep_ptr in KP. apply negb_true_iff, memN_false in KP. contradiction.
      * apply in_dead_ids in MD. destruct MD as (b & Hb & DD & E).
        apply (dead_no_ptr d v b p I POS Hb DD Hp). now symmetry.
    + cbn [negb]. now rewrite find_file_app, F.
Qed.

(** * 11. Compaction filter with key-value separation *)

Lemma ptr_of_mark k s v : ptr_of (mkE k s Ind (mark v)) = None.
Proof. reflexivity. Qed.

Lemma unmark_some h v : unmark h = Some v -> ty h = Ind /\ val h = mark v.
Proof.
  unfold unmark, mark. destruct (ty h); try discriminate.
  destruct (val h) as [|[|?] [|[|?] [|[|?] [|[|?] [|[|?] r]]]]]; try discriminate.
  intros H. inversion H. auto.
Qed.

Lemma unmark_no_ptr h v : unmark h = Some v -> ptr_of h = None.
Proof.
  intros H. apply unmark_some in H. destruct H as [T V]. unfold ptr_of. now rewrite T, V.
Qed.

Lemma wf_ind_unmark e : ty e = Ind -> wf_ind e = true -> unmark e = None.
Proof.
  intros T WF. unfold wf_ind in WF. rewrite T in WF.
  destruct (unmark e) as [v|] eqn:U; [|reflexivity].
  now rewrite (unmark_no_ptr _ _ U) in WF.
Qed.

Lemma adapt_noptr uf : flt_noptr (adapt uf).
Proof.
  intros e t v. unfold adapt. destruct (uf e); try discriminate; intros H; inversion H; reflexivity.
Qed.

Definition ow_files (ow : option bwriter) : list blobfile :=
  match ow with Some w => bw_files w | None => [] end.
Definition ow_next (nid : N) (ow : option bwriter) : N :=
  match ow with Some w => bw_next w | None => nid end.
Definition OWInv (thr nid : N) (ow : option bwriter) (P : list ptr) : Prop :=
  match ow with Some w => WInv (big_enough thr) nid w P | None => P = [] end.

Lemma fsep_inv thr target nid : forall items ow P out' ow',
  OWInv thr nid ow P ->
  fsep thr target nid ow items = (out', ow') ->
  (forall e, In e out' -> (In e items /\ unmark e = None) \/ wf_ind e = true) /\
  exists Nn, OWInv thr nid ow' (Nn ++ P) /\ Permutation (ptrs out') (Nn ++ ptrs items).
Proof.
  induction items as [|h r IH]; intros ow P out' ow' OI HS; cbn [fsep] in HS.
  - inversion HS; subst. split; [intros e []|]. exists []. split; [exact OI | apply Permutation_refl].
  - destruct (unmark h) as [v|] eqn:U.
    + rewrite ptrs_cons, (unmark_no_ptr _ _ U).
      destruct (lenN v <? thr) eqn:SM.
      * destruct (fsep thr target nid ow r) as [o ow2] eqn:HR. inversion HS; subst.
        destruct (IH ow P o ow' OI HR) as (WF & Nn & OI' & PP). split.
        -- intros e [<-|He]; [right; reflexivity|]. destruct (WF e He) as [[A B]|A]; [left; split; [now right | exact B] | now right].
        -- exists Nn. split; [exact OI'|]. rewrite ptrs_cons. exact PP.
      * apply N.ltb_ge in SM.
        set (w := match ow with Some w => w | None => bw_new nid end) in *.
        assert (WInv (big_enough thr) nid w P) as WI.
        { unfold w. destruct ow as [w0|]; [exact OI|]. cbn in OI. subst P. apply WInv_new. }
        destruct (bw_write target w (ukey h) (seq h) v (lenN v)) as [w1 hd] eqn:HW.
        destruct (fsep thr target nid (Some w1) r) as [o ow2] eqn:HR. inversion HS; subst.
        destruct (bw_write_inv (big_enough thr) nid target w P _ _ _ _ w1 hd WI HW SM)
          as (_ & _ & _ & WI1).
        destruct (IH (Some w1) _ o ow' WI1 HR) as (WF & Nn & OI' & PP). split.
        -- intros e [<-|He]; [right; reflexivity|]. destruct (WF e He) as [[A B]|A]; [left; split; [now right | exact B] | now right].
        -- exists (Nn ++ [mkP (ukey h) (fst hd) (snd hd) (lenN v) (lenN v)]). split.
           ++ now rewrite <- app_assoc.
           ++ rewrite ptrs_cons, ptr_of_mk_ind, <- app_assoc. cbn [app]. now apply Permutation_cons_app.
    + destruct (fsep thr target nid ow r) as [o ow2] eqn:HR. inversion HS; subst.
      destruct (IH ow P o ow' OI HR) as (WF & Nn & OI' & PP). split.
      * intros e [<-|He]; [left; split; [now left | exact U]|].
        destruct (WF e He) as [[A B]|A]; [left; split; [now right | exact B] | now right].
      * exists Nn. split; [exact OI'|]. rewrite !ptrs_cons. destruct (ptr_of h) as [p|]; [|exact PP].
        now apply Permutation_cons_app.
Qed.

Theorem blob_merge_filter_inv d W evict uf thr target nid tids split v :
  BInvG d v -> frames_pos (b_blobs v) -> ids_below nid v -> split_ok split (b_tables v) ->
  let r := blob_merge_filter W evict uf thr target nid tids split v in
  BInvG d (fst r) /\ ids_below (snd r) (fst r) /\ nid <= snd r /\
  (0 < thr -> frames_pos (b_blobs (fst r))) /\ (gc_pruned v -> gc_pruned (fst r)).
Proof.
  intros I POS IB SP r. unfold r, blob_merge_filter.
  destruct (negb (tids_known tids v));
    [cbn [fst snd]; split; [exact I|]; split; [exact IB|]; split; [lia|]; split; auto|].
  destruct (run_stream W evict (adapt uf) (merge_input tids v)) as [out log] eqn:HR.
  destruct (fsep thr target nid None out) as [out' ow] eqn:HF.
  set (R := rest_tables tids (b_tables v)).
  pose proof (stream_ptrs _ _ _ _ _ _ (adapt_noptr uf) HR) as PS.
  assert (Permutation (vptrs v) (ptrs log ++ [] ++ (ptrs out ++ tptrs R))) as PV.
  { eapply perm_trans; [apply (vptrs_split tids v)|]. fold R. cbn [app].
    eapply perm_trans; [apply Permutation_app_tail; apply Permutation_sym; apply merge_input_ptrs|].
    eapply perm_trans; [apply Permutation_app_tail; exact PS|].
    rewrite <- app_assoc. apply Permutation_app_swap_app. }
  destruct (fsep_inv thr target nid out None [] out' ow eq_refl HF) as (WF & Nn & OI & PP).
  rewrite app_nil_r in OI.
  assert ((let '(extra, nid') := match ow with Some w => bw_finish w | None => ([], nid) end in
           (with_merge v tids (split out') (gc_of_log log) extra (dead_ids v), nid'))
          = (with_merge v tids (split out') (gc_of_log log) (ow_files ow) (dead_ids v), ow_next nid ow)) as ->
    by (destruct ow; reflexivity).
  cbn [fst snd].
  (* facts about the filter's blob files *)
  assert (NoDup (map bf_id (ow_files ow)) /\
          (forall bf, In bf (ow_files ow) -> nid <= bf_id bf /\ bf_id bf < ow_next nid ow /\ file_ok_P bf) /\
          (forall p, In p Nn -> presolve (ow_files ow) p = true) /\ NoDup (map tgt Nn) /\
          (forall bf fr, In bf (ow_files ow) -> In fr (frames bf) ->
             pointed Nn (bf_id bf) (fr_off fr) = true /\ thr <= lenN (fr_val fr)) /\
          nid <= ow_next nid ow) as (F1 & F2 & F3 & F4 & F5 & F6).
  { destruct ow as [w|]; cbn [OWInv ow_files ow_next] in *.
    - destruct OI as [W1 W2 W3 W4 W5 W6 W7 W8 W9]. repeat split; auto; try lia.
      + apply (W2 bf H).
      + specialize (W2 bf H). lia.
      + apply (W4 bf H).
      + apply (W4 bf H).
      + apply (W9 bf fr H H0).
    - subst Nn. repeat split; try (intros; contradiction); try constructor; lia. }
  split; [|split; [|split; [|split]]].
  - apply (with_merge_inv d v tids (split out') (gc_of_log log) (ow_files ow) (dead_ids v) nid
                          (ptrs log) [] (ptrs out ++ tptrs R) Nn).
    + exact I.
    + exact IB.
    + apply (SP out').
    + apply (SP out').
    + intros t e Ht He. pose proof (split_ok_in _ _ _ _ _ SP Ht He) as Ho.
      destruct (WF e Ho) as [[Hin NM]|H]; [|exact H].
      destruct (cstream_replace_keeps_seq _ _ _ _ _ _ HR e Hin) as [Hl|(e0 & t0 & v0 & _ & _ & Hf & ->)].
      * destruct (merge_input_in _ _ _ Hl) as (t' & Ht' & He'). apply (bi_wf _ _ I t' e Ht' He').
      * unfold adapt in Hf. destruct (uf e0); try discriminate; inversion Hf; subst; try reflexivity.
        cbn in NM. discriminate.
    + exact PV.
    + rewrite (split_ok_tptrs _ _ _ SP). rewrite app_assoc. apply Permutation_app_tail. exact PP.
    + exact F1.
    + intros bf HI. destruct (F2 bf HI) as (A & _ & C). auto.
    + exact F3.
    + exact F4.
    + intros bf fr Hb Hf. apply (F5 bf fr Hb Hf).
    + intros f. apply gtot_of_log.
    + intros f Hf. eapply dead_ids_below; eauto.
    + intros p Hp Hd. apply in_dead_ids in Hd. destruct Hd as (bf & HI & DD & E).
      apply (dead_no_ptr d v bf p I POS HI DD); [|now symmetry].
      eapply Permutation_in; [apply Permutation_sym; exact PV|]. apply in_or_app. right. exact Hp.
    + intros p [].
  - destruct (with_merge_aux v tids (split out') (gc_of_log log) (ow_files ow) (dead_ids v)
                nid (ow_next nid ow) IB F6) as (A & _); [|exact A].
    intros bf HI. apply (F2 bf HI).
  - exact F6.
  - intros TP.
    destruct (with_merge_aux v tids (split out') (gc_of_log log) (ow_files ow) (dead_ids v)
                nid (ow_next nid ow) IB F6) as (_ & B & _); [intros bf HI; apply (F2 bf HI)|].
    apply B; [exact POS|]. intros bf fr Hb Hf. destruct (F5 bf fr Hb Hf) as [_ G]. lia.
  - destruct (with_merge_aux v tids (split out') (gc_of_log log) (ow_files ow) (dead_ids v)
                nid (ow_next nid ow) IB F6) as (_ & _ & C & _); [intros bf HI; apply (F2 bf HI) | exact C].
Qed.

(** ** the timing of removal, for every kind of merge: whatever is in [drops] -- the files
    dead by the statistics of the version the merge starts from, and the rewritten files --
    is absent from the result *)
Lemma with_merge_drops v tids newtabs diff newfiles drops f :
  In f drops -> ~ In f (map bf_id (b_blobs (with_merge v tids newtabs diff newfiles drops))).
Proof.
  intros Hd C. rewrite with_merge_blobs in C. apply in_map_iff in C. destruct C as (b & E & Hb).
  apply filter_In in Hb. destruct Hb as [_ ND]. apply negb_true_iff, memN_false in ND.
  apply ND. now rewrite E.
Qed.

Theorem dead_removed_by_relocating_merge W evict flt tids rw target nid split v bf :
  tids_known tids v = true -> In bf (b_blobs v) -> is_dead (b_gc v) bf = true \/ In (bf_id bf) rw ->
  ~ In (bf_id bf) (map bf_id (b_blobs (fst (blob_merge_relocating W evict flt tids rw target nid split v)))).
Proof.
  intros KN HI H. unfold blob_merge_relocating. rewrite KN. cbn [negb].
  destruct (run_stream _ _ _ _) as [out log]. destruct (relocate _ _ _ _ _) as [out' w].
  unfold bw_finish. cbn [fst]. apply with_merge_drops. apply in_or_app. destruct H as [H|H]; [right | now left].
  apply in_dead_ids. exists bf. auto.
Qed.

Theorem dead_removed_by_filter_merge W evict uf thr target nid tids split v bf :
  tids_known tids v = true -> In bf (b_blobs v) -> is_dead (b_gc v) bf = true ->
  ~ In (bf_id bf) (map bf_id (b_blobs (fst (blob_merge_filter W evict uf thr target nid tids split v)))).
Proof.
  intros KN HI H. unfold blob_merge_filter. rewrite KN. cbn [negb].
  destruct (run_stream _ _ _ _) as [out log]. destruct (fsep _ _ _ _ _) as [out' ow].
  destruct ow as [w|]; unfold bw_finish; cbn [fst]; apply with_merge_drops;
    apply in_dead_ids; exists bf; auto.
Qed.

(** NOT PROVED (statement kept): the scanner-faithful relocation agrees with the lookup
    model whenever the blobs' stored seqnos are those of the entries pointing to them:

      Theorem relocate_scan_agrees : forall d v rw target w items,
        BInvG d v -> ssorted items = true ->
        (forall e p, In e items -> ptr_of e = Some p -> In p (vptrs v)) ->
        (forall e p fr, In e items -> ptr_of e = Some p ->
           find_frame (b_blobs v) (pf p) (po p) = Some fr -> fr_seq fr = seq e) ->
        (forall bf, In bf (b_blobs v) -> [frames bf] ascending by (key, seqno desc) and by offset) ->
        relocate_scan target rw (scan_of (b_blobs v) rw) w items
        = Some (relocate target (b_blobs v) rw w items).

    What is missing is the order argument (a blob needed by a later entry is never skipped
    by [drain_blobs]).  [relocate_scan_agrees_partial] (section 14b) is a computed instance,
    [relocate_scan_refuted] shows the seqno hypothesis cannot be dropped. *)

(** ** End-to-end safety within one session.
    [with_dropped] leaves statistics entries for files it removed ([gc_pruned_drop_refuted]),
    so [gc_pruned] is NOT assumed here.  Such entries only concern ids below the counter
    that are not in the version, the counter never goes back within a session
    ([ids_below] is carried along), so they are never looked at again: flush, merge
    (standard or relocating) and drop preserve the invariant, the id bound and non-empty
    values, and none of them removes a file of [v] into which a pointer of the resulting
    version points. *)
Lemma live_file_kept d v v' bf p :
  BInvG d v' -> NoDup (map bf_id (b_blobs v)) ->
  (forall b, In b (b_blobs v') -> In b (b_blobs v) \/ bf_id b <> bf_id bf) ->
  In bf (b_blobs v) -> In p (vptrs v') -> pf p = bf_id bf -> In bf (b_blobs v').
Proof.
  intros I' ND SUB HI Hp E.
  pose proof (presolve_has_file _ _ (bi_res _ _ I' p Hp)) as HF. apply in_map_iff in HF.
  destruct HF as (b & Eb & Hb). destruct (SUB b Hb) as [Hb'|NE]; [|congruence].
  assert (b = bf) as <-; [|exact Hb].
  pose proof (find_file_in _ _ ND Hb') as F1. pose proof (find_file_in _ _ ND HI) as F2.
  rewrite Eb, E in F1. congruence.
Qed.

Lemma with_merge_blobs_sub v tids newtabs diff newfiles drops b :
  In b (b_blobs (with_merge v tids newtabs diff newfiles drops)) -> In b (b_blobs v) \/ In b newfiles.
Proof.
  rewrite with_merge_blobs. intros H. apply filter_In in H. destruct H as [H _]. now apply in_app_or in H.
Qed.

Definition keeps_live (v v' : bversion) : Prop :=
  forall bf p, In bf (b_blobs v) -> In p (vptrs v') -> pf p = bf_id bf -> In bf (b_blobs v').

Theorem ghost_harmless_in_session d v nid :
  BInvG d v -> frames_pos (b_blobs v) -> ids_below nid v ->
  (* flush *)
  (forall thr target W split mem, 0 < thr ->
     (forall e, In e mem -> ty e <> Ind) -> split_ok split (b_tables v) ->
     let r := blob_flush thr target W nid split mem v in
     BInvG d (fst r) /\ frames_pos (b_blobs (fst r)) /\ ids_below (snd r) (fst r) /\ nid <= snd r /\
     keeps_live v (fst r)) /\
  (* standard merge *)
  (forall W evict flt tids split, flt_plain flt -> split_ok split (b_tables v) ->
     let v' := blob_merge_standard W evict flt tids split v in
     BInvG d v' /\ frames_pos (b_blobs v') /\ ids_below nid v' /\ keeps_live v v') /\
  (* relocating merge *)
  (forall W evict flt tids rw target split, flt_plain flt -> split_ok split (b_tables v) ->
     reloc_ok tids rw v ->
     let r := blob_merge_relocating W evict flt tids rw target nid split v in
     BInvG d (fst r) /\ frames_pos (b_blobs (fst r)) /\ ids_below (snd r) (fst r) /\ nid <= snd r /\
     keeps_live v (fst r)) /\
  (* dropping tables *)
  (forall tids,
     let v' := blob_drop_tables tids v in
     BInvG d v' /\ frames_pos (b_blobs v') /\ ids_below nid v' /\ keeps_live v v').
Proof.
  intros I POS IB. pose proof (bi_fids _ _ I) as ND.
  split; [|split; [|split]].
  - intros thr target W split mem TP NI SP r.
    destruct (blob_flush_inv d thr target W nid split mem v I IB NI SP) as (A & B & C & D & _).
    fold r in A, B, C, D.
    split; [exact A|]. split; [apply D; auto|]. split; [exact B|]. split; [exact C|].
    intros bf p HI Hp E. unfold r, blob_flush.
    destruct (run_stream _ _ _ _) as [out lg]. destruct (separate _ _ _ _) as [ents w].
    cbn [bw_finish fst b_blobs]. apply in_or_app. now left.
  - intros W evict flt tids split FP SP v'.
    pose proof (blob_merge_standard_inv d W evict flt tids split v I POS FP SP) as A. fold v' in A.
    destruct (blob_merge_standard_aux W evict flt tids split v nid IB) as (B & C & _). fold v' in B, C.
    split; [exact A|]. split; [apply C; exact POS|]. split; [exact B|].
    intros bf p HI Hp E. apply (live_file_kept d v v' bf p A ND); auto.
    intros b Hb. left. revert Hb. unfold v', blob_merge_standard.
    destruct (negb (tids_known tids v)); [auto|]. destruct (run_stream _ _ _ _) as [out log].
    intros Hb. apply with_merge_blobs_sub in Hb. destruct Hb as [Hb|[]]. exact Hb.
  - intros W evict flt tids rw target split FP SP RO r.
    destruct (blob_merge_relocating_inv d W evict flt tids rw target nid split v I POS IB FP SP RO)
      as (A & B & C & D & _). fold r in A, B, C, D.
    split; [exact A|]. split; [exact D|]. split; [exact B|]. split; [exact C|].
    intros bf p HI Hp E. apply (live_file_kept d v (fst r) bf p A ND); auto.
    intros b Hb. revert Hb A. unfold r, blob_merge_relocating.
    destruct (negb (tids_known tids v)); [cbn [fst]; auto|].
    destruct (run_stream _ _ _ _) as [out log].
    destruct (relocate target (b_blobs v) rw (bw_new nid) out) as [out' w] eqn:HL.
    cbn [bw_finish fst]. intros Hb _. apply with_merge_blobs_sub in Hb. destruct Hb as [Hb|Hb]; [now left|].
    right.
    (* the new files carry fresh ids *)
    assert (nid <= bf_id b) as G.
    { clear - HL Hb. 
      assert (forall items w0 o w1, relocate target (b_blobs v) rw w0 items = (o, w1) ->
                (forall x, In x (bw_files w0) -> nid <= bf_id x) -> nid <= bw_id w0 ->
                bw_id w0 < bw_next w0 ->
                (forall x, In x (bw_files w1) -> nid <= bf_id x)) as GEN.
      { induction items as [|e r IHr]; intros w0 o w1 HR H0 H1 H2; cbn [relocate] in HR.
        - inversion HR; subst. exact H0.
        - destruct (ptr_of e) as [q|]; [destruct (memN (pf q) rw);
            [destruct (find_frame (b_blobs v) (pf q) (po q)) as [fq|]|]|].
          + destruct (bw_write target w0 (ukey e) (seq e) (fr_val fq) (fr_disk fq)) as [w3 hh] eqn:HW.
            destruct (relocate target (b_blobs v) rw w3 r) as [o3 w4] eqn:HR3. inversion HR; subst.
            unfold bw_write in HW.
            assert (forall x, In x (add_frame (bw_files w0) (bw_id w0)
                       (mkFr (ukey e) (seq e) (bw_off w0) (fr_val fq) (fr_disk fq))) -> nid <= bf_id x) as AF.
            { intros x Hx. destruct (add_frame_in _ _ _ _ Hx) as [H|(A & _)]; [auto | lia]. }
            destruct (target <=? _); inversion HW; subst;
              eapply (IHr _ _ _ HR3); cbn [bw_files bw_id bw_next]; auto; lia.
          + destruct (relocate target (b_blobs v) rw w0 r) as [o3 w4] eqn:HR3. inversion HR; subst. eauto.
          + destruct (relocate target (b_blobs v) rw w0 r) as [o3 w4] eqn:HR3. inversion HR; subst. eauto.
          + destruct (relocate target (b_blobs v) rw w0 r) as [o3 w4] eqn:HR3. inversion HR; subst. eauto. }
      apply (GEN out (bw_new nid) out' w HL); cbn [bw_new bw_files bw_id bw_next]; [intros x [] | lia | lia | exact Hb]. }
    pose proof (proj1 IB bf HI). lia.
  - intros tids v'.
    pose proof (blob_drop_tables_inv d tids v I POS) as A. fold v' in A.
    destruct (blob_drop_tables_aux d tids v nid I IB) as (B & C). fold v' in B, C.
    split; [exact A|]. split; [apply C; exact POS|]. split; [exact B|].
    intros bf p HI Hp E. apply (live_file_kept d v v' bf p A ND); auto.
    intros b Hb. left. revert Hb. unfold v', blob_drop_tables, drop_tables_with.
    destruct (negb (tids_known tids v)); [auto|]. destruct (is_nil _); [auto|].
    cbn [b_blobs]. intros Hb. apply filter_In in Hb. tauto.
Qed.

(** * 15. Instances of the main theorems (hypotheses checked, theorem applied) *)

Lemma one_split_ok id old : ~ In id (map fst old) -> split_ok (BlobEx.one id) old.
Proof.
  intros NI l. unfold BlobEx.one. destruct l as [|e l]; cbn [is_nil map snd fst concat].
  - repeat split; [constructor | intros t []].
  - rewrite app_nil_r. repeat split.
    + constructor; [intros [] | constructor].
    + intros t [<-|[]]. exact NI.
Qed.

Ltac no_ind := intros e He; cbn in He; repeat (destruct He as [<-|He]; [discriminate|]); contradiction.
Ltac not_in := cbn; intros H; repeat (destruct H as [H|H]; [discriminate|]); contradiction.

Example blob_flush_inv_ex : BInv (fst BlobEx.m2) /\ ids_below 2 (fst BlobEx.m2).
Proof.
  assert (BInv (fst BlobEx.m1) /\ ids_below 1 (fst BlobEx.m1)) as [I1 B1].
  { destruct (blob_flush_inv true 4 1000 0 0 (BlobEx.one 0)
                [BlobEx.V BlobEx.kbig 0 BlobEx.big; BlobEx.V BlobEx.ksmol 0 [1;2]] bv_empty)
      as (A & B & _).
    - by_check.
    - apply ids_below_b_spec. reflexivity.
    - no_ind.
    - apply one_split_ok. intros [].
    - split; [exact A | exact B]. }
  destruct (blob_flush_inv true 4 1000 0 1 (BlobEx.one 1) [BlobEx.V BlobEx.kbig 1 BlobEx.big2]
              (fst BlobEx.m1) I1 B1) as (A & B & _).
  - no_ind.
  - apply one_split_ok. not_in.
  - split; [exact A | exact B].
Qed.

Example blob_merge_standard_inv_ex : BInv BlobEx.m3.
Proof.
  apply blob_merge_standard_inv.
  - apply blob_flush_inv_ex.
  - apply frames_pos_b_spec. reflexivity.
  - apply no_filter_plain.
  - apply one_split_ok. not_in.
Qed.

Example blob_drop_tables_inv_ex : BInv (blob_drop_tables [2] BlobEx.p3).
Proof.
  apply (blob_drop_tables_inv true); [by_check | apply frames_pos_b_spec; reflexivity].
Qed.

Example blob_merge_relocating_inv_ex : BInv (fst BlobEx.p5) /\ ids_below 2 (fst BlobEx.p5).
Proof.
  destruct (blob_merge_relocating_inv true 1000 true no_filter [3;4]
              (pick_rewrite 1 100 1 1 [3;4] BlobEx.p4) 1000 1 (BlobEx.one 5) BlobEx.p4) as (A & B & _).
  - by_check.
  - apply frames_pos_b_spec. reflexivity.
  - apply ids_below_b_spec. reflexivity.
  - apply no_filter_plain.
  - apply one_split_ok. not_in.
  - apply pick_rewrite_ok.
  - split; [exact A | exact B].
Qed.

(** compaction/filter.rs: a replaced value that crosses the threshold goes to a new blob
    file under the OLD key and seqno; a replaced pointer's blob becomes garbage *)
Definition uf1 (e : entry) : uverdict :=
  if key_eqb (ukey e) BlobEx.ksmol then UReplace [5;5;5;5;5]
  else if key_eqb (ukey e) BlobEx.kbig then UReplace [1] else UKeep.
Definition f1 := blob_merge_filter 1000 true uf1 4 1000 1 [0] (BlobEx.one 1) (fst BlobEx.m1).
Example blob_merge_filter_ex :
  b_tables (fst f1) = [(1, [BlobEx.V BlobEx.kbig 0 [1]; mk_ind BlobEx.ksmol 0 1 0 5 5])] /\
  map (fun bf => (bf_id bf, map (fun fr => (fr_key fr, fr_seq fr, fr_val fr)) (frames bf))) (b_blobs (fst f1))
  = [(0, [(BlobEx.kbig, 0, BlobEx.big)]); (1, [(BlobEx.ksmol, 0, [5;5;5;5;5])])] /\
  b_gc (fst f1) = [(0, mkG 1 8 8)] /\ snd f1 = 2 /\
  resolve_all (fst f1) (concat (map snd (b_tables (fst f1))))
  = [BlobEx.V BlobEx.kbig 0 [1]; BlobEx.V BlobEx.ksmol 0 [5;5;5;5;5]].
Proof. vm_compute. repeat split; reflexivity. Qed.

Example blob_merge_filter_inv_ex : BInv (fst f1).
Proof.
  destruct (blob_merge_filter_inv true 1000 true uf1 4 1000 1 [0] (BlobEx.one 1) (fst BlobEx.m1)) as (A & _).
  - by_check.
  - apply frames_pos_b_spec. reflexivity.
  - apply ids_below_b_spec. reflexivity.
  - apply one_split_ok. not_in.
  - exact A.
Qed.

Example stale_bytes_exact_ex :
  stale_bytes (b_gc BlobEx.c6) = 32 /\
  sumN (map (fun bf => g_disk (garbage_of BlobEx.c6 (bf_id bf))) (b_blobs BlobEx.c6)) = 32.
Proof. vm_compute. split; reflexivity. Qed.

Example is_dead_iff_ex :
  map (is_dead (b_gc BlobEx.c6)) (b_blobs BlobEx.c6) = [true; true; true; true; false] /\
  map pf (vptrs BlobEx.c6) = [4].
Proof. vm_compute. split; reflexivity. Qed.

Example blob_transparent_ex :
  let v := fst BlobEx.m2 in
  resolve_all BlobEx.m3 (concat (map snd (b_tables BlobEx.m3)))
  = fst (run_stream 1000 true no_filter (resolve_all v (merge_input [0;1] v))) /\
  resolve_all BlobEx.m3 (concat (map snd (b_tables BlobEx.m3)))
  = [BlobEx.V BlobEx.kbig 1 BlobEx.big2; BlobEx.V BlobEx.ksmol 0 [1;2]].
Proof. vm_compute. split; reflexivity. Qed.

(** * Assumptions *)
Print Assumptions check_binv_g_iff.
Print Assumptions check_binv_iff.
Print Assumptions blob_flush_inv.
Print Assumptions blob_merge_standard_inv.
Print Assumptions blob_merge_standard_aux.
Print Assumptions blob_drop_tables_inv.
Print Assumptions blob_drop_tables_aux.
Print Assumptions blob_drop_tables_no_dead.
Print Assumptions blob_merge_relocating_inv.
Print Assumptions pick_rewrite_ok.
Print Assumptions blob_merge_filter_inv.
Print Assumptions stale_bytes_exact.
Print Assumptions is_dead_iff.
Print Assumptions blob_merge_standard_keeps_iff.
Print Assumptions dead_removed_by_merge.
Print Assumptions blob_drop_tables_keeps_iff.
Print Assumptions dead_removed_by_drop.
Print Assumptions dead_removed_by_relocating_merge.
Print Assumptions dead_removed_by_filter_merge.
Print Assumptions reopen_counter_fresh.
Print Assumptions blob_resolves.
Print Assumptions blob_flush_transparent.
Print Assumptions blob_merge_transparent.
Print Assumptions blob_merge_relocating_transparent.
Print Assumptions blob_drop_tables_old_inv.
Print Assumptions blob_drop_tables_old_inv_refuted.
Print Assumptions blob_reopen_inv.
Print Assumptions ghost_harmless_in_session.
Print Assumptions gc_pruned_drop_refuted.
Print Assumptions reopen_ghost_refuted.
Print Assumptions reloc_ineligible_refuted.
Print Assumptions is_dead_zero_len_refuted.
Print Assumptions relocate_scan_refuted.
Print Assumptions blob_transparent_weak_ex.
