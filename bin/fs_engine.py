#!/usr/bin/env python3
"""Correspondence engine between the Coq file-system / persistence-protocol / recovery
model (coq/Model/Fs.v, extracted to ocaml/fsmodel.ml, driven by ocaml/fsrunner) and the
real crate (driver harness/target/debug/lsmv), through strace.

  python3 bin/fs_engine.py --mode crash|fault|reclaim --tier quick|thorough --seed N --out r.json
  python3 bin/fs_engine.py --mode crash --replay some.hist [--inject write:EIO:123]

See docs/FS_ENGINE.md.  Scratch lives under work/fs/ only.
"""
import argparse, hashlib, json, multiprocessing, os, random, re, shutil, struct, subprocess, sys, time

ROOT = os.path.dirname(os.path.dirname(os.path.abspath(__file__)))
LSMV = os.path.join(ROOT, "harness", "target", "debug", "lsmv")
FSRUNNER = os.path.join(ROOT, "ocaml", "fsrunner")
WORK = os.path.join(ROOT, "work", "fs")
TRACE_SET = "openat,write,pwrite64,fsync,fdatasync,rename,renameat,renameat2,unlink,unlinkat,mkdir,mkdirat,close,ftruncate"

CFG_STD = "cfg blob=0 bs=64 ri=4 hr=0 filter=1 ipart=0 fpart=0 pini=0 pinf=1 cache=1048576 dt=1 sep=64 btarget=512 stale=0 age=1 cfilter=0"
CFG_BLOB = "cfg blob=1 bs=64 ri=4 hr=0 filter=1 ipart=0 fpart=0 pini=0 pinf=1 cache=1048576 dt=1 sep=8 btarget=128 stale=0 age=1 cfilter=0"


def hx(b):
    return b.hex()


# ---------------------------------------------------------------------------------------
# history generation (own generator: short histories rich in file-system operations)
# ---------------------------------------------------------------------------------------
KEYS = [b"a", b"ab", b"b", b"c", b"k01", b"k02", b"k03", b"m", b"z"]


def gen_history(seed, blob, n_ops, flavour="mix"):
    """A history of about n_ops operations; every maintenance op passes the high
    watermark `min` so that version GC and file deletion actually happen."""
    rnd = random.Random(seed * 7919 + (1 if blob else 0) * 104729 + sum(flavour.encode()) % 1000)
    lines = [CFG_BLOB if blob else CFG_STD]
    cnt = 0

    def val():
        nonlocal cnt
        cnt += 1
        base = b"v%d" % cnt
        if blob and rnd.random() < 0.7:
            return base + b"." * rnd.choice([8, 14, 30, 70])
        return base + b"." * rnd.choice([0, 0, 3, 20])

    def put():
        return "put %s %s" % (hx(rnd.choice(KEYS)), hx(val()))

    pending = 0
    while len(lines) - 1 < n_ops:
        r = rnd.random()
        if pending == 0 or r < 0.30:
            for _ in range(rnd.choice([1, 1, 2, 3])):
                lines.append(put() if rnd.random() < 0.85 else "del %s" % hx(rnd.choice(KEYS)))
                pending += 1
        elif r < 0.55:
            lines.append("flushactive min")
            pending = 0
        elif r < 0.60:
            lines.append("rotate")
            lines.append("flush min")
            pending = 0
        elif r < 0.70:
            lines.append("major %d min" % rnd.choice([64, 300, 100000]))
        elif r < 0.78:
            lines.append("leveled %d %d min" % (rnd.choice([1, 2, 4]), rnd.choice([64, 256, 4096])))
        elif r < 0.83:
            lo, hi = sorted(rnd.sample(KEYS, 2))
            lines.append("droprange i:%s i:%s" % (hx(lo), hx(hi)))
        elif r < 0.86:
            lines.append("clear")
            pending = 0
        elif r < 0.92:
            ks = sorted(rnd.sample(KEYS, rnd.choice([0, 1, 2, 3])))
            items = []
            for k in ks:
                items.append("p:%s:%s" % (hx(k), hx(val())) if rnd.random() < 0.85 else "d:%s" % hx(k))
            lines.append(("ingest " + " ".join(items)).strip())
            pending = 0
        elif r < 0.95:
            a = rnd.choice([0, 1, 2])
            lines.append("movedown %d %d" % (a, rnd.choice([a + 1, a + 2, 6])))
        else:
            lines.append("reopen")
            pending = 0
    if flavour == "mix" and not any(l.startswith("reopen") for l in lines):
        lines.append("reopen")
    return "\n".join(lines) + "\n"


# ---------------------------------------------------------------------------------------
# strace parsing
# ---------------------------------------------------------------------------------------
_RE_LINE = re.compile(r"^(\d+)\s+(\w+)\((.*)\)\s+=\s+(-?\d+)(?:\s+(\w+))?.*$")
_RE_STR = re.compile(r'"((?:\\x[0-9a-f]{2})*)"(\.\.\.)?')


def _unx(s):
    return bytes.fromhex(s.replace("\\x", ""))


class Sys:
    __slots__ = ("idx", "name", "ret", "errno", "strs", "args", "ordinal")

    def __init__(self, idx, name, args, ret, errno):
        self.idx, self.name, self.ret, self.errno = idx, name, ret, errno
        self.strs = [_unx(m.group(1)) for m in _RE_STR.finditer(args)]
        # non-string remainder (flags, fds)
        self.args = _RE_STR.sub('""', args)
        self.ordinal = 0


def parse_strace(path):
    """-> list of Sys (complete syscalls only); every syscall gets its ordinal among the
    calls of the same name (1-based): that is what strace's inject=...:when=N counts."""
    out, counts, unfinished = [], {}, 0
    with open(path, "r", errors="replace") as f:
        for idx, line in enumerate(f):
            if "<unfinished" in line or "resumed>" in line:
                unfinished += 1
                continue
            m = _RE_LINE.match(line.rstrip("\n"))
            if not m:
                continue
            s = Sys(idx, m.group(2), m.group(3), int(m.group(4)), m.group(5))
            counts[s.name] = counts.get(s.name, 0) + 1
            s.ordinal = counts[s.name]
            out.append(s)
    return out, unfinished


# ---------------------------------------------------------------------------------------
# names, the Python twin of the model state (needed to materialise images with BYTES)
# ---------------------------------------------------------------------------------------
def dir_of(fn):
    return "T" if fn[0] == "t" else ("B" if fn[0] == "b" else "R")


class Sim:
    """POSIX-ish state, same semantics as Model/Fs.v [apply] (cross-checked against the
    extracted model after every segment via fsrunner's DUR/VOL)."""

    def __init__(self):
        self.vns, self.dns = {}, {}
        self.vol, self.dur = {}, {}          # inode -> token list
        self.next = 0
        self.vdirs, self.ddirs = {"R"}, {"R"}

    def clone(self):
        c = Sim.__new__(Sim)
        c.vns, c.dns = dict(self.vns), dict(self.dns)
        c.vol = {k: list(v) for k, v in self.vol.items()}
        c.dur = {k: list(v) for k, v in self.dur.items()}
        c.next, c.vdirs, c.ddirs = self.next, set(self.vdirs), set(self.ddirs)
        return c

    def apply(self, op):
        k = op[0]
        if k == "mkdir":
            self.vdirs.add(op[1])
        elif k == "create":
            f, excl = op[1], op[2]
            if dir_of(f) not in self.vdirs:
                return False
            if f in self.vns:
                if excl:
                    return False
                self.vol[self.vns[f]] = []
            else:
                i = self.next
                self.next += 1
                self.vns[f] = i
                self.vol[i], self.dur[i] = [], []
        elif k == "write":
            if op[1] not in self.vns:
                return False
            self.vol[self.vns[op[1]]].append(op[2])
        elif k == "fsync":
            if op[1] not in self.vns:
                return False
            i = self.vns[op[1]]
            self.dur[i] = list(self.vol[i])
        elif k == "fsyncdir":
            d = op[1]
            if d not in self.vdirs:
                return False
            for f in list(self.dns):
                if dir_of(f) == d:
                    del self.dns[f]
            for f, i in self.vns.items():
                if dir_of(f) == d:
                    self.dns[f] = i
            if d == "R":
                self.ddirs |= self.vdirs
        elif k == "rename":
            a, b = op[1], op[2]
            if dir_of(a) != dir_of(b) or a not in self.vns:
                return False
            if a != b:
                self.vns[b] = self.vns.pop(a)
        elif k == "unlink":
            if op[1] not in self.vns:
                return False
            del self.vns[op[1]]
        return True

    def key(self):
        """signature of the durable state (to detect prefixes where it changed)"""
        return (tuple(sorted(self.dns.items())), tuple(sorted((i, tuple(t)) for i, t in self.dur.items())),
                tuple(sorted(self.ddirs)))


def op_text(op):
    return " ".join(str(x) if not isinstance(x, bool) else ("1" if x else "0") for x in op)


# ---------------------------------------------------------------------------------------
# from a strace log to per-operation segments of fsops
# ---------------------------------------------------------------------------------------
class Segment:
    def __init__(self, label, op_index):
        self.label = label            # "open" or the history line
        self.op_index = op_index      # index into the history ops (-1 for open)
        self.ops = []                 # list of (fsop tuple, Sys)
        self.sys = []                 # every mutating / relevant syscall of the segment
        self.failed = []              # failed syscalls (errno) on tracked paths


class Trace:
    pass


def build_trace(strace_path, root_dir):
    """Parse the strace log of `lsmv runkeep <hist> <root_dir>`."""
    syscalls, unfinished = parse_strace(strace_path)
    root = os.path.abspath(root_dir)
    tr = Trace()
    tr.syscalls, tr.unfinished = syscalls, unfinished
    tr.tokens = {}            # token -> bytes
    tr.tmpnames, tr.othernames = {}, {}
    tr.segments, tr.outside = [], []
    tr.problems = []
    tr.relname = {}           # fname -> relative path (for materialisation)
    fds = {}                  # fd -> ("file", inode-key) | ("dir", dname) | None
    sim = Sim()               # only used here to resolve fd -> inode -> current name
    ntok = [0]
    stderr_buf = [b""]
    cur = [None]
    nops = [-1]

    def rel(path):
        p = os.path.abspath(path.decode("utf-8", "replace"))
        if p == root:
            return ""
        if p.startswith(root + "/"):
            return p[len(root) + 1:]
        return None

    def fname_of(r):
        if r == "current":
            fn = "c"
        elif re.fullmatch(r"v\d+", r):
            fn = "v" + r[1:]
        elif re.fullmatch(r"tables/\d+", r):
            fn = "t" + r[7:]
        elif re.fullmatch(r"blobs/\d+", r):
            fn = "b" + r[6:]
        elif re.fullmatch(r"\.tmp[^/]*", r):
            fn = "m%d" % tr.tmpnames.setdefault(r, len(tr.tmpnames))
        else:
            fn = "o%d" % tr.othernames.setdefault(r, len(tr.othernames))
        tr.relname[fn] = r
        return fn

    DIRS = {"": "R", "tables": "T", "blobs": "B"}

    def emit(op, s):
        ok = sim.apply(op)
        if cur[0] is None:
            # file-system activity between two operations (e.g. the final close dropping
            # the tree): a pseudo segment whose before = after = the current state
            if not tr.segments or not getattr(tr.segments[-1], "pseudo", False) or tr.segments[-1].op_index != nops[0]:
                ps = Segment("(after op %d)" % nops[0], nops[0])
                ps.pseudo = True
                tr.segments.append(ps)
            tr.segments[-1].ops.append((op, s))
            tr.segments[-1].sys.append(s)
        else:
            cur[0].ops.append((op, s))
        if not ok:
            tr.problems.append("sim: impossible op %s at strace line %d" % (op_text(op), s.idx))

    def name_of_inode(i):
        for f, j in sim.vns.items():
            if j == i:
                return f
        return None

    for s in syscalls:
        n = s.name
        if n == "write" and s.args.startswith("2,"):
            data = s.strs[0] if s.strs else b""
            stderr_buf[0] += data
            while b"\n" in stderr_buf[0]:
                line, stderr_buf[0] = stderr_buf[0].split(b"\n", 1)
                t = line.decode("utf-8", "replace")
                if t.startswith("LSMV-OPEND "):
                    cur[0] = None
                elif t.startswith("LSMV-OP "):
                    label = t[8:]
                    is_initial = label == "open" and nops[0] == -1 and not any(
                        not getattr(x, "pseudo", False) for x in tr.segments)
                    if not is_initial:
                        nops[0] += 1
                    seg = Segment(label, -1 if is_initial else nops[0])
                    if is_initial and tr.segments:
                        # the driver's own mkdir of the root before the crate's open
                        for ps in tr.segments:
                            seg.ops.extend(ps.ops)
                            seg.sys.extend(ps.sys)
                        tr.segments = []
                    tr.segments.append(seg)
                    cur[0] = seg
            continue
        if cur[0] is not None and n not in ("close",):
            cur[0].sys.append(s)
        if n in ("openat",):
            if not s.strs:
                continue
            r = rel(s.strs[0])
            if r is None:
                continue
            if s.ret < 0:
                if "O_CREAT" in s.args and cur[0] is not None:
                    cur[0].failed.append(s)
                continue
            if r in DIRS:
                fds[s.ret] = ("dir", DIRS[r])
                continue
            fn = fname_of(r)
            if "O_CREAT" in s.args:
                emit(("create", fn, "O_EXCL" in s.args), s)
            elif "O_TRUNC" in s.args and "O_RDONLY" not in s.args:
                tr.problems.append("O_TRUNC without O_CREAT on %s" % r)
            if fn in sim.vns:
                fds[s.ret] = ("file", sim.vns[fn])
            else:
                fds[s.ret] = None
        elif n == "close":
            fd = int(s.args.split(",")[0])
            fds.pop(fd, None)
        elif n in ("write", "pwrite64"):
            fd = int(s.args.split(",")[0])
            ent = fds.get(fd)
            if not ent or ent[0] != "file":
                continue
            if n == "pwrite64":
                tr.problems.append("pwrite64 on a tracked file (not modelled)")
                continue
            if s.ret < 0:
                if cur[0] is not None:
                    cur[0].failed.append(s)
                continue
            data = s.strs[0][:s.ret] if s.strs else b""
            if len(data) != s.ret:
                tr.problems.append("write string truncated by strace at line %d" % s.idx)
            f = name_of_inode(ent[1])
            if f is None:
                continue            # write to an already unlinked file
            ntok[0] += 1
            tr.tokens[ntok[0]] = data
            emit(("write", f, ntok[0]), s)
        elif n in ("fsync", "fdatasync"):
            fd = int(s.args.split(",")[0])
            ent = fds.get(fd)
            if not ent:
                continue
            if s.ret < 0:
                if cur[0] is not None:
                    cur[0].failed.append(s)
                continue
            if ent[0] == "dir":
                emit(("fsyncdir", ent[1]), s)
            else:
                f = name_of_inode(ent[1])
                if f is not None:
                    emit(("fsync", f), s)
        elif n in ("rename", "renameat", "renameat2"):
            if len(s.strs) < 2:
                continue
            a, b = rel(s.strs[0]), rel(s.strs[1])
            if a is None or b is None:
                continue
            if s.ret < 0:
                if cur[0] is not None:
                    cur[0].failed.append(s)
                continue
            emit(("rename", fname_of(a), fname_of(b)), s)
        elif n in ("unlink", "unlinkat"):
            if not s.strs:
                continue
            r = rel(s.strs[0])
            if r is None or r in DIRS:
                continue
            if s.ret < 0:
                if cur[0] is not None and s.errno != "ENOENT":
                    cur[0].failed.append(s)
                continue
            emit(("unlink", fname_of(r)), s)
        elif n in ("mkdir", "mkdirat"):
            if not s.strs:
                continue
            r = rel(s.strs[0])
            if r is None or r not in DIRS:
                continue
            if s.ret < 0 and s.errno != "EEXIST":
                if cur[0] is not None:
                    cur[0].failed.append(s)
                continue
            emit(("mkdir", DIRS[r]), s)
        elif n == "ftruncate":
            fd = int(s.args.split(",")[0])
            if fds.get(fd):
                tr.problems.append("ftruncate on a tracked file (not modelled)")
    return tr


# ---------------------------------------------------------------------------------------
# the driver's own trace (stdout of runkeep / opendump)
# ---------------------------------------------------------------------------------------
def parse_levels(lv):
    ids = set()
    for level in lv.split(";"):
        for run in level.split("|"):
            for t in run.split(","):
                if t != "":
                    ids.add(int(t))
    return ids


class Dump:
    """one logical dump: retained superversions, blob lists, directory listing"""

    def __init__(self):
        self.nsv = None
        self.svs = []        # (version id, table id set) oldest .. newest
        self.blobs = {}      # version id -> blob id set
        self.files = None    # set of relative paths
        self.result = None   # ("ok"|"err"|"experr", text) of the op
        self.panic = False
        self.entries = []    # raw 'e' / 'T' lines (logical content)

    def current(self):
        """(version id, frozenset tables, frozenset blobs) of the newest superversion"""
        if not self.svs:
            return None
        vid, tabs = self.svs[-1]
        return (vid, frozenset(tabs), frozenset(self.blobs.get(vid, set())))


def parse_driver_output(text):
    """-> (initial Dump, [Dump per op], flags)"""
    blocks, cur = [], Dump()
    flags = {"end": False, "panic": False, "fatal": None}
    first = cur
    for line in text.splitlines():
        if line.startswith("H "):
            cur = Dump()
            cur.op = line[2:]
            blocks.append(cur)
        elif line.startswith("R "):
            p = line.split(" ", 3)
            cur.result = (p[1], line)
        elif line.startswith("D "):
            cur.nsv = int(line.split()[1])
            cur.svs = []
        elif line.startswith("S "):
            p = line.split(" ")
            cur.svs.append((int(p[4]), parse_levels(p[5] if len(p) > 5 else "")))
        elif line.startswith("B "):
            p = line.split(" ")
            ids = set()
            if p[2] != "-":
                for x in p[2].split(","):
                    ids.add(int(x.split(":")[0]))
            cur.blobs[int(p[1])] = ids
        elif line.startswith("FILES"):
            cur.files = set(x.rsplit(":", 1)[0] for x in line.split()[1:])
        elif line.startswith("PANIC"):
            cur.panic = True
            flags["panic"] = True
        elif line.startswith("FATAL"):
            flags["fatal"] = line
        elif line == "END":
            flags["end"] = True
        elif line.startswith("e ") or line.startswith("T "):
            cur.entries.append(line)
    return first, blocks, flags


def parse_opendump(text):
    """-> ("ok", (vid, tables, blobs), Dump) | ("err", msg, None) | ("panic", msg, None)"""
    lines = text.splitlines()
    if not lines:
        return ("panic", "no output", None)
    if lines[0].startswith("OPEN ok"):
        d, _, _ = parse_driver_output("\n".join(lines[1:]))
        if "DUMP panic" in text:
            return ("panic", "DUMP panic", d)
        return ("ok", d.current(), d)
    if lines[0].startswith("OPEN err"):
        return ("err", lines[0][9:], None)
    return ("panic", lines[0], None)


# ---------------------------------------------------------------------------------------
# decoding a version file (sfa archive): which tables / blob files does v<N> list?
# ---------------------------------------------------------------------------------------
def decode_version_file(data):
    """-> (table id list, blob id list) or None if the archive is incomplete"""
    try:
        if len(data) < 38 or data[-38:-34] != b"SFA!":
            return None
        toc_pos, toc_len = struct.unpack("<QQ", data[-16:])
        toc = data[toc_pos:toc_pos + toc_len]
        if toc[:4] != b"TOC!":
            return None
        n = struct.unpack("<I", toc[4:8])[0]
        off, sections = 8, {}
        for _ in range(n):
            pos, ln = struct.unpack("<QQ", toc[off:off + 16])
            nl = struct.unpack("<H", toc[off + 16:off + 18])[0]
            name = toc[off + 18:off + 18 + nl]
            sections[name] = data[pos:pos + ln]
            off += 18 + nl
        t = sections[b"tables"]
        tables, o = [], 1
        for _ in range(t[0]):
            runs = t[o]
            o += 1
            for _ in range(runs):
                cnt = struct.unpack("<I", t[o:o + 4])[0]
                o += 4
                for _ in range(cnt):
                    tables.append(struct.unpack("<Q", t[o:o + 8])[0])
                    o += 8 + 1 + 16 + 8
        b = sections[b"blob_files"]
        cnt = struct.unpack("<I", b[:4])[0]
        blobs, o = [], 4
        for _ in range(cnt):
            blobs.append(struct.unpack("<Q", b[o:o + 8])[0])
            o += 8 + 1 + 16
        return tables, blobs
    except Exception:
        return None


# ---------------------------------------------------------------------------------------
# running the driver
# ---------------------------------------------------------------------------------------
def sh(cmd, cwd=None, env=None, timeout=600, stdin=None):
    p = subprocess.run(cmd, cwd=cwd, env=env, stdout=subprocess.PIPE, stderr=subprocess.PIPE,
                       timeout=timeout, input=stdin)
    return p.returncode, p.stdout.decode("utf-8", "replace"), p.stderr.decode("utf-8", "replace")


RUN_TAG = "r%d" % os.getpid()      # inherited by the (forked) pool workers


def scratch(tag):
    d = os.path.join(WORK, "run", RUN_TAG, "%s-%d" % (tag, os.getpid()))
    shutil.rmtree(d, ignore_errors=True)
    os.makedirs(d)
    return d


def run_traced(hist_path, wd, inject=None, full=True):
    """runs `lsmv runkeep` under strace in directory wd/db; inject = "call:ERRNO:N".
    -> (strace log path, stdout, rc, db dir)"""
    db = os.path.join(wd, "db")
    shutil.rmtree(db, ignore_errors=True)
    st = os.path.join(wd, "st.txt")
    cmd = ["strace", "-f", "-o", st]
    if full:
        cmd += ["-e", "trace=" + TRACE_SET, "-xx", "-s", "1048576"]
    if inject:
        call, err, when = inject.split(":")
        if not full:
            cmd += ["-e", "trace=" + call]
        cmd += ["-e", "inject=%s:error=%s:when=%s" % (call, err, when)]
    cmd += [LSMV, "runkeep", hist_path, db]
    env = dict(os.environ)
    env["LSMV_MARK"] = "1"
    rc, out, err = sh(cmd, cwd=wd, env=env)
    return st, out, rc, db


def run_plain(hist_path, wd):
    db = os.path.join(wd, "db")
    shutil.rmtree(db, ignore_errors=True)
    rc, out, err = sh([LSMV, "runkeep", hist_path, db], cwd=wd)
    return out, rc, db


def opendump(d, cfg_line):
    rc, out, err = sh([LSMV, "opendump", d] + cfg_line.split(), timeout=120)
    if rc != 0 and not out.strip():
        return ("panic", "exit %d %s" % (rc, err[-200:].replace("\n", " ")), None), out
    return parse_opendump(out), out


# ---------------------------------------------------------------------------------------
# images
# ---------------------------------------------------------------------------------------
class Image:
    """dirs: subset of "RTB"; files: fname -> (token list, torn bytes or None)"""

    def __init__(self, dirs, files, kind):
        self.dirs, self.files, self.kind = dirs, files, kind

    def visible(self):
        return {f: c for f, c in self.files.items() if dir_of(f) in self.dirs}

    def content(self, tr, f):
        toks, torn = self.files[f]
        return b"".join(tr.tokens[t] for t in toks) + (torn or b"")

    def digest(self, tr):
        h = hashlib.sha1(self.dirs.encode())
        for f in sorted(self.visible()):
            h.update(b"|" + tr.relname[f].encode() + b"|" + hashlib.sha1(self.content(tr, f)).digest())
        return h.hexdigest()

    def model_line(self, label):
        specs = []
        for f in sorted(self.files):
            toks, torn = self.files[f]
            specs.append("%s:%s:%d" % (f, ",".join(map(str, toks)) or "-", 1 if torn is not None else 0))
        return "IMG %s %s %s" % (label, self.dirs, " ".join(specs))

    def recipe(self):
        return {"kind": self.kind, "dirs": self.dirs,
                "files": {f: {"ntokens": len(t), "torn_bytes": (len(x) if x is not None else None)}
                          for f, (t, x) in sorted(self.files.items())}}

    def materialise(self, tr, d):
        shutil.rmtree(d, ignore_errors=True)
        os.makedirs(d)
        if "T" in self.dirs:
            os.mkdir(os.path.join(d, "tables"))
        if "B" in self.dirs:
            os.mkdir(os.path.join(d, "blobs"))
        for f in self.visible():
            with open(os.path.join(d, tr.relname[f]), "wb") as fh:
                fh.write(self.content(tr, f))


def durable_image(sim):
    return Image("".join(d for d in "RTB" if d in sim.ddirs),
                 {f: (list(sim.dur[i]), None) for f, i in sim.dns.items()}, "durable")


def volatile_image(sim):
    return Image("".join(d for d in "RTB" if d in sim.ddirs or d in sim.vdirs),
                 {f: (list(sim.vol[i]), None) for f, i in sim.vns.items()}, "volatile")


def random_image(sim, tr, rnd, want_torn):
    dirs = "R"
    for d in "TB":
        if d in sim.ddirs or (d in sim.vdirs and rnd.random() < 0.6):
            dirs += d
    files = {}
    torn_done = False
    for f in sorted(set(sim.vns) | set(sim.dns)):
        cands = []
        if f in sim.dns:
            cands.append(sim.dns[f])
        else:
            cands.append(None)
        if f in sim.vns:
            cands.append(sim.vns[f])
        else:
            cands.append(None)
        i = rnd.choice(cands)
        if i is None:
            continue
        dur, vol = sim.dur[i], sim.vol[i]
        if dur == vol:
            files[f] = (list(dur), None)
            continue
        is_prefix = vol[:len(dur)] == dur
        lo = len(dur) if is_prefix else 0
        r = rnd.random()
        if r < 0.25:
            files[f] = (list(dur), None)
        elif r < 0.45:
            files[f] = (list(vol), None)
        else:
            n = rnd.randint(lo, len(vol))
            torn = None
            if n < len(vol) and (want_torn and not torn_done or rnd.random() < 0.5):
                nxt = tr.tokens[vol[n]]
                if len(nxt) >= 2:
                    torn = nxt[:rnd.randint(1, len(nxt) - 1)]
                    torn_done = True
            files[f] = (list(vol[:n]), torn)
    return Image(dirs, files, "random")


# ---------------------------------------------------------------------------------------
# C05: crash analysis of one history
# ---------------------------------------------------------------------------------------
def split_publishes(ops):
    """sub-segments with at most one publish each: cut after the `fsyncdir R` that
    follows a `rename m* c`"""
    subs, cur, renamed = [], [], False
    for op in ops:
        cur.append(op)
        if op[0] == "rename" and op[2] == "c":
            renamed = True
        elif renamed and op == ("fsyncdir", "R"):
            subs.append(cur)
            cur, renamed = [], False
    if cur:
        subs.append(cur)
    return subs


def prepass(tr):
    """per (segment, op index): for creates the final token list of the new incarnation;
    token -> version id for temp-file tokens"""
    sim = Sim()
    inc_of_inode = {}
    creates = {}            # (si, k) -> (fname, token list object)
    for si, seg in enumerate(tr.segments):
        for k, (op, _) in enumerate(seg.ops):
            if op[0] == "create":
                f = op[1]
                fresh = f not in sim.vns
                sim.apply(op)
                if f in sim.vns and (fresh or not op[2]):
                    lst = []
                    inc_of_inode[sim.vns[f]] = lst
                    creates[(si, k)] = (f, lst)
                continue
            if op[0] == "write" and op[1] in sim.vns:
                inc_of_inode.setdefault(sim.vns[op[1]], []).append(op[2])
            sim.apply(op)
    return creates


def state_of_version(tr, sim, vid):
    f = "v%d" % vid
    if f not in sim.vns:
        return None
    data = b"".join(tr.tokens[t] for t in sim.vol[sim.vns[f]])
    dec = decode_version_file(data)
    if dec is None:
        return None
    return (vid, frozenset(dec[0]), frozenset(dec[1]))


def diagnose_image(tr, img, final_len):
    """why would recovery fail on this image?  -> list of (fname, reason)"""
    vis = img.visible()
    if "c" not in vis:
        return []
    cur = img.content(tr, "c")
    if len(cur) < 8:
        return [("c", "short")]
    vid = struct.unpack("<Q", cur[:8])[0]
    vf = "v%d" % vid
    if vf not in vis:
        return [(vf, "missing")]
    dec = decode_version_file(img.content(tr, vf))
    if dec is None:
        return [(vf, "incomplete")]
    probs = []
    for pre, ids in (("t", dec[0]), ("b", dec[1])):
        for i in ids:
            f = "%s%d" % (pre, i)
            if f not in vis:
                probs.append((f, "missing" if dir_of(f) in img.dirs else "dir-missing"))
            elif img.files[f][1] is not None or len(img.files[f][0]) != final_len.get((f, tuple(img.files[f][0][:1])), len(img.files[f][0])):
                probs.append((f, "incomplete"))
    return probs


def analyze_crash(hist_path, tier, seed, inject=None, keep_fail_images=True):
    t0 = time.time()
    hist_text = open(hist_path).read()
    cfg_line = hist_text.splitlines()[0]
    is_blob = "blob=1" in cfg_line
    wd = scratch("crash")
    st, out, rc, db = run_traced(hist_path, wd, inject)
    res = {"history": hist_path, "fails": [], "samples": [],
           "stats": {"segments": 0, "fs_segments": 0, "subsegments": 0, "fsops": 0, "prefixes": 0, "images": 0,
                     "distinct_images": 0, "opens": 0, "model_imgs": 0, "protocol_ok": 0,
                     "protocol_violations": 0}}
    fails, stats = res["fails"], res["stats"]

    kept_images = [0]

    def fail(kind, detail, direct, **kw):
        e = {"kind": kind, "history": hist_path, "detail": detail, "direct": direct}
        if inject:
            e["inject"] = inject
        image = kw.pop("image_obj", None)
        e.update(kw)
        if image is not None and keep_fail_images and kept_images[0] < 2:
            # self-contained replay: the crash image as a real directory
            kept_images[0] += 1
            d = os.path.join(WORK, "fail_images", "%s-op%s-p%s-%d" % (
                os.path.basename(hist_path).replace(".hist", ""), kw.get("where", {}).get("op_index"),
                kw.get("where", {}).get("prefix"), kept_images[0]))
            image.materialise(tr, d)
            e["image_dir"] = d
            e["replay_cmd"] = "cp -r %s /tmp/img && %s opendump /tmp/img %s" % (d, LSMV, cfg_line)
        fails.append(e)

    tr = build_trace(st, db)
    first, blocks, flags = parse_driver_output(out)
    if rc != 0 or not flags["end"]:
        fail("driver-problem", "runkeep rc=%d end=%s fatal=%s" % (rc, flags["end"], flags["fatal"]), True)
    if flags["panic"]:
        fail("fault-panic" if inject else "panic", "driver reported PANIC", True)
    for p in tr.problems:
        fail("engine-trace-problem", p, False)
    if tr.unfinished:
        fail("engine-trace-problem", "%d unfinished/resumed strace lines (multi-threaded?)" % tr.unfinished, False)
    rnd = random.Random((seed << 20) ^ int(hashlib.sha1(hist_text.encode()).hexdigest()[:8], 16))
    creates = prepass(tr)
    final_len = {}
    for (si, k), (f, lst) in creates.items():
        final_len[(f, tuple(lst[:1]))] = len(lst)
    script = []
    for f, toks in []:
        pass
    sim = Sim()
    disk_last = [None]
    cache = {}              # digest -> (real result, raw output)
    records = []            # (label, si, p, image, digest, allowed, is_full, candidates)
    img_sub = {}            # image label -> sub-segment label
    seg_labels = {}         # SEG label -> (si, sub index, first op index, ops)
    imgdir = os.path.join(wd, "img")
    nimg = [0]
    thorough = tier == "thorough"
    for si, seg in enumerate(tr.segments):
        stats["segments"] += 1
        ops = [op for op, _ in seg.ops]
        if not ops:
            continue
        stats["fs_segments"] += 1
        stats["fsops"] += len(ops)
        w = "op:" + seg.label.split()[0]
        stats[w] = stats.get(w, 0) + 1
        idx = seg.op_index
        if getattr(seg, "pseudo", False):
            before = (blocks[idx] if idx >= 0 else first).current()
        elif idx == -1:
            before = None
        else:
            prev = blocks[idx - 1] if idx >= 1 else first
            before = prev.current()
        after_dump = blocks[idx].current() if 0 <= idx < len(blocks) else first.current()
        # choose prefixes
        probe = sim.clone()
        chosen = set()
        k0 = probe.key()
        for k, op in enumerate(ops):
            probe.apply(op)
            k1 = probe.key()
            if thorough or k1 != k0:
                chosen.add(k + 1)
            k0 = k1
        chosen.add(len(ops))
        for _ in range(3 if not thorough else 0):
            chosen.add(rnd.randint(1, len(ops)))
        candidates = [before if before is not None else (0, frozenset(), frozenset())]
        if inject and disk_last[0] is not None and disk_last[0] != candidates[0]:
            # after an injected failure the in-memory version may lag behind the disk
            candidates.append(disk_last[0])
        returned_ok = not (0 <= idx < len(blocks) and blocks[idx].result and blocks[idx].result[0] != "ok")
        floor = 0
        pending_pub = False
        p = 0
        for sj, sub in enumerate(split_publishes(ops)):
            stats["subsegments"] += 1
            label = "s%d.%d" % (si, sj)
            # oracle updates for incarnations created in this sub-segment
            for k in range(p, p + len(sub)):
                if (si, k) in creates:
                    f, lst = creates[(si, k)]
                    script.append("E %s %s" % (f, ",".join(map(str, lst)) or "-"))
                    if f[0] == "v":
                        dec = decode_version_file(b"".join(tr.tokens[t] for t in lst))
                        if dec is not None:
                            script.append("V %s %s %s" % (f[1:], ",".join(map(str, dec[0])) or "-",
                                                          ",".join(map(str, dec[1])) or "-"))
                    if f[0] == "m":
                        for t in lst:
                            if len(tr.tokens[t]) >= 8:
                                script.append("C %d %d" % (t, struct.unpack("<Q", tr.tokens[t][:8])[0]))
            script.append("SEG " + label)
            seg_labels[label] = (si, sj, p, sub)
            for op in sub:
                script.append("O " + op_text(op))
                sim.apply(op)
                p += 1
                if op[0] == "rename" and op[2] == "c":
                    cur_toks = sim.vol[sim.vns["c"]]
                    data = b"".join(tr.tokens[t] for t in cur_toks)
                    if len(data) >= 8:
                        vid = struct.unpack("<Q", data[:8])[0]
                        stv = state_of_version(tr, sim, vid)
                        candidates.append(stv if stv is not None else (vid, None, None))
                        pending_pub = True
                elif op == ("fsyncdir", "R") and pending_pub:
                    floor = len(candidates) - 1
                    pending_pub = False
                if p in chosen:
                    stats["prefixes"] += 1
                    is_full = p == len(ops)
                    imgs = [durable_image(sim), volatile_image(sim)]
                    for j in range(4 if thorough else 2):
                        imgs.append(random_image(sim, tr, rnd, want_torn=(j == 0)))
                    seen = set()
                    for im in imgs:
                        dg = im.digest(tr)
                        if dg in seen:
                            continue
                        seen.add(dg)
                        nimg[0] += 1
                        il = "i%d" % nimg[0]
                        script.append(im.model_line(il))
                        allowed = candidates[floor:] if not (is_full and returned_ok) else candidates[-1:]
                        records.append((il, si, p, im, dg, list(allowed), is_full, list(candidates)))
                        img_sub[il] = label
                        stats["img:" + im.kind] = stats.get("img:" + im.kind, 0) + 1
                        if any(x is not None for _, x in im.files.values()):
                            stats["img:torn"] = stats.get("img:torn", 0) + 1
            script.append("DUR " + label)
            script.append("VOL " + label)
            script.append("END")
            # python twin vs model, compared after the run
            seg_labels[label] += (durable_image(sim), volatile_image(sim))
        disk_last[0] = candidates[-1]
        if candidates[-1] != after_dump and after_dump is not None and not inject:
            fail("dump-vs-disk", "op %d `%s`: dump says current=%s, disk protocol published %s" %
                 (idx, seg.label, fmt_state(after_dump), fmt_state(candidates[-1])), False)
    stats["images"] = len(records)
    # ---- the real crate on every distinct image
    real = {}
    for il, si, p, im, dg, allowed, is_full, cands in records:
        if dg not in cache:
            d = os.path.join(imgdir, "x")
            im.materialise(tr, d)
            cache[dg] = opendump(d, cfg_line)
            stats["opens"] += 1
        real[il] = cache[dg]
    stats["distinct_images"] = len(cache)
    shutil.rmtree(imgdir, ignore_errors=True)
    # ---- the model
    rc2, mout, merr = sh([FSRUNNER], stdin=("\n".join(script) + "\n").encode())
    model_img, model_seg, model_dv = {}, {}, {}
    if rc2 != 0:
        fail("engine-model-problem", "fsrunner rc=%d %s" % (rc2, merr[-300:]), False)
    for line in mout.splitlines():
        p = line.split(" ")
        if p[0] == "IMG":
            legal = p[2] == "legal=1"
            rest = p[3:]
            if not legal and rest and rest[0].startswith("bad="):
                rest = rest[1:]
            model_img[p[1]] = (legal, " ".join(rest), line)
        elif p[0] == "SEG":
            model_seg[p[1]] = dict(x.split("=", 1) for x in p[2:8]) | {"line": line}
            mm = re.search(r"before=\[(.*?)\] after=\[(.*?)\]", line)
            if mm:
                model_seg[p[1]]["before"], model_seg[p[1]]["after"] = mm.group(1), mm.group(2)
        elif p[0] in ("DUR", "VOL"):
            model_dv[(p[0], p[1])] = " ".join(p[2:])
    stats["model_imgs"] = len(model_img)
    # ---- protocol verdicts
    for label, info in seg_labels.items():
        si, sj, p0, sub, dimg, vimg = info
        seg = tr.segments[si]
        m = model_seg.get(label)
        if m is None:
            continue
        for tag, im in (("DUR", dimg), ("VOL", vimg)):
            mine = im.dirs + " " + " ".join(sorted("%s:%s:0" % (f, ",".join(map(str, t)) or "-") for f, (t, _) in im.files.items()))
            if mine.strip() != model_dv.get((tag, label), "").strip():
                fail("engine-sim-model-mismatch", "%s %s: python twin and Coq model disagree on the %s image" % (label, seg.label, tag), False)
        if m["ok"] == "1":
            stats["protocol_ok"] += 1
        else:
            stats["protocol_violations"] += 1
            viol = m["viol"]
            det = "op %d `%s` sub-segment %s: protocol_ok=false, first_violation=%s" % (seg.op_index, seg.label, label, viol)
            kind = "protocol"
            if viol.isdigit() and int(viol) < len(sub):
                vop = sub[int(viol)]
                s = seg.ops[p0 + int(viol)][1]
                det += " (%s; strace line %d: %s)" % (op_text(vop), s.idx + 1, s.name)
                if vop[0] == "rename" and vop[2] == "c":
                    # which files named by the published version are not stable?
                    tmp = Sim()
                    for sk in range(si):
                        for op, _ in tr.segments[sk].ops:
                            tmp.apply(op)
                    for op, _ in seg.ops[:p0 + int(viol)]:
                        tmp.apply(op)
                    data = b"".join(tr.tokens[t] for t in tmp.vol[tmp.vns[vop[1]]])
                    vid = struct.unpack("<Q", data[:8])[0] if len(data) >= 8 else None
                    stv = state_of_version(tr, tmp, vid) if vid is not None else None
                    unstable = []
                    if stv:
                        for f in ["v%d" % vid] + ["t%d" % i for i in sorted(stv[1])] + ["b%d" % i for i in sorted(stv[2])]:
                            i, j = tmp.vns.get(f), tmp.dns.get(f)
                            if i is None or i != j or tmp.dur[i] != tmp.vol[i] or dir_of(f) not in tmp.ddirs:
                                unstable.append(f)
                    det += "; files of v%s without durable entry/content at the switch of `current`: %s" % (vid, ",".join(unstable))
                    if unstable and all(f[0] == "b" for f in unstable):
                        kind = "protocol-blob-dir-fsync"
            else:
                det += " " + m["line"]
            if inject and kind == "protocol":
                res["samples"].append({"note": "protocol-after-fault", "detail": det})
            else:
                fail(kind, det, False, expected=("S2" if kind == "protocol-blob-dir-fsync" else None))
    # ---- image verdicts
    nsample = 0
    for il, si, p, im, dg, allowed, is_full, cands in records:
        seg = tr.segments[si]
        (status, val, opened), raw = real[il]
        where = {"op_index": seg.op_index, "op": seg.label, "prefix": p, "of": len(seg.ops), "image": im.recipe()}
        if status == "ok" and opened is not None and not inject:
            # C20 on crash images: after recovery the directory holds exactly what the recovered
            # version names (orphans of the interrupted operation are swept)
            stats["recovery_listings"] = stats.get("recovery_listings", 0) + 1
            for lk, ldet in check_listing(opened, "open of a crash image", True):
                if lk == "leak":
                    # the property speaks of table, blob and version files: a leftover temp
                    # file of the interrupted `current` rewrite (.tmpXXXX) is not one of them
                    newest, allf = expected_files(opened)
                    keep = allf | {"current"} | {"v%d" % vid for vid, _ in opened.svs}
                    extra = sorted(f for f in (opened.files - keep) if f.startswith(("tables/", "blobs/")) or re.match(r"v\d+$", f))
                    if not extra:
                        stats["recovery_tmp_leftovers"] = stats.get("recovery_tmp_leftovers", 0) + 1
                        continue
                    ldet = "after recovery of a crash image the directory holds files the recovered version does not name: %s" % extra
                fail("recovery-" + lk, ldet, True, where=where, image_obj=im)
        if status == "ok":
            got = val
            if got not in allowed:
                kind = "crash-mixture"
                if is_full and got in cands:
                    kind = "crash-undoes-returned-op"
                elif got in cands:
                    kind = "crash-undoes-durable-publish"
                fail(kind, "recovered %s, allowed %s" % (fmt_state(got), " | ".join(fmt_state(a) for a in allowed)), True, where=where, image_obj=im)
            real_s = "fresh" if "c" not in im.visible() else "rec %d %s %s" % (got[0], csv(got[1]), csv(got[2]))
        else:
            probs = diagnose_image(tr, im, final_len)
            exp = "S2" if probs and all(f[0] == "b" for f, _ in probs) else None
            if inject and ((probs and all(f[0] == "v" for f, _ in probs)) or "ChecksumMismatch" in str(val)):
                exp = "F-retry"
            fail("crash-unrecoverable", "OPEN %s %s; image problems: %s" % (status, val, probs), True, where=where, expected=exp, image_obj=im)
            real_s = "failed"
        mi = model_img.get(il)
        if mi is not None:
            legal, msum, mline = mi
            if not legal:
                fail("engine-sim-model-mismatch", "image %s is not a crash image of the model state: %s" % (il, mline), False, where=where)
            if norm_summary(msum) != norm_summary(real_s) and not inject:
                fail("model-recover-mismatch", "model recover_dir = [%s], real open = [%s]" % (msum, real_s), False, where=where)
            # crash_atomic_generic, executed: from a consistent state, along a
            # protocol-conforming sub-segment, the model's recovery is before or after
            ms = model_seg.get(img_sub.get(il))
            if ms and ms.get("ok") == "1" and ms.get("cons") == "1" and legal:
                stats["theorem_instances"] = stats.get("theorem_instances", 0) + 1
                if norm_summary(msum) not in (norm_summary(ms.get("before", "")), norm_summary(ms.get("after", ""))):
                    fail("engine-theorem-violated", "model recovers [%s] but before=[%s] after=[%s] in %s" % (
                        msum, ms.get("before"), ms.get("after"), ms["line"]), False, where=where)
        if nsample < 3 and status == "ok" and si > 0 and im.kind == "random":
            res["samples"].append({"op": seg.label, "prefix": p, "image": im.kind, "recovered": fmt_state(val)})
            nsample += 1
    stats["seconds"] = round(time.time() - t0, 2)
    shutil.rmtree(wd, ignore_errors=True)
    return res


def csv(s):
    return ",".join(map(str, sorted(s))) or "-"


def fmt_state(s):
    if s is None:
        return "fresh"
    if s[1] is None:
        return "v%d(undecodable)" % s[0]
    return "v%d tables={%s} blobs={%s}" % (s[0], csv(s[1]), csv(s[2]))


def norm_summary(s):
    p = s.split()
    if p and p[0] == "rec":
        srt = lambda x: ",".join(sorted(x.split(","), key=lambda y: (len(y), y)))
        return "rec %s %s %s" % (p[1], srt(p[2]), srt(p[3]))
    return s.strip()


# ---------------------------------------------------------------------------------------
# C20 helpers (also used on every dump of a fault run)
# ---------------------------------------------------------------------------------------
def expected_files(d):
    """files named by the retained superversions of a dump -> (set for the newest, set for all)"""
    allf, newest = set(), set()
    for k, (vid, tabs) in enumerate(d.svs):
        fs = {"tables/%d" % t for t in tabs} | {"blobs/%d" % b for b in d.blobs.get(vid, set())}
        allf |= fs
        if k == len(d.svs) - 1:
            newest = fs | {"current", "v%d" % vid}
    return newest, allf


def check_listing(d, op_text_, exact):
    """-> list of (kind, detail)"""
    out = []
    if d.files is None or not d.svs:
        return out
    newest, allf = expected_files(d)
    missing = sorted((allf | {"current"}) - d.files)
    if missing:
        out.append(("live-file-missing", "after `%s`: files named by a retained superversion are missing: %s" % (op_text_, missing)))
    if exact:
        # every retained superversion keeps its v<id>, its tables and its blob files alive
        keep = allf | {"current"} | {"v%d" % vid for vid, _ in d.svs}
        extra = sorted(d.files - keep)
        if extra:
            out.append(("leak", "after `%s` (%d retained superversion(s), versions %s): files referenced by none of them: %s" % (
                op_text_, d.nsv or len(d.svs), sorted({v for v, _ in d.svs}), extra)))
    return out


# ---------------------------------------------------------------------------------------
# C16: fault injection
# ---------------------------------------------------------------------------------------
CALL_CLASSES = ("openat", "write", "fsync", "rename", "unlink", "mkdir")


def call_class(s):
    n = s.name
    if n == "openat":
        return "openat" if "O_CREAT" in s.args else None
    if n in ("write",):
        return "write"
    if n in ("fsync", "fdatasync"):
        return "fsync"
    if n.startswith("rename"):
        return "rename"
    if n.startswith("unlink"):
        return "unlink"
    if n.startswith("mkdir"):
        return "mkdir"
    return None


def published_states(tr):
    """segment index -> states (vid, tables, blobs) published by its renames onto current"""
    sim, out = Sim(), {}
    for si, seg in enumerate(tr.segments):
        for op, _ in seg.ops:
            sim.apply(op)
            if op[0] == "rename" and op[2] == "c":
                data = b"".join(tr.tokens[t] for t in sim.vol[sim.vns["c"]])
                if len(data) >= 8:
                    stv = state_of_version(tr, sim, struct.unpack("<Q", data[:8])[0])
                    if stv:
                        out.setdefault(si, []).append(stv)
    return out


def fault_plan(hist_path, tier, seed):
    """clean traced run -> list of fault tasks for this history"""
    hist_text = open(hist_path).read()
    lines = hist_text.splitlines()
    wd = scratch("plan")
    st, out, rc, db = run_traced(hist_path, wd)
    tr = build_trace(st, db)
    first, blocks, flags = parse_driver_output(out)
    shutil.rmtree(wd, ignore_errors=True)
    rnd = random.Random(seed * 31 + len(hist_text))
    pubs = published_states(tr)
    tasks = []
    info = {"history": hist_path, "segments": 0, "calls": 0}
    for si, seg in enumerate(tr.segments):
        if seg.op_index < 0 or getattr(seg, "pseudo", False) or not seg.ops:
            continue
        info["segments"] += 1
        by = {}
        for op, s in seg.ops:
            c = call_class(s)
            if c:
                by.setdefault((c, s.name), []).append(s)
        idx = seg.op_index
        before = (blocks[idx - 1] if idx >= 1 else first).current()
        after = blocks[idx].current()
        for (c, sysname), lst in sorted(by.items()):
            info["calls"] += len(lst)
            if tier == "thorough":
                ks = list(range(len(lst)))
            else:
                ks = sorted({0, len(lst) - 1, rnd.randrange(len(lst)), rnd.randrange(len(lst))})
                if c == "fsync":
                    ks = sorted(set(ks) | {max(0, len(lst) - 2)})
            for k in ks:
                for errno in ("ENOSPC", "EIO"):
                    tasks.append({"history": hist_path, "op_index": idx, "op": seg.label, "class": c,
                                  "k": k + 1, "of": len(lst), "inject": "%s:%s:%d" % (sysname, errno, lst[k].ordinal),
                                  "before": before, "after": after, "mids": pubs.get(si, []), "nlines": len(lines),
                                  "what": op_text(next(o for o, s2 in seg.ops if s2 is lst[k]))})
    return tasks, info


def fault_history(hist_path, op_index, tag, variant=0):
    """history = ops[:i+1] + retry of op i + the two following ops  (variant 0);
    variant 4 stops right after the failed operation (the directory must reopen as it is);
    variants 1..3 do NOT retry but go on with a different publishing operation (the failed
    attempt's leftovers - a complete or partial v<N+1>, temp files, unpublished tables - must
    not disturb it): 1 = major compaction, 2 = clear, 3 = drop_range(..)"""
    lines = open(hist_path).read().splitlines()
    cfg, ops = lines[0], lines[1:]
    op = ops[op_index]
    new = ops[:op_index + 1]
    if variant == 4:
        # stop right after the failed operation: the directory as it is then must reopen
        # ("reopening at any time afterwards yields the state from before or after the call")
        d = os.path.join(WORK, "hist")
        os.makedirs(d, exist_ok=True)
        p = os.path.join(d, "%s-%s.hist" % (os.path.basename(hist_path).replace(".hist", ""), tag))
        open(p, "w").write("\n".join([cfg] + new) + "\n")
        return p
    if variant and op != "reopen":
        new.append({1: "major 300 min", 2: "clear", 3: "droprange u u"}[variant])
    elif op.split()[0] == "flushactive":
        # the memtable was already rotated by the failed attempt
        new.append("flush " + op.split()[1])
    elif op != "reopen":
        new.append(op)
    new += [o for o in ops[op_index + 1:op_index + 3] if o != "reopen"]
    d = os.path.join(WORK, "hist")
    os.makedirs(d, exist_ok=True)
    p = os.path.join(d, "%s-%s.hist" % (os.path.basename(hist_path).replace(".hist", ""), tag))
    open(p, "w").write("\n".join([cfg] + new) + "\n")
    return p


def run_fault(task):
    t0 = time.time()
    fails = []
    tag = "f%d-%s" % (task["op_index"], task["inject"].replace(":", "_"))
    variant = (0, 4, 1, 0, 2, 4, 3, 1, 0, 4)[(task["k"] + task["op_index"]) % 10]
    if variant:
        tag += "-alt%d" % variant
    hp = fault_history(task["history"], task["op_index"], tag, variant)
    keep = False

    def fail(kind, detail, **kw):
        nonlocal keep
        keep = True
        e = {"kind": kind, "history": hp, "inject": task["inject"], "direct": True,
             "detail": "inject %s at %s #%d/%d (%s) of op %d `%s`: %s" % (
                 task["inject"], task["class"], task["k"], task["of"], task["what"], task["op_index"], task["op"], detail)}
        e.update(kw)
        fails.append(e)

    wd = scratch("fault")
    st, out, rc, db = run_traced(hp, wd, inject=task["inject"], full=False)
    first, blocks, flags = parse_driver_output(out)
    idx = task["op_index"]
    stat = {"ran": 1, "op_err": 0, "op_ok": 0, "reopen_fatal": 0}
    is_reopen = task["op"] == "reopen"
    if flags["panic"] or (not flags["end"]) or rc != 0:
        if flags["fatal"] and is_reopen:
            stat["reopen_fatal"] = 1
        else:
            fail("fault-panic", "driver rc=%d end=%s panic=%s fatal=%s tail=%r" % (rc, flags["end"], flags["panic"], flags["fatal"], out[-300:]))
    if idx < len(blocks):
        b = blocks[idx]
        if b.result and b.result[0] == "err":
            stat["op_err"] = 1
        else:
            stat["op_ok"] = 1
        cur = b.current()
        # a composite op (ingest = flush + ingest) may stop after its first publish: that
        # intermediate version has the same logical content as `before`
        if cur is not None and cur not in [task["before"], task["after"]] + list(task["mids"]) and not is_reopen:
            fail("fault-state-changed", "state right after the failed op is %s, neither before %s nor after %s" %
                 (fmt_state(cur), fmt_state(task["before"]), fmt_state(task["after"])))
        for d in blocks[idx:]:
            for kind, det in check_listing(d, d.op, False):
                fail("fault-" + kind, det)
        if not is_reopen and idx + 1 < len(blocks):
            r = blocks[idx + 1]
            if r.result and r.result[0] != "ok" and b.result and b.result[0] == "err":
                fail("fault-retry-fails", "the retry `%s` returned %s" % (r.op, r.result[1][:200]))
    # the directory as left at the end must recover to the state of the last dump
    if os.path.isdir(db) and os.path.exists(os.path.join(db, "current")) or (flags["fatal"] is None):
        cp = os.path.join(wd, "copy")
        shutil.copytree(db, cp)
        (status, val, dd), raw = opendump(cp, open(hp).readline().strip())
        last = (blocks[-1] if blocks else first).current() if not flags["fatal"] else None
        if status != "ok":
            fail("fault-unrecoverable", "reopening the directory left at the end: OPEN %s %s" % (status, val))
        elif variant == 4 and val in [task["before"], task["after"]] + list(task["mids"]):
            pass  # stopped right after the failed call: before or after, as the property says
        elif last is not None and val != last and not flags["panic"]:
            fail("fault-unrecoverable", "directory left at the end recovers to %s but the last dump was %s" % (fmt_state(val), fmt_state(last)))
    shutil.rmtree(wd, ignore_errors=True)
    if not keep:
        try:
            os.remove(hp)
        except OSError:
            pass
    stat["seconds"] = round(time.time() - t0, 2)
    return {"fails": fails, "stat": stat}


# ---------------------------------------------------------------------------------------
# C20: reclamation
# ---------------------------------------------------------------------------------------
def gen_reclaim_history(seed, blob, n_ops):
    """like gen_history, plus the two patterns known to leak: `clear` followed by enough
    maintenance to retire the old superversions, and an empty `ingest`"""
    rnd = random.Random(seed * 6007 + (3 if blob else 0))
    base = gen_history(seed + 1000, blob, n_ops, "reclaim").splitlines()
    extra = []
    val = lambda i: hx(b"w%d" % i + b"." * (20 if blob else 2))
    if rnd.random() < 0.7:
        extra += ["put 61 " + val(1), "flushactive min", "clear",
                  "put 62 " + val(2), "flushactive min", "put 63 " + val(3), "flushactive min",
                  "major 300 min"]
    if rnd.random() < 0.7:
        extra += ["ingest", "put 64 " + val(4), "flushactive min", "put 65 " + val(5), "flushactive min"]
    if blob:
        # blob churn: rounds of flushes that overwrite shrinking subsets of the keys (older blob
        # files become partially stale, then dead), compactions that first collect statistics and
        # then relocate / drop blob files, then enough publishing ops with the high watermark to
        # retire every older superversion, so that a leaked blob file shows in the listing
        ks = [hx(k) for k in rnd.sample(KEYS, min(len(KEYS), rnd.choice([2, 3, 4])))]
        n = 10
        for rd in range(rnd.choice([2, 3, 4])):
            sub = ks[: max(1, len(ks) - rd)] if rnd.random() < 0.7 else rnd.sample(ks, rnd.randint(1, len(ks)))
            for k in sub:
                n += 1
                extra.append("put %s %s" % (k, val(n)))
            extra.append("flushactive %s" % rnd.choice(["0", "min"]))
        for _ in range(rnd.choice([1, 2, 3])):
            extra.append("major %d min" % rnd.choice([300, 64000000, 64000000]))
        for j in range(2):
            n += 1
            extra += ["put 7a %s" % val(n), "flushactive min"]
        base[0] = base[0].replace("stale=0 ", "stale=%s " % rnd.choice(["0", "0.25", "0.25", "0.5"]))
    extra += ["reopen"]
    return "\n".join(base + extra) + "\n"


def analyze_reclaim(hist_path):
    t0 = time.time()
    wd = scratch("reclaim")
    out, rc, db = run_plain(hist_path, wd)
    first, blocks, flags = parse_driver_output(out)
    fails = []
    stats = {"dumps": 0, "exact_checks": 0, "single_sv_dumps": 0}
    if rc != 0 or not flags["end"] or flags["panic"]:
        fails.append({"kind": "driver-problem", "history": hist_path, "direct": True,
                      "detail": "rc=%d end=%s panic=%s" % (rc, flags["end"], flags["panic"])})
    prev_leak = set()
    cleared, ever_listed = set(), set()
    seq = [first] + blocks
    for i, d in enumerate(seq):
        op = getattr(d, "op", "open")
        if d.svs:
            ever_listed |= expected_files(d)[1]
        if op.strip() == "clear" and i >= 1 and seq[i - 1].svs:
            cleared |= {f for f in expected_files(seq[i - 1])[0] if f.startswith(("tables/", "blobs/"))}
        if d.files is None:
            continue
        stats["dumps"] += 1
        stats["exact_checks"] += 1
        if d.nsv == 1:
            stats["single_sv_dumps"] += 1
        for kind, det in check_listing(d, op, True):
            # report a leaked file once, at the operation after which it first appears
            if kind == "leak":
                newest, allf = expected_files(d)
                keep = allf | {"current"} | {"v%d" % vid for vid, _ in d.svs}
                extra = set(d.files - keep)
                new = extra - prev_leak
                prev_leak = extra
                if not new:
                    continue
                det += " (new: %s)" % sorted(new)
                exp = None
                if new <= cleared:
                    exp = "S3-clear"          # files of the version that `clear` replaced
                elif op.strip() == "ingest" and not (new & ever_listed):
                    exp = "S4-empty-ingest"   # the table pre-created by the empty ingestion
            else:
                exp = None
            fails.append({"kind": kind, "history": hist_path, "direct": True, "detail": det,
                          "op_index": i - 1, "expected": exp})
        if not check_listing(d, op, True):
            prev_leak = set()
    shutil.rmtree(wd, ignore_errors=True)
    stats["seconds"] = round(time.time() - t0, 2)
    return {"history": hist_path, "fails": fails, "stats": stats, "samples": []}


# ---------------------------------------------------------------------------------------
# minimal histories of the expected findings
# ---------------------------------------------------------------------------------------
MINIMAL = {
    # S2: blob flush, blobs/ never fsynced
    "S2-blob-dir-fsync": CFG_BLOB + "\nput 61 76312e2e2e2e2e2e2e2e2e2e2e2e2e2e\nflushactive min\n",
    # F-retry: persist_version fails at its final root fsync; the retried flush truncates v1
    "F-retry-late-persist-failure": CFG_STD + "\nput 61 7631\nflushactive min\nflush min\n",
    # S3: clear never deletes the old tables
    "S3-clear-leak": CFG_STD + "\nput 61 7631\nflushactive min\nclear\nput 62 7632\nflushactive min\nput 63 7633\nflushactive min\nmajor 300 min\n",
    # S4: an empty ingestion leaves its pre-created table behind
    "S4-empty-ingest-leak": CFG_STD + "\nput 61 7631\nflushactive min\ningest\nput 62 7632\nflushactive min\nput 63 7633\nflushactive min\n",
}


def write_hist(name, text):
    d = os.path.join(WORK, "hist")
    os.makedirs(d, exist_ok=True)
    p = os.path.join(d, name + ".hist")
    open(p, "w").write(text)
    return p


def late_failure_inject(hist_path, op_index=None):
    """ordinal of the LAST fsync (root directory, file.rs:136) of the first publishing op"""
    wd = scratch("late")
    st, out, rc, db = run_traced(hist_path, wd)
    tr = build_trace(st, db)
    shutil.rmtree(wd, ignore_errors=True)
    for seg in tr.segments:
        if seg.op_index < 0 or (op_index is not None and seg.op_index != op_index):
            continue
        ren = [k for k, (op, _) in enumerate(seg.ops) if op[0] == "rename" and op[2] == "c"]
        if not ren:
            continue
        last = [s for op, s in seg.ops[ren[-1]:] if op == ("fsyncdir", "R")]
        if last:
            return "%s:EIO:%d" % (last[-1].name, last[-1].ordinal), seg.op_index
    return None, None


def check_expected(which):
    """runs one minimal history; -> dict(name, reproduced, detail, history)"""
    text = MINIMAL[which]
    p = write_hist("min-" + which, text)
    if which.startswith("S2"):
        r = analyze_crash(p, "quick", 0)
        hit = [f for f in r["fails"] if f.get("expected") == "S2"]
        kinds = sorted({f["kind"] for f in hit})
        det = hit[0]["detail"] if hit else "-"
        crash = [f for f in hit if f["kind"] == "crash-unrecoverable"]
        if crash:
            det = crash[0]["detail"]
        return {"name": which, "reproduced": bool(crash) and "protocol-blob-dir-fsync" in kinds, "kinds": kinds,
                "count": len(hit), "detail": det, "history": p}
    if which.startswith("F-retry"):
        inj, idx = late_failure_inject(p)
        r = analyze_crash(p, "thorough", 0, inject=inj)
        hit = [f for f in r["fails"] if f.get("expected") == "F-retry"]
        return {"name": which, "reproduced": bool(hit), "inject": inj, "count": len(hit),
                "detail": hit[0]["detail"] if hit else "-", "where": hit[0].get("where") if hit else None, "history": p}
    r = analyze_reclaim(p)
    tag = "S3-clear" if which.startswith("S3") else "S4-empty-ingest"
    hit = [f for f in r["fails"] if f["kind"] == "leak" and f.get("expected") == tag]
    return {"name": which, "reproduced": bool(hit), "count": len(hit), "detail": hit[0]["detail"] if hit else "-", "history": p}


# ---------------------------------------------------------------------------------------
# top level
# ---------------------------------------------------------------------------------------
def _crash_job(a):
    try:
        return analyze_crash(*a)
    except Exception as e:       # an engine bug must be visible, not silent
        import traceback
        return {"history": a[0], "fails": [{"kind": "engine-exception", "history": a[0], "direct": False,
                                            "detail": traceback.format_exc()[-1500:]}], "stats": {}, "samples": []}


def _plan_job(a):
    try:
        return fault_plan(*a)
    except Exception:
        import traceback
        return [], {"history": a[0], "error": traceback.format_exc()[-800:]}


def _fault_job(t):
    try:
        return run_fault(t)
    except Exception:
        import traceback
        return {"fails": [{"kind": "engine-exception", "history": t["history"], "direct": False,
                           "detail": traceback.format_exc()[-1500:]}], "stat": {}}


def _reclaim_job(p):
    try:
        return analyze_reclaim(p)
    except Exception:
        import traceback
        return {"history": p, "fails": [{"kind": "engine-exception", "history": p, "direct": False,
                                         "detail": traceback.format_exc()[-1500:]}], "stats": {}, "samples": []}


def _expected_job(w):
    try:
        return check_expected(w)
    except Exception:
        import traceback
        return {"name": w, "reproduced": False, "detail": traceback.format_exc()[-800:]}


def summarise(all_fails, limit=3):
    """keep at most `limit` examples per (kind, expected); count everything"""
    counts, kept, seen = {}, [], {}
    for f in all_fails:
        key = "%s%s" % (f["kind"], "[%s]" % f["expected"] if f.get("expected") else "")
        counts[key] = counts.get(key, 0) + 1
        if seen.get(key, 0) < limit:
            seen[key] = seen.get(key, 0) + 1
            kept.append(f)
    return kept, counts


def add_stats(tot, st):
    for k, v in st.items():
        if isinstance(v, (int, float)):
            tot[k] = round(tot.get(k, 0) + v, 2)


def run(mode, tier="quick", seed=1, procs=None):
    t0 = time.time()
    os.makedirs(WORK, exist_ok=True)
    procs = procs or min(16, os.cpu_count() or 4)
    quick = tier != "thorough"
    fi = os.path.join(WORK, "fail_images")
    if os.path.isdir(fi):
        for fn in os.listdir(fi):
            if fn.startswith(("%s-s%d-" % (mode, seed), "min-")):
                shutil.rmtree(os.path.join(fi, fn), ignore_errors=True)
    result = {"mode": mode, "tier": tier, "seed": seed, "fails": [], "stats": {}, "samples": []}
    stats = result["stats"]
    all_fails = []
    pool = multiprocessing.Pool(procs)
    try:
        if mode == "crash":
            n_std, n_blob = (28, 18) if quick else (80, 50)
            jobs = []
            for i in range(n_std + n_blob):
                blob = i >= n_std
                n_ops = 10 + (i * 5) % 12 if quick else 12 + (i * 7) % 14
                p = write_hist("crash-s%d-%02d%s" % (seed, i, "b" if blob else ""), gen_history(seed * 1000 + i, blob, n_ops))
                jobs.append((p, tier, seed))
            exp = pool.map_async(_expected_job, ["S2-blob-dir-fsync"])
            for r in pool.imap_unordered(_crash_job, jobs):
                all_fails += [f for f in r["fails"] if not f["kind"].startswith("recovery-")]
                add_stats(stats, r["stats"])
                result["samples"] += r["samples"][:1]
                if r["stats"].get("opens", 0) > 0 and r["stats"].get("protocol_ok", 0) > 0:
                    stats["nontrivial_histories"] = stats.get("nontrivial_histories", 0) + 1
            stats["histories"] = len(jobs)
            stats["expected"] = exp.get()
        elif mode == "fault":
            n_std, n_blob = (6, 3) if quick else (24, 12)
            hists = []
            for i in range(n_std + n_blob):
                blob = i >= n_std
                hists.append(write_hist("fault-s%d-%02d%s" % (seed, i, "b" if blob else ""),
                                        gen_history(seed * 1000 + 500 + i, blob, 10 if quick else 16, "fault")))
            exp = pool.map_async(_expected_job, ["F-retry-late-persist-failure"])
            tasks = []
            stats["fault_points_total"] = 0
            for ts, info in pool.imap_unordered(_plan_job, [(h, tier, seed) for h in hists]):
                if "error" in info:
                    all_fails.append({"kind": "engine-exception", "history": info["history"], "direct": False, "detail": info["error"]})
                tasks += ts
                if ts:
                    stats["nontrivial_histories"] = stats.get("nontrivial_histories", 0) + 1
                stats["fault_points_total"] += info.get("calls", 0) * 2
                stats["fs_segments"] = stats.get("fs_segments", 0) + info.get("segments", 0)
            stats["histories"] = len(hists)
            result["samples"] += [{"history": os.path.basename(h), "ops": open(h).read().split("\n")[:14]} for h in hists[:2]]
            stats["fault_runs"] = len(tasks)
            # crash images after a late persist failure + retry, on the generated histories too
            late_jobs = []
            for h in hists[: (3 if quick else 12)]:
                late_jobs.append(h)
            late = pool.map_async(_late_job, [(h, tier, seed) for h in late_jobs])
            for r in pool.imap_unordered(_fault_job, tasks, chunksize=4):
                all_fails += r["fails"]
                add_stats(stats, r["stat"])
            for r in late.get():
                all_fails += r["fails"]
                stats["late_failure_crash_images"] = stats.get("late_failure_crash_images", 0) + r["stats"].get("images", 0)
                stats["late_failure_runs"] = stats.get("late_failure_runs", 0) + 1
            stats["expected"] = exp.get()
        elif mode == "reclaim":
            n = 40 if quick else 200
            hists = []
            for i in range(n):
                blob = i % 3 == 2
                hists.append(write_hist("reclaim-s%d-%03d%s" % (seed, i, "b" if blob else ""),
                                        gen_reclaim_history(seed * 1000 + i, blob, 8 + i % 9)))
            # histories of the tree-level generators (harness/src/gen.rs): relocating blob
            # compactions, FIFO, drop_range, ingestion, snapshots held and released
            lsmv = os.path.join(ROOT, "harness", "target", "debug", "lsmv")
            profs = [("blob", True), ("blob", True), ("tree", True), ("drop", True), ("ingest", False), ("fifo", True), ("weak", True), ("tree", False)]
            for i in range(64 if quick else 480):
                prof, bl = profs[i % len(profs)]
                try:
                    txt = subprocess.run([lsmv, "gen", prof, str(seed * 100000 + i), "70"] + (["blob"] if bl else []),
                                         capture_output=True, text=True, timeout=60).stdout
                except Exception:
                    txt = ""
                if txt.startswith("cfg "):
                    hists.append(write_hist("reclaim-s%d-g%03d-%s" % (seed, i, prof), txt))
            n = len(hists)
            # crash images of a few histories (mostly key-value separated): only the listing
            # after recovery is judged here (kinds recovery-leak / recovery-live-file-missing);
            # what the recovered state must be is C05's business
            cjobs = []
            for i in range(10 if quick else 40):
                cb = i % 4 != 3
                cp = write_hist("reclaim-s%d-c%02d%s" % (seed, i, "b" if cb else ""), gen_history(seed * 1000 + 700 + i, cb, 10 + (i * 3) % 8))
                cjobs.append((cp, tier, seed))
            crash_async = pool.map_async(_crash_job, cjobs)
            exp = pool.map_async(_expected_job, ["S3-clear-leak", "S4-empty-ingest-leak"])
            for r in crash_async.get():
                all_fails += [f for f in r["fails"] if f["kind"].startswith("recovery-") or f["kind"] == "engine-exception"]
                stats["recovery_listings"] = stats.get("recovery_listings", 0) + r["stats"].get("recovery_listings", 0)
                stats["crash_histories"] = stats.get("crash_histories", 0) + 1
            for r in pool.imap_unordered(_reclaim_job, hists):
                all_fails += r["fails"]
                add_stats(stats, r["stats"])
                if r["stats"].get("exact_checks", 0) >= 3:
                    stats["nontrivial_histories"] = stats.get("nontrivial_histories", 0) + 1
            stats["histories"] = n
            result["samples"] += [{"history": os.path.basename(h), "ops": open(h).read().split("\n")[:14]} for h in hists[:2]]
            stats["expected"] = exp.get()
        else:
            raise SystemExit("unknown mode " + mode)
    finally:
        pool.close()
        pool.join()
    kept, counts = summarise(all_fails)
    result["fails"] = kept
    stats["fail_counts"] = counts
    stats["fails_total"] = len(all_fails)
    stats["unexpected_fails"] = sum(1 for f in all_fails if not f.get("expected"))
    # histories that did not fail are removed; failing ones stay as replay files
    failing = {f["history"] for f in all_fails} | {e.get("history") for e in stats.get("expected", [])}
    hd = os.path.join(WORK, "hist")
    if os.path.isdir(hd):
        for fn in os.listdir(hd):
            p = os.path.join(hd, fn)
            if p not in failing and fn.startswith(mode + "-s%d-" % seed):
                os.remove(p)
    shutil.rmtree(os.path.join(WORK, "run", RUN_TAG), ignore_errors=True)
    stats["wall_seconds"] = round(time.time() - t0, 1)
    return result


def _late_job(a):
    """inject EIO into the final root fsync of the first publishing op of a history, retry,
    and crash-analyse the result"""
    h, tier, seed = a
    try:
        inj, idx = late_failure_inject(h)
        if inj is None:
            return {"fails": [], "stats": {}}
        hp = fault_history(h, idx, "late-" + inj.replace(":", "_"))
        return analyze_crash(hp, tier, seed, inject=inj)
    except Exception:
        import traceback
        return {"fails": [{"kind": "engine-exception", "history": h, "direct": False,
                           "detail": traceback.format_exc()[-1500:]}], "stats": {}}


def main():
    ap = argparse.ArgumentParser()
    ap.add_argument("--mode", choices=["crash", "fault", "reclaim"], default="crash")
    ap.add_argument("--tier", choices=["quick", "thorough"], default="quick")
    ap.add_argument("--seed", type=int, default=1)
    ap.add_argument("--out")
    ap.add_argument("--procs", type=int)
    ap.add_argument("--replay", help="analyse this one history instead of generated ones")
    ap.add_argument("--inject", help="with --replay: strace fault, e.g. fsync:EIO:14 (call:errno:global ordinal)")
    ap.add_argument("--late-failure", action="store_true",
                    help="with --replay --mode fault: fail the final root fsync of the first publishing op, retry, crash")
    a = ap.parse_args()
    if a.replay:
        p = os.path.abspath(a.replay)
        if a.mode == "crash":
            r = analyze_crash(p, a.tier, a.seed, inject=a.inject)
        elif a.mode == "reclaim":
            r = analyze_reclaim(p)
        else:
            if a.inject:
                r = analyze_crash(p, a.tier, a.seed, inject=a.inject)
            elif a.late_failure:
                r = _late_job((p, a.tier, a.seed))
            else:
                tasks, info = fault_plan(p, a.tier, a.seed)
                r = {"fails": [], "stats": dict(info), "samples": []}
                with multiprocessing.Pool(a.procs or min(16, os.cpu_count() or 4)) as pool:
                    for x in pool.imap_unordered(_fault_job, tasks, chunksize=4):
                        r["fails"] += x["fails"]
                        add_stats(r["stats"], x["stat"])
        kept, counts = summarise(r["fails"], limit=5)
        r["fails"] = kept
        r.setdefault("stats", {})["fail_counts"] = counts
    else:
        r = run(a.mode, a.tier, a.seed, a.procs)
    shutil.rmtree(os.path.join(WORK, "run", RUN_TAG), ignore_errors=True)
    txt = json.dumps(r, indent=1, default=lambda o: sorted(o) if isinstance(o, (set, frozenset)) else str(o))
    if a.out:
        open(a.out, "w").write(txt)
        print("mode=%s tier=%s fails_total=%s unexpected=%s counts=%s wall=%ss -> %s" % (
            a.mode, a.tier, r["stats"].get("fails_total", len(r["fails"])), r["stats"].get("unexpected_fails"),
            r["stats"].get("fail_counts"), r["stats"].get("wall_seconds"), a.out))
    else:
        print(txt)


if __name__ == "__main__":
    main()
