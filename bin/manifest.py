#!/usr/bin/env python3
"""Regenerates MANIFEST.json from the table below (python3 bin/manifest.py)."""
import json, os, subprocess

ROOT = os.path.dirname(os.path.dirname(os.path.abspath(__file__)))

NOTE_TB = ("Trusted: Coq 8.16.1 kernel; no axioms (Print Assumptions of every property theorem is compared with an empty "
           "allow-list on every run); extraction with ExtrOcamlBasic only; the hand-written model is tied to /repo by the "
           "correspondence run (state-dump certificates + Spec oracle + model agreement), whose harness, dump hooks and "
           "OCaml trace interpreter are trusted. ")

CHECKS = {
    "C01": dict(
        text="Machine-checked proof that the crate's lookup order over ANY structurally sound superversion returns the newest visible "
             "version for every key and snapshot (sv_get_raw_sound), that the decidable certificates check_inv_sv/content_agrees imply "
             "reads = ordered-map Spec for all keys (C01_certified_point_reads) and that the compaction stream never changes the top view "
             "(cstream_top_view); the unbounded tree state machine keeps the invariant under ANY compaction choice meeting a stated obligation, and the default strategy "
             "Leveled (compaction/leveled/mod.rs transliterated with the floating-point scores as oracles) provably always meets it and keeps the shape it needs by itself "
             "(C01_leveled_move_ok / _merge_ok / _tree_ok / _tree_reads; refuted for multi-run levels that only MoveDown/PullDown can build); point reads of a table stored as data "
             "blocks + block index are exact for every cut into blocks (Model/BlockIndex.v); every generated real execution is dumped in full after every operation and certified with the extracted "
             "checkers, and every get/contains_key/size_of is compared with the Spec.",
        note=NOTE_TB + "Bloom filter = arbitrary no-false-negative predicate here (byte level in C12); sequential histories; table contents are taken from the crate's own iterators.",
        design="7/C01", technique="Coq proof (refinement of the read path to an ordered-map spec, stream invariants) + extracted-checker correspondence on full state dumps"),
    "C02": dict(
        text="Proof over the abstract machine of the version history (shared active memtable, in-place rotation, arbitrary version upgrades, history GC): for every protocol-obeying run a snapshot S keeps resolving to a superversion with the same tables and the same memtable entries below S, so every key and every scan reads the same (snapshot_stable, maintenance_keeps, snapshot_never_panics; refutation for watermarks above S). Real executions hold 1-4 snapshots; after every later operation the superversion each snapshot resolves to is dumped, certified (check_inv_sv) and its content compared with the write history at S for all keys; reads at held snapshots are compared with the Spec.",
        note=NOTE_TB + "Usage protocol assumed as the property states (seqnos from the shared counter, watermarks <= live snapshots); clear_active_memtable (recovery-only) is outside the alphabet; sequential histories.",
        design="7/C02", technique="Coq proof (invariant over operation lists of the version-history machine) + snapshot certificates on real dumps"),
    "C03": dict(
        text="Proof that the crate's scan pipeline (bound widening, run culling via range_overlap_indexes, seqno filter, double-ended k-way Merger with lazy init, MvccStream with DoubleEndedPeekable, tombstone filter) yields, for every structurally sound superversion, all bounds, all snapshots and EVERY next/next_back interleaving, exactly the Spec's live pairs with deque semantics (range_exact); prefix_to_range exact incl. 0xFF carry; first/last/len/is_empty and overlay corollaries. Real scans with generated bounds and pull patterns are compared with the Spec and with the extracted pipeline run on the dumped state.",
        note=NOTE_TB + "Tables/memtables are sorted entry lists at this level (block cursors are C12); I/O errors inside iterators not modelled.",
        design="7/C03", technique="Coq proof (refinement of the iterator stack to a deque over the ordered-map spec) + differential scans"),
    "C04": dict(
        text="Proof of the byte-exact version-file codec round trip for every encodable version (and the sharp refutation at 256 runs = finding F4, fixed) and that equal content gives equal reads; every real reopen is checked by comparing the full dump before and after (layout, table ids, global seqnos, entries, marks), continuing the history afterwards (id allocation) and re-certifying.",
        note=NOTE_TB + "sfa container framing and checksums are trusted here (C10); blob/gc sections are order-insensitive maps.",
        design="7/C04", technique="Coq proof (codec round trip) + before/after-reopen dump comparison"),
    "C05": dict(
        text="PARTIAL (protocol level). Coq model of a POSIX-like file system (per-file durable/volatile content, per-directory-entry durability, crash = any admissible loss of unsynced effects incl. a torn final write) and of the crate's publication protocol and recovery; theorems: every syscall trace accepted by the decidable protocol_ok recovers, at EVERY crash point and for EVERY persistence outcome, to exactly the version before or after the operation, never a mixture and never an unopenable directory (crash_atomic_generic / crash_atomic_from, crash_preserves_consistency), the crash-image enumerator is sound and complete for the crash relation, the crate's flush / compaction / maintenance traces satisfy protocol_ok, and the shipped blob-flush trace is refuted (F9, fixed). Each run captures the real syscalls of every operation with strace, translates them to the model and evaluates the extracted protocol_ok on them (a changed order / dropped fsync fails here), then materialises crash images as real directories and opens them with the real crate: open must succeed with the logical state before or after the interrupted operation and never behind a returned one.",
        note=NOTE_TB + "Partial: the theorem quantifies over all crash points and persistence outcomes OF THE MODEL file system; the kernel / file system itself, and torn writes below the granularity of one write() prefix, are modelled not verified; crash images on real traces are enumerated per syscall boundary with sampled subsets of unsynced effects (not all 2^n in the quick tier). strace and the trace translator are trusted.",
        design="7/C05", technique="Coq proof (crash refinement of the publication protocol over a file-system model) + strace trace validation against the extracted protocol checker + real crash images opened by the crate"),
    "C06": dict(
        text="PARTIAL (critical-section granularity). Coq interleaving model of the tree's threads (writer drawing seqnos and inserting under the read guard, rotation, flusher capturing sealed memtables, k compactors with the hidden set, major compaction, upgrade_version under the write guard, readers) with an inductive invariant CInv proved for EVERY schedule and every program set: retained superversions sound, hidden-set discipline, no acknowledged write lost, flusher prefix, major exclusive; corollaries: reads at clean (published) snapshots equal the ordered-map Spec, no expect() fires, final state holds every write, schedule independence; the unclean case is refuted (K2). Each run executes real threads (writer, readers, flushers, compactors, major, drop_range; every second run with a slow keep-everything compaction filter that widens the merge-to-commit window) against the crate under three snapshot modes, logs every read with the snapshot it used, and replays the log through the certificate / oracle runner; the final tree is reopened and compared.",
        note=NOTE_TB + "Partial: the proof covers all interleavings of the MODEL's atomic steps (critical sections as the source takes its locks); memory-model effects below that granularity and the OS scheduler are not modelled; real runs sample schedules only. Known finding K2 (a write drawn before but inserted after a concurrent version upgrade can be missed by a snapshot taken from the visible counter) is reported as KNOWN-FINDING.",
        design="7/C06", technique="Coq proof (inductive invariant over all schedules of an interleaving model) + threaded differential runs replayed through the certificate checker"),
    "C10": dict(
        text="PARTIAL (hash as parameter). Byte-level Coq models of the block envelope (33-byte header with its own checksum + payload checksum + type), the version file guarded by the checksum in `current` (F8 fix), the `current` file, the sfa table of contents / trailer and the blob frame, with theorems that EVERY single-byte change and EVERY truncation of a guarded region yields an error or the unchanged answer, for every checksum function that separates the two byte strings (the hypothesis is exactly 'the 128-bit xxh3 of the altered bytes differs'), plus explicit refutations for the regions the format leaves unguarded (blob frame header seqno / length fields seen only by the relocation scanner; F8 before the fix). Each run enumerates bit flips and truncations over every region of real table / blob / version / current files produced by generated histories, then performs open + all point reads + scans in an isolated process, for table and blob files followed by a major compaction and all reads again, and requires for every single answer an error or the original answer; a read-out that does not terminate is a violation.",
        note=NOTE_TB + "Partial: collision-freeness of xxh3 on the compared pair is a hypothesis of each theorem (no hash can make it unconditional); the enumeration on real files samples positions per file (14 in the quick tier, 40 in the thorough tier on twice as many trees; not every byte).",
        design="7/C10", technique="Coq proof (every byte of the guarded envelopes is covered by a checked checksum) + fault enumeration over real files with full read-out"),
    "C16": dict(
        text="PARTIAL (protocol level). Over the same file-system model: a failure of any syscall of a publication leaves memory at the old version and the directory in a state from which recovery yields the old or the new version and a retry is accepted (fail_atomic, publish_shape_ok), and the late-failure case (root fsync after the rename of `current` fails, then retry) is refuted with a witness (Ex2.late_failure_retry_refuted = known finding K3). Each run fails every file-system syscall of flush / compaction / drop_range / clear / ingestion one at a time with strace fault injection (EIO, ENOSPC) on real histories and requires: Err without panic, unchanged reads and dumps, successful retry (or, in other variants, a different publishing operation instead of the retry, or a reopen right after the failed call), recoverable directory.",
        note=NOTE_TB + "Partial: as C05; additionally fault points are the syscalls the unchanged code issues (a change that adds syscalls gets new points automatically). K3 is reported as KNOWN-FINDING.",
        design="7/C16", technique="Coq proof (failure atomicity of the publication protocol) + syscall fault injection on the real crate"),
    "C20": dict(
        text="PARTIAL (model of deletion = is_deleted flag + last reference). Theorems: the reclaim function deletes exactly the files named by no retained version (reclaim_exact) and keeps every file a retained version names (reclaim_keeps), and the maintenance trace satisfies the protocol. Each run lists the real directory after every operation and after every reopen and compares tables/, blobs/ and v* with what the current and the retained versions name (leak / live-file-missing), with snapshots held and released, failed operations and crash leftovers in the histories; the extracted reclaim must agree with the set of files the crate removed; the same listing check runs on every recovered crash image of a further set of histories.",
        note=NOTE_TB + "Partial: Arc reference counting is modelled as 'the set of retained versions'; Drop ordering in the runtime is observed, not proved. Findings F10 (clear leaked files) and F11 (empty ingestion leaked its table file) were found by this check and fixed.",
        design="7/C20", technique="Coq proof (reclaim exactness over retained versions) + directory-listing differential after every operation"),
    "C07": dict(
        text="Proofs that the decidable invariant check_inv_sv means exactly the property's structure (disjoint ascending runs, one table per key per run, recency order across containers, exact metadata, unique ids), that optimize_runs and with_new_l0_run/with_dropped/with_merge/with_moved preserve it for all inputs under decidable placement conditions, and the version-file round trip; on every real run check_inv_sv is evaluated on EVERY published superversion, the model's transformations must reproduce the real layouts, and the placement conditions are evaluated on every real step.",
        note=NOTE_TB + "File existence is checked from the directory listing in C20; manifest bytes vs model decoder in C04.",
        design="7/C07", technique="Coq proof (invariant preservation per transformation) + certificate on every dumped version"),
    "C08": dict(
        text="Logical blob model (frames, blob files, pointers, GC map; flush with separation, pass-through / relocating / filtering merges, drops, reopen) with a decidable invariant BInv (every pointer resolves to a frame written for its key with the recorded sizes; distinct pointers hit distinct frames) preserved by every transformation under the crate's own eligibility condition for relocation, plus transparency theorems (tables read through their pointers equal the standard tree's flush/merge). Real runs execute the same history on a BlobTree and a standard Tree (and further BlobTrees with other thresholds / file sizes / staleness / age cutoff) and require identical answers; after every step every pointer of the latest version is resolved through the crate's own accessor and compared with the written bytes.",
        note=NOTE_TB + "Blob compression = None (lz4 feature not in this build); B3 (separation_threshold 0 with empty values) is proved as a refutation and outside the generated configurations; K4 (relocation of ingested blobs, proved as C08_relocate_scan_refuted) is a listed known finding.",
        design="7/C08", technique="Coq proof (pointer-resolution invariant + transparency) + BlobTree-vs-Tree differential"),
    "C09": dict(
        text="Proof that BInv's accounting clause (recorded garbage of every blob file = its frames no table entry points to, by brute force) is preserved by flush / merges (using the exact drop-callback log of the stream) / drops / reopen, that stale_blob_bytes is the on-disk sum, that a file is dead iff unreferenced and is gone after the next merge / effective drop. Real runs recompute garbage by brute force from the dumps after every step (all frames ever created minus the frames referenced by the version's tables) and compare with gc_stats(), stale_blob_bytes(), blob_file_count(), across reopen, with histories heavy on overwrite / delete / filter verdicts / drop_range / ingestion / relocation.",
        note=NOTE_TB + "Known findings K1 (a drop keeps a statistics entry for the file it removed; asserted by the crate's own test) and K4 (relocating compaction panics over ingested blob files) are reported as KNOWN-FINDING.",
        design="7/C09", technique="Coq proof (accounting invariant over the stream's drop log) + brute-force garbage recomputation on dumps"),
    "C11": dict(
        text="Proof that point reads and scans (all bounds, all pull interleavings) of a structurally sound superversion depend only on its logical content as a multiset of entries (permutation-invariance via the read-path refinement theorems), and that ANY cache / descriptor table that only returns what was inserted under a (tag, tree id, file id, offset) key - any capacity incl. zero, any eviction, shared with other trees - is transparent (loads_independent, shared_cache_isolated, key injectivity). Real runs execute the same history on 4-8 trees with configurations drawn from the whole product (block size, restart interval, hash ratio, partitioning, pinning, filter policy incl. none, cache 0..1MiB, fd table none/1/64) and require identical observations and Spec agreement, and on 3-4 trees that share one tiny cache and descriptor table while holding different data under coinciding table ids.",
        note=NOTE_TB + "quick_cache is modelled as an arbitrary coherent partial map (sound over-approximation), not verified; compression feature (lz4) is not enabled in this build.",
        design="7/C11", technique="Coq proof (reads factor through logical content; cache as arbitrary coherent map) + multi-configuration / shared-cache differential"),
    "C12": dict(
        text="Byte-exact Coq models of the data block (full/truncated items, restart intervals, binary index with 2/4-byte step, hash index with FREE/CONFLICT markers, trailer), block header, Bloom filter (wrapping double hashing mod 2^64) and varints with proofs, for every hash function: forward and backward scans return the written items, point_read returns the first item with the key and a smaller seqno through all three lookup paths, no false negatives, round trips; and the layer between block and table (Model/BlockIndex.v: block index full / volatile / two-level, Table::get + point_read, the ranged double-ended table iterator, the compaction scanner) is exact for EVERY way of cutting the sorted items into non-empty blocks, also when the versions of one key straddle block boundaries (C12_every_cut_is_exact). The block structure of every real table (index handles + block items, read through a cfg(lsm_verif) hook) is validated with the extracted btable_check (sound by C12_btable_check_ok) and the crate's table-level point reads at every (key, seqno) boundary are compared with the extracted btable_get. Every run compares the crate's own encoders BYTE FOR BYTE with the extracted model on generated item streams (adversarial key shapes, multi-version slabs, large values), replays every (key, seqno+-1) point read incl. absent neighbours, and reads real table files back exhaustively (point reads at every seqno, ranged scans with pull patterns) under random writer settings after a reopen.",
        note=NOTE_TB + "xxh3 is a parameter (real hash values are passed in as data); the index block and partitioned index/filter are covered only by the table read-back differential, not by a byte-level theorem; mixed next/next_back inside one block is proved only for pure forward / pure backward (mixed: bounded check by the proof worker).",
        design="7/C12", technique="Coq proof (byte-level codec round trips and lookup correctness) + byte-equality differential with the crate's encoders"),
    "C13": dict(
        text="Proof that for a key whose versions strictly alternate between weak tombstones and values the compaction stream only removes adjacent (weak tombstone, value) pairs, keeps the alternation, keeps a live newest value and never exposes an older value, composed with arbitrary deeper containers (cstream_weak_top, cstream_weak_view_with_deeper); refutation of the shipped 3.1.9 stream (finding F3, fixed). Real disciplined histories are run with all maintenance interleavings and compared with the Spec at every snapshot.",
        note=NOTE_TB + "Discipline enforced by the generator and the shrinker; undisciplined use resurrects by design (proved as refutation).",
        design="7/C13", technique="Coq proof (stream invariant under the single-delete discipline) + disciplined differential histories"),
    "C14": dict(
        text="Proof that an ingested table (global seqno g) is invisible to every S <= g and fully visible to every S > g (all entries at once), that placing it as the first L0 run keeps the version sound when g exceeds all earlier seqnos, and that earlier snapshots are untouched; real histories interleave ingestions with writes, snapshots, flushes, compactions and reopen, with the batch entered into the Spec as |batch| writes at g.",
        note=NOTE_TB + "Concurrent writers during finish() are C06 (see S10).",
        design="7/C14", technique="Coq proof (seqno-shift visibility + version invariant) + differential histories"),
    "C15": dict(
        text="Proof that the DropRange containment test is exact (all nine bound kinds), so every removed table lies inside R; empty/inverted ranges are no-ops; removal preserves the version invariant and reads of keys not in removed tables; earlier snapshots untouched (C02 machine). Real histories use bounds generated relative to table boundaries; every removed table's keys are checked to lie inside R, keys outside R and held snapshots are re-certified against the unmodified history.",
        note=NOTE_TB + "Reads of keys inside R after the drop are unspecified by the property and rebased on the physical content.",
        design="7/C15", technique="Coq proof (bounds algebra + invariant closure under removal) + differential histories"),
    "C17": dict(
        text="Proof that for ANY deterministic verdict function the compaction stream's output reads, for every key and every snapshot above its versions, exactly like the input with the verdicts applied to its entries (cstream_top_view_noweak over filter_all), that the filter is never consulted on tombstones, that replacements keep key and seqno, that the stream is key-local and that every replaced/dropped entry is reported exactly once; old snapshots are spared by the C02 machine. Real trees run with a table-driven filter whose every call is logged; the call sequence must equal the model's, the output must equal the model stream's, and the ordered-map history is transformed per verdict and compared on all reads (standard and blob trees, replacements across the separation threshold).",
        note=NOTE_TB + "RemoveWeak/Destroy are only generated for keys written once (as the property states); the examined entry is identified by (key, value).",
        design="7/C17", technique="Coq proof (stream with a verdict parameter) + logged-filter differential histories"),
    "C19": dict(
        text="Proof about the transliterated FIFO selection: nothing is chosen within limit and TTL, every expired table is chosen, no chosen non-expired table is newer than a retained one, what is retained fits the limit, the choice is minimal, duplicate-free and a subset; dropping keeps the version sound. On real append-only trees with an overridden clock each FIFO run's removed set is checked directly against those statements and against the extracted selection function; retained keys are re-read and re-certified, also after reopen.",
        note=NOTE_TB + "Monotone append-only histories as the property states (the strategy asserts a single-run L0); creation times come from the clock hook.",
        design="7/C19", technique="Coq proof (sorted-prefix argument on the selection function) + direct outcome checks with a clock hook"),
    "C18": dict(
        text="Proof that get_highest_persisted_seqno (max over tables of stored upper bound + global seqno) equals the maximum effective seqno actually stored, likewise for memtables and overall, for every structurally sound superversion; on every real dump the three getters are compared with the brute-force maxima and across reopen.",
        note=NOTE_TB + "Quiescent states (concurrent lag is C06).",
        design="7/C18", technique="Coq proof (metadata exactness + max algebra) + getter-vs-bruteforce on every dump"),
}

NOT_APPLICABLE = []


def main():
    hooks = subprocess.run(["git", "-C", "/repo", "log", "--format=%h %s"], capture_output=True, text=True).stdout.split("\n")
    hook_commits = [l.split()[0] for l in hooks if "verif hooks" in l]
    checks = []
    for pid in sorted(CHECKS):
        c = CHECKS[pid]
        checks.append({
            "property_id": pid,
            "quick_cmd": f"bin/check {pid} --tier quick",
            "thorough_cmd": f"bin/check {pid} --tier thorough",
            "evidence_file": f"/verif/evidence/{pid}.json",
            "replay_cmd_template": f"bin/check {pid} --replay {{path}}",
            "engine": "coq+lsmv",
            "level_claimed": {"category": "proof", "text": c["text"], "design_ref": c["design"]},
            "level_note": c["note"],
            "technique": c["technique"],
        })
    claimed = set(CHECKS)
    allp = [json.loads(l)["id"] for l in open(os.path.join(ROOT, "properties.jsonl"))]
    na = [x for x in NOT_APPLICABLE]
    m = {
        "version": 1,
        "setup_cmd": "bin/setup",
        "hooks": {
            "guard": "--cfg lsm_verif",
            "enable": "harness/.cargo/config.toml sets rustflags = [\"--cfg\", \"lsm_verif\", \"--check-cfg\", \"cfg(lsm_verif)\"]; the harness crate depends on lsm-tree by path = /repo and is rebuilt by every check",
            "baseline_off_cmd": "cd /repo && cargo test --workspace --no-fail-fast --offline",
            "source_commits": hook_commits,
            "add_only": True,
        },
        "engines": [
            {"name": "coq+lsmv", "path": "bin/check", "serves_properties": sorted(claimed),
             "kind_free_text": "Coq 8.16 development (coq/) with per-property theorem files; Rust harness (harness/) driving the real crate; OCaml runner (ocaml/) built from the extracted model"},
        ],
        "checks": checks,
        "not_applicable": na,
        "notes": "Properties not yet listed under checks or not_applicable are still being built (time, not applicability). See DESIGN.md.",
    }
    json.dump(m, open(os.path.join(ROOT, "MANIFEST.json"), "w"), indent=1)
    print("claimed:", sorted(claimed), "missing:", [p for p in allp if p not in claimed and p not in [x["property_id"] for x in na]])


if __name__ == "__main__":
    main()
