#!/usr/bin/env python3
"""Regenerates MANIFEST.json from the table below (python3 bin/manifest.py)."""
import json, os, subprocess

ROOT = os.path.dirname(os.path.dirname(os.path.abspath(__file__)))

NOTE_TB = ("Trusted: Coq 8.16.1 kernel; no axioms (Print Assumptions of every property theorem is compared with an empty "
           "allow-list on every run); extraction with ExtrOcamlBasic only; the hand-written model is tied to /repo by the "
           "correspondence run (state-dump certificates + Spec oracle + model agreement), whose harness, dump hooks and "
           "OCaml trace interpreter are trusted. ")

CHECKS = {
    "C01": dict(
        text="Machine-checked proof that the crate's lookup order over ANY structurally sound superversion returns the newest visible "
             "version for every key and snapshot (sv_get_raw_sound), that the decidable certificates check_inv_sv/content_agrees imply "
             "reads = ordered-map Spec for all keys (C01_certified_point_reads) and that the compaction stream never changes the top view "
             "(cstream_top_view); every generated real execution is dumped in full after every operation and certified with the extracted "
             "checkers, and every get/contains_key/size_of is compared with the Spec.",
        note=NOTE_TB + "Bloom filter = arbitrary no-false-negative predicate here (byte level in C12); sequential histories; table contents are taken from the crate's own iterators.",
        design="7/C01", technique="Coq proof (refinement of the read path to an ordered-map spec, stream invariants) + extracted-checker correspondence on full state dumps"),
}

NOT_APPLICABLE = []


def main():
    hooks = subprocess.run(["git", "-C", "/repo", "log", "--format=%h %s"], capture_output=True, text=True).stdout.split("\n")
    hook_commits = [l.split()[0] for l in hooks if "verif hooks" in l]
    checks = []
    for pid in sorted(CHECKS):
        c = CHECKS[pid]
        checks.append({
            "property_id": pid,
            "quick_cmd": f"bin/check {pid} --tier quick",
            "thorough_cmd": f"bin/check {pid} --tier thorough",
            "evidence_file": f"/verif/evidence/{pid}.json",
            "replay_cmd_template": f"bin/check {pid} --replay {{path}}",
            "engine": "coq+lsmv",
            "level_claimed": {"category": "proof", "text": c["text"], "design_ref": c["design"]},
            "level_note": c["note"],
            "technique": c["technique"],
        })
    claimed = set(CHECKS)
    allp = [json.loads(l)["id"] for l in open(os.path.join(ROOT, "properties.jsonl"))]
    na = [x for x in NOT_APPLICABLE]
    m = {
        "version": 1,
        "setup_cmd": "bin/setup",
        "hooks": {
            "guard": "--cfg lsm_verif",
            "enable": "harness/.cargo/config.toml sets rustflags = [\"--cfg\", \"lsm_verif\", \"--check-cfg\", \"cfg(lsm_verif)\"]; the harness crate depends on lsm-tree by path = /repo and is rebuilt by every check",
            "baseline_off_cmd": "cd /repo && cargo test --workspace --no-fail-fast --offline",
            "source_commits": hook_commits,
            "add_only": True,
        },
        "engines": [
            {"name": "coq+lsmv", "path": "bin/check", "serves_properties": sorted(claimed),
             "kind_free_text": "Coq 8.16 development (coq/) with per-property theorem files; Rust harness (harness/) driving the real crate; OCaml runner (ocaml/) built from the extracted model"},
        ],
        "checks": checks,
        "not_applicable": na,
        "notes": "Properties not yet listed under checks or not_applicable are still being built (time, not applicability). See DESIGN.md.",
    }
    json.dump(m, open(os.path.join(ROOT, "MANIFEST.json"), "w"), indent=1)
    print("claimed:", sorted(claimed), "missing:", [p for p in allp if p not in claimed and p not in [x["property_id"] for x in na]])


if __name__ == "__main__":
    main()
