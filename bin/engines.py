"""Verification engines behind bin/check (see DESIGN.md sections 3, 5, 6)."""
import os, sys, json, time, subprocess, hashlib, re, shutil, fcntl, glob, random
from concurrent.futures import ThreadPoolExecutor

ROOT = os.path.dirname(os.path.dirname(os.path.abspath(__file__)))
COQ = os.path.join(ROOT, "coq")
HARNESS = os.path.join(ROOT, "harness")
OCAML = os.path.join(ROOT, "ocaml")
WORK = os.path.join(ROOT, "work")
EVID = os.path.join(ROOT, "evidence")
LSMV = os.path.join(HARNESS, "target", "debug", "lsmv")
RUNNER = os.path.join(OCAML, "runner")
NPROC = min(16, os.cpu_count() or 4)

FORBIDDEN = re.compile(
    r"\b(Admitted|admit|Axiom|Axioms|Parameter|Parameters|Conjecture|Hypothesis|Hypotheses|Variable|Variables)\b"
    r"|Admit Obligations|Unset Guard|Guard Checking|bypass_check|type-in-type|impredicative-set|Unset Positivity|Unset Universe")
# Variable/Hypothesis are only allowed inside Sections; the cheap syntactic audit flags
# them only when they appear outside a Section (checked below), Print Assumptions is the
# authoritative check.
AXIOM_ALLOW = set()  # names of stdlib axioms property theorems may depend on (none so far)

ENV = dict(os.environ)
ENV.update({"CARGO_NET_OFFLINE": "true", "GOPROXY": "off", "PIP_NO_INDEX": "1"})


def sh(cmd, timeout=600, cwd=None, env=None, inp=None):
    try:
        p = subprocess.run(cmd, cwd=cwd, env=env or ENV, timeout=timeout, input=inp,
                           stdout=subprocess.PIPE, stderr=subprocess.STDOUT, text=True,
                           shell=isinstance(cmd, str))
        return p.returncode, p.stdout
    except subprocess.TimeoutExpired as e:
        return 124, (e.stdout or "") + "\nTIMEOUT"


class Lock:
    def __init__(self, name):
        os.makedirs(WORK, exist_ok=True)
        self.path = os.path.join(WORK, "." + name + ".lock")

    def __enter__(self):
        self.f = open(self.path, "w")
        fcntl.flock(self.f, fcntl.LOCK_EX)

    def __exit__(self, *a):
        fcntl.flock(self.f, fcntl.LOCK_UN)
        self.f.close()


# ----------------------------------------------------------------------------- Coq side

def coq_sources():
    """the development = the files listed in coq/FILES (a stable list: work-in-progress files of
    proof workers are not part of it until they are added there)"""
    lst = os.path.join(COQ, "FILES")
    if os.path.exists(lst):
        return [l.strip() for l in open(lst) if l.strip()]
    out = []
    for d in ("Base", "Model", "Proofs", "Props", "Extract"):
        out += sorted(glob.glob(os.path.join(COQ, d, "*.v")))
    return [os.path.relpath(p, COQ) for p in out]


def ensure_makefile():
    srcs = coq_sources()
    stamp = os.path.join(COQ, ".srclist")
    cur = "\n".join(srcs) + "\n"
    old = open(stamp).read() if os.path.exists(stamp) else None
    if old != cur or not os.path.exists(os.path.join(COQ, "Makefile")):
        rc, out = sh(["coq_makefile", "-f", "_CoqProject", "-o", "Makefile"] + srcs, cwd=COQ)
        if rc != 0:
            return False, out
        open(stamp, "w").write(cur)
    return True, ""


def audit_sources():
    """syntactic audit of the whole development"""
    problems = []
    for rel in coq_sources():
        text = open(os.path.join(COQ, rel)).read()
        # strip comments (nested)
        out, depth, i = [], 0, 0
        while i < len(text):
            if text.startswith("(*", i):
                depth += 1; i += 2
            elif text.startswith("*)", i) and depth > 0:
                depth -= 1; i += 2
            else:
                if depth == 0:
                    out.append(text[i])
                i += 1
        code = "".join(out)
        sect = 0
        for ln, line in enumerate(code.split("\n"), 1):
            if re.match(r"\s*Section\b", line):
                sect += 1
            if re.match(r"\s*End\b", line) and sect > 0:
                sect -= 1
            m = FORBIDDEN.search(line)
            if m:
                w = m.group(0)
                if w in ("Variable", "Variables", "Hypothesis", "Hypotheses") and sect > 0:
                    continue
                if w in ("Variable", "Variables", "Hypothesis", "Hypotheses", "Parameter", "Parameters") and not re.match(r"\s*(Local\s+|Global\s+)?" + w + r"\b", line):
                    continue  # the word inside an identifier/string, not a command
                problems.append(f"{rel}:{ln}: {line.strip()[:100]}")
    return problems


def ensure_coq(prop, tier="quick"):
    """build Props/<prop>.vo (and deps) with make; return dict(ok, obligations, discharged, axioms, log)"""
    res = {"ok": False, "obligations": 0, "discharged": 0, "axioms": [], "log": "", "theorems": []}
    with Lock("coq"):
        ok, out = ensure_makefile()
        if not ok:
            res["log"] = "coq_makefile failed:\n" + out
            return res
        target = f"Props/{prop}.vo"
        if not os.path.exists(os.path.join(COQ, f"Props/{prop}.v")):
            res["log"] = f"no Props/{prop}.v"
            return res
        rc, out = sh(["make", "-j", str(NPROC), target], cwd=COQ, timeout=3000)
        if rc != 0:
            res["log"] = "make failed:\n" + out[-4000:]
            return res
        # Print Assumptions output: recompile the property file alone (deps are up to date)
        rc, out = sh(["coqc", "-Q", ".", "LsmV", f"Props/{prop}.v"], cwd=COQ, timeout=900)
        if rc != 0:
            res["log"] = "coqc Props failed:\n" + out[-4000:]
            return res
    src = open(os.path.join(COQ, f"Props/{prop}.v")).read()
    n_pa = len(re.findall(r"^\s*Print Assumptions\s+(\w+)", src, re.M))
    res["theorems"] = re.findall(r"^\s*Print Assumptions\s+(\w+)", src, re.M)
    closed = out.count("Closed under the global context")
    axioms = []
    for blk in re.findall(r"Axioms:\n((?:.+\n?)+?)(?:\n|$)", out):
        for line in blk.split("\n"):
            m = re.match(r"^(\S+)\s*:", line)
            if m:
                axioms.append(m.group(1))
    res["obligations"] = n_pa
    res["discharged"] = closed + (1 if False else 0)
    res["axioms"] = sorted(set(axioms))
    bad = [a for a in res["axioms"] if a not in AXIOM_ALLOW]
    probs = audit_sources()
    res["audit_problems"] = probs
    res["ok"] = (n_pa > 0 and closed + len(re.findall(r"Axioms:", out)) == n_pa and not bad and not probs)
    if closed != n_pa and not bad:
        # every theorem must be closed unless its axioms are allow-listed
        res["ok"] = res["ok"] and (closed + len(re.findall(r"Axioms:", out)) == n_pa)
    res["log"] = out[-2000:]
    if tier == "thorough" and res["ok"]:
        # independent re-check of the compiled property file and everything it depends on
        rc2, out2 = sh(["coqchk", "-silent", "-o", "-Q", ".", "LsmV", f"LsmV.Props.{prop}"], cwd=COQ, timeout=900)
        res["coqchk"] = out2[-1500:]
        ax = re.search(r"\* Axioms:\s*(.*?)(?:\n\s*\*|\Z)", out2, re.S)
        axtxt = ax.group(1).strip() if ax else "?"
        res["coqchk_axioms"] = axtxt
        if rc2 == 124:
            # the independent re-check did not finish in 15 minutes (Proofs/Integrity.v: coqchk
            # re-runs its finite sweeps without the VM): not a verdict either way; the coqc build
            # and Print Assumptions above remain the deciding checks
            res["coqchk_axioms"] = "coqchk did not finish within 900 s (no verdict)"
        elif rc2 != 0 or "<none>" not in axtxt:
            res["ok"] = False
            res["log"] = "coqchk failed or reports axioms:\n" + out2[-2000:]
    return res


def ensure_runner():
    with Lock("ocaml"):
        with Lock("coq"):
            ok, out = ensure_makefile()
            if not ok:
                return False, out
            rc, out = sh(["make", "-j", str(NPROC), "Extract/Extract.vo", "Extract/ExtractFs.vo"], cwd=COQ, timeout=3000)
            if rc != 0:
                return False, "extraction build failed:\n" + out[-3000:]
        ml = os.path.join(OCAML, "model.ml")
        if not os.path.exists(ml):
            # Extract.vo was up to date but the generated file is missing: force
            rc, out = sh(["coqc", "-Q", ".", "LsmV", "Extract/Extract.v"], cwd=COQ, timeout=900)
            if rc != 0:
                return False, out[-3000:]
        srcs = [ml, os.path.join(OCAML, "model.mli"), os.path.join(OCAML, "runner.ml")]
        if (not os.path.exists(RUNNER)) or any(os.path.getmtime(s) > os.path.getmtime(RUNNER) for s in srcs):
            rc, out = sh(["ocamlfind", "ocamlopt", "-O3", "-w", "-a", "model.mli", "model.ml", "runner.ml", "-o", "runner"],
                         cwd=OCAML, timeout=900)
            if rc != 0:
                return False, "ocaml build failed:\n" + out[-3000:]
        for exe in ("tbrunner",):
            pass
        fsml = os.path.join(OCAML, "fsmodel.ml")
        fsbin = os.path.join(OCAML, "fsrunner")
        if os.path.exists(fsml) and os.path.exists(os.path.join(OCAML, "fsrunner.ml")):
            if (not os.path.exists(fsbin)) or any(os.path.getmtime(x) > os.path.getmtime(fsbin) for x in [fsml, os.path.join(OCAML, "fsrunner.ml")]):
                rc, out = sh(["ocamlfind", "ocamlopt", "-O3", "-w", "-a", "fsmodel.mli", "fsmodel.ml", "fsrunner.ml", "-o", "fsrunner"], cwd=OCAML, timeout=900)
                if rc != 0:
                    return False, "ocaml build (fsrunner) failed:\n" + out[-3000:]
        for exe in ("tbrunner",):
            src = os.path.join(OCAML, exe + ".ml")
            binp = os.path.join(OCAML, exe)
            if os.path.exists(src) and ((not os.path.exists(binp)) or any(os.path.getmtime(x) > os.path.getmtime(binp) for x in [ml, src])):
                rc, out = sh(["ocamlfind", "ocamlopt", "-O3", "-w", "-a", "model.mli", "model.ml", exe + ".ml", "-o", exe],
                             cwd=OCAML, timeout=900)
                if rc != 0:
                    return False, "ocaml build failed:\n" + out[-3000:]
    return True, ""


def ensure_harness():
    with Lock("cargo"):
        lock = os.path.join(HARNESS, "Cargo.lock")
        if not os.path.exists(lock):
            shutil.copy("/repo/Cargo.lock", lock)
        rc, out = sh(["cargo", "build", "--offline", "--quiet"], cwd=HARNESS, timeout=1800)
        if rc != 0:
            return False, out[-4000:]
    return True, ""


# ----------------------------------------------------------------------------- running histories

def run_one(hist_path, workdir, tag):
    """run one history file through driver + runner; returns (fails, drifts, stat dict, trace path)"""
    os.makedirs(workdir, exist_ok=True)
    scratch = os.path.join(workdir, "scratch-" + tag)
    trace = os.path.join(workdir, tag + ".trace")
    rc, out = sh([LSMV, "run", hist_path, scratch], timeout=300)
    shutil.rmtree(scratch, ignore_errors=True)
    open(trace, "w").write(out)
    return analyse_trace(trace) + (trace,)


def analyse_trace(trace):
    rc, out = sh([RUNNER, trace], timeout=600)
    fails, drifts, stat = [], [], {}
    for line in out.split("\n"):
        if line.startswith("FAIL "):
            fails.append(parse_fail(line))
        elif line.startswith("DRIFT "):
            drifts.append(line)
        elif line.startswith("STAT "):
            for kv in line.split()[1:]:
                k, v = kv.split("=")
                stat[k] = int(v)
    if rc != 0 or not stat:
        fails.append({"kind": "runner-crash", "op": -1, "snap": 0, "optext": "", "detail": out[-300:], "line": "runner rc=%d" % rc})
    return fails, drifts, stat


def parse_fail(line):
    m = re.match(r"FAIL kind=(\S+) op=(-?\d+) snap=(\d) optext=(\S*) ?(.*)", line)
    if not m:
        return {"kind": "unparsed", "op": -1, "snap": 0, "optext": "", "detail": line, "line": line}
    return {"kind": m.group(1), "op": int(m.group(2)), "snap": int(m.group(3)), "optext": m.group(4),
            "detail": m.group(5), "line": line}


def gen_batch(profile, seed0, count, n_ops, outdir, blob=False):
    """generate+run `count` histories sharded over NPROC processes"""
    os.makedirs(outdir, exist_ok=True)
    shards = []
    per = max(1, (count + NPROC - 1) // NPROC)
    s = seed0
    while s < seed0 + count:
        c = min(per, seed0 + count - s)
        shards.append((s, c))
        s += c
    procs = []
    for (s, c) in shards:
        scratch = os.path.join(outdir, f"scratch-{s}")
        cmd = [LSMV, "batch", profile, str(s), str(c), str(n_ops), outdir, scratch] + (["blob"] if blob else [])
        procs.append((subprocess.Popen(cmd, env=ENV, stdout=subprocess.PIPE, stderr=subprocess.STDOUT, text=True), scratch))
    errs = []
    for p, scratch in procs:
        try:
            out, _ = p.communicate(timeout=3000)
        except subprocess.TimeoutExpired:
            p.kill(); out = "TIMEOUT"
        if p.returncode != 0:
            errs.append(out[-500:])
        shutil.rmtree(scratch, ignore_errors=True)
    return errs


def analyse_dir(outdir):
    traces = sorted(glob.glob(os.path.join(outdir, "*.trace")))
    with ThreadPoolExecutor(max_workers=NPROC) as ex:
        results = list(ex.map(analyse_trace, traces))
    return list(zip(traces, results))


# ----------------------------------------------------------------------------- shrinking

def weak_disciplined(ops):
    """single-delete discipline (C13): per key exactly one put between weak deletes, no
    overwrite, no strong delete, and no reopen that would lose unflushed writes"""
    armed = {}
    prev = None
    for o in ops:
        t = o.split()
        if t[0] == "put":
            if armed.get(t[1], 0) != 0:
                return False
            armed[t[1]] = 1
        elif t[0] == "wdel":
            if armed.get(t[1], 0) != 1:
                return False
            armed[t[1]] = 0
        elif t[0] == "del":
            return False
        elif t[0] == "reopen" and not (prev or "").startswith("flushactive"):
            return False
        prev = o
    return True


VALIDATORS = {"weak": weak_disciplined}
CURRENT_VALIDATOR = [None]


def still_fails(ops, cfgline, workdir, pred):
    if CURRENT_VALIDATOR[0] and not CURRENT_VALIDATOR[0](ops):
        return False
    os.makedirs(workdir, exist_ok=True)
    path = os.path.join(workdir, "shrink.hist")
    open(path, "w").write(cfgline + "\n" + "\n".join(ops) + "\n")
    fails, _, _, _ = run_one(path, workdir, "shrink")
    return any(pred(f) for f in fails)


def shrink(hist_text, workdir, pred, budget_s=120):
    lines = [l for l in hist_text.split("\n") if l.strip()]
    cfgline, ops = lines[0], lines[1:]
    t0 = time.time()
    n = 2
    while len(ops) >= 2 and time.time() - t0 < budget_s:
        chunk = max(1, len(ops) // n)
        reduced = False
        for i in range(0, len(ops), chunk):
            cand = ops[:i] + ops[i + chunk:]
            if cand and still_fails(cand, cfgline, workdir, pred):
                ops = cand
                n = max(n - 1, 2)
                reduced = True
                break
            if time.time() - t0 > budget_s:
                break
        if not reduced:
            if chunk == 1:
                break
            n = min(len(ops), n * 2)
    return cfgline + "\n" + "\n".join(ops) + "\n"


# ----------------------------------------------------------------------------- known findings

DIRECT_EXTRA = {
    "C01": {"point-read", "table-get"}, "C07": {"inv", "readpaths"}, "C18": {"marks"}, "C04": {"reopen-diff", "fatal"}, "C15": {"drop-outside", "drop-added"},
    "C19": {"fifo-deeper-level", "fifo-expired-kept", "fifo-not-oldest", "fifo-within-limits"},
    "C12": {"impl-iter", "impl-iter-rev", "point-read", "bloom-false-negative", "readpaths", "table-get", "block-content"},
    "C11": {"config-diff"}, "C08": {"resolve", "dangling-pointer", "config-diff"}, "C09": {"gc-stats", "gc-ghost", "stale-bytes", "dead-file-kept", "gc-reopen", "blob-count", "dangling-pointer"},
    "C14": {"ingest-missing", "table-get"}, "C17": {"filter-unknown-item"}, "C10": {"corrupt-different", "corrupt-hang"}, "C06": {"resolve-sv"},
}


def is_direct(prop, f):
    """a failure that is itself a concrete input on which the property fails (as opposed to a
    rejected certificate / model disagreement)"""
    return f["kind"].startswith("oracle-") or f["kind"] in ("panic", "err", "fatal") or f["kind"] in DIRECT_EXTRA.get(prop, set())


def probe_extension(hist_text):
    """search for a concrete failing read: exhaustive point reads (every key that occurs, every
    snapshot seqno) and full scans from both ends appended to the history"""
    lines = [l for l in hist_text.split("\n") if l.strip() and not l.startswith("#")]
    keys, nwrites = [], 0
    for l in lines[1:]:
        t = l.split()
        if t[0] in ("put", "del", "wdel", "get", "getat", "getmax") and t[1] not in keys:
            keys.append(t[1])
        if t[0] == "ingest":
            for it in t[1:]:
                k = it.split(":")[1]
                if k not in keys:
                    keys.append(k)
        if t[0] in ("put", "del", "wdel", "ingest", "flush", "flushactive", "major", "leveled", "clear", "droprange", "movedown", "pulldown", "fifo"):
            nwrites += 1
    smax = nwrites + 3
    ext = []
    for k in keys:
        ext.append(f"getmax {k}")
        for s in range(0, smax + 1):
            ext.append(f"getat {k} {s}")
    pulls = "F" * (len(keys) + 2)
    for s in range(1, smax + 1, max(1, smax // 6)):
        ext.append(f"rangeat u u {pulls} {s}")
        ext.append(f"rangeat u u {pulls.replace('F', 'B')} {s}")
    return "\n".join(lines + ext) + "\n"


def load_findings():
    p = os.path.join(ROOT, "known_findings.json")
    if not os.path.exists(p):
        return []
    return json.load(open(p)).get("findings", [])


def match_finding(prop, hist_text, fail, findings):
    for f in findings:
        if f.get("status") != "known" or prop not in f.get("properties", []):
            continue
        m = f.get("match", {})
        if "history_regex" in m and not re.search(m["history_regex"], hist_text, re.M):
            continue
        if "kind_regex" in m and not re.match(m["kind_regex"], fail["kind"]):
            continue
        if "detail_regex" in m and not re.search(m["detail_regex"], fail["detail"]):
            continue
        if "fs_expected" in m and fail.get("fs_expected") != m["fs_expected"]:
            continue
        return f
    return None


# ----------------------------------------------------------------------------- property table

TREE_NONTRIVIAL = lambda st: st.get("flush_steps", 0) >= 1 and st.get("merge_steps", 0) >= 1 and st.get("gets_from_tables", 0) >= 1

# kinds every tree-level property listens to in addition to its own
COMMON_KINDS = {"panic", "fatal", "err", "runner-crash", "parse", "truncated", "nolatest"}
# block structure of real tables (harness dump TB/BH/be/TG lines, Model/BlockIndex.v)
BLOCK_KINDS = {"block-index", "block-content", "table-get"}

PROPS = {
    "C01": dict(engine="tree", profiles=[("tree", 8, False), ("lvl", 8, False), ("moves", 2, False), ("tree", 2, True), ("ingest", 1, False), ("drop", 1, False),
                                         ("filter", 1, False), ("blob", 1, True), ("table", 1, False)], n_ops=120,
                quick=520, thorough=6000, tbench=dict(quick=36, thorough=600),
                relevant=lambda f: f["snap"] == 0 and f["kind"] in ({"oracle-get", "oracle-contains", "agree", "inv", "nosv", "point-read", "tbench-crash"} | BLOCK_KINDS | COMMON_KINDS),
                nontrivial=TREE_NONTRIVIAL),
    "C02": dict(engine="tree", profiles=[("tree", 6, False), ("drop", 2, False), ("ingest", 2, False), ("tree", 2, True), ("blob", 2, True), ("drop", 1, True),
                                         ("lvl", 1, False), ("filter", 1, False)], n_ops=140,
                quick=220, thorough=4000,
                relevant=lambda f: (f["snap"] == 1 and f["kind"] in {"oracle-get", "oracle-contains", "agree", "nosv", "oracle-range", "oracle-prefix"}) or f["kind"] in COMMON_KINDS,
                nontrivial=lambda st: TREE_NONTRIVIAL(st) and st.get("agree_snap", 0) >= 1),
    "C03": dict(engine="tree", profiles=[("tree", 6, False), ("tree", 2, True), ("ingest", 2, False), ("drop", 1, False), ("lvl", 1, False), ("blob", 1, True),
                                         ("table", 1, False), ("ingest", 1, True)], n_ops=120,
                quick=220, thorough=4000,
                relevant=lambda f: f["kind"] in ({"oracle-range", "oracle-prefix", "oracle-len", "oracle-first", "oracle-last", "oracle-isempty", "inv", "block-index", "block-content"} | COMMON_KINDS),
                nontrivial=lambda st: TREE_NONTRIVIAL(st) and st.get("scans_nonempty", 0) >= 1),
    "C07": dict(engine="tree", profiles=[("tree", 3, False), ("lvl", 3, False), ("moves", 2, False), ("ingest", 1, False), ("drop", 1, False), ("tree", 1, True)], n_ops=120,
                quick=400, thorough=6000,
                relevant=lambda f: f["kind"] in ({"inv", "readpaths"} | COMMON_KINDS),
                nontrivial=TREE_NONTRIVIAL),
    "C04": dict(engine="tree", profiles=[("tree", 3, False), ("ingest", 1, False), ("drop", 1, False), ("tree", 1, True)], n_ops=120,
                quick=160, thorough=4000,
                relevant=lambda f: f["kind"] in ({"reopen-diff", "marks", "agree", "oracle-get", "oracle-contains", "oracle-range", "inv", "resolve"} | COMMON_KINDS),
                nontrivial=lambda st: TREE_NONTRIVIAL(st) and st.get("reopen_compared", 0) >= 1),
    "C13": dict(engine="tree", profiles=[("weak", 3, False), ("weakmoves", 1, False)], n_ops=140,
                quick=200, thorough=5000, validator="weak",
                relevant=lambda f: f["kind"] in ({"oracle-get", "oracle-contains", "oracle-range", "oracle-prefix", "oracle-len", "oracle-first", "oracle-last", "oracle-isempty", "agree", "inv", "nosv"} | COMMON_KINDS),
                nontrivial=TREE_NONTRIVIAL),
    "C14": dict(engine="tree", profiles=[("ingest", 3, False), ("ingest", 1, True)], n_ops=120,
                quick=160, thorough=4000,
                relevant=lambda f: f["kind"] in ({"oracle-get", "oracle-contains", "oracle-range", "oracle-prefix", "oracle-len", "agree", "inv", "nosv", "ingest-missing", "marks", "reopen-diff", "resolve"} | BLOCK_KINDS | COMMON_KINDS),
                nontrivial=lambda st: TREE_NONTRIVIAL(st) and st.get("ingests", 0) >= 1),
    "C15": dict(engine="tree", profiles=[("drop", 3, False), ("drop", 1, True)], n_ops=120,
                quick=160, thorough=4000,
                relevant=lambda f: f["kind"] in ({"drop-outside", "drop-added", "drop-nosv", "oracle-get", "oracle-contains", "oracle-range", "oracle-prefix", "oracle-len", "agree", "inv", "nosv", "reopen-diff"} | COMMON_KINDS),
                nontrivial=lambda st: st.get("flush_steps", 0) >= 1 and (st.get("droprange_effective", 0) + st.get("clears", 0)) >= 1),
    "C17": dict(engine="tree", profiles=[("filter", 3, False), ("filter", 1, True)], n_ops=130,
                quick=160, thorough=4000,
                relevant=lambda f: f["kind"] in ({"oracle-get", "oracle-contains", "oracle-range", "oracle-prefix", "oracle-len", "agree", "inv", "nosv", "filter-unknown-item", "resolve"} | COMMON_KINDS),
                nontrivial=lambda st: st.get("filtered_merges", 0) >= 1 and st.get("filter_calls", 0) >= 1 and st.get("gets_from_tables", 0) >= 1),
    "C18": dict(engine="tree", profiles=[("tree", 1, False), ("lvl", 6, False), ("moves", 1, False), ("ingest", 1, False), ("drop", 1, False)], n_ops=120,
                quick=600, thorough=8000,
                relevant=lambda f: f["kind"] in ({"marks"} | COMMON_KINDS),
                nontrivial=TREE_NONTRIVIAL),
}

PROPS["C19"] = dict(engine="tree", profiles=[("fifo", 3, False), ("fifo", 1, True)], n_ops=150,
                    quick=160, thorough=4000,
                    relevant=lambda f: f["kind"] in ({"fifo-deeper-level", "fifo-expired-kept", "fifo-not-oldest", "fifo-within-limits", "oracle-get", "oracle-contains", "oracle-range", "agree", "inv", "reopen-diff"} | COMMON_KINDS),
                    nontrivial=lambda st: st.get("fifo_effective", 0) >= 1 and st.get("flush_steps", 0) >= 2 and st.get("gets_from_tables", 0) >= 1)

PROPS["C11"] = dict(engine="multi", profiles=[("tree", 1, False), ("ingest", 1, False), ("tree", 1, True), ("drop", 1, False), ("blob", 1, True), ("table", 1, False)], n_ops=100,
                    quick=50, thorough=1000, k=dict(quick=(4, 3), thorough=(8, 4)), strip_ops=("droprange",),
                    relevant=lambda f: f["kind"] in ({"config-diff", "oracle-get", "oracle-contains", "oracle-range", "oracle-prefix", "oracle-len", "oracle-first", "oracle-last", "oracle-isempty", "agree", "inv", "readpaths", "resolve", "reopen-diff", "marks"} | COMMON_KINDS),
                    nontrivial=lambda st: st.get("flush_steps", 0) >= 1 and st.get("gets_from_tables", 0) >= 1)

BLOB_KINDS = {"resolve", "dangling-pointer", "gc-stats", "stale-bytes", "dead-file-kept", "gc-reopen", "blob-count"}
PROPS["C08"] = dict(engine="multi", profiles=[("blob", 2, True), ("tree", 1, True), ("weak", 1, True), ("ingest", 1, True), ("filter", 1, True)], n_ops=110,
                    quick=60, thorough=1500, k=dict(quick=(3, 3), thorough=(5, 5)), modes=["blobdiff"], strip_ops=("droprange",),
                    relevant=lambda f: f["kind"] in ({"config-diff", "resolve", "dangling-pointer", "oracle-get", "oracle-contains", "oracle-range", "oracle-prefix", "oracle-len", "oracle-first", "oracle-last", "oracle-isempty", "agree", "inv", "reopen-diff", "filter-unknown-item"} | COMMON_KINDS),
                    nontrivial=lambda st: st.get("flush_steps", 0) >= 1 and st.get("gets_from_tables", 0) >= 1)
PROPS["C09"] = dict(engine="tree", profiles=[("blob", 4, True), ("filter", 1, True), ("ingest", 1, True), ("fifo", 1, True), ("weak", 1, True)], n_ops=130,
                    quick=200, thorough=5000,
                    relevant=lambda f: f["kind"] in (BLOB_KINDS | {"gc-ghost", "inv", "reopen-diff"} | COMMON_KINDS),
                    nontrivial=lambda st: st.get("gc_entries_checked", 0) >= 1 and st.get("merge_steps", 0) + st.get("drop_steps", 0) >= 1)

FS_KINDS = {"protocol", "protocol-blob-dir-fsync", "crash-unrecoverable", "crash-mixture", "crash-undoes-returned-op", "model-recover-mismatch",
            "fault-panic", "fault-state-changed", "fault-unrecoverable", "leak", "live-file-missing", "engine-error"}
FS_TB = [
    "file-system model coq/Model/Fs.v (durable/volatile split per file and per directory entry; crash = any prefix-closed subset of unsynced effects) is tied to the crate by strace: every syscall of every operation is translated to the model's fsop and the extracted protocol_ok / crash_images / recover_dir / reclaim run on it (ocaml/fsrunner.ml, bin/fs_engine.py, docs/FS_ENGINE.md)",
    "strace 6.1 (syscall capture and -e inject fault injection), the Linux tmpfs/ext4 semantics of the sandbox for the materialised crash images; the model's crash semantics (no reordering barrier except fsync of the file / of the directory) is an assumption about POSIX file systems, not verified",
    "extraction for this engine: Extract/ExtractFs.v, ExtrOcamlBasic only",
]
FS_ASSUME = ["partial: the theorem is about the protocol model; the kernel/file system is modelled (Fs.v), not verified; torn sector writes inside one write() are modelled as prefix tokens only",
             "crash points are enumerated at syscall granularity on captured traces (all points, sampled subsets of unsynced effects in quick tier)"]
PROPS["C05"] = dict(engine="fs", fs_mode="crash", profiles=[("fs", 1, False)], n_ops=20, quick=1, thorough=1,
                    relevant=lambda f: True, nontrivial=lambda st: True, tb_extra=FS_TB, assumptions=FS_ASSUME,
                    rule="histories from bin/fs_engine.py (put/remove/flush/compact/major/ingest/droprange/clear/reopen on plain and KV-separated trees), run under strace; each operation's syscall segment is checked with the extracted protocol_ok, then crash images (every syscall boundary x subsets of unsynced effects) are materialised as real directories and opened by the real crate: the recovered state must be the state before or after the operation, never a mixture, and never older than a returned operation. evaluations = histories (all distinct by construction: one PRNG seed each); distinct_nontrivial = histories with at least one protocol-checked publishing segment and at least one crash image opened by the crate")
PROPS["C16"] = dict(engine="fs", fs_mode="fault", profiles=[("fs", 1, False)], n_ops=20, quick=1, thorough=1,
                    relevant=lambda f: True, nontrivial=lambda st: True, tb_extra=FS_TB, assumptions=FS_ASSUME,
                    rule="for each history each file-system syscall of the target operation (open/write/fsync/rename/unlink/mkdir) is failed in turn with strace -e inject (EIO/ENOSPC): the operation must return Err without panic, the observable tree (reads, dump) must equal the state before the operation, a retry must succeed, and the directory must still recover. evaluations = histories; distinct_nontrivial = histories that contributed at least one injected fault run; each history contributes one run per injected fault point (impl_stats.fault_runs)")
PROPS["C20"] = dict(engine="fs", fs_mode="reclaim", profiles=[("fs", 1, False)], n_ops=20, quick=1, thorough=1,
                    relevant=lambda f: True, nontrivial=lambda st: True, tb_extra=FS_TB, assumptions=FS_ASSUME,
                    rule="after every operation (no snapshot or iterator alive) the directory listing of tables/ and blobs/ is compared with the files named by the current version (and by versions still retained by an open snapshot): a file not named = leak, a named file missing = live-file-missing; the extracted reclaim function of the model is run on the same state and must delete exactly the same set. evaluations = histories; distinct_nontrivial = histories with at least 3 exact directory-listing comparisons; impl_stats.dumps = listings compared")
PROPS["C10"] = dict(engine="corrupt", profiles=[("corrupt", 1, False)], n_ops=40, quick=24, thorough=48,
                    tb_extra=["byte-level integrity model coq/Model/Integrity.v (block envelope, version file guarded by `current`, sfa ToC/trailer, blob frame); the checksum function is a Section variable: each theorem assumes exactly that the checksum of the altered bytes differs from the stored one",
                              "harness/src/corrupt.rs: mutation enumeration and forked read-out (an abort of the child counts as an error result)"],
                    assumptions=["partial: xxh3 collision-freeness on the compared pair is a hypothesis of the theorems", "positions are enumerated per region (every region of every file; a sample of byte offsets per region in the quick tier), each with bit flips and truncations"],
                    rule="histories build small trees (standard and KV-separated); for every file (tables, blob files, v*, current) every region (block headers, block payloads per block type, index, filter, meta, trailer/ToC, frame header/key/value) gets bit flips and truncations at sampled offsets; after each mutation a forked child opens the tree and performs all point reads and scans, and for table / blob files then runs a major compaction (which reads every table through the compaction scanner) and repeats all reads: every single answer must be an error or equal to the original one. evaluations = histories; mutations counted in impl_stats.mutations",
                    relevant=lambda f: f["kind"] in ({"corrupt-different", "corrupt-hang"} | COMMON_KINDS),
                    nontrivial=lambda st: st.get("mutations", 0) >= 50 and st.get("mutations_error", 0) >= 10)
PROPS["C06"] = dict(engine="conc", profiles=[("conc", 1, False)], n_ops=200, quick=480, thorough=3000,
                    tb_extra=["interleaving model coq/Model/Conc.v: atomic steps are the source's critical sections (version_history read/write guard, compaction_state mutex + hidden set, flush lock, major-compaction lock, seqno counters); std::sync and crossbeam-skiplist are modelled as atomic, the hardware memory model is outside",
                              "harness/src/conc.rs: real threads; every read is logged with the snapshot it used and the superversion it resolved to, and replayed through the certificate / oracle runner"],
                    assumptions=["partial: the proof covers every schedule of the model's atomic steps; real runs sample OS schedules only", "known finding K2 (unclean snapshots) is reported as KNOWN-FINDING, proved as P_C06_reads_unclean_refuted"],
                    rule="each run starts 1 writer + readers + flushers + compactors (leveled / major / drop_range) on one tree with a PRNG-chosen workload, in one of three snapshot modes (published counter, published+joined, visible counter); all reads are logged and checked against the Spec at their snapshot, the final state must contain every acknowledged write, no thread may error or panic, and the tree is reopened and compared. evaluations = threaded runs; non-trivial = at least 2 concurrent flush calls, 2 compaction calls and 50 reads",
                    relevant=lambda f: f["kind"] in ({"oracle-get", "oracle-contains", "oracle-range", "latewrite-get", "latewrite-range", "resolve-sv", "agree", "inv", "marks", "reopen-diff", "readpaths", "resolve", "dangling-pointer", "gc-stats"} | COMMON_KINDS),
                    nontrivial=lambda st: st.get("conc_flush_calls", 0) >= 2 and st.get("conc_compact_calls", 0) >= 2 and st.get("gets", 0) >= 50)

TB_KINDS = {"block-bytes", "block-decode", "block-decode-back", "impl-iter", "impl-iter-rev", "point-read", "point-read-model",
            "bloom-bytes", "bloom-build", "bloom-false-negative", "bloom-decode", "bloom-contains", "encode-error", "bloom-reader-error",
            "tbench-crash"}
PROPS["C12"] = dict(engine="tree", profiles=[("table", 3, False), ("table", 1, True), ("ingest", 1, False)], n_ops=110,
                    quick=64, thorough=2000, tbench=dict(quick=96, thorough=6000),
                    relevant=lambda f: f["kind"] in (TB_KINDS | BLOCK_KINDS | {"oracle-get", "oracle-contains", "oracle-range", "readpaths", "inv", "reopen-diff", "agree", "resolve"} | COMMON_KINDS),
                    nontrivial=lambda st: (st.get("point_reads_hit", 0) >= 1 and st.get("blocks", 0) >= 1) or (st.get("gets_from_tables", 0) >= 1 and st.get("reopen_compared", 0) >= 1))

TRUSTED_BASE = [
    "Coq 8.16.1 kernel (coqc, full .vo builds; no native_compute)",
    "axioms: none (every property theorem prints 'Closed under the global context')",
    "extraction: Require Extraction + ExtrOcamlBasic only (bool/option/unit/list/prod/sumbool/sumor -> OCaml); N/positive/nat stay Coq inductives; OCaml 4.13.1 ocamlopt",
    "hand-written model (coq/Model/*.v) tied to /repo by this correspondence run: certificates check_inv_sv/content_agrees on full state dumps, Spec oracle on every read, model-vs-impl agreement of the compaction stream",
    "harness (Rust driver + dump through the crate's own Table::iter/scan and cfg(lsm_verif) read-only hooks), OCaml trace interpreter ocaml/runner.ml, this script",
]


# ----------------------------------------------------------------------------- byte-level bench (C12)

TBRUNNER = os.path.join(OCAML, "tbrunner")


def run_tbench(seed0, count, outdir):
    """data-block / Bloom byte-level differential; returns list of (name, trace, fails, drifts, stat)"""
    os.makedirs(outdir, exist_ok=True)
    per = max(1, (count + NPROC - 1) // NPROC)
    jobs = []
    s = seed0
    while s < seed0 + count:
        c = min(per, seed0 + count - s)
        f = os.path.join(outdir, f"tb-{s}-{c}.txt")
        jobs.append((s, c, f, subprocess.Popen([LSMV, "tbench", str(s), str(c), f], env=ENV, stdout=subprocess.PIPE, stderr=subprocess.STDOUT, text=True)))
        s += c
    results = []
    for (s, c, f, p) in jobs:
        out, _ = p.communicate(timeout=3000)
        if p.returncode != 0:
            results.append((f, f, [{"kind": "tbench-crash", "op": -1, "snap": 0, "optext": "", "detail": out[-300:], "line": "lsmv tbench crashed seed0=%d" % s}], [], {}))
    def one(job):
        s, c, f, _ = job
        rc, out = sh([TBRUNNER, f], timeout=1200)
        fails, stat = [], {}
        for line in out.split("\n"):
            if line.startswith("FAIL "):
                m = re.match(r"FAIL kind=(\S+) case=(\S+) (.*)", line)
                fails.append({"kind": m.group(1) if m else "unparsed", "op": -1, "snap": 0, "optext": "tbench-case-" + (m.group(2) if m else "?"),
                              "detail": m.group(3) if m else line, "line": line, "tbench_case": m.group(2) if m else None})
            elif line.startswith("STAT "):
                for kv in line.split()[1:]:
                    k, v = kv.split("=")
                    stat[k] = int(v)
        if rc != 0 or not stat:
            fails.append({"kind": "runner-crash", "op": -1, "snap": 0, "optext": "", "detail": out[-300:], "line": "tbrunner rc=%d" % rc})
        return (f, f, fails, [], stat)
    with ThreadPoolExecutor(max_workers=NPROC) as ex:
        results += list(ex.map(one, jobs))
    return results


# ----------------------------------------------------------------------------- multi-config / shared-cache engine (C11)

def multi_engine(prop, tier, seed, count_override, coq):
    spec = PROPS[prop]
    t0 = time.time()
    workdir = os.path.join(WORK, prop)
    shutil.rmtree(workdir, ignore_errors=True)
    os.makedirs(workdir, exist_ok=True)
    total = count_override or spec[tier]
    k_sep, k_shared = spec["k"][tier]
    profiles = spec["profiles"]
    jobs = []
    for i in range(total):
        prof, _, blob = profiles[i % len(profiles)]
        modes = spec.get("modes", ["sep", "shared"])
        # every (profile, mode) combination is visited
        jobs.append((seed * 1000003 + i, prof, blob, modes[(i // len(profiles)) % len(modes)]))

    def one(job):
        sd, prof, blob, mode = job
        hist = os.path.join(workdir, f"{sd}.hist")
        rc, out = sh([LSMV, "gen", prof, str(sd), str(spec["n_ops"])] + (["blob"] if blob else []), timeout=120)
        strip = spec.get("strip_ops", ())
        if strip:
            # operations whose effect legitimately depends on the physical layout (drop_range
            # removes only tables that lie entirely inside the range) are not part of this comparison
            out = "\n".join(l for l in out.split("\n") if not l.startswith(tuple(strip))) + "\n"
        open(hist, "w").write(out)
        k = k_shared if mode == "shared" else k_sep
        prefix = os.path.join(workdir, f"{sd}-{mode}")
        rc, out = sh([LSMV, "multi", hist, os.path.join(workdir, f"scratch-{sd}"), prefix, str(k), str(sd), mode], timeout=600)
        shutil.rmtree(os.path.join(workdir, f"scratch-{sd}"), ignore_errors=True)
        res = []
        olines = []
        for j in range(k):
            tr = f"{prefix}.{j}.trace"
            if not os.path.exists(tr):
                res.append((hist, tr, [{"kind": "fatal", "op": -1, "snap": 0, "optext": "", "detail": "multi run produced no trace: " + out[-200:], "line": "multi run failed"}], [], {}))
                continue
            fails, drifts, stat = analyse_trace(tr)
            stat["trees"] = 1
            stat["shared_cache_trees" if mode == "shared" else ("blobdiff_trees" if mode == "blobdiff" else "config_variants")] = 1
            res.append((hist, tr, fails, drifts, stat))
            # observations up to the first reopen that was not directly preceded by a flush: what
            # an unflushed reopen loses may legitimately depend on the configuration (e.g. which
            # operations flush implicitly), the answers before it may not
            ol, prev_op, stop = [], "", False
            for l in open(tr):
                if l.startswith("H "):
                    opw = l.split()[1] if len(l.split()) > 1 else ""
                    if opw == "reopen" and prev_op not in ("flushactive", "flush"):
                        stop = True
                    prev_op = opw
                elif l.startswith("O ") and not stop:
                    ol.append(l)
            olines.append(ol)
        if mode in ("blobdiff", "sep"):
            # a tree with another physical configuration (key-value separation, block / table
            # sizes) may allocate a different number of version seqnos (different file sizes ->
            # different compaction decisions); answers must be equal, the snapshot numbers they
            # were asked at need not be (every tree is also held to the Spec at its own numbers)
            def strip_seq(l):
                t = l.split()
                if t[1] == "orange" and len(t) > 5:
                    # O orange lo hi items S pulls results: overlay items are key:seqno:value
                    items = ",".join(":".join(x.split(":")[::2]) for x in t[4].split(",")) if t[4] != "-" else "-"
                    return " ".join(t[:4] + [items] + t[6:])
                idx = {"get": 3, "range": 4, "prefix": 3}.get(t[1], 2)
                return " ".join(t[:idx] + t[idx + 1:])
            olines = [[strip_seq(l) for l in ol] for ol in olines]
        # compaction-filter verdicts take effect when a compaction happens to process the entry;
        # which compactions run depends on file sizes, i.e. on the physical configuration: with
        # `verdict` operations in the history the answers of differently configured trees may
        # legitimately differ (each tree is still held to the Spec through its own filter log)
        has_verdicts = any(l.startswith("verdict ") for l in open(hist))
        if mode in ("sep", "blobdiff") and olines and not has_verdicts:
            for j in range(1, len(olines)):
                if olines[j] != olines[0]:
                    d = next((a.strip() + " <> " + b.strip() for a, b in zip(olines[0], olines[j]) if a != b), "different number of observations")
                    res[j][2].append({"kind": "config-diff", "op": -1, "snap": 0, "optext": "", "detail": d[:300], "line": "FAIL kind=config-diff trees 0 and %d answer differently: %s" % (j, d[:300])})
                else:
                    res[j][4]["config_pairs_equal"] = 1
        return res

    all_results = []
    with ThreadPoolExecutor(max_workers=NPROC) as ex:
        for r in ex.map(one, jobs):
            all_results += r
    return finish(prop, tier, seed, spec, all_results, [], coq, workdir, t0)


# ----------------------------------------------------------------------------- file-system engine (C05 / C16 / C20)

def fs_engine(prop, tier, seed, count_override, coq):
    """strace-based engine (bin/fs_engine.py, docs/FS_ENGINE.md): real syscall traces are checked
    with the extracted protocol_ok / recover_dir, crash images are materialised and opened by the
    real crate (C05), syscalls are failed one at a time with strace -e inject (C16), and the
    directory listing is compared with what the retained versions name (C20)"""
    import importlib
    spec = PROPS[prop]
    t0 = time.time()
    fs = importlib.import_module("fs_engine")
    res = fs.run(spec["fs_mode"], tier, seed)
    all_results = []
    stats = {k: v for k, v in res.get("stats", {}).items() if isinstance(v, int)}
    stats["fs_histories"] = res.get("stats", {}).get("histories", 0)
    per_hist = {}
    for f in res.get("fails", []):
        hist = f.get("history", "")
        fd = {"kind": f["kind"], "op": -1, "snap": 0, "optext": "", "detail": (f.get("detail", "") + " " + str(f.get("where", "")))[:400],
              "line": "FAIL kind=%s %s" % (f["kind"], f.get("detail", "")[:300]), "fs_expected": f.get("expected"), "fs_direct": str(f.get("direct")) == "True",
              "fs_replay": f.get("replay_cmd")}
        per_hist.setdefault(hist, []).append(fd)
    first = True
    for hist, fails in per_hist.items():
        all_results.append((hist, hist, fails, [], stats if first else {}))
        first = False
    if first:
        # no failures: one synthetic entry carrying the statistics
        hdir = os.path.join(WORK, "fs", "hist")
        all_results.append((os.path.join(hdir, "none"), "", [], [], stats))
    samples = res.get("samples", [])[:2]
    return finish(prop, tier, seed, spec, all_results, [], coq, os.path.join(WORK, prop), t0, extra_samples=samples, evaluations=stats.get("fs_histories", 0), nontrivial_override=stats.get("nontrivial_histories", 0))


# ----------------------------------------------------------------------------- corruption enumeration (C10)

def corrupt_engine(prop, tier, seed, count_override, coq):
    """fault enumeration on persisted files: every mutation is classified against the baseline
    read-out (identical / error / DIFFERENT / panic); DIFFERENT is a violation"""
    spec = PROPS[prop]
    t0 = time.time()
    workdir = os.path.join(WORK, prop)
    shutil.rmtree(workdir, ignore_errors=True)
    os.makedirs(workdir, exist_ok=True)
    n = count_override or spec[tier]
    # thorough: many more positions per file; enumerating every byte of every file with the
    # two-phase read-out (reads, major compaction, reads again) takes hours and is not used
    exhaustive = False
    samples = "40" if tier == "thorough" else "14"
    jobs = []
    for i in range(n):
        jobs.append((seed * 1000003 + i, "blob" if i % 3 == 2 else "std"))

    def one(job):
        sd, kind = job
        outf = os.path.join(workdir, f"c-{sd}-{kind}.txt")
        cmd = [LSMV, "corrupt", str(sd), os.path.join(workdir, f"scratch-{sd}"), outf, kind, "exhaustive" if exhaustive else "sample", samples]
        rc, out = sh(cmd, timeout=3000)
        shutil.rmtree(os.path.join(workdir, f"scratch-{sd}"), ignore_errors=True)
        fails, stat = [], {}
        hist = os.path.join(workdir, f"c-{sd}-{kind}.hist")
        open(hist, "w").write(f"# corruption enumeration: harness/target/debug/lsmv corrupt {sd} <scratch> <out> {kind} {'exhaustive' if exhaustive else 'sample'} {samples}\n")
        if rc != 0 or not os.path.exists(outf):
            fails.append({"kind": "fatal", "op": -1, "snap": 0, "optext": "", "detail": out[-300:], "line": "lsmv corrupt failed"})
            return (hist, outf, fails, [], stat)
        ended = False
        for line in open(outf):
            t = line.split()
            if not t:
                continue
            if t[0] == "COUNT":
                stat[f"{t[1]}_{t[2]}"] = stat.get(f"{t[1]}_{t[2]}", 0) + int(t[3])
                stat["mutations_" + t[2]] = stat.get("mutations_" + t[2], 0) + int(t[3])
            elif t[0] == "TOTAL":
                stat["mutations"] = int(t[1])
                stat["files"] = int(t[2].split("=")[1])
                if len(t) > 3 and t[3].startswith("twophase="):
                    stat["mutations_two_phase"] = int(t[3].split("=")[1])
            elif t[0] == "MUT" and t[5] == "DIFFERENT":
                fails.append({"kind": "corrupt-different", "op": -1, "snap": 0, "optext": f"{t[1]}@{t[3]}:{t[4]}",
                              "detail": " ".join(t[6:])[:300], "line": "FAIL kind=corrupt-different " + line.strip()[:400]})
            elif t[0] == "MUT" and t[5] == "HANG":
                fails.append({"kind": "corrupt-hang", "op": -1, "snap": 0, "optext": f"{t[1]}@{t[3]}:{t[4]}",
                              "detail": "the read-out did not terminate (20 s CPU / 60 s wall) " + " ".join(t[6:])[:200], "line": "FAIL kind=corrupt-hang " + line.strip()[:400]})
            elif t[0] == "MUT" and t[5] == "panic":
                stat["panics_on_corrupt_input"] = stat.get("panics_on_corrupt_input", 0) + 1
            elif t[0] in ("BASELINE-BROKEN", "BASELINE-UNSTABLE"):
                fails.append({"kind": "fatal", "op": -1, "snap": 0, "optext": "", "detail": line.strip(), "line": line.strip()})
            elif t[0] == "END":
                ended = True
        if not ended:
            fails.append({"kind": "truncated", "op": -1, "snap": 0, "optext": "", "detail": "no END", "line": "corrupt output truncated"})
        return (hist, outf, fails, [], stat)

    with ThreadPoolExecutor(max_workers=NPROC) as ex:
        all_results = list(ex.map(one, jobs))
    return finish(prop, tier, seed, spec, all_results, [], coq, workdir, t0)


# ----------------------------------------------------------------------------- concurrent engine (C06)

def conc_engine(prop, tier, seed, count_override, coq):
    """real threads (writer, 2 readers, rotate+flush, 2 compactors incl. major) on one tree;
    every read carries its snapshot and is decided by the writer's log alone"""
    spec = PROPS[prop]
    t0 = time.time()
    workdir = os.path.join(WORK, prop)
    shutil.rmtree(workdir, ignore_errors=True)
    os.makedirs(workdir, exist_ok=True)
    total = count_override or spec[tier]
    plan = [("pub", total, False), ("pub", max(4, total // 6), True), ("pubj", max(4, total // 8), False)]
    all_results = []
    errs = []
    base = seed * 1000003
    for mi, (mode, n, blob) in enumerate(plan):
        outdir = os.path.join(workdir, f"{mode}{'-blob' if blob else ''}")
        os.makedirs(outdir, exist_ok=True)
        per = max(1, (n + NPROC - 1) // NPROC)
        procs = []
        s = base + mi * 100000
        end = s + n
        while s < end:
            c = min(per, end - s)
            scratch = os.path.join(outdir, f"scratch-{s}")
            cmd = [LSMV, "conc", str(s), str(c), outdir, scratch, str(spec["n_ops"]), mode] + (["blob"] if blob else [])
            procs.append((subprocess.Popen(cmd, env=ENV, stdout=subprocess.PIPE, stderr=subprocess.STDOUT, text=True), scratch))
            s += c
        for p, scratch in procs:
            try:
                out, _ = p.communicate(timeout=1800)
            except subprocess.TimeoutExpired:
                p.kill(); out = "TIMEOUT (possible deadlock)"
                errs.append("concurrent run timed out (deadlock?)")
            if p.returncode not in (0, None):
                errs.append(out[-300:])
            shutil.rmtree(scratch, ignore_errors=True)
        for trace, (fails, drifts, stat) in analyse_dir(outdir):
            stat["conc_runs"] = 1
            if mode == "pubj":
                stat["conc_runs_with_preempted_writer"] = 1
            all_results.append((trace[:-6] + ".hist", trace, fails, drifts, stat))
    return finish(prop, tier, seed, spec, all_results, errs, coq, workdir, t0)


# ----------------------------------------------------------------------------- tree engine

def tree_engine(prop, tier, seed, count_override, coq):
    spec = PROPS[prop]
    CURRENT_VALIDATOR[0] = VALIDATORS.get(spec.get("validator"))
    t0 = time.time()
    workdir = os.path.join(WORK, prop)
    shutil.rmtree(workdir, ignore_errors=True)
    os.makedirs(workdir, exist_ok=True)
    total = count_override or spec[tier]
    wsum = sum(w for (_, w, _) in spec["profiles"])
    all_results = []  # (hist_path, trace_path, fails, drifts, stat)
    gen_errs = []
    # corpus first
    corpus = sorted(glob.glob(os.path.join(ROOT, "corpus", prop, "*.hist")) + glob.glob(os.path.join(ROOT, "corpus", "common", "*.hist")))
    cdir = os.path.join(workdir, "corpus")
    for i, h in enumerate(corpus):
        fails, drifts, stat, trace = run_one(h, cdir, f"c{i}")
        all_results.append((h, trace, fails, drifts, stat))
    # byte-level bench
    if spec.get("tbench"):
        n = (count_override or spec["tbench"][tier])
        all_results += run_tbench(seed * 7919, n, os.path.join(workdir, "tbench"))
    # generated
    s0 = seed * 1000003
    for pi, (profile, w, blob) in enumerate(spec["profiles"]):
        cnt = max(1, total * w // wsum)
        outdir = os.path.join(workdir, f"{profile}{'-blob' if blob else ''}-{pi}")
        gen_errs += gen_batch(profile, s0 + pi * 100000, cnt, spec["n_ops"], outdir, blob)
        for trace, (fails, drifts, stat) in analyse_dir(outdir):
            all_results.append((trace[:-6] + ".hist", trace, fails, drifts, stat))
    return finish(prop, tier, seed, spec, all_results, gen_errs, coq, workdir, t0)


def finish(prop, tier, seed, spec, all_results, gen_errs, coq, workdir, t0, extra_samples=None, evaluations=None, nontrivial_override=None):
    findings = load_findings()
    relevant = spec["relevant"]
    violations, known_hits = [], {}
    agg, seen, nontrivial, drift_lines = {}, set(), 0, []
    samples = []
    for (hist, trace, fails, drifts, stat) in all_results:
        for k, v in stat.items():
            agg[k] = agg.get(k, 0) + v
        try:
            text = open(hist).read()
        except OSError:
            text = ""
        h = hashlib.sha1(text.encode()).hexdigest()
        if h not in seen:
            seen.add(h)
            if spec["nontrivial"](stat):
                nontrivial += 1
                if len(samples) < 2:
                    samples.append({"history_file": os.path.relpath(hist, ROOT), "first_ops": text.split("\n")[:12], "stats": stat})
        drift_lines += drifts[:3]
        rel = [f for f in fails if relevant(f)]
        if rel:
            violations.append((hist, text, rel))
    os.makedirs(os.path.join(EVID, "replays"), exist_ok=True)
    reported = []
    # a known finding must never mask a different violation: histories that have at least one
    # failure not matching a listed finding (on the unshrunk text) are handled first, with those
    # failures in front; a few histories that only show known findings follow (their shrunk form
    # must still match the finding, otherwise they are reported)
    if spec.get("engine") != "fs":
        unk_v, known_v = [], []
        for (hist, text, rel) in violations:
            unk = [f for f in rel if match_finding(prop, text, f, findings) is None]
            if unk:
                unk_v.append((hist, text, unk + [f for f in rel if f not in unk]))
            else:
                known_v.append((hist, text, rel))
        violations = unk_v[:3] + known_v[:2]
    for (hist, text, rel) in violations[:5]:
        f0 = rel[0]
        if f0.get("tbench_case"):
            # the same case may also contain a direct failure (a read that returns the wrong item)
            same = [f for f in rel if f.get("tbench_case") == f0["tbench_case"]]
            direct = next((f for f in same if is_direct(prop, f)), None)
            chosen = direct or f0
            note = "" if direct else " no-failing-input-found"
            hid = "tbench-" + f0["tbench_case"]
            rp = os.path.join(EVID, "replays", f"{prop}-{hid}.txt")
            open(rp, "w").write("# replay: harness/target/debug/lsmv tbench %s 1 /tmp/case.txt && ocaml/tbrunner /tmp/case.txt\n# failure: %s\n%s" % (
                f0["tbench_case"], chosen["line"],
                "" if direct else "# no read returned a wrong item; what no longer checks: byte-level correspondence '%s' between the crate's encoder and the Coq codec (theorems C12_datablock_* are about the modelled format)\n" % f0["kind"]))
            reported.append((rp, chosen, note))
            continue
        if spec.get("engine") == "fs":
            kf = None
            for f in rel:
                k2 = match_finding(prop, text, f, findings)
                if k2:
                    known_hits[k2["id"]] = k2
            rel_unknown = [f for f in rel if not match_finding(prop, text, f, findings)]
            if not rel_unknown:
                continue
            f0 = next((f for f in rel_unknown if f.get("fs_direct")), rel_unknown[0])
            hid = hashlib.sha1((text + f0["line"]).encode()).hexdigest()[:10]
            rp = os.path.join(EVID, "replays", f"{prop}-{hid}.hist")
            note = "" if f0.get("fs_direct") else " no-failing-input-found"
            open(rp, "w").write("# replay: python3 bin/fs_engine.py --mode %s --replay %s\n# failure: %s\n# %s\n%s" % (spec["fs_mode"], os.path.relpath(rp, ROOT), f0["line"], f0.get("fs_replay") or "", text))
            reported.append((rp, f0, note))
            continue
        if text.startswith("# corruption enumeration") or spec.get("engine") == "multi":
            kf = match_finding(prop, text, f0, findings)
            if kf:
                known_hits[kf["id"]] = kf
                continue
            hid = hashlib.sha1((text + f0["line"]).encode()).hexdigest()[:10]
            rp = os.path.join(EVID, "replays", f"{prop}-{hid}.hist")
            note = "" if is_direct(prop, f0) else " no-failing-input-found"
            open(rp, "w").write(("# replay (engine %s): re-run this history on several trees: harness/target/debug/lsmv multi <this file> <scratch> <prefix> <k> <seed> sep|shared|blobdiff\n" % spec.get("engine") if spec.get("engine") == "multi" else "") + "# failure: %s\n" % f0["line"] + text)
            reported.append((rp, f0, note))
            continue
        if text.startswith("# concurrent run"):
            # not replayable deterministically: the replay is the recorded trace itself
            kf = match_finding(prop, text, f0, findings)
            if kf:
                known_hits[kf["id"]] = kf
                continue
            hid = hashlib.sha1((text + f0["line"]).encode()).hexdigest()[:10]
            rp = os.path.join(EVID, "replays", f"{prop}-{hid}.trace")
            tr = hist[:-5] + ".trace"
            shutil.copy(tr, rp) if os.path.exists(tr) else open(rp, "w").write(text)
            open(rp + ".txt", "w").write("%s# failure: %s\n# analyse: ocaml/runner %s\n" % (text, f0["line"], os.path.relpath(rp, ROOT)))
            reported.append((rp, f0, ""))
            continue
        pred = lambda f, k=f0["kind"]: f["kind"] == k and relevant(f)
        small = shrink(text, workdir, pred, budget_s=90) if text else text
        # re-run the shrunk history to get its failure lines
        sp = os.path.join(workdir, "min.hist")
        open(sp, "w").write(small)
        fails2, _, _, _ = run_one(sp, workdir, "min")
        rel2 = [f for f in fails2 if relevant(f)] or rel
        rel2 = [f for f in rel2 if f["kind"] == f0["kind"]] + [f for f in rel2 if f["kind"] != f0["kind"]]
        kf = match_finding(prop, small, rel2[0], findings)
        if kf:
            known_hits[kf["id"]] = kf
            continue
        chosen = next((f for f in rel2 if is_direct(prop, f)), None)
        note = ""
        if chosen is None:
            # only certificates / model agreement broke: search for a concrete failing read
            ext = probe_extension(small)
            ep = os.path.join(workdir, "probe.hist")
            open(ep, "w").write(ext)
            fails3, _, _, _ = run_one(ep, workdir, "probe")
            hit = next((f for f in fails3 if relevant(f) and is_direct(prop, f)), None)
            if hit is not None:
                small = shrink(ext, workdir, lambda f, k=hit["kind"]: f["kind"] == k, budget_s=60)
                chosen = hit
            else:
                chosen = rel2[0]
                note = " no-failing-input-found"
        hid = hashlib.sha1(small.encode()).hexdigest()[:10]
        rp = os.path.join(EVID, "replays", f"{prop}-{hid}.hist")
        open(rp, "w").write("# replay: bin/check %s --replay %s\n# failure: %s\n%s" % (prop, os.path.relpath(rp, ROOT), chosen["line"],
                            ("# no concrete failing read was found by the probe search; what no longer checks: certificate/correspondence '%s' (%s)\n" % (chosen["kind"], chosen["detail"][:200])) if note else "") + small)
        reported.append((rp, chosen, note))
    # proof side
    proof_broken = not coq["ok"]
    rc = 0
    for kf in known_hits.values():
        print(f"KNOWN-FINDING: property={prop} {kf['what']}")
    for f in findings:
        # listed findings are always announced on the unchanged tree when their own replay reproduces
        pass
    if reported:
        rc = 1
        for rp, f, note in reported:
            print(f"VIOLATION property={prop} replay={rp}{note}")
            print("  " + f["line"][:300])
    if proof_broken:
        rc = 1
        rp = os.path.join(EVID, "replays", f"{prop}-proof.txt")
        open(rp, "w").write("proof obligation no longer checks: coq/Props/%s.v\n%s\naudit: %s\n" % (prop, coq.get("log", ""), coq.get("audit_problems")))
        if not reported:
            print(f"VIOLATION property={prop} replay={rp} no-failing-input-found")
    if gen_errs:
        rc = 1
        rp = os.path.join(EVID, "replays", f"{prop}-harness.txt")
        open(rp, "w").write("harness failure:\n" + "\n".join(gen_errs))
        print(f"VIOLATION property={prop} replay={rp} no-failing-input-found")
    ev = {
        "property_id": prop, "tier": tier, "seed": seed, "level": "proof",
        "coverage": {
            "obligations": coq["obligations"], "discharged": coq["discharged"],
            "checker_cmd": f"make -C coq Props/{prop}.vo && coqc -Q coq LsmV coq/Props/{prop}.v (Print Assumptions per theorem)",
            "trusted_base": TRUSTED_BASE + spec.get("tb_extra", []),
            "theorems": coq.get("theorems", []),
            "axioms_reported": coq.get("axioms", []),
            "coqchk_axioms": coq.get("coqchk_axioms", "not run in this tier (thorough only)"),
            "evaluations": evaluations if evaluations is not None else len(all_results),
            "distinct_nontrivial": nontrivial_override if nontrivial_override is not None else nontrivial,
            "rule": spec["rule"] if "rule" in spec else "histories generated from one PRNG seed per history (profiles %s, %d ops each) plus the corpus; distinct = distinct history text; non-trivial = at least one flush, one table-rewriting compaction and one point read answered from a table (plus the property's own condition)" % ([p for p, _, _ in spec["profiles"]], spec["n_ops"]),
            "samples": (extra_samples or samples),
            "traces_validated_against_impl": len(all_results),
            "impl_stats": agg,
            "model_drift": drift_lines[:10],
            "known_findings_hit": sorted(known_hits),
        },
        "assumptions": spec.get("assumptions", ["see trusted_base; sequential histories (concurrency is C06)", "Bloom filter as an arbitrary no-false-negative predicate at this level (byte level: C12)"]),
        "wall_s": round(time.time() - t0, 1),
        "violations": len(reported) + (1 if proof_broken else 0),
    }
    os.makedirs(EVID, exist_ok=True)
    json.dump(ev, open(os.path.join(EVID, f"{prop}.json"), "w"), indent=1)
    return rc


# ----------------------------------------------------------------------------- entry

def run_check(prop, tier, seed, replay, count_override):
    if prop not in PROPS:
        print(f"unknown property {prop}")
        return 2
    ok, out = ensure_runner()
    if not ok:
        print(out)
        rp = os.path.join(EVID, "replays", f"{prop}-build.txt")
        os.makedirs(os.path.dirname(rp), exist_ok=True)
        open(rp, "w").write(out)
        print(f"VIOLATION property={prop} replay={rp} no-failing-input-found")
        return 1
    ok, out = ensure_harness()
    if not ok:
        # the crate no longer builds with the hooks: cannot decide anything
        rp = os.path.join(EVID, "replays", f"{prop}-build.txt")
        os.makedirs(os.path.dirname(rp), exist_ok=True)
        open(rp, "w").write(out)
        print(out[-1500:])
        print(f"VIOLATION property={prop} replay={rp} no-failing-input-found")
        return 1
    if replay:
        fails, drifts, stat, trace = run_one(replay, os.path.join(WORK, prop + "-replay"), "replay")
        for f in fails:
            print(f["line"])
        for d in drifts:
            print(d)
        print("STAT", stat)
        rel = [f for f in fails if PROPS[prop]["relevant"](f)]
        return 1 if rel else 0
    coq = ensure_coq(prop, tier)
    eng = PROPS[prop]["engine"]
    if eng == "tree":
        return tree_engine(prop, tier, seed, count_override, coq)
    if eng == "fs":
        return fs_engine(prop, tier, seed, count_override, coq)
    if eng == "corrupt":
        return corrupt_engine(prop, tier, seed, count_override, coq)
    if eng == "conc":
        return conc_engine(prop, tier, seed, count_override, coq)
    if eng == "multi":
        return multi_engine(prop, tier, seed, count_override, coq)
    print("no engine")
    return 2
