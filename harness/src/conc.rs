// C06: real threads on one tree. One writer (seqno.next(); insert; publish), readers that
// take a snapshot from the visible-seqno counter (registered in a tracker so that GC
// watermarks never exceed a live snapshot), a rotate+flush thread, leveled compactors, an
// occasional major compaction. Every read is logged with its snapshot; what it must return
// is determined by the writer's log alone (all writes below the snapshot), whatever the
// schedule. Random sleeps/yields derived from the seed diversify the interleavings.

use crate::drive::Driver;
use crate::gen;
use crate::util::{hex, Rng};
use lsm_tree::{AbstractTree, AnyTree, Guard, SeqNo, SequenceNumberCounter, ValueType};
use std::collections::BTreeMap;
use std::fmt::Write as _;
use std::path::Path;
use std::sync::atomic::{AtomicBool, Ordering};
use std::sync::{Arc, Mutex};

#[derive(Default)]
struct Tracker(Mutex<BTreeMap<SeqNo, usize>>);

impl Tracker {
    /// read the visible counter and register the snapshot atomically w.r.t. `watermark`
    fn open(&self, visible: &SequenceNumberCounter) -> SeqNo {
        let mut m = self.0.lock().expect("lock");
        let s = visible.get();
        *m.entry(s).or_insert(0) += 1;
        s
    }
    fn close(&self, s: SeqNo) {
        let mut m = self.0.lock().expect("lock");
        if let Some(c) = m.get_mut(&s) {
            *c -= 1;
            if *c == 0 {
                m.remove(&s);
            }
        }
    }
    fn watermark(&self, visible: &SequenceNumberCounter) -> SeqNo {
        let m = self.0.lock().expect("lock");
        m.keys().next().copied().unwrap_or_else(|| visible.get())
    }
}

fn jitter(rng: &mut Rng, heavy: bool) {
    match rng.below(if heavy { 4 } else { 12 }) {
        0 => std::thread::sleep(std::time::Duration::from_micros(rng.range(1, 300))),
        1 | 2 => std::thread::yield_now(),
        _ => {}
    }
}

pub fn run(seed: u64, dir: &Path, blob: bool, n_writes: usize, writer_published: bool, preempt_writer: bool) -> String {
    let mut rng = Rng::new(seed ^ 0xC06C_06);
    let mut cfg = gen::rand_cfg(&mut rng, blob);
    cfg.cache_bytes = *rng.pick(&[0u64, 4096, 1 << 20]);
    let keys = gen::key_universe(&mut rng);
    let mut d = Driver::new(dir, cfg.clone());
    d.dump_enabled = false;
    // every second run: a compaction filter that keeps everything but is slow to finish, so that
    // the gap between the end of a merge and its commit is wide enough for other threads
    if seed % 2 == 0 {
        d.slow_filter_us = Some(*rng.pick(&[500u64, 3_000, 15_000]));
    }
    let mut out = String::new();
    let _ = writeln!(out, "C {}", cfg.text());
    if let Err(e) = d.open() {
        let _ = writeln!(out, "FATAL open {e}");
        return out;
    }
    let tree: AnyTree = d.tree().clone();
    let (seqno, visible) = d.counters();
    // what readers take snapshots from: either the crate's visible-seqno counter (which
    // version upgrades advance too), or a counter that only the writer advances after its
    // insert ("a snapshot the writer has already published")
    let snap_src = if writer_published { SequenceNumberCounter::default() } else { visible.clone() };
    let tracker = Arc::new(Tracker::default());
    let stop = Arc::new(AtomicBool::new(false));
    let log: Arc<Mutex<Vec<String>>> = Arc::default();
    let wlog: Arc<Mutex<Vec<String>>> = Arc::default();
    let n_flush = Arc::new(std::sync::atomic::AtomicU64::new(0));
    let n_compact = Arc::new(std::sync::atomic::AtomicU64::new(0));

    let mut handles = Vec::new();
    // writer
    {
        let tree = tree.clone();
        let (seqno, visible) = (seqno.clone(), visible.clone());
        let wpub = snap_src.clone();
        let keys = keys.clone();
        let wlog = wlog.clone();
        let log = log.clone();
        let mut rng = Rng::new(seed ^ 0x11);
        let stop = stop.clone();
        handles.push(std::thread::spawn(move || {
            let r = std::panic::catch_unwind(std::panic::AssertUnwindSafe(|| {
                let mut vn = 0u64;
                for _ in 0..n_writes {
                    let k = rng.pick(&keys).clone();
                    let s = seqno.next();
                    // an application thread may be preempted between drawing the seqno and
                    // inserting (this is what known finding K2 needs); only widened on request
                    if preempt_writer {
                        jitter(&mut rng, true);
                    }
                    if rng.chance(3, 4) {
                        let v = gen::rand_value(&mut rng, &mut vn, true);
                        tree.insert(k.clone(), v.clone(), s);
                        wlog.lock().expect("lock").push(format!("W {} {} V {}", hex(&k), s, hex(&v)));
                    } else {
                        tree.remove(k.clone(), s);
                        wlog.lock().expect("lock").push(format!("W {} {} T -", hex(&k), s));
                    }
                    visible.fetch_max(s + 1);
                    wpub.fetch_max(s + 1);
                    jitter(&mut rng, false);
                }
            }));
            if r.is_err() {
                log.lock().expect("lock").push("PANIC 0 writer".to_string());
            }
            stop.store(true, Ordering::SeqCst);
        }));
    }
    // readers
    for ri in 0..2u64 {
        let tree = tree.clone();
        let visible = snap_src.clone();
        let keys = keys.clone();
        let log = log.clone();
        let tracker = tracker.clone();
        let stop = stop.clone();
        let mut rng = Rng::new(seed ^ (0x22 + ri));
        handles.push(std::thread::spawn(move || {
            let r = std::panic::catch_unwind(std::panic::AssertUnwindSafe(|| {
                while !stop.load(Ordering::SeqCst) {
                    let s = tracker.open(&visible);
                    for _ in 0..rng.range(1, 4) {
                        jitter(&mut rng, false);
                        let k = rng.pick(&keys).clone();
                        if rng.chance(4, 5) {
                            let res = tree.get(&k, s);
                            // which superversion this snapshot resolves to right now (for
                            // classifying a late-write miss, known finding K2)
                            let rv = {
                                let idx = crate::drive::index_tree(&tree);
                                let sv = lsm_tree::verif::version_for_snapshot(idx, s);
                                let h = lsm_tree::verif::history(idx);
                                format!(
                                    "RV {} {} {}\n",
                                    s,
                                    sv.seqno,
                                    h.iter().map(|x| x.seqno.to_string()).collect::<Vec<_>>().join(",")
                                )
                            };
                            let line = match res {
                                Ok(v) => {
                                    let c = u8::from(v.is_some());
                                    let sz = v.as_ref().map_or(".".to_string(), |v| v.len().to_string());
                                    format!("O get {} {} {} {} {}", hex(&k), s, v.map_or(".".to_string(), |v| format!("v:{}", hex(&v))), c, sz)
                                }
                                Err(e) => format!("R err get {}", format!("{e:?}").replace(' ', "_")),
                            };
                            log.lock().expect("lock").push(format!("{rv}{line}"));
                        } else {
                            let rv = {
                                let idx = crate::drive::index_tree(&tree);
                                let sv = lsm_tree::verif::version_for_snapshot(idx, s);
                                let h = lsm_tree::verif::history(idx);
                                format!(
                                    "RV {} {} {}\n",
                                    s,
                                    sv.seqno,
                                    h.iter().map(|x| x.seqno.to_string()).collect::<Vec<_>>().join(",")
                                )
                            };
                            let mut res = String::new();
                            let mut n = 0;
                            let mut err = None;
                            for g in tree.iter(s, None) {
                                match g.into_inner() {
                                    Ok((k, v)) => {
                                        let _ = write!(res, " {}={}", hex(&k), hex(&v));
                                        n += 1;
                                    }
                                    Err(e) => {
                                        err = Some(format!("{e:?}"));
                                        break;
                                    }
                                }
                            }
                            let line = match err {
                                None => format!("O range u u {} {}{} .", s, "F".repeat(n + 1), res),
                                Some(e) => format!("R err scan {}", e.replace(' ', "_")),
                            };
                            log.lock().expect("lock").push(format!("{rv}{line}"));
                        }
                    }
                    tracker.close(s);
                }
            }));
            if r.is_err() {
                log.lock().expect("lock").push("PANIC 0 reader".to_string());
            }
        }));
    }
    // rotate + flush
    {
        let tree = tree.clone();
        let visible = snap_src.clone();
        let log = log.clone();
        let tracker = tracker.clone();
        let stop = stop.clone();
        let mut rng = Rng::new(seed ^ 0x33);
        let n_flush = n_flush.clone();
        handles.push(std::thread::spawn(move || {
            let r = std::panic::catch_unwind(std::panic::AssertUnwindSafe(|| {
                while !stop.load(Ordering::SeqCst) {
                    jitter(&mut rng, true);
                    if rng.chance(1, 2) {
                        let _ = tree.rotate_memtable();
                        jitter(&mut rng, false);
                    }
                    let w = if rng.chance(1, 3) { 0 } else { tracker.watermark(&visible) };
                    let res = if rng.chance(1, 2) {
                        tree.flush_active_memtable(w)
                    } else {
                        let lock = tree.get_flush_lock();
                        tree.flush(&lock, w).map(|_| ())
                    };
                    if let Err(e) = res {
                        log.lock().expect("lock").push(format!("R err flush {}", format!("{e:?}").replace(' ', "_")));
                    } else {
                        n_flush.fetch_add(1, Ordering::Relaxed);
                    }
                }
            }));
            if r.is_err() {
                log.lock().expect("lock").push("PANIC 0 flusher".to_string());
            }
        }));
    }
    // compactors
    for ci in 0..2u64 {
        let tree = tree.clone();
        let visible = snap_src.clone();
        let log = log.clone();
        let tracker = tracker.clone();
        let stop = stop.clone();
        let mut rng = Rng::new(seed ^ (0x44 + ci));
        let n_compact = n_compact.clone();
        handles.push(std::thread::spawn(move || {
            let r = std::panic::catch_unwind(std::panic::AssertUnwindSafe(|| {
                while !stop.load(Ordering::SeqCst) {
                    jitter(&mut rng, true);
                    let w = if rng.chance(1, 3) { 0 } else { tracker.watermark(&visible) };
                    let res = if ci == 1 && rng.chance(1, 6) {
                        tree.major_compact(*rng.pick(&[1u64, 300, 1 << 20]), w)
                    } else {
                        let s = Arc::new(
                            lsm_tree::compaction::Leveled::default()
                                .with_l0_threshold(*rng.pick(&[1u8, 2, 4]))
                                .with_table_target_size(*rng.pick(&[1u64, 200, 4096, 1 << 20])),
                        );
                        tree.compact(s, w)
                    };
                    if let Err(e) = res {
                        log.lock().expect("lock").push(format!("R err compact {}", format!("{e:?}").replace(' ', "_")));
                    } else {
                        n_compact.fetch_add(1, Ordering::Relaxed);
                    }
                }
            }));
            if r.is_err() {
                log.lock().expect("lock").push("PANIC 0 compactor".to_string());
            }
        }));
    }
    for h in handles {
        let _ = h.join();
    }
    // writes first (sorted by seqno), then every observation
    let mut w = wlog.lock().expect("lock").clone();
    w.sort_by_key(|l| l.split(' ').nth(2).and_then(|s| s.parse::<u64>().ok()).unwrap_or(0));
    let _ = writeln!(out, "H concurrent-run seed={seed} writes={}", w.len());
    for l in w {
        out.push_str(&l);
        out.push('\n');
    }
    for l in log.lock().expect("lock").iter() {
        out.push_str(l);
        out.push('\n');
    }
    let _ = writeln!(
        out,
        "STATC conc_flush_calls={} conc_compact_calls={} conc_threads=6",
        n_flush.load(Ordering::Relaxed),
        n_compact.load(Ordering::Relaxed)
    );
    // quiescent: final state must hold every acknowledged write and be structurally sound
    d.out.clear();
    d.dump_enabled = true;
    d.dump();
    out.push_str(&d.out);
    d.out.clear();
    for k in &keys {
        d.exec(&crate::ops::Op::GetMax(k.clone()));
    }
    d.exec(&crate::ops::Op::FlushActive(crate::ops::Wm::Zero));
    d.exec(&crate::ops::Op::Reopen);
    for k in &keys {
        d.exec(&crate::ops::Op::GetMax(k.clone()));
    }
    out.push_str(&d.out);
    d.close();
    let _ = writeln!(out, "END");
    out
}
