// Executes a history against the real crate and writes a trace (ops, writes, dumps,
// observations) for the extracted Coq model to check.

use crate::ops::{History, IngItem, Op, TreeCfg, Wm};
use crate::util::{hex, Bnd};
use lsm_tree::{
    compaction::{CompactionFilter, Factory, ItemAccessor, Verdict},
    config::{
        BlockSizePolicy, FilterPolicy, FilterPolicyEntry, HashRatioPolicy, PinningPolicy,
        RestartIntervalPolicy,
    },
    AbstractTree, AnyTree, Cache, Config, DescriptorTable, Guard, KvSeparationOptions, SeqNo,
    SequenceNumberCounter, Tree, ValueType,
};
use std::collections::{BTreeMap, HashMap, HashSet};
use std::fmt::Write as _;
use std::path::{Path, PathBuf};
use std::sync::{Arc, Mutex};

type VerdictTable = Arc<Mutex<HashMap<Vec<u8>, String>>>;
type FilterLog = Arc<Mutex<Vec<String>>>;

struct TableFilterFactory {
    table: VerdictTable,
    log: FilterLog,
}

struct TableFilter {
    table: VerdictTable,
    log: FilterLog,
}

impl std::panic::RefUnwindSafe for TableFilterFactory {}

/// A compaction filter that keeps every item and takes its time in `finish()` (C06: the
/// window between the end of a merge and its commit is as wide as the user's callback).
struct SlowKeepFactory {
    micros: u64,
}
struct SlowKeep {
    micros: u64,
}
impl Factory for SlowKeepFactory {
    fn name(&self) -> &str {
        "verif-slow-keep-filter"
    }
    fn make_filter(&self, _ctx: &lsm_tree::compaction::filter::Context) -> Box<dyn CompactionFilter> {
        Box::new(SlowKeep { micros: self.micros })
    }
}
impl CompactionFilter for SlowKeep {
    fn filter_item(&mut self, _item: ItemAccessor<'_>, _ctx: &lsm_tree::compaction::filter::Context) -> lsm_tree::Result<Verdict> {
        Ok(Verdict::Keep)
    }
    fn finish(self: Box<Self>) {
        std::thread::sleep(std::time::Duration::from_micros(self.micros));
    }
}

impl Factory for TableFilterFactory {
    fn name(&self) -> &str {
        "verif-table-filter"
    }
    fn make_filter(&self, _ctx: &lsm_tree::compaction::filter::Context) -> Box<dyn CompactionFilter> {
        Box::new(TableFilter {
            table: self.table.clone(),
            log: self.log.clone(),
        })
    }
}

impl CompactionFilter for TableFilter {
    fn filter_item(
        &mut self,
        item: ItemAccessor<'_>,
        _ctx: &lsm_tree::compaction::filter::Context,
    ) -> lsm_tree::Result<Verdict> {
        let key: Vec<u8> = item.key().to_vec();
        let value = item.value()?;
        let v = self
            .table
            .lock()
            .expect("lock")
            .get(&key)
            .cloned()
            .unwrap_or_else(|| "k".to_string());
        self.log
            .lock()
            .expect("lock")
            .push(format!("F {} {} {}", hex(&key), hex(&value), v));
        Ok(match v.as_str() {
            "k" => Verdict::Keep,
            "x" => Verdict::Remove,
            "w" => Verdict::RemoveWeak,
            "d" => Verdict::Destroy,
            s => {
                let r = s.strip_prefix("r:").expect("verdict");
                Verdict::ReplaceValue(crate::util::unhex(r).into())
            }
        })
    }
}

pub struct Driver {
    pub dir: PathBuf,
    pub cfg: TreeCfg,
    tree: Option<AnyTree>,
    seqno: SequenceNumberCounter,
    visible: SequenceNumberCounter,
    snaps: BTreeMap<u32, SeqNo>,
    pub out: String,
    dumped_tables: HashSet<u64>,
    dumped_mts: HashMap<u64, usize>,
    verdicts: VerdictTable,
    filter_log: FilterLog,
    cache: Arc<Cache>,
    dt: Option<Arc<DescriptorTable>>,
    clock: u64,
    pub dump_enabled: bool,
    pub list_files: bool,
    expect_err: bool,
    /// appended to every written value (multi-tree runs: makes the trees' data differ)
    pub vsuffix: Option<u8>,
    /// install a keep-everything compaction filter whose `finish()` sleeps this long
    pub slow_filter_us: Option<u64>,
    /// largest GC watermark passed to any maintenance call so far
    max_wm: SeqNo,
}

fn ty_code(t: ValueType) -> &'static str {
    match t {
        ValueType::Value => "V",
        ValueType::Tombstone => "T",
        ValueType::WeakTombstone => "W",
        ValueType::Indirection => "I",
    }
}

pub fn index_tree(t: &AnyTree) -> &Tree {
    match t {
        AnyTree::Standard(t) => t,
        AnyTree::Blob(b) => &b.index,
    }
}

impl Driver {
    pub fn new(dir: &Path, cfg: TreeCfg) -> Self {
        let cache = Arc::new(Cache::with_capacity_bytes(cfg.cache_bytes));
        let dt = if cfg.dt == 0 {
            None
        } else {
            Some(Arc::new(DescriptorTable::new(cfg.dt)))
        };
        Driver {
            dir: dir.to_path_buf(),
            cfg,
            tree: None,
            seqno: SequenceNumberCounter::default(),
            visible: SequenceNumberCounter::default(),
            snaps: BTreeMap::new(),
            out: String::new(),
            dumped_tables: HashSet::new(),
            dumped_mts: HashMap::new(),
            verdicts: Arc::default(),
            filter_log: Arc::default(),
            cache,
            dt,
            clock: 1_000_000,
            dump_enabled: true,
            list_files: true,
            expect_err: false,
            vsuffix: None,
            slow_filter_us: None,
            max_wm: 0,
        }
    }

    fn config(&self) -> Config {
        let c = &self.cfg;
        let mut config = Config::new(&self.dir, self.seqno.clone(), self.visible.clone())
            .use_cache(self.cache.clone())
            .use_descriptor_table(self.dt.clone())
            .data_block_size_policy(BlockSizePolicy::all(c.block_size))
            .data_block_restart_interval_policy(RestartIntervalPolicy::all(c.restart))
            .data_block_hash_ratio_policy(HashRatioPolicy::all(c.hash_ratio))
            .index_block_partitioning_policy(PinningPolicy::all(c.index_part))
            .filter_block_partitioning_policy(PinningPolicy::all(c.filter_part))
            .index_block_pinning_policy(PinningPolicy::all(c.pin_index))
            .filter_block_pinning_policy(PinningPolicy::all(c.pin_filter))
            .filter_policy(FilterPolicy::all(match c.filter {
                0 => FilterPolicyEntry::None,
                2 => FilterPolicyEntry::Bloom(
                    lsm_tree::config::BloomConstructionPolicy::FalsePositiveRate(0.01),
                ),
                _ => FilterPolicyEntry::Bloom(
                    lsm_tree::config::BloomConstructionPolicy::BitsPerKey(10.0),
                ),
            }))
            .expect_point_read_hits(c.filter == 3);
        if c.blob {
            config = config.with_kv_separation(Some(
                KvSeparationOptions::default()
                    .separation_threshold(c.sep_threshold)
                    .file_target_size(c.blob_target)
                    .staleness_threshold(c.staleness)
                    .age_cutoff(c.age_cutoff),
            ));
        }
        if c.cfilter {
            config = config.with_compaction_filter_factory(Some(Arc::new(TableFilterFactory {
                table: self.verdicts.clone(),
                log: self.filter_log.clone(),
            })));
        } else if let Some(us) = self.slow_filter_us {
            config = config.with_compaction_filter_factory(Some(Arc::new(SlowKeepFactory { micros: us })));
        }
        config
    }

    pub fn share(&mut self, cache: Arc<Cache>, dt: Option<Arc<DescriptorTable>>) {
        self.cache = cache;
        self.dt = dt;
    }

    pub fn open(&mut self) -> Result<(), String> {
        lsm_tree::verif::set_clock(Some(std::time::Duration::from_secs(self.clock)));
        let t = self.config().open().map_err(|e| format!("{e:?}"))?;
        self.tree = Some(t);
        Ok(())
    }

    pub fn counters(&self) -> (SequenceNumberCounter, SequenceNumberCounter) {
        (self.seqno.clone(), self.visible.clone())
    }

    pub fn tree(&self) -> &AnyTree {
        self.tree.as_ref().expect("tree open")
    }

    fn wm(&self, w: &Wm) -> SeqNo {
        let min = self
            .snaps
            .values()
            .copied()
            .min()
            .unwrap_or_else(|| self.visible.get());
        match w {
            Wm::Zero => 0,
            Wm::MinSnap => min,
            Wm::MinSnapM1 => min.saturating_sub(1),
            Wm::Abs(n) => *n,
        }
    }

    /// explicit-seqno reads are only meaningful for snapshots the usage protocol allows:
    /// not below a GC watermark that was already used, and resolvable in the history
    fn explicit_snapshot_ok(&self, s: SeqNo) -> bool {
        if s < self.max_wm {
            return false;
        }
        let any = self.tree.as_ref().expect("tree");
        let hist = lsm_tree::verif::history(index_tree(any));
        s == 0 || hist.iter().any(|sv| sv.seqno < s)
    }

    fn snap_seqno(&self, s: &Option<u32>) -> Option<SeqNo> {
        match s {
            None => Some(self.visible.get()),
            Some(id) => self.snaps.get(id).copied(),
        }
    }

    fn write(&mut self, k: &[u8], v: &[u8], ty: ValueType) {
        let mut vv = v.to_vec();
        if let (Some(x), ValueType::Value) = (self.vsuffix, ty) {
            vv.push(x);
        }
        let v: &[u8] = &vv;
        let s = self.seqno.next();
        let t = self.tree();
        match ty {
            ValueType::Value => {
                t.insert(k, v, s);
            }
            ValueType::Tombstone => {
                t.remove(k, s);
            }
            ValueType::WeakTombstone => {
                t.remove_weak(k, s);
            }
            ValueType::Indirection => unreachable!(),
        }
        self.visible.fetch_max(s + 1);
        let _ = writeln!(self.out, "W {} {} {} {}", hex(k), s, ty_code(ty), hex(v));
    }

    fn result_line(&mut self, what: &str, r: Result<(), String>) {
        match r {
            Ok(()) => {
                let _ = writeln!(self.out, "R ok {what}");
            }
            Err(e) => {
                let tag = if self.expect_err { "experr" } else { "err" };
                let _ = writeln!(self.out, "R {tag} {what} {}", e.replace(['\n', ' '], "_"));
            }
        }
    }

    fn scan(
        &mut self,
        kind: &str,
        desc: String,
        seqno: SeqNo,
        pulls: &str,
        mut it: Box<dyn DoubleEndedIterator<Item = lsm_tree::IterGuardImpl> + Send + 'static>,
    ) {
        let mut res = String::new();
        for p in pulls.chars() {
            let g = if p == 'F' { it.next() } else { it.next_back() };
            match g {
                None => res.push_str(" ."),
                Some(g) => match g.into_inner() {
                    Ok((k, v)) => {
                        let _ = write!(res, " {}={}", hex(&k), hex(&v));
                    }
                    Err(e) => {
                        let _ = write!(res, " ERR:{}", format!("{e:?}").replace(' ', "_"));
                    }
                },
            }
        }
        let _ = writeln!(self.out, "O {kind} {desc} {seqno} {pulls}{res}");
    }

    pub fn exec(&mut self, op: &Op) {
        let mark = std::env::var_os("LSMV_MARK").is_some();
        if mark {
            // visible in a syscall trace as a write to fd 2: segments the trace per operation
            eprintln!("LSMV-OP {}", op.text());
        }
        self.exec_inner(op);
        if mark {
            eprintln!("LSMV-OPEND {}", op.text());
        }
    }

    fn exec_inner(&mut self, op: &Op) {
        let _ = writeln!(self.out, "H {}", op.text());
        let mutating = !op.is_read()
            && !matches!(op, Op::Snap(_) | Op::Rel(_) | Op::Verdict(..) | Op::ExpectErr);
        let was_expecting = self.expect_err;
        match op {
            Op::ExpectErr => {
                self.expect_err = true;
            }
            Op::Put(k, v) => self.write(k, v, ValueType::Value),
            Op::Put2(k1, v1, k2, v2) => {
                // two writers: both draw their seqno, the one with the higher seqno inserts first
                let suffix = |v: &Vec<u8>, x: Option<u8>| {
                    let mut vv = v.clone();
                    if let Some(x) = x {
                        vv.push(x);
                    }
                    vv
                };
                let (v1, v2) = (suffix(v1, self.vsuffix), suffix(v2, self.vsuffix));
                let s1 = self.seqno.next();
                let s2 = self.seqno.next();
                {
                    let t = self.tree();
                    t.insert(k2, &v2, s2);
                    t.insert(k1, &v1, s1);
                }
                self.visible.fetch_max(s2 + 1);
                let _ = writeln!(self.out, "W {} {} V {}", hex(k1), s1, hex(&v1));
                let _ = writeln!(self.out, "W {} {} V {}", hex(k2), s2, hex(&v2));
            }
            Op::Del(k) => self.write(k, &[], ValueType::Tombstone),
            Op::WDel(k) => self.write(k, &[], ValueType::WeakTombstone),
            Op::Rotate => {
                let _ = self.tree().rotate_memtable();
            }
            Op::Flush(w) => {
                let w = self.wm(w);
                self.max_wm = self.max_wm.max(w);
                let _ = writeln!(self.out, "WM {w}");
                let r = {
                    let t = self.tree();
                    let lock = t.get_flush_lock();
                    t.flush(&lock, w).map(|_| ()).map_err(|e| format!("{e:?}"))
                };
                self.result_line("flush", r);
            }
            Op::FlushActive(w) => {
                let w = self.wm(w);
                self.max_wm = self.max_wm.max(w);
                let _ = writeln!(self.out, "WM {w}");
                let r = self
                    .tree()
                    .flush_active_memtable(w)
                    .map_err(|e| format!("{e:?}"));
                self.result_line("flushactive", r);
            }
            Op::Leveled { l0, target, w } => {
                let w = self.wm(w);
                self.max_wm = self.max_wm.max(w);
                let _ = writeln!(self.out, "WM {w}");
                let s = Arc::new(
                    lsm_tree::compaction::Leveled::default()
                        .with_l0_threshold(*l0)
                        .with_table_target_size(*target),
                );
                let r = self.tree().compact(s, w).map_err(|e| format!("{e:?}"));
                self.result_line("leveled", r);
            }
            Op::Major { target, w } => {
                let w = self.wm(w);
                self.max_wm = self.max_wm.max(w);
                let _ = writeln!(self.out, "WM {w}");
                let r = self
                    .tree()
                    .major_compact(*target, w)
                    .map_err(|e| format!("{e:?}"));
                self.result_line("major", r);
            }
            Op::MoveDown(a, b) | Op::PullDown(a, b) | Op::MoveDownU(a, b) | Op::PullDownU(a, b) => {
                let forced = matches!(op, Op::MoveDownU(..) | Op::PullDownU(..));
                let is_move = matches!(op, Op::MoveDown(..) | Op::MoveDownU(..));
                let v = self.tree().current_version();
                let between_empty = ((*a as usize + 1)..(*b as usize))
                    .all(|i| v.level(i).map_or(true, |l| l.is_empty()));
                if !forced && !between_empty {
                    let _ = writeln!(self.out, "SKIP unsafe-move");
                } else {
                    let _ = writeln!(self.out, "WM 0");
                    let r = if is_move {
                        let s = Arc::new(lsm_tree::compaction::MoveDown(*a, *b));
                        self.tree().compact(s, 0).map_err(|e| format!("{e:?}"))
                    } else {
                        let s = Arc::new(lsm_tree::compaction::PullDown(*a, *b));
                        self.tree().compact(s, 0).map_err(|e| format!("{e:?}"))
                    };
                    self.result_line(if is_move { "movedown" } else { "pulldown" }, r);
                }
            }
            Op::Fifo { limit, ttl, w } => {
                let w = self.wm(w);
                self.max_wm = self.max_wm.max(w);
                let _ = writeln!(self.out, "WM {w}");
                let _ = writeln!(self.out, "NOW {}", self.clock);
                let s = Arc::new(lsm_tree::compaction::Fifo::new(*limit, *ttl));
                let r = self.tree().compact(s, w).map_err(|e| format!("{e:?}"));
                self.result_line("fifo", r);
            }
            Op::DropRange(lo, hi) => {
                let r = self
                    .tree()
                    .drop_range::<Vec<u8>, _>((lo.to_std(), hi.to_std()))
                    .map_err(|e| format!("{e:?}"));
                self.result_line("droprange", r);
            }
            Op::Clear => {
                let r = self.tree().clear().map_err(|e| format!("{e:?}"));
                self.result_line("clear", r);
            }
            Op::Ingest(items) => {
                let r = (|| -> Result<(), String> {
                    let t = self.tree();
                    let mut ing = t.ingestion().map_err(|e| format!("{e:?}"))?;
                    for it in items {
                        match it {
                            IngItem::Put(k, v) => {
                                let mut vv = v.clone();
                                if let Some(x) = self.vsuffix {
                                    vv.push(x);
                                }
                                ing.write(k.clone(), vv).map_err(|e| format!("{e:?}"))?;
                            }
                            IngItem::Del(k) => ing
                                .write_tombstone(k.clone())
                                .map_err(|e| format!("{e:?}"))?,
                            IngItem::WDel(k) => ing
                                .write_weak_tombstone(k.clone())
                                .map_err(|e| format!("{e:?}"))?,
                        }
                    }
                    ing.finish().map_err(|e| format!("{e:?}"))
                })();
                // the ingested writes carry the global seqno allocated by finish(); the
                // runner reads it from the new table's gseq in the dump
                for it in items {
                    let _ = match it {
                        IngItem::Put(k, v) => {
                            let mut vv = v.clone();
                            if let Some(x) = self.vsuffix {
                                vv.push(x);
                            }
                            writeln!(self.out, "IW {} V {}", hex(k), hex(&vv))
                        }
                        IngItem::Del(k) => writeln!(self.out, "IW {} T -", hex(k)),
                        IngItem::WDel(k) => writeln!(self.out, "IW {} W -", hex(k)),
                    };
                }
                self.result_line("ingest", r);
            }
            Op::Reopen => {
                self.tree = None;
                self.snaps.clear();
                // ids may be handed out again by the new session
                self.dumped_tables.clear();
                self.dumped_mts.clear();
                self.max_wm = 0;
                // fresh counters, restarted above the highest persisted seqno (as documented
                // for recovery); decided after open
                self.seqno = SequenceNumberCounter::default();
                self.visible = SequenceNumberCounter::default();
                let r = self.open();
                if r.is_ok() {
                    let hi = self.tree().get_highest_seqno();
                    if let Some(hi) = hi {
                        self.seqno.set(hi + 1);
                        self.visible.set(hi + 1);
                    }
                }
                self.result_line("reopen", r);
                if self.tree.is_none() {
                    let _ = writeln!(self.out, "FATAL reopen failed");
                    return;
                }
            }
            Op::Clock(n) => {
                self.clock += n;
                lsm_tree::verif::set_clock(Some(std::time::Duration::from_secs(self.clock)));
            }
            Op::Verdict(k, v) => {
                self.verdicts.lock().expect("lock").insert(k.clone(), v.clone());
            }
            Op::Snap(id) => {
                let s = self.visible.get();
                self.snaps.insert(*id, s);
                let _ = writeln!(self.out, "K {id} {s}");
            }
            Op::Rel(id) => {
                self.snaps.remove(id);
                let _ = writeln!(self.out, "KR {id}");
            }
            Op::Get(k, s) => {
                if let Some(seqno) = self.snap_seqno(s) {
                    self.get(k, seqno);
                }
            }
            Op::GetMax(k) => self.get(k, SeqNo::MAX),
            Op::GetAt(_, s) | Op::RangeAt(_, _, _, s) if !self.explicit_snapshot_ok(*s) => {
                let _ = writeln!(self.out, "SKIP snapshot-not-allowed");
            }
            Op::GetAt(k, s) => self.get(k, *s),
            Op::RangeAt(lo, hi, pulls, s) => {
                let it = self
                    .tree()
                    .range::<Vec<u8>, _>((lo.to_std(), hi.to_std()), *s, None);
                self.scan("range", format!("{} {}", lo.text(), hi.text()), *s, pulls, it);
            }
            Op::Range(lo, hi, pulls, s) => {
                if let Some(seqno) = self.snap_seqno(s) {
                    let it = self
                        .tree()
                        .range::<Vec<u8>, _>((lo.to_std(), hi.to_std()), seqno, None);
                    self.scan("range", format!("{} {}", lo.text(), hi.text()), seqno, pulls, it);
                }
            }
            Op::ORange(lo, hi, pulls, s, items) => {
                if let Some(seqno) = self.snap_seqno(s) {
                    // the overlay's writes are newer than everything the snapshot sees: seqnos
                    // from the snapshot upwards (read-your-own-writes), overlay fully visible
                    let base = seqno.min(1 << 60);
                    let mt = lsm_tree::Memtable::new(u64::MAX - 7);
                    let mut txt = String::new();
                    for (j, (k, v)) in items.iter().enumerate() {
                        let sq = base + j as u64;
                        let iv = match v {
                            Some(v) => lsm_tree::InternalValue::from_components(k.clone(), v.clone(), sq, ValueType::Value),
                            None => lsm_tree::InternalValue::from_components(k.clone(), Vec::<u8>::new(), sq, ValueType::Tombstone),
                        };
                        mt.insert(iv);
                        let _ = write!(txt, "{}{}:{}:{}", if j == 0 { "" } else { "," }, hex(k), sq, v.as_ref().map_or("!".to_string(), |v| hex(v)));
                    }
                    if txt.is_empty() {
                        txt.push('-');
                    }
                    let it = self.tree().range::<Vec<u8>, _>(
                        (lo.to_std(), hi.to_std()),
                        seqno,
                        Some((Arc::new(mt), SeqNo::MAX)),
                    );
                    self.scan("orange", format!("{} {} {txt}", lo.text(), hi.text()), seqno, pulls, it);
                }
            }
            Op::Prefix(p, pulls, s) => {
                if let Some(seqno) = self.snap_seqno(s) {
                    let it = self.tree().prefix(p, seqno, None);
                    self.scan("prefix", hex(p), seqno, pulls, it);
                }
            }
            Op::Len(s) => {
                if let Some(seqno) = self.snap_seqno(s) {
                    let r = self.tree().len(seqno, None);
                    let _ = writeln!(self.out, "O len {seqno} {}", fmt_res(r.map(|x| x.to_string())));
                }
            }
            Op::IsEmpty(s) => {
                if let Some(seqno) = self.snap_seqno(s) {
                    let r = self.tree().is_empty(seqno, None);
                    let _ = writeln!(
                        self.out,
                        "O isempty {seqno} {}",
                        fmt_res(r.map(|x| u8::from(x).to_string()))
                    );
                }
            }
            Op::First(s) | Op::Last(s) => {
                if let Some(seqno) = self.snap_seqno(s) {
                    let first = matches!(op, Op::First(_));
                    let g = if first {
                        self.tree().first_key_value(seqno, None)
                    } else {
                        self.tree().last_key_value(seqno, None)
                    };
                    let r = match g {
                        None => ".".to_string(),
                        Some(g) => match g.into_inner() {
                            Ok((k, v)) => format!("{}={}", hex(&k), hex(&v)),
                            Err(e) => format!("ERR:{}", format!("{e:?}").replace(' ', "_")),
                        },
                    };
                    let _ = writeln!(
                        self.out,
                        "O {} {seqno} {r}",
                        if first { "first" } else { "last" }
                    );
                }
            }
        }
        if was_expecting {
            self.expect_err = false;
        }
        {
            let mut log = self.filter_log.lock().expect("lock");
            for l in log.drain(..) {
                self.out.push_str(&l);
                self.out.push('\n');
            }
        }
        if mutating && self.dump_enabled {
            self.dump();
        }
    }

    fn get(&mut self, k: &[u8], seqno: SeqNo) {
        let t = self.tree();
        let r = t.get(k, seqno);
        let c = t.contains_key(k, seqno);
        let sz = t.size_of(k, seqno);
        let rs = fmt_res(r.map(|o| o.map_or(".".to_string(), |v| format!("v:{}", hex(&v)))));
        let cs = fmt_res(c.map(|b| u8::from(b).to_string()));
        let ss = fmt_res(sz.map(|o| o.map_or(".".to_string(), |n| n.to_string())));
        let _ = writeln!(self.out, "O get {} {seqno} {rs} {cs} {ss}", hex(k));
    }

    /// Full logical dump of every retained super version.
    pub fn dump(&mut self) {
        let any = self.tree.as_ref().expect("tree");
        let tree = index_tree(any);
        let hist = lsm_tree::verif::history(tree);
        let mut body = String::new();
        for sv in &hist {
            // memtables
            let mut mts = vec![sv.active.clone()];
            mts.extend(sv.sealed.iter().cloned());
            for mt in &mts {
                let len = mt.len();
                if self.dumped_mts.get(&mt.id()) == Some(&len) {
                    continue;
                }
                self.dumped_mts.insert(mt.id(), len);
                let items: Vec<_> = mt.iter().collect();
                let _ = writeln!(body, "M {} {}", mt.id(), items.len());
                for e in items {
                    let _ = writeln!(
                        body,
                        "e {} {} {} {}",
                        hex(&e.key.user_key),
                        e.key.seqno,
                        ty_code(e.key.value_type),
                        hex(&e.value)
                    );
                }
            }
            // tables
            for table in sv.version.iter_tables() {
                if self.dumped_tables.contains(&table.id()) {
                    continue;
                }
                self.dumped_tables.insert(table.id());
                let (slo, shi) = lsm_tree::verif::table_seqnos(table);
                let mut ents = Vec::new();
                let mut bad = String::new();
                for item in table.iter() {
                    match item {
                        Ok(e) => ents.push(e),
                        Err(e) => bad = format!("{e:?}"),
                    }
                }
                // the two other read paths must agree with iter()
                let mut scan_ok = true;
                match table.scan() {
                    Ok(sc) => {
                        let v: Vec<_> = sc.filter_map(Result::ok).collect();
                        if v.len() != ents.len()
                            || v.iter().zip(ents.iter()).any(|(a, b)| {
                                a.key != b.key
                                    || a.key.value_type != b.key.value_type
                                    || a.value != b.value
                            })
                        {
                            scan_ok = false;
                        }
                    }
                    Err(_) => scan_ok = false,
                }
                let rv: Vec<_> = table.iter().rev().filter_map(Result::ok).collect();
                let rev_ok = rv.len() == ents.len()
                    && rv.iter().rev().zip(ents.iter()).all(|(a, b)| {
                        a.key == b.key
                            && a.key.value_type == b.key.value_type
                            && a.value == b.value
                    });
                let md = &table.metadata;
                let _ = writeln!(
                    body,
                    "T {} {} {} {} {} {} {} {} {} {} {} {} {}{}{}",
                    table.id(),
                    table.global_seqno(),
                    slo,
                    shi,
                    md.item_count,
                    md.tombstone_count,
                    md.weak_tombstone_count,
                    hex(md.key_range.min()),
                    hex(md.key_range.max()),
                    u128::from(md.created_at),
                    md.file_size,
                    table.get_highest_seqno(),
                    ents.len(),
                    if scan_ok && rev_ok { "" } else { " READPATHS-DISAGREE" },
                    if bad.is_empty() { String::new() } else { format!(" ITERERR:{}", bad.replace(' ', "_")) },
                );
                for e in ents {
                    if e.key.value_type == ValueType::Indirection {
                        let ptr = lsm_tree::verif::decode_indirection(&e.value);
                        let resolved = match any {
                            AnyTree::Blob(b) => {
                                match lsm_tree::verif::resolve(b, &sv.version, &e.key.user_key, &e.value) {
                                    Ok(Some(v)) => hex(&v),
                                    Ok(None) => "UNRESOLVED".to_string(),
                                    Err(err) => format!("ERR:{}", format!("{err:?}").replace(' ', "_")),
                                }
                            }
                            AnyTree::Standard(_) => "NOBLOBTREE".to_string(),
                        };
                        let (f, o, d, z) = ptr.unwrap_or((u64::MAX, 0, 0, 0));
                        let _ = writeln!(
                            body,
                            "e {} {} I {} {f} {o} {d} {z}",
                            hex(&e.key.user_key),
                            e.key.seqno,
                            resolved
                        );
                    } else {
                        let _ = writeln!(
                            body,
                            "e {} {} {} {}",
                            hex(&e.key.user_key),
                            e.key.seqno,
                            ty_code(e.key.value_type),
                            hex(&e.value)
                        );
                    }
                }
                if let Ok(l) = lsm_tree::verif::linked_blob_files(table) {
                    if !l.is_empty() {
                        let _ = writeln!(
                            body,
                            "L {} {}",
                            table.id(),
                            l.iter().map(|(a, b, c, d)| format!("{a}:{b}:{c}:{d}")).collect::<Vec<_>>().join(",")
                        );
                    }
                }
                // block structure (index handles + items with stored seqnos) and table-level
                // point reads at every (key, seqno) boundary: the extracted block-index model
                // (Model/BlockIndex.v) is validated and run on it
                match table.verif_blocks() {
                    Ok((kind, blocks)) => {
                        let _ = writeln!(body, "TB {} {} {}", table.id(), kind, blocks.len());
                        for (end_key, seqno, items) in &blocks {
                            let _ = writeln!(body, "BH {} {} {}", hex(end_key), seqno, items.len());
                            for e in items {
                                let _ = writeln!(
                                    body,
                                    "be {} {} {}",
                                    hex(&e.key.user_key),
                                    e.key.seqno,
                                    ty_code(e.key.value_type)
                                );
                            }
                        }
                        let g = table.global_seqno();
                        let mut probes: Vec<(Vec<u8>, u64)> = Vec::new();
                        for (_, _, items) in &blocks {
                            for e in items {
                                let s = e.key.seqno.saturating_add(g);
                                probes.push((e.key.user_key.to_vec(), s));
                                probes.push((e.key.user_key.to_vec(), s.saturating_add(1)));
                            }
                        }
                        for (end_key, _, _) in blocks.iter().take(64) {
                            probes.push((end_key.to_vec(), u64::MAX));
                        }
                        if probes.len() > 600 {
                            let step = probes.len() / 600 + 1;
                            probes = probes.into_iter().step_by(step).collect();
                        }
                        for (k, s) in probes {
                            let h = lsm_tree::table::filter::standard_bloom::Builder::get_hash(&k);
                            let r = match table.get(&k, s, h) {
                                Ok(Some(e)) => format!("{}:{}", e.key.seqno, ty_code(e.key.value_type)),
                                Ok(None) => ".".to_string(),
                                Err(e) => format!("ERR:{}", format!("{e:?}").replace(' ', "_")),
                            };
                            let _ = writeln!(body, "TG {} {} {} {}", table.id(), hex(&k), s, r);
                        }
                    }
                    Err(e) => {
                        let _ = writeln!(body, "TB {} ERR:{} 0", table.id(), format!("{e:?}").replace(' ', "_"));
                    }
                }
            }
        }
        // blob files / gc statistics of every retained version; every pointer of the
        // latest version must resolve against it
        if let AnyTree::Blob(b) = any {
            for sv in &hist {
                let files = lsm_tree::verif::blob_files(&sv.version);
                let gc = lsm_tree::verif::gc_stats(&sv.version);
                let j = |v: &Vec<(u64, u64, u64, u64)>| {
                    if v.is_empty() {
                        "-".to_string()
                    } else {
                        v.iter().map(|(a, b, c, d)| format!("{a}:{b}:{c}:{d}")).collect::<Vec<_>>().join(",")
                    }
                };
                let _ = writeln!(body, "B {} {} {}", sv.version.id(), j(&files), j(&gc));
            }
            if let Some(sv) = hist.last() {
                for table in sv.version.iter_tables() {
                    for item in table.iter().flatten() {
                        if item.key.value_type == ValueType::Indirection {
                            let ok = matches!(
                                lsm_tree::verif::resolve(b, &sv.version, &item.key.user_key, &item.value),
                                Ok(Some(_))
                            );
                            if !ok {
                                let _ = writeln!(
                                    body,
                                    "RESOLVEFAIL {} {} {} {}",
                                    sv.version.id(),
                                    table.id(),
                                    hex(&item.key.user_key),
                                    item.key.seqno
                                );
                            }
                        }
                    }
                }
            }
            let _ = writeln!(body, "BS {} {}", any.stale_blob_bytes(), any.blob_file_count());
        }
        self.out.push_str(&body);
        let (nt, nb, nm) = lsm_tree::verif::counters(tree);
        let _ = writeln!(
            self.out,
            "D {} vis={} ctr={} nt={nt} nb={nb} nm={nm} hp={} hm={} hs={}",
            hist.len(),
            self.visible.get(),
            self.seqno.get(),
            opt(any.get_highest_persisted_seqno()),
            opt(any.get_highest_memtable_seqno()),
            opt(any.get_highest_seqno()),
        );
        for sv in &hist {
            let sealed = if sv.sealed.is_empty() {
                "-".to_string()
            } else {
                sv.sealed
                    .iter()
                    .map(|m| m.id().to_string())
                    .collect::<Vec<_>>()
                    .join(",")
            };
            let mut lv = String::new();
            for (i, level) in sv.version.iter_levels().enumerate() {
                if i > 0 {
                    lv.push(';');
                }
                let runs: Vec<String> = level
                    .iter()
                    .map(|run| {
                        run.iter()
                            .map(|t| t.id().to_string())
                            .collect::<Vec<_>>()
                            .join(",")
                    })
                    .collect();
                lv.push_str(&runs.join("|"));
            }
            let _ = writeln!(
                self.out,
                "S {} {} {} {} {}",
                sv.seqno,
                sv.active.id(),
                sealed,
                sv.version.id(),
                if lv.is_empty() { "-" } else { &lv }
            );
        }
        if self.list_files {
            let mut files = Vec::new();
            list_dir(&self.dir, &self.dir, &mut files);
            files.sort();
            let _ = writeln!(self.out, "FILES {}", files.join(" "));
        }
    }

    pub fn close(&mut self) {
        self.tree = None;
    }
}

fn opt(x: Option<u64>) -> String {
    x.map_or("-".to_string(), |v| v.to_string())
}

fn fmt_res(r: lsm_tree::Result<String>) -> String {
    match r {
        Ok(s) => s,
        Err(e) => format!("ERR:{}", format!("{e:?}").replace(' ', "_")),
    }
}

pub fn list_dir(root: &Path, dir: &Path, out: &mut Vec<String>) {
    if let Ok(rd) = std::fs::read_dir(dir) {
        for ent in rd.flatten() {
            let p = ent.path();
            if p.is_dir() {
                list_dir(root, &p, out);
            } else {
                let rel = p.strip_prefix(root).expect("prefix");
                let sz = ent.metadata().map(|m| m.len()).unwrap_or(0);
                out.push(format!("{}:{}", rel.display(), sz));
            }
        }
    }
}

/// Runs one history in `dir`; returns the trace text. Panics inside the crate are caught
/// and reported as a `PANIC` line.
pub fn run_history(h: &History, dir: &Path, dump: bool) -> String {
    let mut d = Driver::new(dir, h.cfg.clone());
    d.dump_enabled = dump;
    let _ = writeln!(d.out, "C {}", h.cfg.text());
    if let Err(e) = d.open() {
        let _ = writeln!(d.out, "FATAL open {e}");
        return d.out;
    }
    if dump {
        d.dump();
    }
    for (i, op) in h.ops.iter().enumerate() {
        let r = std::panic::catch_unwind(std::panic::AssertUnwindSafe(|| d.exec(op)));
        if let Err(p) = r {
            let msg = p
                .downcast_ref::<String>()
                .cloned()
                .or_else(|| p.downcast_ref::<&str>().map(|s| (*s).to_string()))
                .unwrap_or_default();
            let _ = writeln!(d.out, "PANIC {i} {}", msg.replace(['\n', ' '], "_"));
            break;
        }
        if d.out.ends_with("FATAL reopen failed\n") {
            break;
        }
    }
    let _ = std::panic::catch_unwind(std::panic::AssertUnwindSafe(|| d.close()));
    let _ = writeln!(d.out, "END");
    d.out
}

#[allow(dead_code)]
pub fn bnd_unused(_: &Bnd) {}


/// Runs the same history on several trees in ONE process, operation by operation in
/// lock step. `shared`: all trees share one small block cache and one descriptor table and
/// hold different data (value suffix = tree index) while their table ids coincide.
pub fn run_multi(h: &History, cfgs: &[TreeCfg], base: &Path, shared: bool, cache_bytes: u64, dt_cap: usize) -> Vec<String> {
    let cache = Arc::new(Cache::with_capacity_bytes(cache_bytes));
    let dt = if dt_cap == 0 { None } else { Some(Arc::new(DescriptorTable::new(dt_cap))) };
    let mut drivers: Vec<Driver> = Vec::new();
    for (j, c) in cfgs.iter().enumerate() {
        let dir = base.join(format!("t{j}"));
        let _ = std::fs::remove_dir_all(&dir);
        std::fs::create_dir_all(&dir).expect("mkdir");
        let mut d = Driver::new(&dir, c.clone());
        if shared {
            d.share(cache.clone(), dt.clone());
            d.vsuffix = Some(j as u8 + 1);
        }
        let _ = writeln!(d.out, "C {}", c.text());
        if let Err(e) = d.open() {
            let _ = writeln!(d.out, "FATAL open {e}");
        } else {
            d.dump();
        }
        drivers.push(d);
    }
    let mut dead = vec![false; drivers.len()];
    for (i, op) in h.ops.iter().enumerate() {
        for (j, d) in drivers.iter_mut().enumerate() {
            if dead[j] || d.tree.is_none() {
                continue;
            }
            let r = std::panic::catch_unwind(std::panic::AssertUnwindSafe(|| d.exec(op)));
            if let Err(p) = r {
                let msg = p
                    .downcast_ref::<String>()
                    .cloned()
                    .or_else(|| p.downcast_ref::<&str>().map(|s| (*s).to_string()))
                    .unwrap_or_default();
                let _ = writeln!(d.out, "PANIC {i} {}", msg.replace(['\n', ' '], "_"));
                dead[j] = true;
            }
        }
    }
    drivers
        .into_iter()
        .map(|mut d| {
            let _ = std::panic::catch_unwind(std::panic::AssertUnwindSafe(|| d.close()));
            let _ = writeln!(d.out, "END");
            d.out
        })
        .collect()
}


/// Runs a history and leaves the (closed) tree directory in place.
pub fn run_history_keep(h: &History, dir: &Path) -> String {
    run_history_keep_opt(h, dir, false)
}

pub fn run_history_keep_opt(h: &History, dir: &Path, dump: bool) -> String {
    let mut d = Driver::new(dir, h.cfg.clone());
    d.dump_enabled = dump;
    let mark = std::env::var_os("LSMV_MARK").is_some();
    if mark {
        eprintln!("LSMV-OP open");
    }
    if let Err(e) = d.open() {
        return format!("FATAL open {e}");
    }
    if mark {
        eprintln!("LSMV-OPEND open");
    }
    if dump {
        d.dump();
    }
    for op in &h.ops {
        let r = std::panic::catch_unwind(std::panic::AssertUnwindSafe(|| d.exec(op)));
        if r.is_err() {
            let _ = writeln!(d.out, "PANIC");
            break;
        }
    }
    let _ = std::panic::catch_unwind(std::panic::AssertUnwindSafe(|| d.close()));
    d.out
}
