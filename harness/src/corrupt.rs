// C10: fault enumeration on persisted files. Builds a small tree from a generated history,
// closes it, then for each mutation (byte change / truncation of one file) reopens a copy
// of the directory and classifies the outcome of a fixed read-out against the baseline:
//   identical | error | DIFFERENT | panic

use crate::drive::Driver;
use crate::gen;
use crate::ops::{History, Op, TreeCfg, Wm};
use crate::util::{hex, Rng};
use lsm_tree::{AbstractTree, Guard, SeqNo};
use std::fmt::Write as _;
use std::path::{Path, PathBuf};

fn copy_dir(src: &Path, dst: &Path) {
    let _ = std::fs::remove_dir_all(dst);
    std::fs::create_dir_all(dst).expect("mkdir");
    for ent in std::fs::read_dir(src).expect("readdir").flatten() {
        let p = ent.path();
        let d = dst.join(ent.file_name());
        if p.is_dir() {
            copy_dir(&p, &d);
        } else {
            std::fs::copy(&p, &d).expect("copy");
        }
    }
}

fn list_files(root: &Path, dir: &Path, out: &mut Vec<PathBuf>) {
    for ent in std::fs::read_dir(dir).expect("readdir").flatten() {
        let p = ent.path();
        if p.is_dir() {
            list_files(root, &p, out);
        } else {
            out.push(p.strip_prefix(root).expect("prefix").to_path_buf());
        }
    }
}

/// the fixed read-out: every key at several snapshots, scans from both ends, len.
/// One segment per query, separated by `|`; a query that fails yields what it had produced
/// so far followed by `ERR` (so that a later query is still performed and compared).
fn readout(dir: &Path, cfg: &TreeCfg, keys: &[Vec<u8>], seqs: &[SeqNo], compact: bool) -> String {
    let r = std::panic::catch_unwind(std::panic::AssertUnwindSafe(|| -> Result<String, String> {
        let mut d = Driver::new(dir, cfg.clone());
        d.dump_enabled = false;
        d.open().map_err(|e| format!("open:{e}"))?;
        let t = d.tree();
        let mut out = String::new();
        // second phase (compact = true): a major compaction reads every table through the
        // compaction scanner and rewrites it; whatever it produces from damaged bytes must not be
        // served afterwards either
        for phase in 0..(if compact { 2 } else { 1 }) {
        if phase == 1 {
            match t.major_compact(u64::MAX, 0) {
                Ok(()) => out.push_str("CMP;|"),
                Err(_) => out.push_str("ERR|"),
            }
        }
        for s in seqs {
            for k in keys {
                match t.get(k, *s) {
                    Ok(v) => {
                        let _ = write!(out, "{}@{}={};|", hex(k), s, v.map_or(".".to_string(), |v| hex(&v)));
                    }
                    Err(_) => out.push_str("ERR|"),
                }
            }
            let mut n = 0usize;
            let mut scan_ok = true;
            for g in t.iter(*s, None) {
                match g.into_inner() {
                    Ok((k, v)) => {
                        let _ = write!(out, "F{}={};", hex(&k), hex(&v));
                        n += 1;
                    }
                    Err(_) => {
                        out.push_str("ERR");
                        scan_ok = false;
                        break;
                    }
                }
            }
            out.push('|');
            for g in t.iter(*s, None).rev() {
                match g.into_inner() {
                    Ok((k, v)) => {
                        let _ = write!(out, "B{}={};", hex(&k), hex(&v));
                    }
                    Err(_) => {
                        out.push_str("ERR");
                        break;
                    }
                }
            }
            out.push('|');
            match t.len(*s, None) {
                Ok(l) => {
                    if scan_ok && l != n {
                        let _ = write!(out, "LEN{l}!={n};");
                    }
                }
                Err(_) => out.push_str("ERR"),
            }
            out.push('|');
        }
        }
        d.close();
        Ok(out)
    }));
    match r {
        Ok(Ok(s)) => s,
        Ok(Err(e)) => format!("ERR {}", e.replace(' ', "_")),
        Err(p) => {
            let msg = p
                .downcast_ref::<String>()
                .cloned()
                .or_else(|| p.downcast_ref::<&str>().map(|s| (*s).to_string()))
                .unwrap_or_default();
            format!("PANIC {}", msg.replace(['\n', ' '], "_"))
        }
    }
}

/// Runs the read-out in a forked child so that a process abort (e.g. an allocation of a
/// corrupted, absurd length) is observed as an outcome instead of killing the enumeration.
fn readout_isolated(dir: &Path, cfg: &TreeCfg, keys: &[Vec<u8>], seqs: &[SeqNo], tmp: &Path, compact: bool) -> String {
    let _ = std::fs::remove_file(tmp);
    // SAFETY: plain fork/waitpid; the child only runs the read-out and exits
    unsafe {
        let pid = libc::fork();
        if pid == 0 {
            // cap the address space so that absurd allocations fail fast
            let lim = libc::rlimit { rlim_cur: 4 << 30, rlim_max: 4 << 30 };
            libc::setrlimit(libc::RLIMIT_AS, &lim);
            // a read that never returns is neither an error nor the original answer: bound it
            let cpu = libc::rlimit { rlim_cur: 30, rlim_max: 35 };
            libc::setrlimit(libc::RLIMIT_CPU, &cpu);
            libc::alarm(60);
            let r = readout(dir, cfg, keys, seqs, compact);
            let _ = std::fs::write(tmp, r);
            libc::_exit(0);
        }
        let mut status: libc::c_int = 0;
        libc::waitpid(pid, &mut status, 0);
        if libc::WIFSIGNALED(status) {
            let sig = libc::WTERMSIG(status);
            if sig == libc::SIGXCPU || sig == libc::SIGALRM || sig == libc::SIGKILL {
                return format!("HANG signal={sig}");
            }
            return format!("ABORT signal={sig}");
        }
    }
    std::fs::read_to_string(tmp).unwrap_or_else(|_| "ABORT no-result".to_string())
}

/// every query of the mutated read-out either equals the baseline's or failed after producing
/// a prefix of the baseline's items
fn segments_ok(baseline: &str, r: &str) -> bool {
    let a: Vec<&str> = baseline.split('|').collect();
    let b: Vec<&str> = r.split('|').collect();
    a.len() == b.len()
        && a.iter().zip(b.iter()).all(|(x, y)| {
            x == y || y.strip_suffix("ERR").is_some_and(|p| x.starts_with(p) && (p.is_empty() || p.ends_with(';')))
        })
}

fn file_kind(rel: &Path) -> &'static str {
    let s = rel.to_string_lossy();
    if s.starts_with("tables/") {
        "table"
    } else if s.starts_with("blobs/") {
        "blob"
    } else if s == "current" {
        "current"
    } else if s.starts_with('v') {
        "version"
    } else {
        "other"
    }
}

/// `exhaustive`: every byte of every file (one mutation each) and every truncation length;
/// otherwise `samples` random positions per file x 3 mutations + 8 truncation lengths.
pub fn run(seed: u64, scratch: &Path, blob: bool, exhaustive: bool, samples: u64) -> String {
    let mut out = String::new();
    let mut rng = Rng::new(seed ^ 0xC0_44_07);
    // a small history that leaves several tables in at least two levels
    let mut h: History = gen::generate(if blob { "blob" } else { "tree" }, seed, 40, blob);
    h.ops.retain(|o| !o.is_read() && !matches!(o, Op::Reopen | Op::Snap(_) | Op::Rel(_) | Op::Clear | Op::DropRange(..)));
    h.ops.push(Op::FlushActive(Wm::Zero));
    h.cfg.block_size = *rng.pick(&[64u32, 256, 4096]);
    let base = scratch.join("base");
    let _ = std::fs::remove_dir_all(&base);
    std::fs::create_dir_all(&base).expect("mkdir");
    let mut keys: Vec<Vec<u8>> = Vec::new();
    let mut nwrites: u64 = 0;
    for o in &h.ops {
        match o {
            Op::Put(k, _) | Op::Del(k) | Op::WDel(k) => {
                nwrites += 1;
                if !keys.contains(k) {
                    keys.push(k.clone());
                }
            }
            Op::Ingest(items) => {
                nwrites += 1;
                for it in items {
                    let k = match it {
                        crate::ops::IngItem::Put(k, _) | crate::ops::IngItem::Del(k) | crate::ops::IngItem::WDel(k) => k,
                    };
                    if !keys.contains(k) {
                        keys.push(k.clone());
                    }
                }
            }
            _ => {}
        }
    }
    keys.sort();
    let _ = crate::drive::run_history_keep(&h, &base);
    let seqs: Vec<SeqNo> = vec![SeqNo::MAX, nwrites / 2 + 1, 1];
    let _ = writeln!(out, "CFG {}", h.cfg.text());
    let baseline = readout(&base, &h.cfg, &keys, &seqs, false);
    // baseline of the two-phase read-out (reads, major compaction, reads again), on a copy
    let work2 = scratch.join("work2");
    copy_dir(&base, &work2);
    let baseline2 = readout(&work2, &h.cfg, &keys, &seqs, true);
    let _ = std::fs::remove_dir_all(&work2);
    if baseline.starts_with("ERR") || baseline.starts_with("PANIC") {
        let _ = writeln!(out, "BASELINE-BROKEN {baseline}");
        let _ = writeln!(out, "END");
        return out;
    }
    // the read-out must be reproducible before anything is mutated
    let work = scratch.join("work");
    copy_dir(&base, &work);
    if readout(&work, &h.cfg, &keys, &seqs, false) != baseline {
        let _ = writeln!(out, "BASELINE-UNSTABLE");
    }
    let mut files = Vec::new();
    list_files(&base, &base, &mut files);
    files.sort();
    let mut counts: std::collections::BTreeMap<(String, &'static str), u64> = std::collections::BTreeMap::new();
    let mut total = 0u64;
    let mut total2 = 0u64;
    for rel in &files {
        let content = std::fs::read(base.join(rel)).expect("read");
        let kind = file_kind(rel);
        let _ = writeln!(out, "FILE {} {} {}", rel.display(), kind, content.len());
        let mut muts: Vec<(usize, u8, &'static str)> = Vec::new(); // (offset, new byte, label); label "trunc": offset = new length
        if exhaustive {
            for (i, b) in content.iter().enumerate() {
                muts.push((i, b ^ (1u8 << rng.below(8)), "flip"));
            }
            for l in 0..content.len() {
                muts.push((l, 0, "trunc"));
            }
        } else if !content.is_empty() {
            let mut pos: Vec<usize> = vec![0, content.len() - 1, content.len() / 2];
            for _ in 0..samples {
                pos.push(rng.below(content.len() as u64) as usize);
            }
            for p in pos {
                muts.push((p, content[p] ^ (1u8 << rng.below(8)), "flip"));
                if content[p] != 0 {
                    muts.push((p, 0, "zero"));
                }
                if content[p] != 0xff {
                    muts.push((p, 0xff, "ff"));
                }
            }
            for _ in 0..8 {
                muts.push((rng.below(content.len() as u64) as usize, 0, "trunc"));
            }
        }
        for (off, nb, label) in muts {
            copy_dir(&base, &work);
            let mut c = content.clone();
            if label == "trunc" {
                c.truncate(off);
            } else {
                c[off] = nb;
            }
            std::fs::write(work.join(rel), &c).expect("write");
            // table and blob files: also compact after the reads and read again
            let two_phase = (kind == "table" || kind == "blob") && !baseline2.starts_with("ERR") && !baseline2.starts_with("PANIC");
            let r = readout_isolated(&work, &h.cfg, &keys, &seqs, &scratch.join("result.txt"), two_phase);
            let baseline = if two_phase { &baseline2 } else { &baseline };
            if two_phase {
                total2 += 1;
            }
            total += 1;
            if std::env::var_os("LSMV_DEBUG_CORRUPT").is_some() && kind == "table" && r != *baseline {
                let a: Vec<&str> = baseline.split('|').collect();
                let b: Vec<&str> = r.split('|').collect();
                let nerr = b.iter().filter(|x| x.ends_with("ERR")).count();
                let ndiff = a.iter().zip(b.iter()).filter(|(x, y)| x != y && !y.ends_with("ERR")).count();
                let cmp = b.iter().position(|x| *x == "CMP;");
                eprintln!("DBG {} off={} {} segs={}/{} err={} diff_nonerr={} cmp_at={:?}", rel.display(), off, label, b.len(), a.len(), nerr, ndiff, cmp);
            }
            let class = if r == *baseline {
                "identical"
            } else if r.starts_with("ERR ") || segments_ok(baseline, &r) {
                "error"
            } else if r.starts_with("HANG") {
                "HANG"
            } else if r.starts_with("PANIC") || r.starts_with("ABORT") {
                "panic"
            } else {
                "DIFFERENT"
            };
            *counts.entry((kind.to_string(), class)).or_insert(0) += 1;
            if class == "DIFFERENT" || class == "panic" || class == "HANG" {
                // first difference, for the replay
                let diff = if class == "panic" || class == "HANG" {
                    r.chars().take(160).collect::<String>()
                } else {
                    let a: Vec<&str> = baseline.split('|').collect();
                    let b: Vec<&str> = r.split('|').collect();
                    let i = a
                        .iter()
                        .zip(b.iter())
                        .position(|(x, y)| !segments_ok(x, y))
                        .unwrap_or(a.len().min(b.len()));
                    format!("baseline[{}]={} mutated={}", i, a.get(i).unwrap_or(&"<end>"), b.get(i).unwrap_or(&"<end>"))
                };
                let _ = writeln!(out, "MUT {} {} {} {} {} {}", rel.display(), kind, off, label, class, diff);
            }
        }
    }
    for ((k, c), n) in &counts {
        let _ = writeln!(out, "COUNT {k} {c} {n}");
    }
    let _ = writeln!(out, "TOTAL {total} files={} twophase={total2}", files.len());
    let _ = std::fs::remove_dir_all(&work);
    let _ = std::fs::remove_dir_all(&base);
    let _ = writeln!(out, "END");
    out
}
