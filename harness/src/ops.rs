// History language: one operation per line. A history file starts with one `cfg ...` line.

use crate::util::{hex, unhex, Bnd};

/// Watermark expression, resolved by the driver when the op runs.
#[derive(Clone, Debug, PartialEq, Eq)]
pub enum Wm {
    Zero,
    /// min over live snapshots (the visible seqno if none is held)
    MinSnap,
    /// MinSnap - 1 (saturating)
    MinSnapM1,
    Abs(u64),
}

impl Wm {
    pub fn text(&self) -> String {
        match self {
            Wm::Zero => "0".into(),
            Wm::MinSnap => "min".into(),
            Wm::MinSnapM1 => "min-1".into(),
            Wm::Abs(n) => format!("abs:{n}"),
        }
    }
    pub fn parse(s: &str) -> Wm {
        match s {
            "0" => Wm::Zero,
            "min" => Wm::MinSnap,
            "min-1" => Wm::MinSnapM1,
            _ => Wm::Abs(s.strip_prefix("abs:").expect("wm").parse().expect("wm")),
        }
    }
}

/// Item of an ingestion batch
#[derive(Clone, Debug, PartialEq, Eq)]
pub enum IngItem {
    Put(Vec<u8>, Vec<u8>),
    Del(Vec<u8>),
    WDel(Vec<u8>),
}

#[derive(Clone, Debug, PartialEq, Eq)]
pub enum Op {
    Put(Vec<u8>, Vec<u8>),
    /// two writers draw consecutive seqnos and reach the memtable in the opposite order
    Put2(Vec<u8>, Vec<u8>, Vec<u8>, Vec<u8>),
    Del(Vec<u8>),
    WDel(Vec<u8>),
    Rotate,
    /// flush all sealed memtables (no rotate)
    Flush(Wm),
    /// rotate + flush (flush_active_memtable)
    FlushActive(Wm),
    Leveled { l0: u8, target: u64, w: Wm },
    Major { target: u64, w: Wm },
    /// executed only when every level strictly between source and destination is empty
    MoveDown(u8, u8),
    PullDown(u8, u8),
    /// unconditional variants (known-unsafe test-only strategies)
    MoveDownU(u8, u8),
    PullDownU(u8, u8),
    Fifo { limit: u64, ttl: Option<u64>, w: Wm },
    DropRange(Bnd, Bnd),
    Clear,
    Ingest(Vec<IngItem>),
    Reopen,
    /// advance the overridden clock by n seconds
    Clock(u64),
    /// install verdict for (key): k=keep r:<hex>=replace x=remove w=removeweak d=destroy
    Verdict(Vec<u8>, String),
    Snap(u32),
    Rel(u32),
    Get(Vec<u8>, Option<u32>),
    Range(Bnd, Bnd, String, Option<u32>),
    /// range scan with an overlay memtable: (key, Some(value)) = write, (key, None) = delete
    ORange(Bnd, Bnd, String, Option<u32>, Vec<(Vec<u8>, Option<Vec<u8>>)>),
    Prefix(Vec<u8>, String, Option<u32>),
    Len(Option<u32>),
    First(Option<u32>),
    Last(Option<u32>),
    IsEmpty(Option<u32>),
    /// read at SeqNo::MAX
    GetMax(Vec<u8>),
    /// the next operation is allowed to return an error (reported as `R experr`)
    ExpectErr,
    /// point read at an explicit snapshot seqno
    GetAt(Vec<u8>, u64),
    /// scan at an explicit snapshot seqno
    RangeAt(Bnd, Bnd, String, u64),
}

fn snap_text(s: &Option<u32>) -> String {
    match s {
        Some(n) => format!("@{n}"),
        None => "@-".into(),
    }
}
fn snap_parse(s: &str) -> Option<u32> {
    let r = s.strip_prefix('@').expect("snap");
    if r == "-" {
        None
    } else {
        Some(r.parse().expect("snap id"))
    }
}

impl Op {
    pub fn is_read(&self) -> bool {
        matches!(
            self,
            Op::Get(..)
                | Op::Range(..)
                | Op::ORange(..)
                | Op::Prefix(..)
                | Op::Len(..)
                | Op::First(..)
                | Op::Last(..)
                | Op::IsEmpty(..)
                | Op::GetMax(..)
                | Op::GetAt(..)
                | Op::RangeAt(..)
        )
    }

    pub fn text(&self) -> String {
        match self {
            Op::Put(k, v) => format!("put {} {}", hex(k), hex(v)),
            Op::Put2(k1, v1, k2, v2) => format!("put2 {} {} {} {}", hex(k1), hex(v1), hex(k2), hex(v2)),
            Op::Del(k) => format!("del {}", hex(k)),
            Op::WDel(k) => format!("wdel {}", hex(k)),
            Op::Rotate => "rotate".into(),
            Op::Flush(w) => format!("flush {}", w.text()),
            Op::FlushActive(w) => format!("flushactive {}", w.text()),
            Op::Leveled { l0, target, w } => format!("leveled {l0} {target} {}", w.text()),
            Op::Major { target, w } => format!("major {target} {}", w.text()),
            Op::MoveDown(a, b) => format!("movedown {a} {b}"),
            Op::PullDown(a, b) => format!("pulldown {a} {b}"),
            Op::MoveDownU(a, b) => format!("movedown! {a} {b}"),
            Op::PullDownU(a, b) => format!("pulldown! {a} {b}"),
            Op::Fifo { limit, ttl, w } => format!(
                "fifo {limit} {} {}",
                ttl.map_or("-".to_string(), |t| t.to_string()),
                w.text()
            ),
            Op::DropRange(lo, hi) => format!("droprange {} {}", lo.text(), hi.text()),
            Op::Clear => "clear".into(),
            Op::Ingest(items) => {
                let mut s = "ingest".to_string();
                for it in items {
                    match it {
                        IngItem::Put(k, v) => s.push_str(&format!(" p:{}:{}", hex(k), hex(v))),
                        IngItem::Del(k) => s.push_str(&format!(" d:{}", hex(k))),
                        IngItem::WDel(k) => s.push_str(&format!(" w:{}", hex(k))),
                    }
                }
                s
            }
            Op::Reopen => "reopen".into(),
            Op::ExpectErr => "expecterr".into(),
            Op::GetAt(k, s) => format!("getat {} {s}", hex(k)),
            Op::RangeAt(lo, hi, p, s) => format!("rangeat {} {} {p} {s}", lo.text(), hi.text()),
            Op::Clock(n) => format!("clock {n}"),
            Op::Verdict(k, v) => format!("verdict {} {v}", hex(k)),
            Op::Snap(n) => format!("snap {n}"),
            Op::Rel(n) => format!("rel {n}"),
            Op::Get(k, s) => format!("get {} {}", hex(k), snap_text(s)),
            Op::GetMax(k) => format!("getmax {}", hex(k)),
            Op::Range(lo, hi, p, s) => {
                format!("range {} {} {p} {}", lo.text(), hi.text(), snap_text(s))
            }
            Op::ORange(lo, hi, p, s, items) => {
                let it = if items.is_empty() {
                    "-".to_string()
                } else {
                    items
                        .iter()
                        .map(|(k, v)| match v {
                            Some(v) => format!("{}:{}", hex(k), hex(v)),
                            None => format!("{}:!", hex(k)),
                        })
                        .collect::<Vec<_>>()
                        .join(",")
                };
                format!("orange {} {} {p} {} {it}", lo.text(), hi.text(), snap_text(s))
            }
            Op::Prefix(k, p, s) => format!("prefix {} {p} {}", hex(k), snap_text(s)),
            Op::Len(s) => format!("len {}", snap_text(s)),
            Op::First(s) => format!("first {}", snap_text(s)),
            Op::Last(s) => format!("last {}", snap_text(s)),
            Op::IsEmpty(s) => format!("isempty {}", snap_text(s)),
        }
    }

    pub fn parse(line: &str) -> Op {
        let t: Vec<&str> = line.split_whitespace().collect();
        match t[0] {
            "put" => Op::Put(unhex(t[1]), unhex(t[2])),
            "put2" => Op::Put2(unhex(t[1]), unhex(t[2]), unhex(t[3]), unhex(t[4])),
            "del" => Op::Del(unhex(t[1])),
            "wdel" => Op::WDel(unhex(t[1])),
            "rotate" => Op::Rotate,
            "flush" => Op::Flush(Wm::parse(t[1])),
            "flushactive" => Op::FlushActive(Wm::parse(t[1])),
            "leveled" => Op::Leveled {
                l0: t[1].parse().expect("l0"),
                target: t[2].parse().expect("target"),
                w: Wm::parse(t[3]),
            },
            "major" => Op::Major {
                target: t[1].parse().expect("target"),
                w: Wm::parse(t[2]),
            },
            "movedown" => Op::MoveDown(t[1].parse().expect("lvl"), t[2].parse().expect("lvl")),
            "pulldown" => Op::PullDown(t[1].parse().expect("lvl"), t[2].parse().expect("lvl")),
            "movedown!" => Op::MoveDownU(t[1].parse().expect("lvl"), t[2].parse().expect("lvl")),
            "pulldown!" => Op::PullDownU(t[1].parse().expect("lvl"), t[2].parse().expect("lvl")),
            "fifo" => Op::Fifo {
                limit: t[1].parse().expect("limit"),
                ttl: if t[2] == "-" {
                    None
                } else {
                    Some(t[2].parse().expect("ttl"))
                },
                w: Wm::parse(t[3]),
            },
            "droprange" => Op::DropRange(Bnd::parse(t[1]), Bnd::parse(t[2])),
            "clear" => Op::Clear,
            "ingest" => Op::Ingest(
                t[1..]
                    .iter()
                    .map(|x| {
                        let p: Vec<&str> = x.split(':').collect();
                        match p[0] {
                            "p" => IngItem::Put(unhex(p[1]), unhex(p[2])),
                            "d" => IngItem::Del(unhex(p[1])),
                            "w" => IngItem::WDel(unhex(p[1])),
                            _ => panic!("bad ingest item {x}"),
                        }
                    })
                    .collect(),
            ),
            "reopen" => Op::Reopen,
            "expecterr" => Op::ExpectErr,
            "getat" => Op::GetAt(unhex(t[1]), t[2].parse().expect("S")),
            "rangeat" => Op::RangeAt(Bnd::parse(t[1]), Bnd::parse(t[2]), t[3].to_string(), t[4].parse().expect("S")),
            "clock" => Op::Clock(t[1].parse().expect("clock")),
            "verdict" => Op::Verdict(unhex(t[1]), t[2].to_string()),
            "snap" => Op::Snap(t[1].parse().expect("snap")),
            "rel" => Op::Rel(t[1].parse().expect("rel")),
            "get" => Op::Get(unhex(t[1]), snap_parse(t[2])),
            "getmax" => Op::GetMax(unhex(t[1])),
            "range" => Op::Range(
                Bnd::parse(t[1]),
                Bnd::parse(t[2]),
                t[3].to_string(),
                snap_parse(t[4]),
            ),
            "orange" => Op::ORange(
                Bnd::parse(t[1]),
                Bnd::parse(t[2]),
                t[3].to_string(),
                snap_parse(t[4]),
                if t[5] == "-" {
                    vec![]
                } else {
                    t[5].split(',')
                        .map(|x| {
                            let (k, v) = x.split_once(':').expect("overlay item");
                            (unhex(k), if v == "!" { None } else { Some(unhex(v)) })
                        })
                        .collect()
                },
            ),
            "prefix" => Op::Prefix(unhex(t[1]), t[2].to_string(), snap_parse(t[3])),
            "len" => Op::Len(snap_parse(t[1])),
            "first" => Op::First(snap_parse(t[1])),
            "last" => Op::Last(snap_parse(t[1])),
            "isempty" => Op::IsEmpty(snap_parse(t[1])),
            _ => panic!("unknown op: {line}"),
        }
    }
}

/// Tree configuration (first line of a history: `cfg k=v ...`)
#[derive(Clone, Debug)]
pub struct TreeCfg {
    pub blob: bool,
    pub block_size: u32,
    pub restart: u8,
    pub hash_ratio: f32,
    /// 0 = none, 1 = bpk 10, 2 = fpr 0.01, 3 = bpk 10 + expect_point_read_hits
    pub filter: u8,
    pub index_part: bool,
    pub filter_part: bool,
    pub pin_index: bool,
    pub pin_filter: bool,
    pub cache_bytes: u64,
    /// 0 = None
    pub dt: usize,
    pub sep_threshold: u32,
    pub blob_target: u64,
    pub staleness: f32,
    pub age_cutoff: f32,
    /// install the table-driven compaction filter
    pub cfilter: bool,
}

impl Default for TreeCfg {
    fn default() -> Self {
        TreeCfg {
            blob: false,
            block_size: 4096,
            restart: 16,
            hash_ratio: 0.0,
            filter: 1,
            index_part: false,
            filter_part: false,
            pin_index: true,
            pin_filter: true,
            cache_bytes: 1 << 20,
            dt: 64,
            sep_threshold: 16,
            blob_target: 1 << 20,
            staleness: 0.25,
            age_cutoff: 0.25,
            cfilter: false,
        }
    }
}

impl TreeCfg {
    pub fn text(&self) -> String {
        format!(
            "cfg blob={} bs={} ri={} hr={} filter={} ipart={} fpart={} pini={} pinf={} cache={} dt={} sep={} btarget={} stale={} age={} cfilter={}",
            u8::from(self.blob), self.block_size, self.restart, self.hash_ratio, self.filter,
            u8::from(self.index_part), u8::from(self.filter_part), u8::from(self.pin_index),
            u8::from(self.pin_filter), self.cache_bytes, self.dt, self.sep_threshold,
            self.blob_target, self.staleness, self.age_cutoff, u8::from(self.cfilter)
        )
    }
    pub fn parse(line: &str) -> TreeCfg {
        let mut c = TreeCfg::default();
        for kv in line.split_whitespace().skip(1) {
            let (k, v) = kv.split_once('=').expect("cfg k=v");
            match k {
                "blob" => c.blob = v == "1",
                "bs" => c.block_size = v.parse().expect("bs"),
                "ri" => c.restart = v.parse().expect("ri"),
                "hr" => c.hash_ratio = v.parse().expect("hr"),
                "filter" => c.filter = v.parse().expect("filter"),
                "ipart" => c.index_part = v == "1",
                "fpart" => c.filter_part = v == "1",
                "pini" => c.pin_index = v == "1",
                "pinf" => c.pin_filter = v == "1",
                "cache" => c.cache_bytes = v.parse().expect("cache"),
                "dt" => c.dt = v.parse().expect("dt"),
                "sep" => c.sep_threshold = v.parse().expect("sep"),
                "btarget" => c.blob_target = v.parse().expect("btarget"),
                "stale" => c.staleness = v.parse().expect("stale"),
                "age" => c.age_cutoff = v.parse().expect("age"),
                "cfilter" => c.cfilter = v == "1",
                _ => panic!("unknown cfg key {k}"),
            }
        }
        c
    }
}

pub struct History {
    pub cfg: TreeCfg,
    pub ops: Vec<Op>,
}

impl History {
    pub fn text(&self) -> String {
        let mut s = self.cfg.text();
        s.push('\n');
        for o in &self.ops {
            s.push_str(&o.text());
            s.push('\n');
        }
        s
    }
    pub fn parse(text: &str) -> History {
        let mut lines = text.lines().filter(|l| !l.trim().is_empty() && !l.starts_with('#'));
        let first = lines.next().expect("empty history");
        let cfg = TreeCfg::parse(first);
        let ops = lines.map(Op::parse).collect();
        History { cfg, ops }
    }
}
