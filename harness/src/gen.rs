// History generators. Every random choice derives from one PRNG state (the seed), so a
// history is reproducible from (profile, seed, length).

use crate::ops::{History, IngItem, Op, TreeCfg, Wm};
use crate::util::{Bnd, Rng};

/// small adversarial key universe: shared prefixes, 0xFF tails, a key that is a prefix of
/// another, an empty-ish short key and one long key
pub fn key_universe(rng: &mut Rng) -> Vec<Vec<u8>> {
    let mut base: Vec<Vec<u8>> = vec![
        b"a".to_vec(),
        b"ab".to_vec(),
        b"ab\x00".to_vec(),
        b"abc".to_vec(),
        b"b".to_vec(),
        b"b\xff".to_vec(),
        b"b\xff\xff".to_vec(),
        b"c".to_vec(),
        b"ca".to_vec(),
        b"d".to_vec(),
        b"\xff".to_vec(),
        b"\xff\xff".to_vec(),
        b"\x00".to_vec(),
        b"m".to_vec(),
        b"n".to_vec(),
        b"z".to_vec(),
    ];
    let mut long = b"long-".to_vec();
    long.extend(std::iter::repeat(b'x').take(70));
    base.push(long);
    // a few numbered keys so that multi-table runs appear
    let extra = rng.range(0, 12);
    for i in 0..extra {
        base.push(format!("k{i:02}").into_bytes());
    }
    let n = rng.range(6, base.len() as u64) as usize;
    // keep a random subset of size n (deterministic shuffle)
    for i in (1..base.len()).rev() {
        let j = rng.below(i as u64 + 1) as usize;
        base.swap(i, j);
    }
    base.truncate(n);
    base.sort();
    base
}

pub fn rand_value(rng: &mut Rng, n: &mut u64, big_ok: bool) -> Vec<u8> {
    *n += 1;
    let mut v = format!("v{}", *n).into_bytes();
    if big_ok && rng.chance(1, 5) {
        let pad = rng.range(10, 120) as usize;
        v.extend(std::iter::repeat(b'.').take(pad));
    }
    if rng.chance(1, 40) {
        v.clear(); // empty value
    }
    v
}

pub fn rand_cfg(rng: &mut Rng, blob: bool) -> TreeCfg {
    let mut c = TreeCfg::default();
    c.blob = blob;
    c.block_size = *rng.pick(&[64u32, 128, 256, 4096]);
    c.restart = *rng.pick(&[1u8, 2, 4, 16]);
    c.hash_ratio = *rng.pick(&[0.0f32, 0.0, 0.75, 8.0]);
    c.filter = *rng.pick(&[0u8, 1, 1, 2]);
    c.index_part = rng.chance(1, 3);
    c.filter_part = rng.chance(1, 3);
    c.pin_index = rng.chance(1, 2);
    c.pin_filter = rng.chance(1, 2);
    c.cache_bytes = *rng.pick(&[0u64, 1024, 1 << 20]);
    c.dt = *rng.pick(&[0usize, 1, 64]);
    c.sep_threshold = *rng.pick(&[8u32, 16, 64]);
    c.blob_target = *rng.pick(&[64u64, 512, 1 << 20]);
    c.staleness = *rng.pick(&[0.0f32, 0.25, 0.9]);
    c.age_cutoff = *rng.pick(&[0.0f32, 0.25, 1.0]);
    c
}

fn rand_pulls(rng: &mut Rng, maxlen: u64) -> String {
    let n = rng.range(1, maxlen);
    let mode = rng.below(4);
    (0..n)
        .map(|_| match mode {
            0 => 'F',
            1 => 'B',
            _ => {
                if rng.chance(1, 2) {
                    'F'
                } else {
                    'B'
                }
            }
        })
        .collect()
}

fn rand_bound(rng: &mut Rng, keys: &[Vec<u8>]) -> Bnd {
    match rng.below(7) {
        0 => Bnd::Unb,
        1..=3 => Bnd::Incl(tweak_key(rng, keys)),
        _ => Bnd::Excl(tweak_key(rng, keys)),
    }
}

/// a key from the universe, or a neighbour of one (one byte appended / last byte +-1 / truncated)
fn tweak_key(rng: &mut Rng, keys: &[Vec<u8>]) -> Vec<u8> {
    let mut k = rng.pick(keys).clone();
    match rng.below(8) {
        0 => k.push(0),
        1 => k.push(0xff),
        2 => {
            if let Some(l) = k.last_mut() {
                *l = l.wrapping_add(1);
            }
        }
        3 => {
            if let Some(l) = k.last_mut() {
                *l = l.wrapping_sub(1);
            }
        }
        4 => {
            k.pop();
            if k.is_empty() {
                k.push(b'a');
            }
        }
        _ => {}
    }
    k
}

fn rand_wm(rng: &mut Rng) -> Wm {
    match rng.below(6) {
        0 | 1 => Wm::Zero,
        2 | 3 | 4 => Wm::MinSnap,
        _ => Wm::MinSnapM1,
    }
}

pub struct GenState {
    pub keys: Vec<Vec<u8>>,
    pub vn: u64,
    pub next_snap: u32,
    pub live_snaps: Vec<u32>,
    /// keys currently "armed" for a weak delete (inserted exactly once since last weak delete)
    pub single: std::collections::HashMap<Vec<u8>, u8>,
    pub mono: u64,
    /// number of writes per key (filter profile: Destroy / RemoveWeak only for keys written once)
    pub wcount: std::collections::HashMap<Vec<u8>, u32>,
    pub frozen: std::collections::HashSet<Vec<u8>>,
    /// 0 = not a fifo history, 1 = increasing keys, 2 = decreasing keys
    pub fifo_dir: u8,
}

fn snap_choice(rng: &mut Rng, st: &GenState) -> Option<u32> {
    if !st.live_snaps.is_empty() && rng.chance(1, 2) {
        Some(*rng.pick(&st.live_snaps))
    } else {
        None
    }
}

fn gen_read(rng: &mut Rng, st: &GenState) -> Op {
    let s = snap_choice(rng, st);
    match rng.below(20) {
        0..=8 => Op::Get(
            fifo_key(rng, st).unwrap_or_else(|| tweak_key_mostly_exact(rng, &st.keys)),
            s,
        ),
        9 => Op::GetMax(rng.pick(&st.keys).clone()),
        10..=14 => {
            let lo = rand_bound(rng, &st.keys);
            let hi = rand_bound(rng, &st.keys);
            if rng.chance(1, 5) {
                // scan through an overlay memtable (read-your-own-writes): writes and deletes of
                // a few keys, often exactly the keys the bounds name
                let mut items: Vec<(Vec<u8>, Option<Vec<u8>>)> = Vec::new();
                for b in [&lo, &hi] {
                    if let Bnd::Incl(k) | Bnd::Excl(k) = b {
                        if rng.chance(2, 3) && !items.iter().any(|(x, _)| x == k) {
                            items.push((k.clone(), if rng.chance(3, 4) { Some(format!("o{}", rng.below(100)).into_bytes()) } else { None }));
                        }
                    }
                }
                for _ in 0..rng.range(0, 3) {
                    let k = tweak_key_mostly_exact(rng, &st.keys);
                    if !items.iter().any(|(x, _)| *x == k) {
                        items.push((k, if rng.chance(3, 4) { Some(format!("o{}", rng.below(100)).into_bytes()) } else { None }));
                    }
                }
                return Op::ORange(lo, hi, rand_pulls(rng, st.keys.len() as u64 + 3), s, items);
            }
            Op::Range(lo, hi, rand_pulls(rng, st.keys.len() as u64 + 3), s)
        }
        15 | 16 => {
            let mut p = rng.pick(&st.keys).clone();
            let cut = rng.range(0, p.len() as u64) as usize;
            p.truncate(cut.min(3));
            Op::Prefix(p, rand_pulls(rng, st.keys.len() as u64 + 3), s)
        }
        17 => Op::Len(s),
        18 => {
            if rng.chance(1, 2) {
                Op::First(s)
            } else {
                Op::Last(s)
            }
        }
        _ => Op::IsEmpty(s),
    }
}

/// fifo histories write `t<counter>` keys outside the fixed universe: reads must hit them
fn fifo_key(rng: &mut Rng, st: &GenState) -> Option<Vec<u8>> {
    if st.fifo_dir == 0 || st.mono == 0 || rng.chance(1, 5) {
        return None;
    }
    let i = rng.range(1, st.mono + 2);
    Some(if st.fifo_dir == 1 {
        format!("t{:06}", i).into_bytes()
    } else {
        format!("t{:06}", 999_999 - i).into_bytes()
    })
}

fn tweak_key_mostly_exact(rng: &mut Rng, keys: &[Vec<u8>]) -> Vec<u8> {
    if rng.chance(5, 6) {
        rng.pick(keys).clone()
    } else {
        tweak_key(rng, keys)
    }
}

fn gen_maint(rng: &mut Rng, profile: &str) -> Op {
    let w = rand_wm(rng);
    let moves = profile == "moves" || profile == "weakmoves";
    match rng.below(if moves { 30 } else { 20 }) {
        0..=3 => Op::Rotate,
        4..=6 => Op::Flush(w),
        7..=10 => Op::FlushActive(w),
        11..=14 if moves => Op::Major {
            target: *rng.pick(&[1u64, 300, 1 << 20, u64::MAX]),
            w,
        },
        11..=14 => Op::Leveled {
            l0: *rng.pick(&[1u8, 2, 2, 3, 4]),
            target: *rng.pick(&[1u64, 200, 600, 4096, 1 << 20]),
            w,
        },
        15..=17 => Op::Major {
            target: *rng.pick(&[1u64, 300, 1 << 20, u64::MAX]),
            w,
        },
        18 | 19 => Op::Rotate,
        20..=24 => {
            // mostly out of L0 (several overlapping runs), otherwise from any level
            let a = if rng.chance(1, 2) { 0 } else { rng.range(0, 5) as u8 };
            let b = rng.range(u64::from(a) + 1, 6) as u8;
            Op::MoveDown(a, b)
        }
        _ => {
            let a = if rng.chance(1, 2) { 0 } else { rng.range(0, 5) as u8 };
            let b = rng.range(u64::from(a) + 1, 6) as u8;
            Op::PullDown(a, b)
        }
    }
}

/// C12: one or two tables built from an adversarial multi-version item stream under random
/// writer settings, then (after a reopen, so that every read goes through the table files)
/// exhaustive point reads at every (key, seqno +- 1) incl. absent neighbour keys, and scans
/// with generated bounds and pull patterns at several snapshots.
pub fn generate_table(seed: u64, blob: bool) -> History {
    let mut rng = Rng::new(seed ^ 0x7AB1_E000);
    let mut cfg = rand_cfg(&mut rng, blob);
    cfg.block_size = *rng.pick(&[64u32, 64, 128, 256, 1024]);
    let prefix_len = *rng.pick(&[0usize, 1, 3, 40, 300]);
    let prefix: Vec<u8> = (0..prefix_len).map(|i| b'p' + (i % 5) as u8).collect();
    let nkeys = rng.range(2, 14) as usize;
    let mut keys: Vec<Vec<u8>> = Vec::new();
    while keys.len() < nkeys {
        let mut k = prefix.clone();
        for _ in 0..rng.range(0, 3) {
            k.push(*rng.pick(&[0u8, 1, b'a', b'b', b'z', 0xfe, 0xff]));
        }
        if k.is_empty() {
            k.push(b'a');
        }
        if !keys.contains(&k) {
            keys.push(k);
        }
    }
    keys.sort();
    let mut ops = Vec::new();
    let mut vn = 0u64;
    let mut nwrites = 0u64;
    let rounds = rng.range(1, 3);
    for round in 0..rounds {
        let writes = rng.range(4, 40);
        for _ in 0..writes {
            let k = rng.pick(&keys).clone();
            nwrites += 1;
            match rng.below(10) {
                0 | 1 => ops.push(Op::Del(k)),
                2 => ops.push(Op::WDel(k)),
                _ => {
                    vn += 1;
                    let mut v = format!("v{vn}").into_bytes();
                    match rng.below(8) {
                        0 => v.extend(std::iter::repeat(b'#').take(rng.range(60, 700) as usize)),
                        1 => v.clear(),
                        _ => {}
                    }
                    ops.push(Op::Put(k, v));
                }
            }
        }
        ops.push(Op::FlushActive(Wm::Zero));
        if round > 0 && rng.chance(1, 2) {
            ops.push(Op::Major { target: *rng.pick(&[1u64, 200, 1 << 20]), w: Wm::Zero });
        }
    }
    if rng.chance(1, 3) {
        ops.push(Op::Major { target: *rng.pick(&[1u64, 150, 1 << 20]), w: Wm::Zero });
    }
    ops.push(Op::Reopen);
    // upper bound on seqnos handed out (writes + version upgrades)
    let smax = nwrites + 16;
    let mut probes: Vec<Vec<u8>> = keys.clone();
    for k in &keys {
        let mut a = k.clone();
        a.push(0);
        probes.push(a);
        let mut b = k.clone();
        if let Some(l) = b.last_mut() {
            *l = l.wrapping_sub(1);
        }
        probes.push(b);
        let mut c = k.clone();
        c.pop();
        if !c.is_empty() {
            probes.push(c);
        }
    }
    probes.sort();
    probes.dedup();
    for k in &probes {
        for s in 0..=smax {
            ops.push(Op::GetAt(k.clone(), s));
        }
        ops.push(Op::GetMax(k.clone()));
    }
    for _ in 0..rng.range(10, 30) {
        let lo = rand_bound(&mut rng, &probes);
        let hi = rand_bound(&mut rng, &probes);
        let s = rng.range(0, smax + 1);
        ops.push(Op::RangeAt(lo, hi, rand_pulls(&mut rng, keys.len() as u64 + 3), s));
    }
    History { cfg, ops }
}

/// Leveled-compaction heavy histories: a populated last level (several tables), then a few
/// narrow and wide L0 runs with overwrites and deletes of keys living below, then a leveled
/// compaction and reads of every key; repeated.
/// Sequential-insert workload under leveled compaction: every flush covers a fresh, disjoint
/// key range (trivial moves, multi-table levels, partial compactions that leave older tables
/// above newer ones), with occasional overwrites/deletes of old keys.
pub fn generate_seq_lvl(seed: u64, blob: bool) -> History {
    let mut rng = Rng::new(seed ^ 0x5E0_1E7E);
    let cfg = rand_cfg(&mut rng, blob);
    let mut ops = Vec::new();
    let mut vn = 0u64;
    let mut next = 0u64;
    let mut all: Vec<Vec<u8>> = Vec::new();
    let rounds = rng.range(4, 12);
    let target = *rng.pick(&[1u64, 1, 100, 300, 1200]);
    let l0 = *rng.pick(&[1u8, 1, 2, 4]);
    for _ in 0..rounds {
        let n = rng.range(1, 6);
        for _ in 0..n {
            let k = format!("s{next:05}").into_bytes();
            next += 1;
            all.push(k.clone());
            ops.push(Op::Put(k, rand_value(&mut rng, &mut vn, true)));
        }
        if rng.chance(1, 2) && !all.is_empty() {
            let k = rng.pick(&all).clone();
            if rng.chance(1, 2) {
                ops.push(Op::Del(k));
            } else {
                ops.push(Op::Put(k, rand_value(&mut rng, &mut vn, false)));
            }
        }
        ops.push(Op::FlushActive(rand_wm(&mut rng)));
        if rng.chance(3, 4) {
            // often several compaction rounds in a row, as a background worker would do
            for _ in 0..rng.range(1, 3) {
                ops.push(Op::Leveled { l0, target, w: rand_wm(&mut rng) });
            }
        }
        if rng.chance(1, 6) {
            ops.push(Op::Reopen);
        }
        if rng.chance(1, 3) && !all.is_empty() {
            ops.push(Op::Get(rng.pick(&all).clone(), None));
        }
    }
    for k in &all {
        ops.push(Op::Get(k.clone(), None));
    }
    ops.push(Op::Range(Bnd::Unb, Bnd::Unb, "F".repeat(all.len() + 2), None));
    History { cfg, ops }
}

pub fn generate_lvl(seed: u64, blob: bool) -> History {
    if seed % 3 == 0 {
        return generate_seq_lvl(seed, blob);
    }
    let mut rng = Rng::new(seed ^ 0x1E7E_1ED0);
    let cfg = rand_cfg(&mut rng, blob);
    let mut keys = key_universe(&mut rng);
    keys.sort();
    let mut vn = 0u64;
    let mut ops = Vec::new();
    let cycles = rng.range(1, 3);
    for _ in 0..cycles {
        // populate and push down
        for k in &keys {
            if rng.chance(2, 3) {
                ops.push(Op::Put(k.clone(), rand_value(&mut rng, &mut vn, false)));
            }
        }
        ops.push(Op::FlushActive(Wm::Zero));
        ops.push(Op::Major { target: *rng.pick(&[1u64, 120, 400, 1 << 20]), w: rand_wm(&mut rng) });
        // a few L0 runs of different widths
        let runs = rng.range(1, 5);
        for ri in 0..runs {
            // usually the OLDEST L0 run is the wide one and the newer ones are narrow
            let wide = if ri == 0 { rng.chance(2, 3) } else { rng.chance(1, 6) };
            let lo = rng.below(keys.len() as u64) as usize;
            let span = if wide { keys.len() } else { rng.range(1, 3) as usize };
            let start = if wide { 0 } else { lo };
            for k in keys.iter().skip(start).take(span) {
                if rng.chance(1, 2) {
                    continue;
                }
                if rng.chance(if wide { 1 } else { 1 }, if wide { 2 } else { 4 }) {
                    ops.push(Op::Del(k.clone()));
                } else {
                    ops.push(Op::Put(k.clone(), rand_value(&mut rng, &mut vn, false)));
                }
            }
            if wide {
                // make sure both ends are touched
                ops.push(Op::Put(keys[0].clone(), rand_value(&mut rng, &mut vn, false)));
                ops.push(Op::Put(keys[keys.len() - 1].clone(), rand_value(&mut rng, &mut vn, false)));
            }
            ops.push(Op::FlushActive(rand_wm(&mut rng)));
            if rng.chance(1, 4) {
                ops.push(Op::Snap(0));
                ops.push(Op::Rel(0));
            }
        }
        ops.push(Op::Leveled {
            l0: *rng.pick(&[1u8, 1, 2, 2, 3]),
            target: *rng.pick(&[1u64, 200, 600, 1 << 20]),
            w: rand_wm(&mut rng),
        });
        if rng.chance(1, 2) {
            ops.push(Op::Leveled { l0: 1, target: *rng.pick(&[1u64, 300, 1 << 20]), w: rand_wm(&mut rng) });
        }
        for k in &keys {
            ops.push(Op::Get(k.clone(), None));
        }
        let full = "F".repeat(keys.len() + 2);
        ops.push(Op::Range(Bnd::Unb, Bnd::Unb, full, None));
        if rng.chance(1, 3) {
            ops.push(Op::Reopen);
        }
    }
    History { cfg, ops }
}

/// Profiles:
///  tree    inserts/deletes + rotate/flush/leveled/major + snapshots + reads + reopen
///  moves   tree + movedown/pulldown (executed by the driver only in safe positions)
///  weak    single-delete-disciplined weak deletes (C13)
///  ingest  tree + bulk ingestion (C14)
///  drop    tree + drop_range / clear (C15)
///  filter  tree + compaction filter verdicts (C17)
///  fifo    monotone appends + FIFO compaction (C19)
pub fn generate(profile: &str, seed: u64, n_ops: usize, blob: bool) -> History {
    if profile == "table" {
        return generate_table(seed, blob);
    }
    if profile == "lvl" {
        return generate_lvl(seed, blob);
    }
    let mut rng = Rng::new(seed ^ (profile.len() as u64) << 48 ^ u64::from(profile.as_bytes()[0]) << 40);
    let mut cfg = rand_cfg(&mut rng, blob);
    if profile == "filter" {
        cfg.cfilter = true;
    }
    if profile == "blob" {
        cfg.blob = true;
        cfg.sep_threshold = *rng.pick(&[1u32, 4, 8, 16]);
        cfg.blob_target = *rng.pick(&[64u64, 256, 1 << 20]);
        cfg.staleness = *rng.pick(&[0.0f32, 0.01, 0.25, 0.5]);
        cfg.age_cutoff = *rng.pick(&[0.5f32, 1.0, 1.0]);
    }
    if profile == "weak" && blob {
        // weak deletes over separated values (pair cancellation must report the dropped blob)
        cfg.sep_threshold = *rng.pick(&[1u32, 2, 4]);
        cfg.staleness = *rng.pick(&[0.0f32, 0.25, 0.9]);
    }
    let mut st = GenState {
        keys: key_universe(&mut rng),
        vn: 0,
        next_snap: 0,
        live_snaps: vec![],
        single: std::collections::HashMap::new(),
        mono: 0,
        wcount: std::collections::HashMap::new(),
        frozen: std::collections::HashSet::new(),
        fifo_dir: if profile == "fifo" { 1 + (seed % 2) as u8 } else { 0 },
    };
    let mut ops = Vec::with_capacity(n_ops);
    // phase weights vary per history so that some are write-heavy, some maintenance-heavy
    let w_write = rng.range(30, 60) as u32;
    let w_maint = rng.range(8, 30) as u32;
    let w_read = rng.range(15, 40) as u32;
    let w_snap = rng.range(2, 8) as u32;
    let w_special = rng.range(4, 12) as u32;
    let w_reopen = rng.range(0, 3) as u32;
    if profile == "blob" && rng.chance(1, 4) {
        // border pattern on a fresh tree: n keys flushed into ONE blob file, split into one table
        // per key, one end key dropped (the file is fragmented, not dead), two small newer L0
        // tables over the interior keys, then a partial (leveled) merge. The table holding the
        // other end key stays outside the merge and still points into the fragmented file; its
        // only key EQUALS the blob file's smallest (or largest) key.
        cfg.staleness = *rng.pick(&[0.01f32, 0.25]);
        cfg.age_cutoff = 1.0;
        // one data block per item, so that `major` with a 1-byte target writes one table per key
        cfg.block_size = 1;
        let mut ks: Vec<Vec<u8>> = st.keys.clone();
        ks.sort();
        ks.dedup();
        let n = (rng.range(3, 5) as usize).min(ks.len());
        let start = rng.below((ks.len() - n + 1) as u64) as usize;
        let ks: Vec<Vec<u8>> = ks.into_iter().skip(start).take(n).collect();
        if n >= 3 {
            for k in &ks {
                let mut v = rand_value(&mut rng, &mut st.vn, true);
                v.extend(std::iter::repeat(b'#').take(rng.range(20, 90) as usize));
                ops.push(Op::Put(k.clone(), v));
            }
            ops.push(Op::FlushActive(Wm::Zero));
            ops.push(Op::Major { target: 1, w: Wm::Zero });
            let dropped = if rng.chance(1, 2) { ks[n - 1].clone() } else { ks[0].clone() };
            ops.push(Op::DropRange(Bnd::Incl(dropped.clone()), Bnd::Incl(dropped)));
            // k ++ [0] is the immediate successor of k: above k, below every other key above k
            let succ = |k: &Vec<u8>| {
                let mut k2 = k.clone();
                k2.push(0);
                k2
            };
            // (so at most ks[1]); the newer tables span (ks[0], ks[n-2]]: they overlap the interior tables only, so the
            // surviving end table ([ks[0]] or [ks[n-1]]) is left out of the merge
            for k2 in [succ(&ks[0]), ks[n - 2].clone()] {
                let v = rand_value(&mut rng, &mut st.vn, false);
                ops.push(Op::Put(k2, v));
                ops.push(Op::FlushActive(Wm::Zero));
            }
            ops.push(Op::Leveled { l0: 2, target: *rng.pick(&[1u64 << 20, 4096]), w: Wm::Zero });
            for k in &ks {
                ops.push(Op::Get(k.clone(), None));
            }
            if rng.chance(1, 2) {
                ops.push(Op::Reopen);
            }
        }
    }
    while ops.len() < n_ops {
        match rng.weighted(&[w_write, w_maint, w_read, w_snap, w_special, w_reopen]) {
            0 => {
                // a write
                let k = rng.pick(&st.keys).clone();
                match profile {
                    "weak" | "weakmoves" => {
                        // discipline: a key is inserted once, then weak-deleted, never
                        // overwritten or strongly deleted
                        let c = st.single.get(&k).copied().unwrap_or(0);
                        if c == 0 {
                            let v = rand_value(&mut rng, &mut st.vn, true);
                            st.single.insert(k.clone(), 1);
                            ops.push(Op::Put(k, v));
                        } else if rng.chance(2, 3) {
                            st.single.insert(k.clone(), 0);
                            ops.push(Op::WDel(k));
                        }
                    }
                    "fifo" => {
                        st.mono += 1;
                        // monotonic in either direction, fixed per history
                        let k = if seed % 2 == 0 {
                            format!("t{:06}", st.mono).into_bytes()
                        } else {
                            format!("t{:06}", 999_999 - st.mono).into_bytes()
                        };
                        let v = rand_value(&mut rng, &mut st.vn, true);
                        ops.push(Op::Put(k, v));
                    }
                    _ => {
                        if st.frozen.contains(&k) {
                            continue;
                        }
                        if profile == "filter" && st.wcount.get(&k).copied().unwrap_or(0) == 1 && rng.chance(1, 5) {
                            // single-delete discipline: written once, weak-deleted once, then
                            // left alone; whatever verdict is in force for the key stays (the
                            // filter must never be shown the weak tombstone)
                            st.frozen.insert(k.clone());
                            ops.push(Op::WDel(k));
                            continue;
                        }
                        if profile != "filter" && rng.chance(1, 14) {
                            // two concurrent writers, inserted in the opposite order of their seqnos
                            let k2 = rng.pick(&st.keys).clone();
                            if k2 != k && !st.frozen.contains(&k2) {
                                let v1 = rand_value(&mut rng, &mut st.vn, true);
                                let v2 = rand_value(&mut rng, &mut st.vn, true);
                                *st.wcount.entry(k.clone()).or_insert(0) += 1;
                                *st.wcount.entry(k2.clone()).or_insert(0) += 1;
                                ops.push(Op::Put2(k, v1, k2, v2));
                                continue;
                            }
                        }
                        *st.wcount.entry(k.clone()).or_insert(0) += 1;
                        if rng.chance(3, 4) {
                            let v = rand_value(&mut rng, &mut st.vn, true);
                            ops.push(Op::Put(k, v));
                        } else {
                            ops.push(Op::Del(k));
                        }
                    }
                }
            }
            1 => {
                if profile == "fifo" {
                    let w = rand_wm(&mut rng);
                    match rng.below(6) {
                        0..=2 => ops.push(Op::FlushActive(w)),
                        3 => ops.push(Op::Clock(rng.range(1, 50))),
                        _ => ops.push(Op::Fifo {
                            limit: *rng.pick(&[1u64, 400, 900, 2000, 5000, 1 << 30]),
                            ttl: if rng.chance(1, 2) {
                                Some(rng.range(1, 120))
                            } else {
                                None
                            },
                            w,
                        }),
                    }
                } else {
                    ops.push(gen_maint(&mut rng, profile));
                }
            }
            2 => ops.push(gen_read(&mut rng, &st)),
            3 => {
                if st.live_snaps.len() < 4 && rng.chance(2, 3) {
                    let id = st.next_snap;
                    st.next_snap += 1;
                    st.live_snaps.push(id);
                    ops.push(Op::Snap(id));
                } else if !st.live_snaps.is_empty() {
                    let i = rng.below(st.live_snaps.len() as u64) as usize;
                    let id = st.live_snaps.remove(i);
                    ops.push(Op::Rel(id));
                }
            }
            4 => match profile {
                "ingest" => {
                    // sorted batch of distinct keys
                    let mut ks: Vec<Vec<u8>> = st.keys.clone();
                    ks.retain(|_| rng.chance(1, 2));
                    if rng.chance(1, 25) {
                        ks.clear();
                    }
                    let items = ks
                        .into_iter()
                        .map(|k| match rng.below(6) {
                            0 => IngItem::Del(k),
                            _ => {
                                let v = rand_value(&mut rng, &mut st.vn, true);
                                IngItem::Put(k, v)
                            }
                        })
                        .collect();
                    ops.push(Op::Ingest(items));
                    // an ingested table that leaves L0 by a (trivial) move keeps its global seqno
                    // in the version file only: move it, then often reopen
                    if rng.chance(1, 3) {
                        // (Leveled's own trivial moves; MoveDown would build multi-run levels,
                        // which Leveled's debug assertions reject by design)
                        ops.push(Op::Leveled {
                            l0: *rng.pick(&[1u8, 2, 4]),
                            target: *rng.pick(&[200u64, 4096, 1 << 20]),
                            w: Wm::Zero,
                        });
                        if rng.chance(1, 2) {
                            ops.push(Op::FlushActive(Wm::Zero));
                            ops.push(Op::Reopen);
                            st.live_snaps.clear();
                        }
                    }
                }
                "blob" if rng.chance(1, 2) => {
                    let mut ks: Vec<Vec<u8>> = st.keys.clone();
                    ks.retain(|_| rng.chance(1, 3));
                    let items = ks
                        .into_iter()
                        .map(|k| match rng.below(6) {
                            0 => IngItem::Del(k),
                            _ => {
                                let v = rand_value(&mut rng, &mut st.vn, true);
                                IngItem::Put(k, v)
                            }
                        })
                        .collect();
                    ops.push(Op::Ingest(items));
                }
                "blob" if rng.chance(1, 8) => {
                    // several keys flushed together (one shared blob file), split into one table
                    // per key, some garbage, small newer tables next to them, then a partial merge:
                    // tables left out of the merge still point into the fragmented blob file
                    let mut ks: Vec<Vec<u8>> = st.keys.clone();
                    ks.sort();
                    ks.dedup();
                    let n = rng.range(3, 5) as usize;
                    let start = rng.below((ks.len().saturating_sub(n) + 1) as u64) as usize;
                    let ks: Vec<Vec<u8>> = ks.into_iter().skip(start).take(n).collect();
                    for k in &ks {
                        let mut v = rand_value(&mut rng, &mut st.vn, true);
                        v.extend(std::iter::repeat(b'#').take(rng.range(20, 90) as usize));
                        ops.push(Op::Put(k.clone(), v));
                    }
                    ops.push(Op::FlushActive(Wm::Zero));
                    ops.push(Op::Major { target: 1, w: Wm::Zero });
                    if let Some(last) = ks.last() {
                        ops.push(Op::DropRange(Bnd::Incl(last.clone()), Bnd::Incl(last.clone())));
                    }
                    for j in [0usize, ks.len() / 2] {
                        if let Some(k) = ks.get(j) {
                            let mut k2 = k.clone();
                            k2.push(b'0' + j as u8);
                            let v = rand_value(&mut rng, &mut st.vn, false);
                            ops.push(Op::Put(k2, v));
                            ops.push(Op::FlushActive(Wm::Zero));
                        }
                    }
                    ops.push(Op::Leveled { l0: 2, target: *rng.pick(&[1u64 << 20, 4096]), w: Wm::Zero });
                    for k in &ks {
                        ops.push(Op::Get(k.clone(), None));
                    }
                }
                "drop" | "blob" => {
                    if rng.chance(1, 6) {
                        // clear in different states of the tree: as it is; with the data sitting
                        // in a sealed (rotated, unflushed) memtable and an empty active one; and
                        // that again with no table on disk at all
                        match rng.below(3) {
                            0 => ops.push(Op::Clear),
                            1 => {
                                ops.push(Op::Rotate);
                                ops.push(Op::Clear);
                            }
                            _ => {
                                ops.push(Op::Clear);
                                for _ in 0..rng.range(1, 3) {
                                    let k = rng.pick(&st.keys).clone();
                                    let v = rand_value(&mut rng, &mut st.vn, true);
                                    ops.push(Op::Put(k, v));
                                }
                                ops.push(Op::Rotate);
                                ops.push(Op::Clear);
                            }
                        }
                        if rng.chance(1, 2) {
                            let k = rng.pick(&st.keys).clone();
                            ops.push(Op::Get(k, None));
                            ops.push(Op::Len(None));
                        }
                    } else {
                        let lo = rand_bound(&mut rng, &st.keys);
                        let hi = rand_bound(&mut rng, &st.keys);
                        ops.push(Op::DropRange(lo, hi));
                    }
                }
                "filter" => {
                    let k = rng.pick(&st.keys).clone();
                    if st.frozen.contains(&k) {
                        continue;
                    }
                    let once = st.wcount.get(&k).copied().unwrap_or(0) == 1;
                    let v = match rng.below(10) {
                        0 | 1 => "k".to_string(),
                        2 | 3 | 4 => {
                            let nv = rand_value(&mut rng, &mut st.vn, true);
                            format!("r:{}", crate::util::hex(&nv))
                        }
                        5 | 6 => "x".to_string(),
                        7 if once => {
                            st.frozen.insert(k.clone());
                            "d".to_string()
                        }
                        8 if once => {
                            st.frozen.insert(k.clone());
                            "w".to_string()
                        }
                        _ => "k".to_string(),
                    };
                    ops.push(Op::Verdict(k, v));
                }
                _ => ops.push(gen_read(&mut rng, &st)),
            },
            _ => {
                // reopen: usually right after a flush, sometimes with unflushed data
                if profile != "fifo" || rng.chance(1, 3) {
                    // (the weak-delete discipline must not be broken by losing unflushed writes)
                    if profile == "weak" || profile == "weakmoves" || rng.chance(3, 4) {
                        ops.push(Op::FlushActive(Wm::Zero));
                    }
                    ops.push(Op::Reopen);
                    st.live_snaps.clear();
                }
            }
        }
    }
    // closing reads: every key at the newest snapshot and a full scan from both ends
    for k in st.keys.clone() {
        ops.push(Op::Get(k, None));
    }
    let full = "F".repeat(st.keys.len() + 2);
    ops.push(Op::Range(Bnd::Unb, Bnd::Unb, full, None));
    let fullb = "B".repeat(st.keys.len() + 2);
    ops.push(Op::Range(Bnd::Unb, Bnd::Unb, fullb, None));
    History { cfg, ops }
}
