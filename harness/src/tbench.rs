// Byte-level differential for the table building blocks (C12): the crate's own encoders
// and readers are run on generated inputs and everything (inputs, key hashes, output bytes,
// read results) is written out for the extracted Coq codecs to reproduce.

use crate::util::{hex, Rng};
use lsm_tree::{
    table::{
        block::{BlockType, Header},
        filter::standard_bloom::{Builder as BloomBuilder, StandardBloomFilterReader},
        Block, DataBlock,
    },
    Checksum, InternalValue, ValueType,
};
use lsm_tree::table::block::decoder::ParsedItem;
use std::fmt::Write as _;

fn ty_code(t: ValueType) -> &'static str {
    match t {
        ValueType::Value => "V",
        ValueType::Tombstone => "T",
        ValueType::WeakTombstone => "W",
        ValueType::Indirection => "I",
    }
}

/// adversarial key shapes: long shared prefixes, a key that is a prefix of the next,
/// 0xFF / 0x00 tails, empty-ish keys
fn gen_keys(rng: &mut Rng) -> Vec<Vec<u8>> {
    let n = rng.range(1, 14) as usize;
    let prefix_len = *rng.pick(&[0usize, 0, 1, 3, 20, 300]);
    let prefix: Vec<u8> = (0..prefix_len).map(|i| b'a' + (i % 7) as u8).collect();
    let mut keys: Vec<Vec<u8>> = Vec::new();
    while keys.len() < n {
        let mut k = prefix.clone();
        let extra = rng.range(0, 4) as usize;
        for _ in 0..extra {
            k.push(*rng.pick(&[0u8, 1, b'a', b'b', b'z', 0xfe, 0xff]));
        }
        if k.is_empty() {
            k.push(*rng.pick(&[0u8, b'a', 0xff]));
        }
        keys.push(k);
    }
    keys.sort();
    keys.dedup();
    keys
}

fn gen_items(rng: &mut Rng, keys: &[Vec<u8>]) -> Vec<InternalValue> {
    let mut items = Vec::new();
    let big = rng.chance(1, 6);
    for k in keys {
        let versions = *rng.pick(&[1u64, 1, 1, 2, 3, 6]);
        let mut seq = rng.range(versions, versions + 40);
        for _ in 0..versions {
            let ty = match rng.below(10) {
                0 | 1 => ValueType::Tombstone,
                2 => ValueType::WeakTombstone,
                3 => ValueType::Indirection,
                _ => ValueType::Value,
            };
            let val: Vec<u8> = if matches!(ty, ValueType::Tombstone | ValueType::WeakTombstone) {
                vec![]
            } else {
                let len = if big { rng.range(0, 700) } else { rng.range(0, 12) } as usize;
                (0..len).map(|i| (i as u8).wrapping_mul(31).wrapping_add(seq as u8)).collect()
            };
            items.push(InternalValue::from_components(k.clone(), val, seq, ty));
            let step = rng.range(1, 5);
            if seq < step {
                break;
            }
            seq -= step;
        }
    }
    items
}

pub fn bucket_count(n: usize, ratio: f32) -> u32 {
    if ratio > 0.0 {
        1.max((n as f32 * ratio) as u32)
    } else {
        0
    }
}

pub fn run(seed0: u64, count: u64) -> String {
    let mut out = String::new();
    for seed in seed0..seed0 + count {
        let mut rng = Rng::new(seed ^ 0x7AB1E);
        // every 6th case: a block with several hundred items, so that it has more than
        // 254 restart intervals (hash index must be omitted) and, with long keys, a
        // binary index that needs 4-byte pointers
        let big = seed % 12 == 0;
        let (keys, items, ri, ratio) = if big {
            let n = rng.range(240, 700) as usize;
            let long = rng.chance(1, 3);
            let mut keys: Vec<Vec<u8>> = (0..n)
                .map(|i| {
                    let mut k = format!("key{i:05}").into_bytes();
                    if long {
                        k.extend(std::iter::repeat(b'x').take(150));
                    }
                    k
                })
                .collect();
            keys.sort();
            let items: Vec<InternalValue> = keys
                .iter()
                .enumerate()
                .map(|(i, k)| InternalValue::from_components(k.clone(), vec![i as u8], (i % 50) as u64 + 1, ValueType::Value))
                .collect();
            (keys, items, *rng.pick(&[1u8, 1, 2, 3]), *rng.pick(&[0.0f32, 0.75, 1.33, 8.0]))
        } else {
            let keys = gen_keys(&mut rng);
            let items = gen_items(&mut rng, &keys);
            (keys, items, *rng.pick(&[1u8, 1, 2, 3, 4, 16, 255]), *rng.pick(&[0.0f32, 0.0, 0.5, 0.75, 1.33, 8.0]))
        };
        let nb = bucket_count(items.len(), ratio);
        let _ = writeln!(out, "CASE {seed} ri={ri} nb={nb} ratio={ratio}");
        for it in &items {
            let _ = writeln!(
                out,
                "I {} {} {} {}",
                hex(&it.key.user_key),
                it.key.seqno,
                ty_code(it.key.value_type),
                hex(&it.value)
            );
        }
        // probe keys: every key, plus neighbours that are absent (big cases: a sample)
        let probe_base: Vec<Vec<u8>> = if big {
            let mut v: Vec<Vec<u8>> = keys.iter().step_by(97).cloned().collect();
            v.extend(keys.iter().rev().take(6).cloned());
            v
        } else {
            keys.clone()
        };
        let mut probes: Vec<Vec<u8>> = probe_base.clone();
        for k in &probe_base {
            let mut a = k.clone();
            a.push(0);
            probes.push(a);
            let mut b = k.clone();
            if let Some(l) = b.last_mut() {
                *l = l.wrapping_sub(1);
            }
            probes.push(b);
            let mut c = k.clone();
            c.pop();
            if !c.is_empty() {
                probes.push(c);
            }
        }
        probes.sort();
        probes.dedup();
        let mut hashed: Vec<&Vec<u8>> = keys.iter().chain(probes.iter()).collect();
        hashed.sort();
        hashed.dedup();
        for k in hashed {
            let _ = writeln!(out, "HK {} {}", hex(k), xxhash_rust::xxh3::xxh3_64(k));
        }
        let bytes = match DataBlock::encode_into_vec(&items, ri, ratio) {
            Ok(b) => b,
            Err(e) => {
                let _ = writeln!(out, "ENCERR {e:?}");
                continue;
            }
        };
        let _ = writeln!(out, "BYTES {}", hex(&bytes));
        let block = DataBlock::new(Block {
            data: bytes.clone().into(),
            header: Header {
                block_type: BlockType::Data,
                checksum: Checksum::from_raw(0),
                data_length: 0,
                uncompressed_length: 0,
            },
        });
        // forward / backward iteration
        let fwd: Vec<_> = block.iter().map(|x| x.materialize(block.as_slice())).collect();
        let ok_fwd = fwd.len() == items.len()
            && fwd.iter().zip(items.iter()).all(|(a, b)| {
                a.key == b.key && a.key.value_type == b.key.value_type && a.value == b.value
            });
        let rev: Vec<_> = block.iter().rev().map(|x| x.materialize(block.as_slice())).collect();
        let ok_rev = rev.len() == items.len()
            && rev.iter().rev().zip(items.iter()).all(|(a, b)| {
                a.key == b.key && a.key.value_type == b.key.value_type && a.value == b.value
            });
        let _ = writeln!(out, "ITER {} {}", u8::from(ok_fwd), u8::from(ok_rev));
        // point reads at every seqno boundary
        let mut seqs: Vec<u64> = if big {
            vec![26]
        } else {
            items.iter().flat_map(|i| [i.key.seqno, i.key.seqno + 1]).collect()
        };
        seqs.push(0);
        seqs.push(u64::MAX);
        seqs.sort_unstable();
        seqs.dedup();
        for k in &probes {
            for s in &seqs {
                let r = block.point_read(k, *s);
                let rs = match r {
                    None => ".".to_string(),
                    Some(e) => format!(
                        "{}@{}:{}:{}",
                        hex(&e.key.user_key),
                        e.key.seqno,
                        ty_code(e.key.value_type),
                        hex(&e.value)
                    ),
                };
                let _ = writeln!(out, "PR {} {} {}", hex(k), s, rs);
            }
        }
        // Bloom filter over the distinct keys
        let n = keys.len();
        let mut b = if rng.chance(1, 2) {
            BloomBuilder::with_bpk(n, *rng.pick(&[1.0f32, 4.0, 10.0, 20.0]))
        } else {
            BloomBuilder::with_fp_rate(n, *rng.pick(&[0.1f32, 0.01, 0.0001]))
        };
        let hashes: Vec<u64> = keys.iter().map(|k| BloomBuilder::get_hash(k)).collect();
        for h in &hashes {
            b.set_with_hash(*h);
        }
        let fbytes = b.build();
        let _ = writeln!(
            out,
            "BLOOM {} {}",
            hashes.iter().map(u64::to_string).collect::<Vec<_>>().join(","),
            hex(&fbytes)
        );
        if let Ok(reader) = StandardBloomFilterReader::new(&fbytes) {
            for k in &probes {
                let h = BloomBuilder::get_hash(k);
                let _ = writeln!(out, "BC {} {}", h, u8::from(reader.contains_hash(h)));
            }
        } else {
            let _ = writeln!(out, "BLOOMERR");
        }
    }
    let _ = writeln!(out, "END");
    out
}
