// lsmv: drives the real lsm-tree crate (built from /repo's working tree) for the Coq
// correspondence checks.
//   lsmv gen <profile> <seed> <n_ops> [blob]            print a history
//   lsmv run <history> <workdir> [nodump]               run a history, print the trace
//   lsmv batch <profile> <seed0> <count> <n_ops> <outdir> <scratch> [blob]
//                                                       gen+run many; writes <seed>.hist/.trace

mod conc;
mod corrupt;
mod drive;
mod gen;
mod ops;
mod tbench;
mod util;

use std::path::{Path, PathBuf};

fn fresh_dir(base: &Path, name: &str) -> PathBuf {
    let p = base.join(name);
    let _ = std::fs::remove_dir_all(&p);
    std::fs::create_dir_all(&p).expect("mkdir");
    p
}

fn main() {
    // panics inside the crate are caught per history; keep the default hook quiet
    if std::env::var_os("LSMV_PANIC").is_none() {
        std::panic::set_hook(Box::new(|_| {}));
    }
    let args: Vec<String> = std::env::args().collect();
    match args.get(1).map(String::as_str) {
        Some("gen") => {
            let blob = args.get(5).is_some_and(|s| s == "blob");
            let h = gen::generate(
                &args[2],
                args[3].parse().expect("seed"),
                args[4].parse().expect("n_ops"),
                blob,
            );
            print!("{}", h.text());
        }
        Some("run") => {
            let text = std::fs::read_to_string(&args[2]).expect("history file");
            let h = ops::History::parse(&text);
            let dir = fresh_dir(Path::new(&args[3]), "db");
            let dump = args.get(4).map_or(true, |s| s != "nodump");
            let trace = run_guarded(&h, &dir, dump, &Path::new(&args[3]).join("trace.tmp"));
            print!("{trace}");
            let _ = std::fs::remove_dir_all(&dir);
        }
        Some("batch") => {
            let profile = &args[2];
            let seed0: u64 = args[3].parse().expect("seed0");
            let count: u64 = args[4].parse().expect("count");
            let n_ops: usize = args[5].parse().expect("n_ops");
            let outdir = PathBuf::from(&args[6]);
            let scratch = PathBuf::from(&args[7]);
            let blob = args.get(8).is_some_and(|s| s == "blob");
            std::fs::create_dir_all(&outdir).expect("outdir");
            for seed in seed0..seed0 + count {
                let h = gen::generate(profile, seed, n_ops, blob);
                let dir = fresh_dir(&scratch, &format!("db-{seed}"));
                let trace = run_guarded(&h, &dir, true, &scratch.join(format!("trace-{seed}.tmp")));
                std::fs::write(outdir.join(format!("{seed}.hist")), h.text()).expect("write");
                std::fs::write(outdir.join(format!("{seed}.trace")), trace).expect("write");
                let _ = std::fs::remove_dir_all(&dir);
            }
        }
        Some("multi") => {
            // a history that never terminates must fail this run, not stall the check
            // SAFETY: plain setrlimit/alarm
            unsafe {
                let cpu = libc::rlimit { rlim_cur: 150, rlim_max: 160 };
                libc::setrlimit(libc::RLIMIT_CPU, &cpu);
                libc::alarm(900);
            }
            // lsmv multi <history> <scratch> <outprefix> <k> <seed> <sep|shared>
            let text = std::fs::read_to_string(&args[2]).expect("history file");
            let h = ops::History::parse(&text);
            let base = fresh_dir(Path::new(&args[3]), "multi");
            let k: usize = args[5].parse().expect("k");
            let seed: u64 = args[6].parse().expect("seed");
            let shared = args[7] == "shared";
            let mut rng = util::Rng::new(seed ^ 0xC0F1);
            let mut cfgs = vec![h.cfg.clone()];
            if args[7] == "blobdiff" {
                // the same history on a key-value separated tree and on a standard tree
                cfgs[0].blob = true;
                let mut std_cfg = cfgs[0].clone();
                std_cfg.blob = false;
                cfgs.push(std_cfg);
                // further blob trees with other separation settings
                while cfgs.len() < k {
                    let mut c = cfgs[0].clone();
                    c.sep_threshold = *rng.pick(&[1u32, 4, 8, 16, 64]);
                    c.blob_target = *rng.pick(&[64u64, 256, 1 << 20]);
                    c.staleness = *rng.pick(&[0.0f32, 0.01, 0.25, 0.9]);
                    c.age_cutoff = *rng.pick(&[0.0f32, 0.5, 1.0]);
                    cfgs.push(c);
                }
            }
            while cfgs.len() < k {
                let mut c = gen::rand_cfg(&mut rng, h.cfg.blob);
                c.cfilter = h.cfg.cfilter;
                cfgs.push(c);
            }
            let cache_bytes = *rng.pick(&[0u64, 512, 4096, 1 << 20]);
            let dt_cap = *rng.pick(&[0usize, 1, 2, 64]);
            let traces = drive::run_multi(&h, &cfgs, &base, shared, cache_bytes, dt_cap);
            for (j, t) in traces.iter().enumerate() {
                std::fs::write(format!("{}.{j}.trace", args[4]), t).expect("write");
            }
            let _ = std::fs::remove_dir_all(&base);
        }
        Some("corrupt") => {
            // lsmv corrupt <seed> <scratch> <outfile> <std|blob> <sample|exhaustive> [samples]
            let seed: u64 = args[2].parse().expect("seed");
            let scratch = fresh_dir(Path::new(&args[3]), &format!("corrupt-{seed}"));
            let blob = args[5] == "blob";
            let exhaustive = args[6] == "exhaustive";
            let samples: u64 = args.get(7).map_or(12, |s| s.parse().expect("samples"));
            let text = corrupt::run(seed, &scratch, blob, exhaustive, samples);
            std::fs::write(&args[4], text).expect("write");
            let _ = std::fs::remove_dir_all(&scratch);
        }
        Some("runkeep") => {
            // lsmv runkeep <history> <dir> : run a history in <dir> (created fresh), print the
            // trace with dumps, keep the directory. With LSMV_MARK set, every operation is
            // bracketed by marker writes to stderr (for syscall traces).
            let text = std::fs::read_to_string(&args[2]).expect("history file");
            let h = ops::History::parse(&text);
            let dir = PathBuf::from(&args[3]);
            let _ = std::fs::remove_dir_all(&dir);
            std::fs::create_dir_all(&dir).expect("mkdir");
            let trace = drive::run_history_keep_opt(&h, &dir, true);
            print!("{trace}");
            println!("END");
        }
        Some("opendump") => {
            // lsmv opendump <dir> <cfg-line...> : open an EXISTING directory in place (recovery
            // runs on it), print `OPEN ok|err ...`, a full logical dump and the directory
            // listing after recovery cleanup, then read every key of the tables at SeqNo::MAX
            let dir = PathBuf::from(&args[2]);
            let cfg = ops::TreeCfg::parse(&args[3..].join(" "));
            let mut d = drive::Driver::new(&dir, cfg);
            let r = std::panic::catch_unwind(std::panic::AssertUnwindSafe(|| d.open()));
            match r {
                Ok(Ok(())) => {
                    println!("OPEN ok");
                    let r2 = std::panic::catch_unwind(std::panic::AssertUnwindSafe(|| {
                        d.dump();
                    }));
                    if r2.is_err() {
                        println!("DUMP panic");
                    }
                    print!("{}", d.out);
                    let _ = std::panic::catch_unwind(std::panic::AssertUnwindSafe(|| d.close()));
                }
                Ok(Err(e)) => println!("OPEN err {}", e.replace(' ', "_")),
                Err(_) => println!("OPEN panic"),
            }
            println!("END");
        }
        Some("conc") => {
            // lsmv conc <seed0> <count> <outdir> <scratch> <n_writes> <pub|pubj|vis> [blob]
            let seed0: u64 = args[2].parse().expect("seed0");
            let count: u64 = args[3].parse().expect("count");
            let outdir = PathBuf::from(&args[4]);
            let scratch = PathBuf::from(&args[5]);
            // a deadlock or livelock between the threads must fail the run, not stall the check
            // SAFETY: plain alarm
            unsafe {
                libc::alarm(120 + 30 * u32::try_from(count).unwrap_or(100));
            }
            let n_writes: usize = args[6].parse().expect("n_writes");
            let writer_published = args[7] == "pub" || args[7] == "pubj";
            let preempt_writer = args[7] == "pubj" || args[7] == "vis";
            let blob = args.get(8).is_some_and(|s| s == "blob");
            std::fs::create_dir_all(&outdir).expect("outdir");
            for seed in seed0..seed0 + count {
                // two runs out of three share ONE cpu between all their threads: the scheduler then
                // preempts threads inside the crate's critical sections far more often than on an
                // idle multi-core machine, which is where unprotected windows show
                // SAFETY: plain sched_setaffinity on this process
                unsafe {
                    let ncpu = libc::sysconf(libc::_SC_NPROCESSORS_ONLN).max(1) as usize;
                    let mut set: libc::cpu_set_t = std::mem::zeroed();
                    libc::CPU_ZERO(&mut set);
                    if seed % 3 == 0 {
                        for c in 0..ncpu {
                            libc::CPU_SET(c, &mut set);
                        }
                    } else {
                        libc::CPU_SET((seed as usize) % ncpu, &mut set);
                    }
                    libc::sched_setaffinity(0, std::mem::size_of::<libc::cpu_set_t>(), &set);
                }
                let dir = fresh_dir(&scratch, &format!("conc-{seed}"));
                // a panic that escapes the worker threads (e.g. a poisoned lock after a thread of
                // the crate panicked) is a result of this run, not a crash of the harness
                let trace = match std::panic::catch_unwind(std::panic::AssertUnwindSafe(|| {
                    conc::run(seed, &dir, blob, n_writes, writer_published, preempt_writer)
                })) {
                    Ok(t) => t,
                    Err(p) => {
                        let msg = p
                            .downcast_ref::<String>()
                            .cloned()
                            .or_else(|| p.downcast_ref::<&str>().map(|s| (*s).to_string()))
                            .unwrap_or_default();
                        format!(
                            "C -\nH concurrent-run seed={seed} writes=0\nPANIC 0 concurrent-run:{}\nEND\n",
                            msg.replace(['\n', ' '], "_")
                        )
                    }
                };
                std::fs::write(outdir.join(format!("{seed}.trace")), trace).expect("write");
                std::fs::write(outdir.join(format!("{seed}.hist")), format!("# concurrent run: lsmv conc {seed} 1 <outdir> <scratch> {n_writes} {}{}\n", args[7], if blob { " blob" } else { "" })).expect("write");
                let _ = std::fs::remove_dir_all(&dir);
            }
        }
        Some("tbench") => {
            let seed0: u64 = args[2].parse().expect("seed0");
            let count: u64 = args[3].parse().expect("count");
            let text = tbench::run(seed0, count);
            std::fs::write(&args[4], text).expect("write");
        }
        _ => {
            eprintln!("usage: lsmv gen|run|batch|tbench ...");
            std::process::exit(2);
        }
    }
}

/// Runs one history in a forked child with a CPU and a wall-clock limit: an operation of the
/// crate that never returns (e.g. an iterator that keeps retrying a failing block) must show up
/// as a failure of that history, not stall the whole check.
fn run_guarded(h: &ops::History, dir: &Path, dump: bool, tmp: &Path) -> String {
    let _ = std::fs::remove_file(tmp);
    if let Some(p) = tmp.parent() {
        let _ = std::fs::create_dir_all(p);
    }
    // SAFETY: plain fork/waitpid; this process is single-threaded at this point
    unsafe {
        let pid = libc::fork();
        if pid == 0 {
            let cpu = libc::rlimit { rlim_cur: 40, rlim_max: 50 };
            libc::setrlimit(libc::RLIMIT_CPU, &cpu);
            libc::alarm(600);
            let trace = drive::run_history(h, dir, dump);
            let _ = std::fs::write(tmp, trace);
            libc::_exit(0);
        }
        if pid > 0 {
            let mut status: libc::c_int = 0;
            libc::waitpid(pid, &mut status, 0);
            if libc::WIFSIGNALED(status) {
                let sig = libc::WTERMSIG(status);
                let what = if sig == libc::SIGXCPU || sig == libc::SIGALRM || sig == libc::SIGKILL {
                    format!("FATAL hang the history did not terminate within 40 s CPU / 600 s wall (signal {sig})")
                } else {
                    format!("FATAL abort the process running the history was killed by signal {sig}")
                };
                return format!("C {}\n{what}\nEND\n", h.cfg.text());
            }
            if let Ok(t) = std::fs::read_to_string(tmp) {
                let _ = std::fs::remove_file(tmp);
                return t;
            }
            return format!("C {}\nFATAL abort the child produced no trace\nEND\n", h.cfg.text());
        }
    }
    // fork failed: run in-process
    drive::run_history(h, dir, dump)
}

