// Small helpers: hex, deterministic PRNG (splitmix64), bound text form.

pub fn hex(b: &[u8]) -> String {
    if b.is_empty() {
        return "-".to_string();
    }
    let mut s = String::with_capacity(b.len() * 2);
    for x in b {
        s.push_str(&format!("{x:02x}"));
    }
    s
}

pub fn unhex(s: &str) -> Vec<u8> {
    if s == "-" {
        return vec![];
    }
    let bytes = s.as_bytes();
    assert!(bytes.len() % 2 == 0, "bad hex {s}");
    (0..bytes.len() / 2)
        .map(|i| u8::from_str_radix(&s[2 * i..2 * i + 2], 16).expect("hex"))
        .collect()
}

#[derive(Clone)]
pub struct Rng(pub u64);

impl Rng {
    pub fn new(seed: u64) -> Self {
        Rng(seed.wrapping_mul(0x9E37_79B9_7F4A_7C15) ^ 0xD1B5_4A32_D192_ED03)
    }
    pub fn next(&mut self) -> u64 {
        self.0 = self.0.wrapping_add(0x9E37_79B9_7F4A_7C15);
        let mut z = self.0;
        z = (z ^ (z >> 30)).wrapping_mul(0xBF58_476D_1CE4_E5B9);
        z = (z ^ (z >> 27)).wrapping_mul(0x94D0_49BB_1331_11EB);
        z ^ (z >> 31)
    }
    /// uniform in 0..n (n > 0)
    pub fn below(&mut self, n: u64) -> u64 {
        self.next() % n
    }
    pub fn range(&mut self, lo: u64, hi_incl: u64) -> u64 {
        lo + self.below(hi_incl - lo + 1)
    }
    pub fn chance(&mut self, num: u64, den: u64) -> bool {
        self.below(den) < num
    }
    pub fn pick<'a, T>(&mut self, v: &'a [T]) -> &'a T {
        &v[self.below(v.len() as u64) as usize]
    }
    /// weighted choice: returns index
    pub fn weighted(&mut self, w: &[u32]) -> usize {
        let total: u64 = w.iter().map(|x| u64::from(*x)).sum();
        let mut r = self.below(total.max(1));
        for (i, x) in w.iter().enumerate() {
            if r < u64::from(*x) {
                return i;
            }
            r -= u64::from(*x);
        }
        w.len() - 1
    }
}

#[derive(Clone, Debug, PartialEq, Eq)]
pub enum Bnd {
    Incl(Vec<u8>),
    Excl(Vec<u8>),
    Unb,
}

impl Bnd {
    pub fn text(&self) -> String {
        match self {
            Bnd::Incl(k) => format!("i:{}", hex(k)),
            Bnd::Excl(k) => format!("e:{}", hex(k)),
            Bnd::Unb => "u".to_string(),
        }
    }
    pub fn parse(s: &str) -> Bnd {
        if s == "u" {
            Bnd::Unb
        } else if let Some(r) = s.strip_prefix("i:") {
            Bnd::Incl(unhex(r))
        } else if let Some(r) = s.strip_prefix("e:") {
            Bnd::Excl(unhex(r))
        } else {
            panic!("bad bound {s}")
        }
    }
    pub fn to_std(&self) -> std::ops::Bound<Vec<u8>> {
        match self {
            Bnd::Incl(k) => std::ops::Bound::Included(k.clone()),
            Bnd::Excl(k) => std::ops::Bound::Excluded(k.clone()),
            Bnd::Unb => std::ops::Bound::Unbounded,
        }
    }
}
